--------------------------- MODULE MCRewritePlugin ---------------------------
(* X06 - bounded scenario universes for spec/RewritePlugin.tla (one .cfg per tier; `Subs` selects the sub-universes).
   Tokens are sequences of character codes (the definitions T_* below are generated, the comment shows the text).

     rules1    one Rewrite plugin (direct path) with every sequence of 1..2 different rules of RuleAlpha (both orders: rule
               order permutations, overlapping rules, a rule working on the text the previous one wrote) x single messages
     rules3    sequences of 3 different rules out of 12 (thorough)
     split     the same two rules as two Rewrite plugins in a row (factory path; chain order = configuration order), with a
               disabled / refused configuration in between
     pairs     streams of two messages (the plugin keeps no state from message to message); pairsL / pairs3 (thorough): all
               pairs of the full message alphabet, streams of three messages
     split3    three Rewrite plugins in a row (thorough)
     numeric   time stamp captures: boundary values of the number -> u32 conversion x current time stamp (0, u32::MAX, ..)
     factory   configuration lists of 1..2 (thorough: 3) entries of CfgAlpha through get_plugin
     direct    RewritePlugin::from_json on single configurations (names, enabled flags, malformed rule lists)
     enabled   enabled absent / true / false on the direct path (a disabled plugin stays in the chain and does nothing)  *)
EXTENDS RewritePlugin

T_bar                  == <<98, 97, 114>>                                                        \* bar
T_qux                  == <<113, 117, 120>>                                                      \* qux
T_zed                  == <<122, 101, 100>>                                                      \* zed
T_ts                   == <<116, 115>>                                                           \* ts
T_hello                == <<104, 101, 108, 108, 111>>                                            \* hello
T_World                == <<87, 111, 114, 108, 100>>                                             \* World
T_x                    == <<120>>                                                                \* x
T_zz                   == <<122, 122>>                                                           \* zz
T_a                    == <<97>>                                                                 \* a
T_b                    == <<98>>                                                                 \* b
T_orig                 == <<111, 114, 105, 103>>                                                 \* orig
T_Llargs               == <<91, 60, 97, 114, 103, 115>>                                          \* [<args
T_missinggR            == <<109, 105, 115, 115, 105, 110, 103, 62, 93>>                          \* missing>]
T_12p5                 == <<49, 50, 46, 53>>                                                     \* 12.5
T_0p5                  == <<48, 46, 53>>                                                         \* 0.5
T_7                    == <<55>>                                                                 \* 7
T_2                    == <<50>>                                                                 \* 2
T_3p25                 == <<51, 46, 50, 53>>                                                     \* 3.25
T_1                    == <<49>>                                                                 \* 1
T_abc                  == <<97, 98, 99>>                                                         \* abc
T_0                    == <<48>>                                                                 \* 0
T_0p0                  == <<48, 46, 48>>                                                         \* 0.0
T_0p00004              == <<48, 46, 48, 48, 48, 48, 52>>                                         \* 0.00004
T_0p00005              == <<48, 46, 48, 48, 48, 48, 53>>                                         \* 0.00005
T_0p00006              == <<48, 46, 48, 48, 48, 48, 54>>                                         \* 0.00006
T_1p00005              == <<49, 46, 48, 48, 48, 48, 53>>                                         \* 1.00005
T_0p12345              == <<48, 46, 49, 50, 51, 52, 53>>                                         \* 0.12345
T_12p345678            == <<49, 50, 46, 51, 52, 53, 54, 55, 56>>                                 \* 12.345678
T_429496p7295          == <<52, 50, 57, 52, 57, 54, 46, 55, 50, 57, 53>>                         \* 429496.7295
T_429496p72954         == <<52, 50, 57, 52, 57, 54, 46, 55, 50, 57, 53, 52>>                     \* 429496.72954
T_429496p72955         == <<52, 50, 57, 52, 57, 54, 46, 55, 50, 57, 53, 53>>                     \* 429496.72955
T_429496p7296          == <<52, 50, 57, 52, 57, 54, 46, 55, 50, 57, 54>>                         \* 429496.7296
T_429497               == <<52, 50, 57, 52, 57, 55>>                                             \* 429497
T_4294967295           == <<52, 50, 57, 52, 57, 54, 55, 50, 57, 53>>                             \* 4294967295
T_99999999999          == <<57, 57, 57, 57, 57, 57, 57, 57, 57, 57, 57>>                         \* 99999999999
T_m0p0                 == <<45, 48, 46, 48>>                                                     \* -0.0
T_m0p00004             == <<45, 48, 46, 48, 48, 48, 48, 52>>                                     \* -0.00004
T_m0p00005             == <<45, 48, 46, 48, 48, 48, 48, 53>>                                     \* -0.00005
T_m1                   == <<45, 49>>                                                             \* -1
T_m0p0001              == <<45, 48, 46, 48, 48, 48, 49>>                                         \* -0.0001
T_1e3                  == <<49, 101, 51>>                                                        \* 1e3
T_inf                  == <<105, 110, 102>>                                                      \* inf
T_nan                  == <<110, 97, 110>>                                                       \* nan
T_5p                   == <<53, 46>>                                                             \* 5.
T_p5                   == <<46, 53>>                                                             \* .5
T_q1p5                 == <<43, 49, 46, 53>>                                                     \* +1.5
T_00012p50             == <<48, 48, 48, 49, 50, 46, 53, 48>>                                     \* 00012.50
T_214748p3647          == <<50, 49, 52, 55, 52, 56, 46, 51, 54, 52, 55>>                         \* 214748.3647
T_214748p3648          == <<50, 49, 52, 55, 52, 56, 46, 51, 54, 52, 56>>                         \* 214748.3648
T_6p5535               == <<54, 46, 53, 53, 51, 53>>                                             \* 6.5535
T_6p5536               == <<54, 46, 53, 53, 51, 54>>                                             \* 6.5536
T_0x10                 == <<48, 120, 49, 48>>                                                    \* 0x10
T_1Em2                 == <<49, 69, 45, 50>>                                                     \* 1E-2
T_9p99995              == <<57, 46, 57, 57, 57, 57, 53>>                                         \* 9.99995
T_429496p72949         == <<52, 50, 57, 52, 57, 54, 46, 55, 50, 57, 52, 57>>                     \* 429496.72949
T_000429496p7295       == <<48, 48, 48, 52, 50, 57, 52, 57, 54, 46, 55, 50, 57, 53>>             \* 000429496.7295
T_1p5                  == <<49, 46, 53>>                                                         \* 1.5
T_0p9999               == <<48, 46, 57, 57, 57, 57>>                                             \* 0.9999
T_0p99995              == <<48, 46, 57, 57, 57, 57, 53>>                                         \* 0.99995
T_999999p9999          == <<57, 57, 57, 57, 57, 57, 46, 57, 57, 57, 57>>                         \* 999999.9999
T_1000000              == <<49, 48, 48, 48, 48, 48, 48>>                                         \* 1000000
T_0p1234500000         == <<48, 46, 49, 50, 51, 52, 53, 48, 48, 48, 48, 48>>                     \* 0.1234500000
T_m429496p7296         == <<45, 52, 50, 57, 52, 57, 54, 46, 55, 50, 57, 54>>                     \* -429496.7296
T_1p23456789012        == <<49, 46, 50, 51, 52, 53, 54, 55, 56, 57, 48, 49, 50>>                 \* 1.23456789012
T_xyz                  == <<120, 121, 122>>                                                      \* xyz
T_0p12344              == <<48, 46, 49, 50, 51, 52, 52>>                                         \* 0.12344
T_7p00009              == <<55, 46, 48, 48, 48, 48, 57>>                                         \* 7.00009

\* ---- constructors
Lit(w) == [k |-> "lit", w |-> w, g |-> ""]
Tok(g) == [k |-> "tok", w |-> <<>>, g |-> g]
Num(g) == [k |-> "num", w |-> <<>>, g |-> g]
Rest(g) == [k |-> "rest", w |-> <<>>, g |-> g]
Opt(g) == [k |-> "opt", w |-> <<>>, g |-> g]
Glued(g) == [k |-> "glued", w |-> <<>>, g |-> g]
Pat(as, ae, el) == [as |-> as, ae |-> ae, el |-> el]
Flt(en, not, ecu, apid, ctid, pk, pw) == [en |-> en, not |-> not, ecu |-> ecu, apid |-> apid, ctid |-> ctid, pk |-> pk, pw |-> pw]
MkRule(name, flt, pat) == [shape |-> "obj", nk |-> "str", name |-> name, fk |-> "obj", ftype |-> "absent", flt |-> flt, rk |-> "ok", pat |-> pat]
Cfg(name, en, rules) == [nk |-> "str", name |-> name, en |-> en, body |-> "rules", rules |-> rules]
Other(name, en, body) == [nk |-> "str", name |-> name, en |-> en, body |-> body, rules |-> <<>>]
Msg(ecu, hasext, apid, ctid, ts, pthas, pt, raw, form) ==
  [ecu |-> ecu, hasext |-> hasext, apid |-> apid, ctid |-> ctid, ts |-> ts, pthas |-> pthas, pt |-> pt, raw |-> raw, form |-> form]

\* ---- filters
F0 == Flt(TRUE, FALSE, "", "", "", "none", <<>>)             \* {}
FA == Flt(TRUE, FALSE, "", "SYS", "", "none", <<>>)          \* apid
FN == Flt(TRUE, TRUE, "", "SYS", "", "none", <<>>)           \* not apid
FD == Flt(FALSE, FALSE, "", "", "", "none", <<>>)            \* disabled filter
FP == Flt(TRUE, FALSE, "", "", "", "has", T_qux)             \* payload contains
FS == Flt(TRUE, FALSE, "", "", "", "first", T_bar)           \* payload starts with
FE == Flt(TRUE, FALSE, "E2", "", "", "none", <<>>)           \* ecu
FC == Flt(TRUE, FALSE, "", "SYS", "JOUR", "none", <<>>)      \* apid and ctid

\* ---- patterns
PA == Pat(TRUE, TRUE, <<Lit(T_bar), Tok("timeStamp"), Rest("text")>>)       \* ^bar (?<timeStamp>\S+) (?<text>.* )$
PB == Pat(FALSE, FALSE, <<Lit(T_bar), Tok("timeStamp"), Rest("text")>>)     \* unanchored
PC == Pat(TRUE, TRUE, <<Rest("text")>>)                                     \* ^(?<text>.* )$
PD == Pat(TRUE, TRUE, <<Lit(T_bar), Tok("timestamp"), Rest("text2")>>)      \* two groups with other names
PE == Pat(TRUE, FALSE, <<Lit(T_bar)>>)                                      \* no group
PF == Pat(TRUE, TRUE, <<Lit(T_bar), Opt("text"), Lit(T_qux)>>)              \* ^bar (?:(?<text>\S+) )?qux$
PG == Pat(FALSE, FALSE, <<Lit(T_qux), Tok("text")>>)                        \* qux (?<text>\S+)
PH == Pat(TRUE, TRUE, <<Num("timeStamp"), Rest("text")>>)                   \* ^(?<timeStamp>\d+\.\d+) (?<text>.* )$
PI == Pat(TRUE, TRUE, <<Lit(T_bar), Tok(""), Tok("text")>>)                 \* ^bar (\S+) (?<text>\S+)$
PJ == Pat(FALSE, TRUE, <<Tok("timeStamp")>>)                                \* (?<timeStamp>\S+)$
PK == Pat(TRUE, FALSE, <<Lit(T_bar), Opt("timeStamp"), Lit(T_qux)>>)        \* ^bar (?:(?<timeStamp>\S+) )?qux
PL == Pat(TRUE, TRUE, <<Tok("text"), Tok("timeStamp")>>)                    \* ^(?<text>\S+) (?<timeStamp>\S+)$
PM == Pat(TRUE, TRUE, <<Lit(T_bar), Glued("text")>>)                        \* ^bar(?<text>.* )$   (capture with its leading blank)
PN == Pat(FALSE, FALSE, <<Lit(T_qux), Tok(""), Glued("timeStamp")>>)        \* qux (\S+)(?<timeStamp>.* )

R(i) == CASE i = 1 -> MkRule("r1", F0, PA)   [] i = 2 -> MkRule("r2", FA, PA)   [] i = 3 -> MkRule("r3", FN, PB)
          [] i = 4 -> MkRule("r4", F0, PC)   [] i = 5 -> MkRule("r5", F0, PD)   [] i = 6 -> MkRule("r6", F0, PE)
          [] i = 7 -> MkRule("r7", F0, PF)   [] i = 8 -> MkRule("r8", F0, PG)   [] i = 9 -> MkRule("r9", F0, PH)
          [] i = 10 -> MkRule("r10", F0, PI) [] i = 11 -> MkRule("r11", F0, PJ) [] i = 12 -> MkRule("r12", FD, PA)
          [] i = 13 -> MkRule("r13", FP, PG) [] i = 14 -> MkRule("r14", FS, PJ) [] i = 15 -> MkRule("r15", FC, PB)
          [] i = 16 -> MkRule("r16", FE, PC) [] i = 17 -> MkRule("r17", F0, PK) [] i = 18 -> MkRule("r18", F0, PL)
          [] i = 19 -> MkRule("r19", F0, PM) [] i = 20 -> MkRule("r20", F0, PN)
NRules == 20
RuleSeqs(ids, n) == {s \in UNION {[1..j -> ids] : j \in 1..n} : \A a, b \in 1..Len(s) : a < b => s[a] # s[b]}
RulesOf(s) == [i \in 1..Len(s) |-> R(s[i])]
SmallIds == {1, 3, 4, 7, 8, 11, 13, 17, 19}

\* ---- messages
T77 == Ts(0, 77)
MsgAlpha(u) == {
  Msg("E1", TRUE, "SYS", "JOUR", T77, FALSE, <<>>, <<T_bar, T_12p5, T_hello, T_World>>, "args"),
  Msg("E1", TRUE, "APA", "CTA", T77, FALSE, <<>>, <<T_bar, T_12p5, T_hello, T_World>>, "one"),
  Msg("E2", FALSE, "", "", T77, TRUE, <<T_bar, T_3p25, T_qux>>, <<T_Llargs, T_missinggR>>, "noext"),
  Msg("E1", TRUE, "SYS", "JOUR", T77, TRUE, <<T_bar, T_qux>>, <<T_orig, T_x>>, "args"),
  Msg("E1", TRUE, "SYS", "CTA", T77, FALSE, <<>>, <<T_bar, T_x, T_qux>>, "args"),
  Msg("E1", TRUE, "SYS", "JOUR", T77, FALSE, <<>>, <<>>, "empty"),
  Msg("E2", TRUE, "SYS", "JOUR", T77, FALSE, <<>>, <<T_qux, T_bar, T_7, T_a>>, "args"),
  Msg("E1", TRUE, "APA", "JOUR", T77, FALSE, <<>>, <<T_0p5, T_bar, T_1, T_b>>, "args"),
  Msg("E2", TRUE, "SYS", "JOUR", T77, FALSE, <<>>, <<T_bar, T_0p00005, T_qux, T_bar, T_2, T_zz>>, "args"),
  Msg("E1", TRUE, "SYS", "JOUR", T77, FALSE, <<>>, <<T_bar, T_12p5>>, "one"),
  Msg("E1", TRUE, "SYS", "JOUR", T77, FALSE, <<>>, <<T_Llargs, T_missinggR>>, "nv"),
  Msg("E1", TRUE, "SYS", "JOUR", T77, TRUE, <<T_qux, T_hello>>, <<T_bar, T_7, T_World>>, "args"),
  Msg("E1", TRUE, "APA", "CTA", T77, FALSE, <<>>, <<T_bar, T_bar, T_qux>>, "args"),
  Msg("E1", TRUE, "SYS", "JOUR", MaxTs, FALSE, <<>>, <<T_bar, T_abc, T_x>>, "args"),
  Msg("E2", TRUE, "APA", "JOUR", T77, FALSE, <<>>, <<T_bar, T_qux>>, "one")}
MsgAlphaS(u) == {
  Msg("E1", TRUE, "SYS", "JOUR", T77, FALSE, <<>>, <<T_bar, T_12p5, T_hello, T_World>>, "args"),
  Msg("E1", TRUE, "APA", "CTA", Ts(1, 0), FALSE, <<>>, <<T_bar, T_3p25, T_qux>>, "one"),
  Msg("E1", TRUE, "SYS", "JOUR", T77, TRUE, <<T_bar, T_qux>>, <<T_orig, T_x>>, "args"),
  Msg("E1", TRUE, "SYS", "JOUR", T77, FALSE, <<>>, <<>>, "empty"),
  Msg("E2", TRUE, "SYS", "JOUR", Ts(2, 5), FALSE, <<>>, <<T_qux, T_bar, T_7, T_a>>, "args"),
  Msg("E2", FALSE, "", "", T77, TRUE, <<T_bar, T_0p5, T_zz>>, <<T_Llargs, T_missinggR>>, "noext")}
Probe(u) == {<<Msg("E1", TRUE, "SYS", "JOUR", T77, FALSE, <<>>, <<T_bar, T_12p5, T_hello, T_World>>, "args")>>}

\* ---- numeric
NumToks(u) == {T_0, T_0p0, T_0p00004, T_0p00005, T_0p00006, T_1p00005, T_0p12345, T_12p345678,
            T_429496p7295, T_429496p72954, T_429496p72955, T_429496p7296, T_429497, T_4294967295, T_99999999999, T_m0p0,
            T_m0p00004, T_m0p00005, T_m1, T_m0p0001, T_1e3, T_inf, T_nan, T_abc,
            T_5p, T_p5, T_q1p5, T_00012p50, T_214748p3647, T_214748p3648, T_6p5535, T_6p5536,
            T_0x10, T_1Em2, T_9p99995, T_429496p72949, T_000429496p7295, T_1p5, T_0p9999, T_0p99995,
            T_999999p9999, T_1000000, T_0p1234500000, T_m429496p7296, T_1p23456789012, T_xyz, T_0p12344, T_7p00009}
NumToksQ(u) == {T_0, T_0p00004, T_0p00005, T_0p00006, T_12p345678, T_429496p7295, T_429496p72954, T_429496p72955,
              T_429496p7296, T_429497, T_99999999999, T_m0p0, T_m0p00005, T_m1, T_1e3, T_inf,
              T_nan, T_abc, T_5p, T_p5, T_q1p5, T_00012p50, T_214748p3647, T_214748p3648,
              T_6p5535, T_6p5536, T_0x10, T_9p99995, T_1000000, T_0p1234500000, T_1p23456789012, T_0p12344,
              T_7p00009, T_m0p00004}
NumRules(u) == {<<MkRule("n1", F0, Pat(TRUE, TRUE, <<Lit(T_ts), Tok("timeStamp")>>))>>,
                <<MkRule("n2", F0, Pat(TRUE, TRUE, <<Lit(T_ts), Num("timeStamp")>>))>>,
                <<MkRule("n3", F0, Pat(FALSE, FALSE, <<Lit(T_ts), Rest("timeStamp")>>))>>}
CurTs == {ZeroTs, T77, MaxTs, Ts(214748, 3648)}
NumMsgs(toks, curs) == {<<Msg("E1", TRUE, "SYS", "JOUR", c, FALSE, <<>>, <<T_ts, t>>, "args")>> : t \in toks, c \in curs}
                       \cup {<<Msg("E1", TRUE, "SYS", "JOUR", c, FALSE, <<>>, <<T_ts, T_1p5, T_2>>, "args")>> : c \in curs}

\* ---- configurations
BadRule(f, v) == [MkRule("bad", F0, PE) EXCEPT ![f] = v]
RewriteCfgs(u) == {
  Cfg("Rewrite", "absent", <<R(1)>>), Cfg("Rewrite", "true", <<R(8)>>), Cfg("Rewrite", "false", <<R(1)>>),
  Cfg("Rewrite", "null", <<R(1)>>), Cfg("Rewrite", "str", <<R(1)>>), Cfg("Rewrite", "num", <<R(1)>>),
  [Cfg("Rewrite", "absent", <<>>) EXCEPT !.body = "norewrites"], [Cfg("Rewrite", "absent", <<>>) EXCEPT !.body = "rewritesobj"],
  Cfg("Rewrite", "absent", <<>>),
  Cfg("Rewrite", "absent", <<R(1), BadRule("rk", "invalid")>>), Cfg("Rewrite", "absent", <<BadRule("shape", "num"), R(1)>>),
  Cfg("Rewrite", "absent", <<BadRule("nk", "absent")>>), Cfg("Rewrite", "absent", <<BadRule("nk", "num")>>),
  Cfg("Rewrite", "absent", <<BadRule("fk", "absent")>>), Cfg("Rewrite", "absent", <<BadRule("fk", "str")>>),
  Cfg("Rewrite", "absent", <<BadRule("fk", "arr")>>), Cfg("Rewrite", "absent", <<BadRule("ftype", "4")>>),
  Cfg("Rewrite", "absent", <<BadRule("ftype", "str")>>), Cfg("Rewrite", "absent", <<BadRule("rk", "absent")>>),
  Cfg("Rewrite", "absent", <<BadRule("rk", "num")>>),
  Cfg("Rewrite", "absent", <<[R(1) EXCEPT !.ftype = "3"], [R(4) EXCEPT !.ftype = "1"]>>),
  Cfg("Rewrite", "absent", <<[R(7) EXCEPT !.ftype = "2"], [R(8) EXCEPT !.ftype = "0"]>>)}
NameCfgs(u) == {
  Cfg("rewrite", "absent", <<R(1)>>), Cfg("REWRITE", "absent", <<R(1)>>), Cfg("Unknown", "absent", <<R(1)>>), Cfg("", "absent", <<R(1)>>),
  [Cfg("", "absent", <<R(1)>>) EXCEPT !.nk = "absent"], [Cfg("", "absent", <<R(1)>>) EXCEPT !.nk = "num"],
  [Cfg("", "absent", <<R(1)>>) EXCEPT !.nk = "null"]}
OtherNames == {"SomeIp", "NonVerbose", "CAN", "FileTransfer", "Muniic", "Export"}
OtherCfgs(u) == {Other(n, "absent", b) : n \in OtherNames, b \in {"ok", "missing", "badtype"}}
                \cup {Other(n, "false", "ok") : n \in OtherNames} \cup {Other("FileTransfer", e, "ok") : e \in {"true", "null", "str"}}
                \cup {Other("Can", "absent", "ok"), Other("someip", "absent", "ok"), Other("Anonymize", "absent", "ok")}
CfgAlpha(u) == RewriteCfgs(u) \cup NameCfgs(u) \cup OtherCfgs(u)
CfgAlphaS(u) == {Cfg("Rewrite", "absent", <<R(1)>>), Cfg("Rewrite", "true", <<R(8)>>), Cfg("Rewrite", "false", <<R(4)>>),
                 Cfg("Rewrite", "null", <<R(4)>>), Cfg("Rewrite", "absent", <<R(1), BadRule("rk", "invalid")>>),
                 Cfg("Rewrite", "absent", <<>>), Cfg("rewrite", "absent", <<R(4)>>), [Cfg("", "absent", <<R(4)>>) EXCEPT !.nk = "absent"],
                 Other("FileTransfer", "absent", "ok"), Other("FileTransfer", "absent", "badtype"), Other("Export", "absent", "ok"),
                 Other("SomeIp", "absent", "missing"), Other("Muniic", "false", "ok"), Other("Unknown", "absent", "ok")}
Lists(A, lo, hi) == UNION {[1..j -> A] : j \in lo..hi}
\* direct path: the same Rewrite configurations under any name
DirectCfgs(u) == RewriteCfgs(u) \cup NameCfgs(u)

\* ---- the sub-universes
MCPaths(u) == CASE u \in {"split", "split3", "factory", "factory3"} -> {"factory"}
                [] u = "numeric" -> {"direct", "factory"}
                [] OTHER -> {"direct"}
MCCfgLists(u) ==
  CASE u = "rules1" -> {<<Cfg("Rewrite", "absent", RulesOf(s))>> : s \in RuleSeqs(1..NRules, 2)}
    [] u = "rules3" -> {<<Cfg("Rewrite", "absent", RulesOf(s))>> : s \in {x \in RuleSeqs(SmallIds \cup {2, 9, 10, 18}, 3) : Len(x) = 3}}
    [] u = "split3" -> {<<Cfg("Rewrite", "absent", <<R(s[1])>>), Cfg("Rewrite", "true", <<R(s[2])>>), Cfg("Rewrite", "absent", <<R(s[3])>>)>> :
                          s \in {x \in RuleSeqs(SmallIds, 3) : Len(x) = 3}}
    [] u = "split" -> {<<Cfg("Rewrite", "absent", <<R(s[1])>>), Cfg("Rewrite", "true", <<R(s[2])>>)>> : s \in {x \in RuleSeqs(SmallIds, 2) : Len(x) = 2}}
                      \cup {<<Cfg("Rewrite", "absent", <<R(s[1])>>), mid, Cfg("Rewrite", "absent", <<R(s[2])>>)>> :
                              s \in {<<1, 8>>, <<8, 1>>, <<4, 7>>, <<7, 4>>, <<1, 4>>, <<13, 1>>},
                              mid \in {Cfg("Rewrite", "false", <<R(4)>>), Cfg("Rewrite", "absent", <<R(4), BadRule("rk", "invalid")>>),
                                       Cfg("rewrite", "absent", <<R(4)>>), Other("FileTransfer", "absent", "ok")}}
    [] u \in {"pairs", "pairsL", "pairs3"} -> {<<Cfg("Rewrite", "absent", RulesOf(s))>> : s \in RuleSeqs(1..NRules, 1) \cup {<<1, 8>>, <<8, 1>>, <<4, 7>>, <<7, 4>>, <<3, 13>>, <<11, 1>>}}
    [] u = "numeric" -> {<<Cfg("Rewrite", "absent", rs)>> : rs \in NumRules(u)}
    [] u = "numericq" -> {<<Cfg("Rewrite", "absent", rs)>> : rs \in NumRules(u)}
    [] u = "factory" -> Lists(CfgAlpha(u), 1, 1) \cup Lists(CfgAlphaS(u), 2, 2)
    [] u = "factory3" -> Lists(CfgAlpha(u), 2, 2) \cup Lists(CfgAlphaS(u), 3, 3)
    [] u = "direct" -> Lists(DirectCfgs(u), 1, 1)
    [] u = "enabled" -> {<<Cfg(n, e, RulesOf(s))>> : n \in {"Rewrite", "foo"}, e \in {"absent", "true", "false"}, s \in RuleSeqs(SmallIds, 1)}
MCStreams(u) ==
  CASE u \in {"rules1", "rules3", "split"} -> Lists(MsgAlpha(u), 1, 1)
    [] u = "pairs" -> Lists(MsgAlphaS(u), 2, 2)
    [] u = "pairsL" -> Lists(MsgAlpha(u), 2, 2)
    [] u = "pairs3" -> Lists(MsgAlphaS(u), 3, 3)
    [] u = "split3" -> Lists(MsgAlphaS(u), 1, 1)
    [] u = "numeric" -> NumMsgs(NumToks(u), CurTs)
    [] u = "numericq" -> NumMsgs(NumToksQ(u), {T77, MaxTs})
    [] u = "enabled" -> Lists(MsgAlphaS(u), 1, 1)
    [] OTHER -> Probe(u)
=============================================================================
