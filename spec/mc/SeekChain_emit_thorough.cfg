SPECIFICATION Spec
CONSTANTS
  MaxVol = 4
  MinSize = 0
  MaxSize = 3
  Emit = TRUE
  Fixed = TRUE
VIEW View
INVARIANTS OkOrKF PosAgree
CHECK_DEADLOCK FALSE
