SPECIFICATION Spec
CHECK_DEADLOCK FALSE
CONSTANTS
  MaxL = 3
  N = 8
  LM = 6
INVARIANTS ChunkIndependent NoKF
