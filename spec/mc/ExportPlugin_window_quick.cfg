SPECIFICATION Spec
CONSTANTS
  LcAlphabet <- LcAlpha_filters
  MaxLcs = 2
  MaxMsgs = 2
  Apids <- TwoApids
  LciChoices <- LciChoices_window
  FilterChoices <- FilterChoices_window
  WindowChoices <- WindowChoices_window
  EnabledChoices <- BOOLEAN
  InfoChoices <- InfoChoices_window
INVARIANTS TypeOK PropertyHolds EmitScn
CHECK_DEADLOCK FALSE
