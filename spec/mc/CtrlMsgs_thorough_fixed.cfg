SPECIFICATION Spec
CONSTANTS
  Tier = "thorough"
  Fixed = TRUE
  Emit = FALSE
INVARIANT AllInOne
CHECK_DEADLOCK FALSE
