SPECIFICATION Spec
CONSTANTS
  Mode = "shape"
INVARIANTS EmitScn
CHECK_DEADLOCK FALSE
