SPECIFICATION Spec
CONSTANTS
  Ecus = {1, 2, 3}
  Apids = {1, 2, 3}
  Ctids = {1, 2}
  Cap = 2
  MaxMsgs = 4
INVARIANTS ContractHolds TablesOK
CHECK_DEADLOCK FALSE
