SPECIFICATION Spec
CONSTANTS
  Ecus = {1, 2, 3, 4}
  Apids = {1, 2, 3, 4}
  Ctids = {1, 2}
  Base = 3
  Digits = 1
  MaxMsgs = 4
INVARIANTS ContractHolds TablesOK
CHECK_DEADLOCK FALSE
