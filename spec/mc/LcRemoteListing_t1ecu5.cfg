\* thorough tier: one ECU, 5 messages; reception steps 0 / 1 / 11 s, timestamps 0 / 11 / 12 / 30 s (12: one second across the origin's estimate)
\* (the check derives the variant for the code as it is - ChainKey = FALSE, AsIsOnlyKf instead of ChainStrict ResumedAfterOrigin - from this
\*  file while the known finding KF_C07_ResumeChainKey is open)
SPECIFICATION Spec
CONSTANTS
  Ecus = {"A"}
  MaxMsgs = 5
  RxDeltas = {0, 1, 11}
  TsVals = {0, 11, 12, 30}
  Kinds = {"norm"}
  IdxDeltas = {1}
  FixMerged = TRUE
  ChainKey = TRUE
INVARIANTS Emit ListingExists KeyIsStartIfNoResume ChainStrict ResumedAfterOrigin NoResumeByStart OriginStable CtrlOnlyNeverResume
CHECK_DEADLOCK FALSE
