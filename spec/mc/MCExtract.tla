----------------------------- MODULE MCExtract -----------------------------
(* TLC-only helpers for Extract.tla: name universes (a .cfg cannot hold sequences) *)
EXTENDS Extract

\* prefixes of 0..2 components; the root marker and ".." may only lead, "" only follows
Pre1 == {<<"d">>, <<"..">>, <<".">>, <<"/">>}
Pre2 == {<<a, b>> : a \in {"d", "..", ".", "/"}, b \in {"d", "..", ".", ""}}
PrefixesFull == {<<>>} \cup Pre1 \cup Pre2
PrefixesSmall == {<<>>, <<"d">>, <<"..">>, <<"/">>, <<"d", "..">>, <<"d", "">>, <<".">>, <<"d", "..", "..">>}

NamesOf(P, F) == {p \o <<f>> : p \in P, f \in F}
\* medium: every prefix shape x two file names, plus the names with glob characters at two places
NamesMedium == NamesOf(PrefixesFull, {"a.dlt", "b.txt"}) \cup NamesOf({<<>>, <<"d">>}, {"c1.dlt", "c[1].dlt"})
\* thorough, 2 members: every prefix shape x every file name
NamesFull == NamesOf(PrefixesFull, FileTokens)
\* quick (2 members) and thorough (3 members): reduced prefix set
NamesSmall == NamesOf(PrefixesSmall, {"a.dlt", "b.txt"}) \cup {<<"c1.dlt">>, <<"c[1].dlt">>}
\* request histories: plain, nested, glob-character, climbing and absolute names (2 members: pairs; thorough: triples / 3 members)
NamesHist == {<<"a.dlt">>, <<"b.txt">>, <<"d", "a.dlt">>, <<"d", "b.txt">>, <<"e", "a.dlt">>, <<"c1.dlt">>, <<"c[1].dlt">>,
              <<"..", "a.dlt">>, <<"/", "a.dlt">>}
\* aliasing: names that denote the same target path through ".", "" and "d/.." components
NamesAlias == {<<"a.dlt">>, <<".", "a.dlt">>, <<"d", "..", "a.dlt">>, <<"d", "a.dlt">>, <<"d", ".", "a.dlt">>, <<"d", "", "a.dlt">>, <<"b.txt">>}
HistClasses == {"all", "ext", "dirp", "exact"}
DirsQuick == {<<"d">>, <<"..", "e">>}
AllClasses == {"all", "ext", "dirp", "exact", "nofilter"}
=============================================================================
