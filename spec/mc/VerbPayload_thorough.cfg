SPECIFICATION Spec
CONSTANTS
  Alpha2 <- AlphaFull
  Alpha3 <- AlphaFull
  AlphaC <- AlphaMid
  MaxC = 2
  ShapeAlpha3 <- AlphaShape
INVARIANTS SlicesInBounds OnGrid PrefixAlways ExactPrefix RoundTrip ClosedForm CorruptPrefix ShapesConform EmitScn
PROPERTY Terminates
CHECK_DEADLOCK FALSE
