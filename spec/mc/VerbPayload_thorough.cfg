SPECIFICATION Spec
CONSTANTS
  Alpha2 <- AlphaFull
  Alpha3 <- AlphaFull
  AlphaC <- AlphaMid
  MaxC = 2
INVARIANTS SlicesInBounds OnGrid PrefixAlways ExactPrefix RoundTrip ClosedForm CorruptPrefix EmitScn
PROPERTY Terminates
CHECK_DEADLOCK FALSE
