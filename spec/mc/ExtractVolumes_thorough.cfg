SPECIFICATION Spec
CONSTANTS
  MaxVol = 4
  MaxDecoy = 3
  Decoys <- DecoysAll
  Emit = TRUE
INVARIANTS ContainsOpened OnlyOwnArchive Ordered AllOfIt EmitScn
CHECK_DEADLOCK FALSE
