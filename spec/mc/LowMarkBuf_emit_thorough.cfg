SPECIFICATION Spec
CHECK_DEADLOCK FALSE
CONSTANTS
  CL = 2
  LMs = {1, 2, 3}
  Extra = {0, 1}
  SrcLens = {3, 7, 9}
  MaxOps = 5
  ConsumeNs = {1, 2, 3}
  ReadNs = {2}
  SeekOn = FALSE
  TrackHist = TRUE
  FixSeekGap = TRUE
  KFSeekGap = FALSE
INVARIANTS Window Bounds NoEarlyEof LowMarkKept EmptyOnlyAtEnd SeekContent TaintOnlyBySeekGap Emit
