SPECIFICATION Spec
CONSTANTS
  Kind = "asc"
  Tier = "tiny"
  Cases <- MCCases
  FixTrail = FALSE
  FixUpper = FALSE
  FixPrevYear = FALSE
  Emit = FALSE
INVARIANTS ConformsKF StrictUnlessTouched Monotone
PROPERTIES Terminates
CHECK_DEADLOCK FALSE
