SPECIFICATION Spec
CONSTANTS
  MaxVol = 3
  MinSize = 0
  MaxSize = 3
  Emit = TRUE
  Fixed = FALSE
VIEW View
INVARIANTS OkOrKF PosAgree
CHECK_DEADLOCK FALSE
