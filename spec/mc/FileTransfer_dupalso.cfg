SPECIFICATION Spec
CONSTANTS
  NT = 1
  MaxPk = 4
  BufSizes = {1, 3}
  MaxNoise = 0
  MaxFaults = 1
  Emit = FALSE
  FixDup = FALSE
  AutoSave = FALSE
  MaxEnv = 0
  Names = FALSE
  RoundRobin = FALSE
  FullLast = FALSE
  DupAlso = TRUE
INVARIANTS Safe SafeWire
CHECK_DEADLOCK FALSE
