SPECIFICATION SSpec
CONSTANTS
  Ecus = {"A", "B", "C"}
  MaxMsgs = 0
  RxDeltas = {}
  TsVals = {}
  Kinds = {}
  IdxDeltas = {}
  FixMerged = TRUE

INVARIANTS EmitS NoPanic C05 C05Safe C06 C07
CHECK_DEADLOCK FALSE
