SPECIFICATION Spec
CHECK_DEADLOCK FALSE
CONSTANTS
  NT = 5
  Rule = "ge"
INVARIANTS LatchedIndep PrefixesFound PrefixIndep Emit
