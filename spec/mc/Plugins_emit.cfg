SPECIFICATION Spec
CONSTANTS
  MaxChain = 4
  MaxIn = 0
INVARIANTS EmitChains
CHECK_DEADLOCK FALSE
