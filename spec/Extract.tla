------------------------------ MODULE Extract ------------------------------
(* C20, part 2 - enumeration of archives x patterns and sanity of the specified result (design = contract).

   Init chooses an archive (a sequence of 1..MaxMembers members over the name universe `Names`, directory
   members over `DirNames`) and a HISTORY of MinReq..MaxReq requests (patterns) issued one after the other against
   that archive - the real API keeps one temp dir per archive and reuses it for later requests, so a later request
   finds the files of earlier ones (overlapping, nested, identical and disjoint patterns all occur in the
   enumeration).  There are no transitions.  TLC checks on every archive x request
   that the specified result (ExtractDefs!Expected) is confined: every target is a non-empty path of plain
   names (so tempdir/target lies inside the temp dir), members that are absolute or climb above the root are
   never part of it, targets are pairwise distinct - and prints one scenario line per archive x pattern.

   Driver domain (narrower reading, see checks/c20.py): no two members of an archive have the same raw name (the zip
   writer refuses duplicates).  With AllowAlias members may denote the same target path (a.dlt and ./a.dlt): which
   member's content survives is not fixed by the statement - the contract accepts the bytes of ANY ONE member that
   denotes the path and was requested so far, never a mixture.                                      *)
EXTENDS ExtractDefs, TLC, Json

CONSTANTS Names,        \* set of file member names (component sequences)
          DirNames,     \* set of directory member names
          MaxMembers,
          GlobClasses,  \* subset of {"all","ext","dirp","exact","nofilter"}
          MinReq, MaxReq,   \* length of the request history; a history is either all "nofilter" (extract_to_dir without filter into
                            \* ONE directory; request j extracts version j of the archive: same names, other contents) or has none
          AllowAlias,       \* TRUE: members may denote the same target path through "." / "" / "d/.." components (a.dlt, ./a.dlt)
          Emit

VARIABLES ms, gs, junk      \* junk: the target paths of a nofilter history hold LONGER files before the first extraction
vars == <<ms, gs, junk>>

FileMembers == {[name |-> n, dir |-> FALSE, pre |-> p] : n \in Names, p \in BOOLEAN}
DirMembers == {[name |-> n, dir |-> TRUE, pre |-> FALSE] : n \in DirNames}
\* `pre` only distinguishes names that are not enclosed
Members == {m \in FileMembers \cup DirMembers : m.pre => ~Enclosed(m.name)}

NoAlias(a) == \A i, j \in 1..Len(a) : i < j =>
                 /\ ~(a[i].name = a[j].name /\ a[i].dir = a[j].dir)
                 /\ (AllowAlias \/ ~(~a[i].dir /\ ~a[j].dir /\ Enclosed(a[i].name) /\ Enclosed(a[j].name) /\ Norm(a[i].name) = Norm(a[j].name)))
                 \* raw names that resolve (lexically) to the same place also share the pre-existing file
                 /\ ~(~Enclosed(a[i].name) /\ ~Enclosed(a[j].name) /\ a[i].name # a[j].name /\ Norm(a[i].name) = Norm(a[j].name)
                      /\ (a[i].name[1] = "/") = (a[j].name[1] = "/"))
Archives == {a \in UNION {[1..k -> Members] : k \in 1..MaxMembers} : NoAlias(a)}
Globs(a) == {[cls |-> c, k |-> 0] : c \in GlobClasses \ {"exact"}}
            \cup (IF "exact" \in GlobClasses THEN {[cls |-> "exact", k |-> k] : k \in {i \in 1..Len(a) : ~a[i].dir}} ELSE {})

Histories(a) == {h \in UNION {[1..k -> Globs(a)] : k \in MinReq..MaxReq} :
                    (\A j \in 1..Len(h) : h[j].cls # "nofilter") \/ (\A j \in 1..Len(h) : h[j].cls = "nofilter")}
Init == /\ ms \in Archives
        /\ gs \in Histories(ms)
        /\ junk \in (IF gs[1].cls = "nofilter" THEN BOOLEAN ELSE {FALSE})
Next == UNCHANGED vars
Spec == Init /\ [][Next]_vars

\* ---- sanity of the specified result
\* everything that has to be in the temp dir after request j: the union over the requests so far
ExpectedUpTo(j) == UNION {Expected(gs[q], ms) : q \in 1..j}
Confined == \A i \in ExpectedUpTo(Len(gs)) : Plain(Target(ms, i)) /\ Last(Target(ms, i)) \in FileTokens
NeverHostile == \A i \in 1..Len(ms) : (ms[i].name[1] = "/" \/ ms[i].name[1] = "..") => i \notin ExpectedUpTo(Len(gs))
DistinctTargets == AllowAlias \/ \A i, j \in ExpectedUpTo(Len(gs)) : i # j => Target(ms, i) # Target(ms, j)
Aliased == \E i, j \in 1..Len(ms) : i # j /\ ~ms[i].dir /\ ~ms[j].dir /\ Enclosed(ms[i].name) /\ Enclosed(ms[j].name)
                                      /\ Target(ms, i) = Target(ms, j)
ExactMatchesItself == \A q \in 1..Len(gs) : gs[q].cls = "exact" => Matches(gs[q], ms, gs[q].k)

EmitScn == Emit => PrintT(<<"SCN", ToJson([members |-> ms, globs |-> gs, junk |-> junk, aliased |-> Aliased,
                                            targets |-> [i \in 1..Len(ms) |-> IF ~ms[i].dir /\ Enclosed(ms[i].name) THEN Target(ms, i) ELSE <<>>],
                                            expected |-> [q \in 1..Len(gs) |-> [i \in 1..Len(ms) |-> i \in Expected(gs[q], ms)]]])>>)
=============================================================================
