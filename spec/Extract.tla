------------------------------ MODULE Extract ------------------------------
(* C20, part 2 - enumeration of archives x patterns and sanity of the specified result (design = contract).

   Init chooses an archive (a sequence of 1..MaxMembers members over the name universe `Names`, directory
   members over `DirNames`) and a pattern; there are no transitions.  TLC checks on every archive x pattern
   that the specified result (ExtractDefs!Expected) is confined: every target is a non-empty path of plain
   names (so tempdir/target lies inside the temp dir), members that are absolute or climb above the root are
   never part of it, targets are pairwise distinct - and prints one scenario line per archive x pattern.

   Driver domain (narrower reading, see checks/c20.py): no two members of an archive denote the same raw name
   (the zip writer refuses duplicates) or the same target path (aliases like a.dlt and ./a.dlt would overwrite
   each other - which content survives is not fixed by the statement).                                      *)
EXTENDS ExtractDefs, TLC, Json

CONSTANTS Names,        \* set of file member names (component sequences)
          DirNames,     \* set of directory member names
          MaxMembers,
          GlobClasses,  \* subset of {"all","ext","dirp","exact","nofilter"}
          Emit

VARIABLES ms, g
vars == <<ms, g>>

FileMembers == {[name |-> n, dir |-> FALSE, pre |-> p] : n \in Names, p \in BOOLEAN}
DirMembers == {[name |-> n, dir |-> TRUE, pre |-> FALSE] : n \in DirNames}
\* `pre` only distinguishes names that are not enclosed
Members == {m \in FileMembers \cup DirMembers : m.pre => ~Enclosed(m.name)}

NoAlias(a) == \A i, j \in 1..Len(a) : i < j =>
                 /\ ~(a[i].name = a[j].name /\ a[i].dir = a[j].dir)
                 /\ ~(~a[i].dir /\ ~a[j].dir /\ Enclosed(a[i].name) /\ Enclosed(a[j].name) /\ Norm(a[i].name) = Norm(a[j].name))
                 \* raw names that resolve (lexically) to the same place also share the pre-existing file
                 /\ ~(~Enclosed(a[i].name) /\ ~Enclosed(a[j].name) /\ a[i].name # a[j].name /\ Norm(a[i].name) = Norm(a[j].name)
                      /\ (a[i].name[1] = "/") = (a[j].name[1] = "/"))
Archives == {a \in UNION {[1..k -> Members] : k \in 1..MaxMembers} : NoAlias(a)}
Globs(a) == {[cls |-> c, k |-> 0] : c \in GlobClasses \ {"exact"}}
            \cup (IF "exact" \in GlobClasses THEN {[cls |-> "exact", k |-> k] : k \in {i \in 1..Len(a) : ~a[i].dir}} ELSE {})

Init == /\ ms \in Archives
        /\ g \in Globs(ms)
Next == UNCHANGED vars
Spec == Init /\ [][Next]_vars

\* ---- sanity of the specified result
Confined == \A i \in Expected(g, ms) : Plain(Target(ms, i)) /\ Last(Target(ms, i)) \in FileTokens
NeverHostile == \A i \in 1..Len(ms) : (ms[i].name[1] = "/" \/ ms[i].name[1] = "..") => i \notin Expected(g, ms)
DistinctTargets == \A i, j \in Expected(g, ms) : i # j => Target(ms, i) # Target(ms, j)
ExactMatchesItself == g.cls = "exact" => Matches(g, ms, g.k)

EmitScn == Emit => PrintT(<<"SCN", ToJson([members |-> ms, glob |-> g,
                                            expected |-> [i \in 1..Len(ms) |-> i \in Expected(g, ms)],
                                            targets |-> [i \in 1..Len(ms) |-> IF i \in Expected(g, ms) THEN Target(ms, i) ELSE <<>>]])>>)
=============================================================================
