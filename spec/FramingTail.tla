----------------------------- MODULE FramingTail -----------------------------
(* C04 (prefix clause) / C01 - what a DltMessageIterator recognises in the TAIL of a stream must not depend on how many complete
   messages precede it.  Exact 4-byte-token model of src/utils/dltmessageiterator.rs over parse_dlt_with_storage_header /
   parse_dlt_with_serial_header for streams whose standard headers carry no optional field (htyp = 0x20):

     token   bytes                     meaning when read as a standard header
     S       "DLT\x01"                 htyp 'D' (WEID), len 0x5401 = 21505  -> storage: NotEnoughData, serial: InvalidData
     R       "DLS\x01"                 len 0x5301                           -> same
     Z       20 mc 00 00               len 0 < 4                            -> InvalidData ("stdh.len too small")
     Hn      20 mc 00 (4+4n)           header + n payload tokens            (n = 0..2)
   storage message = <<S, a, b, c, Hn, p1..pn>>  (16-byte storage header = 4 tokens; MinStorage = 5 tokens = 20 bytes)
   serial  message = <<R, Hn, p1..pn>>           (MinSerial = 2 tokens = 8 bytes)
   Every token is ALSO just data: a tail is ANY token sequence - truncated messages, messages of either framing embedded
   in the bytes of a truncated message or of garbage, bare markers ... TLC enumerates all of them up to NT tokens.

   A stream is k complete minimal messages of framing F followed by the tail. Iter(st, mode) is the iterator run to exhaustion
   (three modes undetected / storage / serial; next-marker plausibility heuristic; and the rule of fix b5a404c: when the
   storage probe answers NotEnoughData while no framing is latched, the serial probe is still tried iff FEWER than MinStorage
   tokens are left:  Rule = "ge" is the code (stop iff buf_len >= MIN), "gt" the off-by-one variant (stop iff buf_len > MIN)).

   Properties
     LatchedIndep   the tail part of the result is the same behind 1, 2 and 5 complete messages (always).
     PrefixIndep    behind k >= 1 messages the same messages are recognised in the tail as in the tail ALONE (fresh iterator) -
                    claimed on the domain Claimed(F, tail) only:
                       the tail contains no frame marker of the OTHER framing (auto-detection of a fresh iterator would
                       legitimately pick that framing up - position dependent by design), or
                       F = storage and the tail starts with a truncated storage message whose storage + standard header are
                       complete (>= MinStorage tokens, announces more than is left): ANY iterator must stop there.
   Shape of the seeded defect this module was added for: <<S, R, H1, x, H1>> (exactly MinStorage tokens, serial message
   embedded in the storage header fields): Rule = "gt" lets the fresh iterator find the embedded serial message.             *)
EXTENDS Integers, Sequences, FiniteSets, TLC, Json

CONSTANTS NT,        \* tails of 0..NT tokens
          Rule       \* "ge" (code) | "gt" (off-by-one variant; must violate PrefixIndep)

S == 9
R == 8
Z == 7
H(n) == n                      \* H0..H2 are the numbers 0..2
Alphabet == {S, R, Z, 0, 1, 2}
MinStorage == 5
MinSerial == 2
IsH(t) == t \in {0, 1, 2}

\* [k |-> "ok" | "inv" | "ne", n |-> consumed]
ParseSto(w) ==
  IF Len(w) < MinStorage THEN [k |-> "ne", n |-> 0]
  ELSE IF w[1] # S THEN [k |-> "inv", n |-> 0]
  ELSE IF w[5] = Z THEN [k |-> "inv", n |-> 0]
  ELSE IF ~IsH(w[5]) THEN [k |-> "ne", n |-> 0]                         \* S / R read as a header: len 21505 / 21249
  ELSE LET tot == MinStorage + w[5] IN
       IF Len(w) < tot THEN [k |-> "ne", n |-> 0]
       ELSE IF Len(w) - tot >= 1 /\ w[tot + 1] # S /\ (\E i \in 3..tot : w[i] = S) THEN [k |-> "inv", n |-> 0]
       ELSE [k |-> "ok", n |-> tot]
ParseSer(w) ==
  IF Len(w) < MinSerial THEN [k |-> "ne", n |-> 0]
  ELSE IF w[1] # R THEN [k |-> "inv", n |-> 0]
  ELSE IF ~IsH(w[2]) THEN [k |-> "inv", n |-> 0]                        \* too small / "not enough data" are both InvalidData
  ELSE LET tot == MinSerial + w[2] IN
       IF Len(w) < tot THEN [k |-> "inv", n |-> 0]
       ELSE IF Len(w) - tot >= 1 /\ w[tot + 1] # R /\ (\E i \in 3..tot : w[i] = R) THEN [k |-> "inv", n |-> 0]
       ELSE [k |-> "ok", n |-> tot]

StopOnShortStorageProbe(mode, buflen) ==
  mode = "storage" \/ (IF Rule = "ge" THEN buflen >= MinStorage ELSE buflen > MinStorage)

\* the iterator run to exhaustion: sequence of [off, len, fr]
RECURSIVE Iter(_, _, _, _)
Iter(st, o, mode, acc) ==
  LET w == SubSeq(st, o + 1, Len(st))
      ser == LET r == ParseSer(w) IN
             IF r.k = "ok" THEN Iter(st, o + r.n, "serial", Append(acc, [off |-> o, len |-> r.n, fr |-> "serial"]))
             ELSE IF r.k = "inv" THEN Iter(st, o + 1, mode, acc)
             ELSE acc
  IN IF mode = "serial" THEN ser
     ELSE LET r == ParseSto(w) IN
          IF r.k = "ok" THEN Iter(st, o + r.n, "storage", Append(acc, [off |-> o, len |-> r.n, fr |-> "storage"]))
          ELSE IF r.k = "inv" THEN (IF mode = "storage" THEN Iter(st, o + 1, mode, acc) ELSE ser)
          ELSE IF StopOnShortStorageProbe(mode, Len(w)) THEN acc
          ELSE ser
Run(st) == Iter(st, 0, "undet", <<>>)

VARIABLES framing, tail
vars == <<framing, tail>>
Init == framing \in {"storage", "serial"} /\ tail \in UNION {[1..n -> Alphabet] : n \in 0..NT}
Next == UNCHANGED vars
Spec == Init /\ [][Next]_vars

MinMsg == IF framing = "storage" THEN <<S, 0, 0, 0, 0>> ELSE <<R, 0>>
RECURSIVE Rep(_, _)
Rep(k, m) == IF k = 0 THEN <<>> ELSE m \o Rep(k - 1, m)
PreLen(k) == k * Len(MinMsg)
\* what is recognised behind k complete messages, offsets relative to the start of the tail (the k messages themselves dropped)
TailPart(k) == LET full == Run(Rep(k, MinMsg) \o tail)
                   rest == SubSeq(full, k + 1, Len(full))
               IN [i \in 1..Len(rest) |-> [off |-> rest[i].off - PreLen(k), len |-> rest[i].len, fr |-> rest[i].fr]]
\* the k complete messages are always found first
PrefixFound(k) == LET full == Run(Rep(k, MinMsg) \o tail) IN
                  /\ Len(full) >= k
                  /\ \A i \in 1..k : full[i].off = (i - 1) * Len(MinMsg) /\ full[i].len = Len(MinMsg) /\ full[i].fr = framing

Other == IF framing = "storage" THEN R ELSE S
HasOther == \E i \in 1..Len(tail) : tail[i] = Other
StopsAtTruncStorage == /\ framing = "storage" /\ Len(tail) >= MinStorage /\ tail[1] = S
                       /\ ParseSto(tail).k = "ne"
Claimed == ~HasOther \/ StopsAtTruncStorage

LatchedIndep == TailPart(1) = TailPart(2) /\ TailPart(2) = TailPart(5)
PrefixesFound == PrefixFound(1) /\ PrefixFound(2) /\ PrefixFound(5)
PrefixIndep == Claimed => TailPart(0) = TailPart(1)

\* scenario emission: one line per (framing, tail) with the model's predictions
Emit == PrintT(<<"SCN", ToJson([framing |-> framing, tail |-> tail, claimed |-> Claimed,
                                alone |-> TailPart(0), behind |-> TailPart(1)])>>)
=============================================================================
