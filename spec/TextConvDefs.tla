---------------------------- MODULE TextConvDefs ----------------------------
(* X04 - text-log converters (CAN ASC, Android logcat, generic logs -> DLT messages): shared definitions and the
   CONTRACT, written as a function of the file (declarative, per record line), independent of the line-by-line state
   machine of TextConv.tla.

   Abstract input.  A case = one namespace and 1..n files converted one after the other by fresh iterators.
     file   = [start, hasref, ref: time, mod: time, lines: sequence of abstract lines]
     time   = [s, us]  seconds / microseconds, us in 0..999999 (s may be negative for signed offsets)
     ASC    date  [k, y, mo, d, hh, mi, ss, ms, frac, lower, wd]       "date Tue Apr 12 08:55:37.250 am 2022"
            other [k, v]                                              header / comment / trigger block / blank
            map   [k, fd, ch, name]                                   "//BusMapping: CAN 1 = name" (name: characters)
            can   [k, neg, s, us, ch, id, ext, up, tx, dlc, data, trail, ws]
            canfd [k, neg, s, us, ch, id, ext, up, tx, brs, esi, dlc, len, data, trail]
            err   [k, neg, s, us, ch, tx]                             CAN FD error frame
     logcat mono  [k, s, fr, fd, pad, pid, tid, lvl, tag, tagpad, msg] "   18.062   529   529 I auditd  : text"
            tt    [k, mo, d, hh, mi, ss, ms, pad, pid, tid, lvl, tag, tagpad, msg]   "01-01 00:00:16.626 ..."
            other [k, v]
     genlog rec   [k, y, mo, d, hh, mi, ss, ms, lvl, tag, msg]         "[2024-03-09 23:01:31.627] [INF] [tag] text"
            other [k, v]
     tags are sequences of one-character strings (TLC cannot look into a string).

   Observed message (one `msg` event / one element of the design model's output), all kinds:
     index mcnt htyp len rx_s rx_us dms ecu apid ctid mstp mtin verb noar plen id data hastext text
     svc cst cnt papid nctx desc cwf        (decoded control-response payload; zero/empty for other messages)

   The contract (statement in checks/x04.py):  Exp(kind, fh, f) is the sequence of expected messages of file f;
   MsgOK decides one observed message against one expected one, NameOK/NameNext the naming (ECU per channel name,
   APID per tag: a function, injective within the namespace).  Clauses:
     C1 one message per record line, in file order, numbered start, start+1, ... (mcnt = index mod 256); other lines: nothing;
        logcat/genlog: the first record of a tag (per file) is preceded by a GET_LOG_INFO response carrying APID and tag
     C2 ASC reception time = last date line + signed offset (bus mapping: the date); without date line = construction
        time + offset (checked relative to the first message).  Time stamp = offset div 0.1 ms (+ (date - reference) div
        0.1 ms if the reference time lies before the date); a negative offset counts from the first negative offset of
        its date section (with a reference time: offset below the date's stamp, either rounding, not below 0)
     C3 logcat up-time line: reception = file time + up-time, stamp = up-time.  Date line: year = file's year, previous
        year if the date would be after the file's date (file's date = day of file time + 1 s); a time in
        [1 Jan 00:00, 1 Jan 12:00) of the file's year is up-time since 1 Jan 00:00; any other time is absolute, its stamp
        = distance to the first absolute record + (last up-time before that one, else 10000 s)
     C4 genlog reception = the record's UTC time, stamp = distance to the first record (not below 0)
     C5 content: CAN payload = frame id (native u32) + data bytes, non-verbose network-trace CAN, 2 arguments; error frame =
        empty payload + text "Error Frame"; log = verbose log of the mapped level with the record's text; ids CAN/TC, LogC, GenL;
        ECU LC<nn> / GL<nn> (namespace mod 100)
     C6 names: the ECU of a CAN channel belongs to the bus-mapping name that bound the channel (first line of the channel in
        the file) or to (file, channel); the APID belongs to the tag; same key -> same name, new key -> unused name     *)
EXTENDS Integers, Sequences, FiniteSets, TLC

\* (TLC tries the candidates of a CHOOSE in ascending order: Min is linear this way, so Max goes through Min)
Max(S) == 0 - (CHOOSE x \in {0 - y : y \in S} : \A z \in {0 - y : y \in S} : x <= z)
Min(S) == CHOOSE x \in S : \A y \in S : x <= y
MaxI(a, b) == IF a < b THEN b ELSE a
Range(fn) == {fn[x] : x \in DOMAIN fn}

RECURSIVE StrFrom(_, _)
StrFrom(cs, i) == IF i > Len(cs) THEN "" ELSE cs[i] \o StrFrom(cs, i + 1)
Str(cs) == StrFrom(cs, 1)
RECURSIVE Sp(_)
Sp(n) == IF n <= 0 THEN "" ELSE " " \o Sp(n - 1)

-----------------------------------------------------------------------------
\* time as [s, us]
Norm(s, u) == [s |-> s + (u \div 1000000), us |-> u % 1000000]
TZero == [s |-> 0, us |-> 0]
TAdd(a, b) == Norm(a.s + b.s, a.us + b.us)
TSub(a, b) == Norm(a.s - b.s, a.us - b.us)
TNeg(a) == Norm(0 - a.s, 0 - a.us)
TLess(a, b) == a.s < b.s \/ (a.s = b.s /\ a.us < b.us)
TLeq(a, b) == ~TLess(b, a)
TSat(a) == IF TLess(a, TZero) THEN TZero ELSE a
\* 0.1 ms units, rounded down / up (also for negative times: s negative, us in 0..999999)
DmsFloor(t) == t.s * 10000 + (t.us \div 100)
DmsCeil(t) == t.s * 10000 + ((t.us + 99) \div 100)

\* proleptic Gregorian calendar (days since 1970-01-01)
IsLeap(y) == (y % 4 = 0 /\ y % 100 # 0) \/ y % 400 = 0
DaysInMonth(y, m) == IF m = 2 THEN (IF IsLeap(y) THEN 29 ELSE 28) ELSE IF m \in {4, 6, 9, 11} THEN 30 ELSE 31
ValidDate(y, m, d) == m \in 1..12 /\ d >= 1 /\ d <= DaysInMonth(y, m)
DaysFromCivil(y0, m, d) ==
  LET y == IF m <= 2 THEN y0 - 1 ELSE y0
      era == y \div 400
      yoe == y - era * 400
      mp == (m + 9) % 12
      doy == (153 * mp + 2) \div 5 + d - 1
      doe == yoe * 365 + (yoe \div 4) - (yoe \div 100) + doy
  IN era * 146097 + doe - 719468
CivilFromDays(z0) ==
  LET z == z0 + 719468
      era == z \div 146097
      doe == z - era * 146097
      yoe == (doe - (doe \div 1460) + (doe \div 36524) - (doe \div 146096)) \div 365
      doy == doe - (365 * yoe + (yoe \div 4) - (yoe \div 100))
      mp == (5 * doy + 2) \div 153
      d == doy - ((153 * mp + 2) \div 5) + 1
      m == IF mp < 10 THEN mp + 3 ELSE mp - 9
  IN [y |-> (yoe + era * 400) + (IF m <= 2 THEN 1 ELSE 0), m |-> m, d |-> d]
Epoch(y, mo, d, hh, mi, ss) == DaysFromCivil(y, mo, d) * 86400 + hh * 3600 + mi * 60 + ss
Weekday(y, mo, d) == (DaysFromCivil(y, mo, d) + 4) % 7            \* 0 = Sunday

RECURSIVE HasHexLetter(_)
HasHexLetter(n) == IF n = 0 THEN FALSE ELSE (n % 16 >= 10) \/ HasHexLetter(n \div 16)

TwoDigits(n) == IF n < 10 THEN "0" \o ToString(n) ELSE ToString(n)

-----------------------------------------------------------------------------
\* expected message: the fields every kind fills (a record with the same fields for all classes)
ExpRec(cls, mode, rxm, rx, dmsAny, dms, key, keyAny, id, data, text, mtin, desc, kfskip, kfnodata, kfprev) ==
  [cls |-> cls, mode |-> mode,      \* mode: which time rule applies (only for the path statistics)
            \* "can" | "err" | "map" | "ann" | "log"
   rxm |-> rxm,          \* "abs": reception time = rx;  "rel": reception time = (construction time of the iterator) + rx
   rx |-> rx, dmsAny |-> dmsAny, dms |-> dms,     \* dms: set of admissible time stamps (0.1 ms)
   key |-> key, keyAny |-> keyAny,                \* naming key (channel name / tag); keyAny: name not constrained
   id |-> id, data |-> data, text |-> text, mtin |-> mtin, desc |-> desc,
   kfskip |-> kfskip, kfnodata |-> kfnodata, kfprev |-> kfprev]     \* circumstances of the known findings

-----------------------------------------------------------------------------
\* ASC
AscMag(l) == [s |-> l.s, us |-> l.us]
AscIsNeg(l) == l.neg /\ (l.s # 0 \/ l.us # 0)
AscTs(l) == IF AscIsNeg(l) THEN TNeg(AscMag(l)) ELSE AscMag(l)
AscIsFrame(l) == l.k \in {"can", "canfd", "err"}
AscYields(l) == AscIsFrame(l) \/ l.k = "map"
AscDate(l) == [s |-> Epoch(l.y, l.mo, l.d, l.hh, l.mi, l.ss), us |-> l.ms * 1000]
AscDataLen(l) == IF l.k = "can" THEN l.dlc ELSE IF l.k = "canfd" THEN l.len ELSE 0
\* circumstances of the two ASC findings
AscUpper(l) == l.k \in {"can", "canfd"} /\ l.up /\ HasHexLetter(l.id)
AscNoTrail(l) == l.k \in {"can", "canfd"} /\ AscDataLen(l) > 0 /\ l.trail = 0

\* per-file index (built once per file): positions of date lines, negative-offset frames, frames with upper-case id, and
\* for every channel the first line that refers to it (frame or bus mapping)
AscIndex(fh) ==
  LET L == fh.lines
      frames == {j \in 1..Len(L) : AscIsFrame(L[j])}
      yields == {j \in 1..Len(L) : AscYields(L[j])}
  IN [dates |-> {j \in 1..Len(L) : L[j].k = "date"},
      negs |-> {j \in frames : AscIsNeg(L[j])},
      uppers |-> {j \in frames : AscUpper(L[j])},
      bind |-> TLCEval([c \in {L[j].ch : j \in yields} |-> Min({j \in yields : L[j].ch = c})])]

AscExpLine(fh, f, ix, i) ==
  LET L == fh.lines
      l == L[i]
      D == {j \in ix.dates : j < i}
      dated == D # {}
      dl == IF dated THEN Max(D) ELSE 0                                   \* the last date line before this line
      date == IF dated THEN AscDate(L[dl]) ELSE TZero
      off == IF fh.hasref /\ dated /\ TLess(fh.ref, date) THEN DmsFloor(TSub(date, fh.ref)) ELSE 0
      ts == IF AscIsFrame(l) THEN AscTs(l) ELSE TZero
      N == {j \in ix.negs : j > dl /\ j <= i}                             \* negative offsets of this date section so far
      fneg == AscTs(L[Min(N)])
      tsneg == TLess(ts, TZero)
      \* a dropped frame (finding: upper-case id) earlier in the section makes "first negative offset" / the channel binding ambiguous
      amb == \E j \in ix.uppers : j > dl /\ j < i /\ AscIsNeg(L[j])
      dmsAny == tsneg /\ off = 0 /\ (amb \/ TLess(ts, fneg))
      dms == IF ~tsneg THEN {off + DmsFloor(ts)}
             ELSE IF off > 0 THEN {MaxI(0, off + DmsFloor(ts)), MaxI(0, off + DmsCeil(ts))}
             ELSE IF dmsAny THEN {} ELSE {DmsFloor(TSub(ts, fneg))}
      B == ix.bind[l.ch]                                                  \* the line that binds this channel to an ECU
      key == IF L[B].k = "map" THEN "N:" \o Str(L[B].name) ELSE "F" \o ToString(f) \o "C" \o ToString(l.ch)
      keyAny == (l.k = "map" /\ B # i) \/ (\E j \in ix.uppers : j < i /\ L[j].ch = l.ch)
      rxm == IF dated THEN "abs" ELSE "rel"
      rx == TAdd(date, ts)
      amode == (IF tsneg THEN "neg" ELSE "") \o (IF off > 0 THEN "ref" ELSE "")
  IN IF ~AscYields(l) THEN <<>>
     ELSE IF l.k = "map" THEN <<ExpRec("map", "", rxm, date, FALSE, {off}, key, keyAny, 0, <<>>, "", 2, Str(l.name), FALSE, FALSE, FALSE)>>
     ELSE IF l.k = "err" THEN <<ExpRec("err", amode, rxm, rx, dmsAny, dms, key, keyAny, 0, <<>>, "Error Frame", 2, "", FALSE, FALSE, FALSE)>>
     ELSE <<ExpRec("can", amode, rxm, rx, dmsAny, dms, key, keyAny, l.id, l.data, "", 2, "", AscUpper(l), AscNoTrail(l), FALSE)>>

-----------------------------------------------------------------------------
\* logcat
LcIsRec(l) == l.k \in {"mono", "tt"}
LcMtin(c) == IF c = "I" THEN 4 ELSE IF c = "W" THEN 3 ELSE IF c = "E" THEN 2 ELSE IF c = "V" THEN 6
             ELSE IF c \in {"F", "S"} THEN 1 ELSE 5
LcMonoTs(l) == [s |-> l.s, us |-> IF l.fd = 3 THEN l.fr * 1000 ELSE l.fr]
\* the text of a record = the rest of the line behind the time stamp and one blank
LcText(l) == Sp(2 * l.pad) \o ToString(l.pid) \o Sp(1 + 2 * l.pad) \o ToString(l.tid) \o " " \o l.lvl \o " "
             \o Str(l.tag) \o Sp(l.tagpad) \o ": " \o l.msg
LcRefDate(mod) == CivilFromDays((mod.s + 1) \div 86400)
LcAfter(mo, d, ref) == mo > ref.m \/ (mo = ref.m /\ d > ref.d)
\* year rule: the file's year, unless that date would be later than the file's date (then the previous year)
LcYear(ref, mo, d) == IF ValidDate(ref.y, mo, d) THEN (IF LcAfter(mo, d, ref) /\ ValidDate(ref.y - 1, mo, d) THEN ref.y - 1 ELSE ref.y)
                      ELSE ref.y - 1
\* domain of the rule (29 Feb that exists in neither year, or only in the future of the file's year, is left open)
LcDateInDomain(ref, mo, d) == \/ (ValidDate(ref.y, mo, d) /\ (~LcAfter(mo, d, ref) \/ ValidDate(ref.y - 1, mo, d)))
                              \/ (~ValidDate(ref.y, mo, d) /\ ValidDate(ref.y - 1, mo, d))
LcT(ref, l) == [s |-> Epoch(LcYear(ref, l.mo, l.d), l.mo, l.d, l.hh, l.mi, l.ss), us |-> l.ms * 1000]
LcJan1(ref) == Epoch(ref.y, 1, 1, 0, 0, 0)
\* "up": a clock that started at 1 Jan 00:00 of the file's year (no real-time clock) is read as up-time; else absolute
LcMode(ref, l) == LET t == LcT(ref, l).s IN
                  IF t < LcJan1(ref) THEN "prev" ELSE IF t < LcJan1(ref) + 43200 THEN "up" ELSE "abs"
LcUpTs(ref, l) == TSub(LcT(ref, l), [s |-> LcJan1(ref), us |-> 0])

\* per-file index: tag text and time rule of every record, the first record of every tag, the first absolute-mode
\* record (j0) and the time stamp it starts from (base0: the last up-time before it, else 10000 s)
LcIndex(fh) ==
  LET L == fh.lines
      ref == LcRefDate(fh.mod)
      recs == {j \in 1..Len(L) : LcIsRec(L[j])}
      tagstr == TLCEval([j \in recs |-> Str(L[j].tag)])
      mode == TLCEval([j \in recs |-> IF L[j].k = "mono" THEN "mono" ELSE LcMode(ref, L[j])])
      abs == {j \in recs : mode[j] \in {"abs", "prev"}}
      j0 == IF abs = {} THEN 0 ELSE Min(abs)
      ups == {j \in recs : j < j0 /\ mode[j] = "up"}
  IN [ref |-> ref, tagstr |-> tagstr, mode |-> mode, j0 |-> j0,
      base0 |-> IF ups = {} THEN [s |-> 10000, us |-> 0] ELSE LcUpTs(ref, L[Max(ups)]),
      firstOf |-> TLCEval([t \in {tagstr[j] : j \in recs} |-> Min({j \in recs : tagstr[j] = t})])]

LcExpLine(fh, f, ix, i) ==
  LET L == fh.lines
      l == L[i]
      ref == ix.ref
      tag == ix.tagstr[i]
      first == ix.firstOf[tag] = i
      mode == ix.mode[i]
      ts == IF mode = "mono" THEN LcMonoTs(l)
            ELSE IF mode = "up" THEN LcUpTs(ref, l)
            ELSE TSat(TAdd(TSub(LcT(ref, l), LcT(ref, L[ix.j0])), ix.base0))
      rx == IF mode \in {"mono", "up"} THEN TAdd(fh.mod, ts) ELSE LcT(ref, l)
      prev == mode = "prev"                                                     \* finding: a record of the previous year
      log == ExpRec("log", mode, "abs", rx, FALSE, {DmsFloor(ts)}, tag, FALSE, 0, <<>>, LcText(l), LcMtin(l.lvl), "", FALSE, FALSE, prev)
      ann == ExpRec("ann", mode, "abs", rx, FALSE, {DmsFloor(ts)}, tag, FALSE, 0, <<>>, "", 2, tag, FALSE, FALSE, prev)
  IN IF ~LcIsRec(l) THEN <<>> ELSE IF first /\ tag # "" THEN <<ann, log>> ELSE <<log>>

-----------------------------------------------------------------------------
\* genlog
GlMtin(s) == IF s = "INF" THEN 4 ELSE IF s = "WRN" THEN 3 ELSE IF s = "ERR" THEN 2 ELSE IF s = "VER" THEN 6
             ELSE IF s \in {"FAT", "SEV"} THEN 1 ELSE 5
GlT(l) == [s |-> Epoch(l.y, l.mo, l.d, l.hh, l.mi, l.ss), us |-> l.ms * 1000]
GlIndex(fh) ==
  LET L == fh.lines
      recs == {j \in 1..Len(L) : L[j].k = "rec"}
      tagstr == TLCEval([j \in recs |-> Str(L[j].tag)])
  IN [tagstr |-> tagstr, r0 |-> IF recs = {} THEN 0 ELSE Min(recs),
      firstOf |-> TLCEval([t \in {tagstr[j] : j \in recs} |-> Min({j \in recs : tagstr[j] = t})])]
GlExpLine(fh, f, ix, i) ==
  LET L == fh.lines
      l == L[i]
      tag == ix.tagstr[i]
      first == ix.firstOf[tag] = i
      ts == TSat(TSub(GlT(l), GlT(L[ix.r0])))                              \* relative to the first record of the file
      log == ExpRec("log", "", "abs", GlT(l), FALSE, {DmsFloor(ts)}, tag, FALSE, 0, <<>>, l.msg, GlMtin(l.lvl), "", FALSE, FALSE, FALSE)
      ann == ExpRec("ann", "", "abs", GlT(l), FALSE, {DmsFloor(ts)}, tag, FALSE, 0, <<>>, "", 2, tag, FALSE, FALSE, FALSE)
  IN IF l.k # "rec" THEN <<>> ELSE IF first /\ tag # "" THEN <<ann, log>> ELSE <<log>>

-----------------------------------------------------------------------------
ExpLine(kind, fh, f, ix, i) == IF kind = "asc" THEN AscExpLine(fh, f, ix, i)
                               ELSE IF kind = "logcat" THEN LcExpLine(fh, f, ix, i) ELSE GlExpLine(fh, f, ix, i)
\* (divide and conquer keeps the recursion shallow and the concatenations cheap)
RECURSIVE ExpRange(_, _, _, _, _, _)
ExpRange(kind, fh, f, ix, a, b) ==
  IF a > b THEN <<>> ELSE IF a = b THEN ExpLine(kind, fh, f, ix, a)
  ELSE LET m == (a + b) \div 2 IN ExpRange(kind, fh, f, ix, a, m) \o ExpRange(kind, fh, f, ix, m + 1, b)
\* every record line yields its message(s), in file order; all other lines yield nothing
Exp(kind, fh, f) ==
  LET ix == IF kind = "asc" THEN AscIndex(fh) ELSE IF kind = "logcat" THEN LcIndex(fh) ELSE GlIndex(fh)
  IN ExpRange(kind, fh, f, ix, 1, Len(fh.lines))

\* fixed identifiers
FixedEcu(kind, nsmod) == IF kind = "logcat" THEN "LC" \o TwoDigits(nsmod) ELSE "GL" \o TwoDigits(nsmod)
FixedCtid(kind) == IF kind = "asc" THEN "TC" ELSE IF kind = "logcat" THEN "LogC" ELSE "GenL"

\* one observed message m against the expected message e; cnt = messages already yielded by this file's iterator,
\* base = [set, t] construction time recovered from the first message of a file without date line
RxOK(e, m, base) == LET rx == [s |-> m.rx_s, us |-> m.rx_us] IN
                    IF e.rxm = "abs" THEN rx = e.rx ELSE (~base.set \/ rx = TAdd(base.t, e.rx))
BaseNext(e, m, base) == IF e.rxm = "rel" /\ ~base.set THEN [set |-> TRUE, t |-> TSub([s |-> m.rx_s, us |-> m.rx_us], e.rx)] ELSE base
NoCtrl(m) == m.svc = 0 /\ m.cst = 0 /\ m.cnt = 0 /\ m.papid = "" /\ m.nctx = 0 /\ m.desc = ""
IsCtrlInfo(m, apid, desc) == /\ m.mstp = "ctrl" /\ m.mtin = 2 /\ ~m.verb /\ m.noar = 2 /\ ~m.hastext
                             /\ m.svc = 3 /\ m.cst = 7 /\ m.cnt = 1 /\ m.papid = apid /\ m.nctx = 0 /\ m.desc = desc /\ m.cwf
                             /\ m.id = 0 /\ m.data = <<>>
MsgOK(kind, nsmod, fh, cnt, base, e, m, allowNoData) ==
  /\ m.index = fh.start + cnt /\ m.mcnt = m.index % 256
  /\ m.len = 22 + m.plen /\ m.htyp \in {53, 55}
  /\ RxOK(e, m, base)
  /\ (e.dmsAny \/ m.dms \in e.dms)
  /\ m.ctid = FixedCtid(kind)
  /\ (kind = "asc" => m.apid = "CAN")
  /\ (kind # "asc" => m.ecu = FixedEcu(kind, nsmod))
  /\ IF e.cls = "can" THEN /\ m.mstp = "nw" /\ m.mtin = 2 /\ ~m.verb /\ m.noar = 2 /\ ~m.hastext /\ NoCtrl(m)
                           /\ m.id = e.id
                           /\ (m.data = e.data \/ (allowNoData /\ e.kfnodata /\ m.data = <<>>))
                           /\ m.plen = 4 + Len(m.data)
     ELSE IF e.cls = "err" THEN /\ m.mstp = "nw" /\ m.mtin = 2 /\ ~m.verb /\ m.noar = 2 /\ NoCtrl(m)
                                /\ m.hastext /\ m.text = e.text /\ m.plen = 0 /\ m.data = <<>>
     ELSE IF e.cls = "map" THEN IsCtrlInfo(m, "CAN", e.desc)
     ELSE IF e.cls = "ann" THEN IsCtrlInfo(m, m.apid, e.desc)
     ELSE /\ m.mstp = "log" /\ m.mtin = e.mtin /\ m.verb /\ m.noar = 0 /\ NoCtrl(m)
          /\ m.hastext /\ m.text = e.text /\ m.plen = 0 /\ m.data = <<>> /\ m.id = 0

\* naming: `names` maps keys (channel names, per-file channels / tags) to the identifier first given to them
NameOf(kind, m) == IF kind = "asc" THEN m.ecu ELSE m.apid
NameOK(names, e, name) == \/ e.keyAny
                          \/ (e.key \in DOMAIN names /\ names[e.key] = name)
                          \/ (e.key \notin DOMAIN names /\ name \notin Range(names))
NameNext(names, e, name) == IF e.keyAny \/ e.key \in DOMAIN names THEN names ELSE names @@ (e.key :> name)

\* with the upper-case-id finding switched on, expected messages of dropped lines may be absent
RECURSIVE SkipKF(_, _, _, _, _, _, _, _, _, _)
SkipKF(kfUpper, kind, nsmod, fh, cnt, base, names, exp, n, m) ==
  IF n <= Len(exp) /\ kfUpper /\ exp[n].kfskip
     /\ ~(MsgOK(kind, nsmod, fh, cnt, base, exp[n], m, TRUE) /\ NameOK(names, exp[n], NameOf(kind, m)))
  THEN SkipKF(kfUpper, kind, nsmod, fh, cnt, base, names, exp, n + 1, m) ELSE n

\* whole-file conformance (used by the design module on its own output; the trace module does the same event by event)
\* kf = [upper, notrail, prev]; obs = sequence of messages; end = "eof" | "panic"; returns [ok, names]
RECURSIVE ConfFrom(_, _, _, _, _, _, _, _, _, _, _)
ConfFrom(kf, kind, nsmod, fh, exp, obs, end, n, c, base, names) ==
  IF c > Len(obs)
  THEN [ok |-> IF end = "eof" THEN \A j \in n..Len(exp) : kf.upper /\ exp[j].kfskip
                ELSE kf.prev /\ n <= Len(exp) /\ exp[n].kfprev,
        names |-> names]
  ELSE LET m == obs[c]
           n2 == SkipKF(kf.upper, kind, nsmod, fh, c - 1, base, names, exp, n, m)
       IN IF n2 <= Len(exp) /\ MsgOK(kind, nsmod, fh, c - 1, base, exp[n2], m, kf.notrail) /\ NameOK(names, exp[n2], NameOf(kind, m))
          THEN ConfFrom(kf, kind, nsmod, fh, exp, obs, end, n2 + 1, c + 1, BaseNext(exp[n2], m, base), NameNext(names, exp[n2], NameOf(kind, m)))
          ELSE [ok |-> FALSE, names |-> names]
NoBase == [set |-> FALSE, t |-> TZero]
ConfFile(kf, kind, nsmod, fh, f, obs, end, names) == ConfFrom(kf, kind, nsmod, fh, Exp(kind, fh, f), obs, end, 1, 1, NoBase, names)
RECURSIVE ConfFiles(_, _, _, _, _, _, _, _)
ConfFiles(kf, kind, nsmod, files, obss, ends, f, names) ==
  IF f > Len(obss) THEN TRUE
  ELSE LET r == ConfFile(kf, kind, nsmod, files[f], f, obss[f], ends[f], names)
       IN r.ok /\ (IF ends[f] = "panic" THEN f = Len(obss) ELSE ConfFiles(kf, kind, nsmod, files, obss, ends, f + 1, r.names))
\* all files converted (or the run stopped at a panic that a finding explains) and every file conforms
Conforms(kf, kind, nsmod, files, obss, ends) ==
  /\ Len(obss) = Len(ends) /\ Len(obss) <= Len(files)
  /\ (Len(obss) < Len(files) => Len(obss) > 0 /\ ends[Len(obss)] = "panic")
  /\ ConfFiles(kf, kind, nsmod, files, obss, ends, 1, <<>>)
NoKF == [upper |-> FALSE, notrail |-> FALSE, prev |-> FALSE]
=============================================================================
