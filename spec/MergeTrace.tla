----------------------------- MODULE MergeTrace -----------------------------
(* C09 - trace validation: one recorded run of the real iterators per case.

   trace lines (ndjson):
     {"ev":"reset","case":n,"hdr":{"kind":"merge"|"chain","start":i,"srcs":[[rx,...],...]}}
     {"ev":"emit","src":s,"pos":p,"rx":t,"index":i,"intact":b}   one per item yielded by `next()` (s, p 1-based)
     {"ev":"end"}                                           `next()` returned None
     {"ev":"panic","msg":...}                               the code under test panicked (no action matches)

   The contract is the property: an emitted item must be the next unread message of its source, unchanged,
   numbered start + (number emitted so far); for a chain it must come from the first non-exhausted source; for
   a merge of sources that are all ordered it must be a minimal head; `end` only when everything was emitted.
   A case for which no contract action matches is recorded in `viol` and skipped up to the next reset.       *)
EXTENDS Integers, Sequences, FiniteSets, TLC, Json, IOUtils

Rec == ndJsonDeserialize(IOEnv.TRACE)

VARIABLES l, case, phase, hdr, pos, n, viol
vars == <<l, case, phase, hdr, pos, n, viol>>

NoHdr == [kind |-> "", start |-> 0, srcs |-> <<>>]
Init == l = 1 /\ case = -1 /\ phase = "idle" /\ hdr = NoHdr /\ pos = <<>> /\ n = 0 /\ viol = {}

Ev(e) == l <= Len(Rec) /\ Rec[l].ev = e /\ l' = l + 1
Cur == Rec[l]

Reset == /\ Ev("reset")
         /\ case' = Cur.case /\ hdr' = Cur.hdr /\ pos' = [s \in 1..Len(Cur.hdr.srcs) |-> 0] /\ n' = 0
         /\ phase' = "running"
         /\ viol' = IF phase = "running" THEN viol \cup {case} ELSE viol     \* previous case never ended

NS == Len(hdr.srcs)
Active == {s \in 1..NS : pos[s] < Len(hdr.srcs[s])}
Sorted(sq) == \A i \in 1..(Len(sq) - 1) : sq[i] <= sq[i + 1]
AllSorted == \A s \in 1..NS : Sorted(hdr.srcs[s])

Emit == /\ Ev("emit") /\ phase = "running"
        /\ LET s == Cur.src IN
           /\ s \in Active
           /\ Cur.pos = pos[s] + 1                                  \* per-source order, exactly once
           /\ Cur.rx = hdr.srcs[s][Cur.pos]                         \* the message itself
           /\ Cur.index = hdr.start + n                             \* consecutive numbering
           /\ Cur.intact                                           \* all other fields unchanged
           /\ (hdr.kind = "chain" => \A t \in Active : s <= t)     \* concatenation
           /\ (hdr.kind = "merge" /\ AllSorted => \A t \in Active : Cur.rx <= hdr.srcs[t][pos[t] + 1])
           /\ pos' = [pos EXCEPT ![s] = @ + 1]
        /\ n' = n + 1 /\ UNCHANGED <<case, phase, hdr, viol>>

End == /\ Ev("end") /\ phase = "running" /\ Active = {}
       /\ phase' = "ended" /\ UNCHANGED <<case, hdr, pos, n, viol>>

Matches == ENABLED Emit \/ ENABLED End
Reject == /\ l <= Len(Rec) /\ Cur.ev # "reset" /\ phase = "running" /\ ~Matches
          /\ PrintT(<<"CASE_REJECTED", case, l, ToJson(Cur)>>)
          /\ l' = l + 1 /\ phase' = "rejected" /\ viol' = viol \cup {case}
          /\ UNCHANGED <<case, hdr, pos, n>>
SkipRest == /\ l <= Len(Rec) /\ Cur.ev # "reset" /\ phase \in {"rejected", "ended", "idle"}
            /\ l' = l + 1
            /\ IF phase = "ended" THEN viol' = viol \cup {case} /\ phase' = "rejected"   \* events after `end`
                                  ELSE UNCHANGED <<viol, phase>>
            /\ UNCHANGED <<case, hdr, pos, n>>

Next == Reset \/ Emit \/ End \/ Reject \/ SkipRest
Spec == Init /\ [][Next]_vars

AtEnd == l = Len(Rec) + 1
FinalViol == IF phase = "running" THEN viol \cup {case} ELSE viol
Report == AtEnd => PrintT(<<"VERDICT", ToJson([violations |-> FinalViol, known |-> {}])>>)
Accepted == IF TLCGet("stats").diameter - 1 = Len(Rec) THEN TRUE
            ELSE Print(<<"TRACE_NOT_CONSUMED", TLCGet("stats").diameter, Len(Rec)>>, FALSE)
=============================================================================
