--------------------------- MODULE PipelineTrace ---------------------------
(* C13 - trace validation: one run of a REAL adlt pipeline (parse_lifecycles_buffered_from_stream, plugins_process_msgs,
   buffer_sort_messages, filter_as_streams on threads, connected by sync_channel(c) and
   sync_sender_send_delay_if_full, wired as convert.rs / remote.rs do) under a pacing script, per case.

   trace lines (ndjson):
     {"ev":"reset","case":n,"hdr":{"sorted":bool,                pipeline contains the time sorter
                                   "stages":["producer","lc",...],   threads that have to terminate
                                   "ref":[{"idx":i,"lc":id,"hash":h},...],   what the consumer received from the SAME
                                   "reftable":[{"id","ecu","nr","start","stop"},...],   pipeline with channels that never fill,
                                   "caps":[...],"drop_at":k,...}}                     recorded in the same process
     {"ev":"recv","idx":i,"lc":id,"hash":h,"pos":j}   one per message arriving at the last receiver (idx: position tag
                                              put into the payload by the producer, hash: all fields except the lifecycle
                                              id, pos: search hint - index in ref of the entry with this tag, 0 = none)
     {"ev":"eos"}                              the last receiver saw the end of the stream (all senders gone)
     {"ev":"drop","after":k}                   the consumer dropped its receiver after k messages
     {"ev":"full_hits","n":k}                  hook counter: how often the helper took its Full branch (vacuity guard only)
     {"ev":"table","t":[...]}                  final lifecycle table (only after eos), entries {"id","ecu","nr","start","stop","resume"}
     {"ev":"lc_fold","who":o,"polls":n,"fold":[...]}   (after table) what table observer o ("consumer": polls while receiving,
                                              "thread": polls at its own pace) holds after one final poll, having followed the
                                              table INCREMENTALLY the way remote.rs process_file_context does: remember the
                                              largest lcs_w_refresh_idx seen, on every poll take every entry with a larger one
     {"ev":"lc_polls","seq":[{"idx":i,"h":h},...]}     (after table) the distinct table contents the thread observer saw, in
                                              order: largest refresh index carried and a hash of the content, both restricted
                                              to the lifecycles of the final table
     {"ev":"joined","stage":s}                 thread s ended within the bound (>= 30 s) after eos / drop
     {"ev":"end"}                              end of the case
     {"ev":"join_timeout","stage":s} / {"ev":"stalled","after":k,"style":c} (no message and no end of stream within the
                                              bound, whatever way the consumer waits) / {"ev":"panic",..}    no action matches

   The contract is the property.  Lifecycle ids come from a process-global counter, so "same" means equal up to an
   injective renaming of ids, built here message by message (lcmap: run id -> reference id).
     unsorted pipeline: the k-th received message is the k-th reference message (same tag, same content, consistent id)
     sorted pipeline:   every received message is a not yet received reference message (permutation; order is C10's)
     eos:   only when everything of the reference was received (nothing lost)
     table: equal to the reference table as a bag, ids renamed through lcmap (ids no received message carries -> 0)
     lc_fold: for every lifecycle of the final table the observer's folded entry equals the final entry (following the
            table by refresh index ends with the final table for every pacing); ids missing in the final table are not judged
     lc_polls: the refresh index never decreases, and two different table contents never carry the same index (= every
            publish that changes a visible entry has an index larger than any published before; Pipeline.tla PublishIdxMonotone)
     drop / eos: afterwards every thread joins.                                                             *)
EXTENDS Integers, Sequences, FiniteSets, TLC, Json, IOUtils

Rec == ndJsonDeserialize(IOEnv.TRACE)

VARIABLES l, case, phase, hl, nrecv, pending, lcmap, joined, tableSeen, fullSeen, tbl, folded, pollsSeen, viol
vars == <<l, case, phase, hl, nrecv, pending, lcmap, joined, tableSeen, fullSeen, tbl, folded, pollsSeen, viol>>

EmptyMap == [x \in {} |-> 0]
Init == /\ l = 1 /\ case = -1 /\ phase = "idle" /\ hl = 0 /\ nrecv = 0 /\ pending = {} /\ lcmap = EmptyMap
        /\ joined = {} /\ tableSeen = FALSE /\ fullSeen = FALSE /\ tbl = <<>> /\ folded = {} /\ pollsSeen = FALSE /\ viol = {}

Ev(e) == l <= Len(Rec) /\ Rec[l].ev = e /\ l' = l + 1
Cur == Rec[l]
Hdr == Rec[hl].hdr

Reset == /\ Ev("reset")
         /\ case' = Cur.case /\ hl' = l /\ nrecv' = 0 /\ pending' = 1..Len(Cur.hdr.ref) /\ lcmap' = EmptyMap
         /\ joined' = {} /\ tableSeen' = FALSE /\ fullSeen' = FALSE /\ tbl' = <<>> /\ folded' = {} /\ pollsSeen' = FALSE
         /\ phase' = "running"
         /\ viol' = IF phase \in {"running", "eos", "dropped"} THEN viol \cup {case} ELSE viol   \* previous case never ended

Range(f) == {f[x] : x \in DOMAIN f}
\* run id a may stand for reference id b
Consistent(a, b) == IF a \in DOMAIN lcmap THEN lcmap[a] = b ELSE b \notin Range(lcmap)
Bind(a, b) == IF a \in DOMAIN lcmap THEN lcmap ELSE lcmap @@ (a :> b)
Same(r) == r.idx = Cur.idx /\ r.hash = Cur.hash /\ Consistent(Cur.lc, r.lc)

Recv == /\ Ev("recv") /\ phase = "running"
        /\ IF Hdr.sorted
           THEN /\ Cur.pos \in pending /\ Same(Hdr.ref[Cur.pos])       \* (pos: the driver's search hint, verified here)
                /\ pending' = pending \ {Cur.pos} /\ lcmap' = Bind(Cur.lc, Hdr.ref[Cur.pos].lc)
           ELSE /\ nrecv < Len(Hdr.ref) /\ Same(Hdr.ref[nrecv + 1])
                /\ pending' = pending \ {nrecv + 1} /\ lcmap' = Bind(Cur.lc, Hdr.ref[nrecv + 1].lc)
        /\ nrecv' = nrecv + 1
        /\ UNCHANGED <<case, phase, hl, joined, tableSeen, fullSeen, tbl, folded, pollsSeen, viol>>

Eos == /\ Ev("eos") /\ phase = "running" /\ pending = {}
       /\ phase' = "eos" /\ UNCHANGED <<case, hl, nrecv, pending, lcmap, joined, tableSeen, fullSeen, tbl, folded, pollsSeen, viol>>
Drop == /\ Ev("drop") /\ phase = "running" /\ Cur.after = nrecv
        /\ phase' = "dropped" /\ UNCHANGED <<case, hl, nrecv, pending, lcmap, joined, tableSeen, fullSeen, tbl, folded, pollsSeen, viol>>
FullHits == /\ Ev("full_hits") /\ phase \in {"eos", "dropped"} /\ Cur.n >= 0 /\ ~fullSeen
            /\ fullSeen' = TRUE /\ UNCHANGED <<case, phase, hl, nrecv, pending, lcmap, joined, tableSeen, tbl, folded, pollsSeen, viol>>

\* table entries with ids renamed (f: id -> canonical id or 0)
Canon(t, f(_)) == [i \in 1..Len(t) |-> [id |-> f(t[i].id), ecu |-> t[i].ecu, nr |-> t[i].nr, start |-> t[i].start, stop |-> t[i].stop, resume |-> t[i].resume]]
Count(s, x) == Cardinality({i \in 1..Len(s) : s[i] = x})
BagEq(a, b) == Len(a) = Len(b) /\ \A i \in 1..Len(a) : Count(a, a[i]) = Count(b, a[i])
RunId(x) == IF x \in DOMAIN lcmap THEN lcmap[x] ELSE 0
RefId(x) == IF x \in Range(lcmap) THEN x ELSE 0
Table == /\ Ev("table") /\ phase = "eos" /\ ~tableSeen
         /\ BagEq(Canon(Cur.t, RunId), Canon(Hdr.reftable, RefId))
         /\ tableSeen' = TRUE /\ tbl' = Cur.t
         /\ UNCHANGED <<case, phase, hl, nrecv, pending, lcmap, joined, fullSeen, folded, pollsSeen, viol>>

\* the incremental view of the table (by refresh index) ends with the final table
ObsSet == {Hdr.observers[i] : i \in 1..Len(Hdr.observers)}
LcFold == /\ Ev("lc_fold") /\ phase = "eos" /\ tableSeen /\ Cur.who \in ObsSet \ folded
          /\ \A i \in 1..Len(tbl) : \E j \in 1..Len(Cur.fold) : Cur.fold[j] = tbl[i]
          /\ folded' = folded \cup {Cur.who}
          /\ UNCHANGED <<case, phase, hl, nrecv, pending, lcmap, joined, tableSeen, fullSeen, tbl, pollsSeen, viol>>
\* different visible contents never carry the same refresh index, and the index never goes back
LcPolls == /\ Ev("lc_polls") /\ phase = "eos" /\ tableSeen /\ ~pollsSeen
           /\ \A i \in 1..(Len(Cur.seq) - 1) : \/ Cur.seq[i].idx < Cur.seq[i + 1].idx
                                                \/ (Cur.seq[i].idx = Cur.seq[i + 1].idx /\ Cur.seq[i].h = Cur.seq[i + 1].h)
           /\ pollsSeen' = TRUE
           /\ UNCHANGED <<case, phase, hl, nrecv, pending, lcmap, joined, tableSeen, fullSeen, tbl, folded, viol>>

StageSet == {Hdr.stages[i] : i \in 1..Len(Hdr.stages)}
Joined == /\ Ev("joined") /\ phase \in {"eos", "dropped"} /\ Cur.stage \in StageSet \ joined
          /\ joined' = joined \cup {Cur.stage}
          /\ UNCHANGED <<case, phase, hl, nrecv, pending, lcmap, tableSeen, fullSeen, tbl, folded, pollsSeen, viol>>
End == /\ Ev("end") /\ phase \in {"eos", "dropped"} /\ joined = StageSet
       /\ (phase = "eos" => tableSeen /\ folded = ObsSet /\ pollsSeen)
       /\ phase' = "ended" /\ UNCHANGED <<case, hl, nrecv, pending, lcmap, joined, tableSeen, fullSeen, tbl, folded, pollsSeen, viol>>

Matches == \/ ENABLED Recv \/ ENABLED Eos \/ ENABLED Drop \/ ENABLED FullHits \/ ENABLED Table \/ ENABLED Joined \/ ENABLED End
           \/ ENABLED LcFold \/ ENABLED LcPolls
Reject == /\ l <= Len(Rec) /\ Cur.ev # "reset" /\ phase \in {"running", "eos", "dropped"} /\ ~Matches
          /\ PrintT(<<"CASE_REJECTED", case, l, ToJson(Cur)>>)
          /\ l' = l + 1 /\ phase' = "rejected" /\ viol' = viol \cup {case}
          /\ UNCHANGED <<case, hl, nrecv, pending, lcmap, joined, tableSeen, fullSeen, tbl, folded, pollsSeen>>
SkipRest == /\ l <= Len(Rec) /\ Cur.ev # "reset" /\ phase \in {"rejected", "ended", "idle"}
            /\ l' = l + 1
            /\ IF phase = "ended" THEN viol' = viol \cup {case} /\ phase' = "rejected"   \* events after `end`
                                  ELSE UNCHANGED <<viol, phase>>
            /\ UNCHANGED <<case, hl, nrecv, pending, lcmap, joined, tableSeen, fullSeen, tbl, folded, pollsSeen>>

Next == Reset \/ Recv \/ Eos \/ Drop \/ FullHits \/ Table \/ LcFold \/ LcPolls \/ Joined \/ End \/ Reject \/ SkipRest
Spec == Init /\ [][Next]_vars

AtEnd == l = Len(Rec) + 1
FinalViol == IF phase \in {"running", "eos", "dropped"} THEN viol \cup {case} ELSE viol
Report == AtEnd => PrintT(<<"VERDICT", ToJson([violations |-> FinalViol, known |-> {}])>>)
Accepted == IF TLCGet("stats").diameter - 1 = Len(Rec) THEN TRUE
            ELSE Print(<<"TRACE_NOT_CONSUMED", TLCGet("stats").diameter, Len(Rec)>>, FALSE)
=============================================================================
