------------------------------ MODULE Plugins ------------------------------
(* C19 - plugin chains keep the message stream intact (src/plugins/*.rs, plugins_process_msgs in src/plugins/mod.rs).

   Contract = design for this area (DESIGN.md section 6, C19).

   A chain is a sequence of plugin kinds.  Per kind a *frame condition* - the message fields it may change - and
   MayDrop.  The observable message fields are
        idx rx ts ecu std ext vmm noar apid ctid pay text lc
   (index, reception time, timestamp, ECU, standard header, extended header present?, its type byte, its argument
   count, APID, CTID, payload bytes, decoded text, lifecycle).

     decoders (nonverbose, someip, can, muniic)   {text}, and a *missing* extended header may be filled (None -> Some)
     rewrite                                      {text, ts}
     ft_keep / ft_drop (file transfer)            {}       ft_drop may drop FLDA data packages
     export                                       {}       may drop
     anon (anonymise)                             {ecu, apid, ctid, pay, text}

   Stream contract: the outputs are the inputs in order, each at most once; an input is missing only where some
   plugin of the chain may drop it; the changed fields of an output are within the union of the frame conditions of
   the chain (plus the extended-header fields iff a decoder is in the chain and the header was missing before).

   Anonymisation contract (the operators MapStep / MapAdd): pseudonym tables  ecu -> e',  (e', apid) -> a',
   (e', apid, ctid) -> c'  that only grow, are functions (equal ids -> equal pseudonyms) and injective per name
   space (distinct ids -> distinct pseudonyms); times are outside its frame.

   The bounded model below runs every chain of up to MaxChain kinds on every stream of up to MaxIn abstract messages;
   each plugin nondeterministically touches any subset of its frame, fills a missing header if it is a decoder, or
   drops where it may.  TLC checks that the observable stream always satisfies the stream contract - i.e. that the
   per-kind frame conditions really compose to the chain-level contract used for trace validation.              *)
EXTENDS Integers, Sequences, FiniteSets, TLC, Json

Kinds == {"nonverbose", "someip", "can", "muniic", "rewrite", "ft_keep", "ft_drop", "export", "anon"}
Decoders == {"nonverbose", "someip", "can", "muniic"}
Fields == {"idx", "rx", "ts", "ecu", "std", "ext", "vmm", "noar", "apid", "ctid", "pay", "text", "lc"}
ExtFields == {"ext", "vmm", "noar", "apid", "ctid"}

Range(s) == {s[i] : i \in DOMAIN s}

Frame(k) == CASE k \in Decoders -> {"text"}
              [] k = "rewrite" -> {"text", "ts"}
              [] k = "anon" -> {"ecu", "apid", "ctid", "pay", "text"}
              [] OTHER -> {}
\* flda = the message is an FLDA data package (verbose log info, 5 arguments, framed by "FLDA") *from the source the file
\* transfer plugin is configured for*: its APID equals the configured apid (if one is configured) and its CTID equals the
\* configured ctid (if one is configured) - SourceMatch.  FLDA-shaped messages from any other source must pass.
SourceMatch(cfg, hasExt, apid, ctid) == /\ (cfg.apid = "" \/ (hasExt /\ apid = cfg.apid))
                                        /\ (cfg.ctid = "" \/ (hasExt /\ ctid = cfg.ctid))
\* save: no | mem (allowSave: data kept in memory) | auto (autoSavePath/autoSaveGlob: completed files are written) - none of
\* them may influence which messages are forwarded
FtCfgSpace == [apid : {"none", "match", "other"}, ctid : {"none", "match", "other"}, save : {"no", "mem", "auto"}]
KindMayDrop(k, flda) == k = "export" \/ (k = "ft_drop" /\ flda)

\* chain level
ChainFrame(chain) == UNION {Frame(k) : k \in Range(chain)}
MayFillExt(chain) == Range(chain) \cap Decoders # {}
Allowed(chain, hadExt, hasExt) == ChainFrame(chain) \cup (IF MayFillExt(chain) /\ ~hadExt /\ hasExt THEN ExtFields ELSE {})
\* (written without a quantifier: inside an action TLC enumerates the witnesses of an \E as alternatives - with several
\*  dropping kinds in the chain a "\A q : MayDrop(..)" over n inputs became 2^n identical successors)
MayDrop(chain, flda) == "export" \in Range(chain) \/ ("ft_drop" \in Range(chain) /\ flda)

\* pseudonym tables: sets of <<name space, original id, pseudonym, nr>>; nr = the entry was the nr-th new id of its
\* name space.  The code numbers pseudonyms <letter><nr as decimal, at least 3 digits> and cuts the text to the 4 characters
\* of a DLT id (DltChar4::from_str truncates): up to nr = 999 (the *capacity*) all pseudonyms of a name space differ; the
\* 1000th, 1001st, ... id gets "X1000", "X1001" cut to "X100" - the pseudonym of id no. 100 - in general the pseudonym of
\* the id whose number consists of the leading 3 digits of nr.  Within the capacity the contract is the property
\* (function + injective per name space); past it, it states exactly this documented overflow.
\* (Base and Digits are parameters so that PluginsAnon.tla can check the same operators on a small number system.)
RECURSIVE Pow(_, _)
Pow(b, k) == IF k = 0 THEN 1 ELSE b * Pow(b, k - 1)
RECURSIVE NDigits(_, _)
NDigits(n, b) == IF n < b THEN 1 ELSE 1 + NDigits(n \div b, b)
Leading(n, b, d) == IF NDigits(n, b) <= d THEN n ELSE n \div Pow(b, NDigits(n, b) - d)
CapOf(b, d) == Pow(b, d) - 1
InNs(map, ns) == {p \in map : p[1] = ns}
Known(map, ns, key) == \E p \in map : p[1] = ns /\ p[2] = key
MapStepG(map, ns, key, val, b, d) ==
    IF Known(map, ns, key)
    THEN \E p \in map : p[1] = ns /\ p[2] = key /\ p[3] = val                    \* equal ids -> equal pseudonyms
    ELSE LET n == Cardinality(InNs(map, ns)) + 1 IN
         IF n <= CapOf(b, d)
         THEN \A p \in map : p[1] = ns => p[3] # val                             \* distinct ids -> distinct pseudonyms
         ELSE \E p \in map : p[1] = ns /\ p[4] = Leading(n, b, d) /\ p[3] = val   \* past the capacity: cut to 4 characters
MapAdd(map, ns, key, val) == IF Known(map, ns, key) THEN map
                             ELSE map \cup {<<ns, key, val, Cardinality(InNs(map, ns)) + 1>>}
MapStep(map, ns, key, val) == MapStepG(map, ns, key, val, 10, 3)
Capacity == CapOf(10, 3)

\* well-formed chains: no kind twice, at most one file-transfer variant
WellFormed(chain) == /\ \A i, j \in DOMAIN chain : i # j => chain[i] # chain[j]
                     /\ ~({"ft_keep", "ft_drop"} \subseteq Range(chain))
ChainsUpTo(n) == {c \in UNION {[1..k -> Kinds] : k \in 0..n} : WellFormed(c)}

-----------------------------------------------------------------------------
CONSTANTS MaxChain, MaxIn

VARIABLES chain, ins, i, st, cur, outs, done
vars == <<chain, ins, i, st, cur, outs, done>>

InMsgs == [flda : BOOLEAN, ext : BOOLEAN]
NoCur == [ch |-> {}, ext |-> FALSE]

Init == /\ chain \in ChainsUpTo(MaxChain)
        /\ ins \in UNION {[1..k -> InMsgs] : k \in 0..MaxIn}
        /\ i = 1 /\ st = 1 /\ outs = <<>> /\ done = FALSE
        /\ cur = IF Len(ins) >= 1 THEN [ch |-> {}, ext |-> ins[1].ext] ELSE NoCur

NextMsg == /\ i' = i + 1 /\ st' = 1
           /\ cur' = IF i + 1 <= Len(ins) THEN [ch |-> {}, ext |-> ins[i + 1].ext] ELSE NoCur

\* the plugin at position st processes the current message
Process == /\ ~done /\ i <= Len(ins) /\ st <= Len(chain)
           /\ LET k == chain[st] IN
              \/ \E X \in SUBSET Frame(k) :
                    \E fill \in (IF k \in Decoders /\ ~cur.ext THEN BOOLEAN ELSE {FALSE}) :
                       /\ cur' = [ch |-> cur.ch \cup X \cup (IF fill THEN ExtFields ELSE {}), ext |-> cur.ext \/ fill]
                       /\ st' = st + 1 /\ UNCHANGED <<i, outs>>
              \/ /\ KindMayDrop(k, ins[i].flda) /\ NextMsg /\ UNCHANGED outs
           /\ UNCHANGED <<chain, ins, done>>
Forward == /\ ~done /\ i <= Len(ins) /\ st = Len(chain) + 1
           /\ outs' = Append(outs, [src |-> i, ch |-> cur.ch, ext |-> cur.ext])
           /\ NextMsg /\ UNCHANGED <<chain, ins, done>>
Finish == /\ ~done /\ i = Len(ins) + 1 /\ done' = TRUE /\ UNCHANGED <<chain, ins, i, st, cur, outs>>

Next == Process \/ Forward \/ Finish
Spec == Init /\ [][Next]_vars /\ WF_vars(Next)

-----------------------------------------------------------------------------
\* the property (C19, stream part) on the model
InOrderOnce == \A a, b \in DOMAIN outs : a < b => outs[a].src < outs[b].src
Forwarded == {outs[a].src : a \in DOMAIN outs}
DroppedOnlyWhereAllowed == \A j \in 1..(i - 1) : j \notin Forwarded => MayDrop(chain, ins[j].flda)
FramesRespected == \A a \in DOMAIN outs : outs[a].ch \subseteq Allowed(chain, ins[outs[a].src].ext, outs[a].ext)
UntouchedByDecoders == (Range(chain) \subseteq Decoders \cup {"rewrite", "ft_keep"}) =>
                          /\ Len(outs) = i - 1
                          /\ \A a \in DOMAIN outs : outs[a].ch \cap {"idx", "rx", "ecu", "pay", "lc"} = {}
TimesUntouchedByAnon == (Range(chain) \subseteq {"anon"}) => \A a \in DOMAIN outs : outs[a].ch \cap {"rx", "ts", "idx", "lc"} = {}
Terminates == <>done

\* scenario emission: one line per well-formed chain
EmitChains == (i = 1 /\ st = 1 /\ ~done /\ ins = <<>>) =>
                 /\ PrintT(<<"SCN", ToJson([chain |-> chain])>>)
                 /\ (chain = <<>> => \A cfg \in FtCfgSpace : PrintT(<<"FTCFG", ToJson(cfg)>>))
=============================================================================
