----------------------------- MODULE SeekChain -----------------------------
(* C20, part 1 - multi-volume archives read as one file (src/utils/seekablechain.rs).

   Design module: the SeekableChain as coded (abs_pos, cur_idx, rel_pos, every volume reader's own cursor)
   next to a reference cursor `ref` over the concatenation of the volumes.  Every operation records whether
   the contract held for it:

     ok    the returned data is Concat[ref .. ref+k), a zero-length read happens only for n = 0 or at the end,
           a seek returns the reference position (targets inside [0, Total] only - seeking beyond the end is
           clamped by design and outside the property's domain)
     kf    the operation was a zero-length read before the end at a position where an empty volume starts
           (defect #13 of DESIGN.md Appendix C: the chain does not skip empty volumes)

   TLC checks: Ok (non-empty volumes), OkOrKF (empty volumes allowed: the empty volume is the ONLY deviation),
   PosAgree.  With Emit = TRUE every transition (distinct state x operation) prints one scenario line: the path
   of operations leading to it with the results the model predicts and the contract verdict for the last step.
   `hist` is hidden by VIEW, so the state space stays the one of the machine itself.                          *)
EXTENDS Integers, Sequences, FiniteSets, TLC, Json

CONSTANTS MaxVol,      \* 1..MaxVol volumes
          MinSize,     \* 0 = empty volumes allowed
          MaxSize,
          Emit,        \* TRUE: print scenario lines
          Fixed        \* TRUE: the chain skips empty volumes in `new` (proposed fix) - used to validate the repair on the model

VARIABLES sizes, absPos, curIdx, relPos, cur, ref, ok, kf, hist
vars == <<sizes, absPos, curIdx, relPos, cur, ref, ok, kf, hist>>
View == <<sizes, absPos, curIdx, relPos, cur, ref, ok, kf>>

RECURSIVE SumTo(_, _)
SumTo(s, k) == IF k = 0 THEN 0 ELSE s[k] + SumTo(s, k - 1)
Min2(a, b) == IF a < b THEN a ELSE b
RECURSIVE VolOf(_, _, _)
VolOf(s, p, i) == IF p < s[i] THEN <<i, p>> ELSE VolOf(s, p - s[i], i + 1)

\* what the chain holds: with the fix, only the non-empty volumes
Held == IF Fixed THEN SelectSeq(sizes, LAMBDA x : x > 0) ELSE sizes
N == Len(Held)
Total == SumTo(sizes, Len(sizes))
\* identity of the byte at absolute position p of the concatenation of the volumes the chain holds
ByteAt(p) == VolOf(Held, p, 1)
\* an empty volume starts at reference position p (p < Total)
EmptyAt(p) == \E i \in 1..Len(sizes) : sizes[i] = 0 /\ SumTo(sizes, i - 1) = p

Init == /\ sizes \in UNION {[1..k -> MinSize..MaxSize] : k \in 1..MaxVol}
        /\ absPos = 0 /\ curIdx = 0 /\ relPos = 0 /\ cur = [i \in 1..Len(sizes) |-> 0]
        /\ ref = 0 /\ ok = TRUE /\ kf = FALSE /\ hist = <<>>

\* (ok' and kf' are assigned before Log is evaluated in every action)
Log(op, a, r) == /\ hist' = Append(hist, [op |-> op, a |-> a, r |-> r, ok |-> ok'])
                 /\ (Emit => PrintT(<<"SCN", ToJson([sizes |-> sizes, ops |-> hist', kf |-> kf'])>>))

Read(n) ==
  /\ UNCHANGED sizes
  /\ IF curIdx >= N THEN
        /\ ok' = (n = 0 \/ ref >= Total) /\ kf' = FALSE
        /\ UNCHANGED <<absPos, curIdx, relPos, cur, ref>>
        /\ Log("read", n, 0)
     ELSE LET i == curIdx + 1
              c0 == IF relPos = 0 THEN 0 ELSE cur[i]
              maxRead == Min2(IF Held[i] >= relPos THEN Held[i] - relPos ELSE 0, n)
              got == Min2(maxRead, IF Held[i] >= c0 THEN Held[i] - c0 ELSE 0)
              dataOk == \A j \in 0..(got - 1) : ref + j < Total /\ ByteAt(ref + j) = <<i, c0 + j>>
              zeroOk == got = 0 => (n = 0 \/ ref >= Total)
          IN /\ cur' = [cur EXCEPT ![i] = c0 + got]
             /\ absPos' = absPos + got /\ ref' = ref + got
             /\ (IF relPos + got >= Held[i] THEN curIdx' = curIdx + 1 /\ relPos' = 0
                                            ELSE curIdx' = curIdx /\ relPos' = relPos + got)
             /\ ok' = (dataOk /\ zeroOk)
             /\ kf' = (dataOk /\ ~zeroOk /\ EmptyAt(ref))
             /\ Log("read", n, got)

SeekAbs(op, a, p, refTarget) ==
  /\ UNCHANGED sizes /\ ref' = refTarget /\ kf' = FALSE
  /\ IF absPos = p THEN
        /\ ok' = (p = refTarget) /\ UNCHANGED <<absPos, curIdx, relPos, cur>> /\ Log(op, a, p)
     ELSE IF p >= Total THEN
        /\ absPos' = Total /\ curIdx' = N + 1 /\ relPos' = 0 /\ UNCHANGED cur
        /\ ok' = (Total = refTarget) /\ Log(op, a, Total)
     ELSE LET v == VolOf(Held, p, 1) IN
        /\ curIdx' = v[1] - 1 /\ relPos' = v[2] /\ absPos' = p /\ cur' = [cur EXCEPT ![v[1]] = v[2]]
        /\ ok' = (p = refTarget) /\ Log(op, a, p)

Next == \/ \E n \in 0..(MaxSize + 1) : Read(n)
        \/ \E p \in 0..Total : SeekAbs("start", p, p, p)
        \/ \E d \in -2..2 : ref + d >= 0 /\ ref + d <= Total /\ SeekAbs("cur", d, IF absPos + d < 0 THEN 0 ELSE absPos + d, ref + d)
        \/ \E d \in 0..2 : Total - d >= 0 /\ SeekAbs("end", 0 - d, Total - d, Total - d)
Spec == Init /\ [][Next]_vars

Ok == ok
OkOrKF == ok \/ kf
PosAgree == absPos = ref
=============================================================================
