------------------------------ MODULE ChunkTrace ------------------------------
(* C04, layer 2 - trace contract: the messages recognised in a byte stream do not depend on read chunking, capacity or position.

   One case = one byte stream. The header carries the REFERENCE parse (the whole byte string visible at once):
     {"ev":"reset","case":n,"hdr":{"framing":..,"total":bytes,"start":i,"ref":[{"index","off","len","hash"}...],"ref_ok":b,
                                   "embmax":[[off,len]...]   generated storage messages whose payload embeds the frame marker }}
   followed by any number of runs of the real DltMessageIterator on the same bytes:
     {"ev":"run","kind":"chunk","sched":name,"cap":CAP,"lm":LM,"drop":0}   over LowMarkBufReader over a scripted short-read source
     {"ev":"run","kind":"suffix",...,"drop":k}                              over the slice that starts right after the k-th reference
                                                                            message (start index + k)
     {"ev":"msg","index":i,"off":o,"len":n,"hash":h,"win":w}   one per yielded message (w = bytes visible to the parser at that moment)
     {"ev":"end","processed":p,"skipped":s,"index":i}
     {"ev":"panic",...}                                        no action matches

   Contract: every run yields exactly the reference messages (for a suffix run: the reference messages after the k-th),
   same order, same index, same offset (suffix: shifted by the cut), same length, same content hash.

   Known finding KF_C04_MaxMsgWindow (DESIGN.md Appendix C #2): with low mark = DLT_MAX_STORAGE_MSG_SIZE a message of (nearly)
   maximal size can end the visible window (fewer than 4 bytes visible behind it although the stream continues); the
   embedded-marker plausibility heuristic of parse_dlt_with_storage_header is then skipped and the message is accepted,
   whereas the reference (which sees the following bytes) rejects it and resynchronises on the embedded marker.            *)
EXTENDS Integers, Sequences, FiniteSets, TLC, Json, IOUtils

CONSTANT KF_C04_MaxMsgWindow

Rec == ndJsonDeserialize(IOEnv.TRACE)

VARIABLES l, case, phase, hdr, run, k, viol, kfUsed
vars == <<l, case, phase, hdr, run, k, viol, kfUsed>>

NoHdr == [total |-> 0, ref |-> <<>>, embmax |-> <<>>, ref_ok |-> TRUE]
NoRun == [kind |-> "none", lm |-> 0, drop |-> 0]
Init == l = 1 /\ case = -1 /\ phase = "idle" /\ hdr = NoHdr /\ run = NoRun /\ k = 0 /\ viol = {} /\ kfUsed = {}

Ev(e) == l <= Len(Rec) /\ Rec[l].ev = e /\ l' = l + 1
Cur == Rec[l]

\* a run that was started but never reached `end` (and was not excused) is a violation
Dangling == phase \in {"running"}

Reset == /\ Ev("reset")
         /\ case' = Cur.case /\ hdr' = Cur.hdr /\ run' = NoRun /\ k' = 0
         /\ phase' = (IF Cur.hdr.ref_ok THEN "between" ELSE "running")       \* reference parse panicked: the panic event follows
         /\ viol' = (IF Dangling THEN viol \cup {case} ELSE viol)
         /\ UNCHANGED kfUsed

Run == /\ Ev("run") /\ phase \in {"between", "kfskip"}
       /\ Cur.drop <= Len(hdr.ref)
       /\ run' = Cur /\ k' = Cur.drop /\ phase' = "running"
       /\ UNCHANGED <<case, hdr, viol, kfUsed>>

Cut == IF run.drop = 0 THEN 0 ELSE hdr.ref[run.drop].off + hdr.ref[run.drop].len

MsgOk == /\ k < Len(hdr.ref)
         /\ LET r == hdr.ref[k + 1] IN
              /\ Cur.index = r.index
              /\ Cur.off + Cut = r.off
              /\ Cur.len = r.len
              /\ Cur.hash = r.hash

Msg == /\ Ev("msg") /\ phase = "running" /\ MsgOk
       /\ k' = k + 1
       /\ UNCHANGED <<case, phase, hdr, run, viol, kfUsed>>

End == /\ Ev("end") /\ phase = "running"
       /\ k = Len(hdr.ref)                                   \* nothing missing
       /\ Cur.processed + Cut <= hdr.total
       /\ phase' = "between"
       /\ UNCHANGED <<case, hdr, run, k, viol, kfUsed>>

\* ---- known finding: (nearly) maximal message ends the visible window
KFWindow == /\ KF_C04_MaxMsgWindow
            /\ Ev("msg") /\ phase = "running" /\ ~MsgOk
            /\ run.kind = "chunk"
            /\ Cur.len + 4 > run.lm                              \* only possible for messages within 3 bytes of the low mark
            /\ Cur.win >= Cur.len /\ Cur.win - Cur.len < 4       \* fewer than 4 bytes visible behind the message ...
            /\ Cur.off + Cur.len + 4 <= hdr.total                \* ... although at least 4 more bytes exist
            /\ (\E i \in 1..Len(hdr.embmax) : hdr.embmax[i][1] = Cur.off /\ hdr.embmax[i][2] = Cur.len)   \* a generated message with an embedded marker
            /\ phase' = "kfskip"
            /\ kfUsed' = kfUsed \cup {[case |-> case, kf |-> "KF_C04_MaxMsgWindow"]}
            /\ UNCHANGED <<case, hdr, run, k, viol>>
\* after the deviation the two parses are no longer comparable: the rest of this run is not judged
KFSkip == /\ l <= Len(Rec) /\ phase = "kfskip" /\ Cur.ev \in {"msg", "end"}
          /\ l' = l + 1
          /\ UNCHANGED <<case, phase, hdr, run, k, viol, kfUsed>>

Matches == ENABLED Msg \/ ENABLED End \/ ENABLED KFWindow \/ ENABLED Run
Reject == /\ l <= Len(Rec) /\ Cur.ev # "reset" /\ phase \in {"running", "between", "kfskip"} /\ ~Matches /\ ~ENABLED KFSkip
          /\ PrintT(<<"CASE_REJECTED", case, l, ToJson([event |-> Cur, run |-> run, k |-> k,
                        expected |-> (IF k < Len(hdr.ref) THEN <<hdr.ref[k + 1]>> ELSE <<>>), cut |-> Cut])>>)
          /\ l' = l + 1 /\ phase' = "rejected" /\ viol' = viol \cup {case}
          /\ UNCHANGED <<case, hdr, run, k, kfUsed>>
SkipRest == /\ l <= Len(Rec) /\ Cur.ev # "reset" /\ phase \in {"rejected", "idle"}
            /\ l' = l + 1
            /\ UNCHANGED <<case, phase, hdr, run, k, viol, kfUsed>>

Next == Reset \/ Run \/ Msg \/ End \/ KFWindow \/ KFSkip \/ Reject \/ SkipRest
Spec == Init /\ [][Next]_vars

AtEnd == l = Len(Rec) + 1
FinalViol == IF Dangling THEN viol \cup {case} ELSE viol
Report == AtEnd => PrintT(<<"VERDICT", ToJson([violations |-> FinalViol, known |-> kfUsed])>>)
Accepted == IF TLCGet("stats").diameter - 1 = Len(Rec) THEN TRUE
            ELSE Print(<<"TRACE_NOT_CONSUMED", TLCGet("stats").diameter, Len(Rec)>>, FALSE)
=============================================================================
