--------------------------- MODULE ExtractVolumes ---------------------------
(* C20 - volume discovery (search_dir_for_multi_volume_archive, used by extract_archives): enumeration of directories
   that hold a real multi-volume archive  trace.zip.001..00k  next to a look-alike neighbour (decoy) whose name is
   prefix-/suffix-/case-related to it, and of the volume that is opened (any volume of either archive).
   Sanity checked by TLC on every such directory: the specified volume list (ExtractVolDefs!OwnVolumes) contains the
   opened volume, contains only volumes, never mixes the two archives.  One scenario line per directory x opened volume.

   Narrower reading: an archive with a GAP in its numbering (001, 003) only occurs as a neighbour and is never opened
   (whether 003 belongs to the archive is not fixed by the statement).                                            *)
EXTENDS ExtractVolDefs, TLC, Json

CONSTANTS MaxVol,     \* the real archive has 1..MaxVol volumes
          MaxDecoy,   \* the neighbour has 1..MaxDecoy files
          Decoys,     \* set of [prefix, ext, nd] shapes of the neighbour
          Emit

VARIABLES d, open, sevenz
vars == <<d, open, sevenz>>

Real(k) == [i \in 1..k |-> [prefix |-> "trace", ext |-> ".zip", num |-> i, nd |-> 3, arch |-> 1]]
\* the neighbour's files: numbered 1..m, or with a gap (1, 3)
Neigh(s, m, gap) == [i \in 1..m |-> [prefix |-> s.prefix, ext |-> s.ext, num |-> (IF gap /\ i = m /\ m > 1 THEN i + 1 ELSE i) * (IF s.nd = 4 THEN 10 ELSE 1),
                                     nd |-> s.nd, arch |-> 2]]
Dirs == {Real(k) \o Neigh(s, m, gap) : k \in 1..MaxVol, s \in Decoys, m \in 1..MaxDecoy, gap \in BOOLEAN}
HasGap(dd, o) == LET S == OwnIdx(dd, o, FALSE) IN \E i \in S : dd[i].num > Cardinality(S)

Init == /\ sevenz = FALSE
        /\ d \in Dirs
        /\ open \in {o \in 1..Len(d) : IsVol(d[o], sevenz) /\ ~HasGap(d, o)}
Next == UNCHANGED vars
Spec == Init /\ [][Next]_vars

Own == OwnVolumes(d, open, sevenz)
ContainsOpened == \E j \in 1..Len(Own) : Own[j] = open
OnlyOwnArchive == \A j \in 1..Len(Own) : d[Own[j]].arch = d[open].arch /\ IsVol(d[Own[j]], sevenz)
Ordered == \A j \in 1..(Len(Own) - 1) : d[Own[j]].num < d[Own[j + 1]].num
AllOfIt == \A i \in 1..Len(d) : (d[i].arch = d[open].arch /\ IsVol(d[i], sevenz)) => \E j \in 1..Len(Own) : Own[j] = i

EmitScn == Emit => PrintT(<<"SCN", ToJson([dir |-> d, open |-> open, own |-> Own])>>)
=============================================================================
