--------------------------- MODULE CtrlMsgsTrace ---------------------------
(* X07 - trace validation: recorded runs of the real control-message decoders and of the real text rendering against
   the contract of CtrlMsgsDefs.

   trace lines (ndjson), one case = one control message:
     {"ev":"reset","case":n,"hdr":{"src":..,"fam":..,"id":service id,"be":0|1,"typ":"request"|"response","noar":n,
                                   "short":number of service-id bytes present (4 = all),
                                   "pl":[payload bytes behind the service id; status byte first],
                                   "bind":1 if pl = <<status>> \o Mutate(Enc(lay, be, val), mut, tr) is claimed,
                                   "lay":layout (status) used for encoding,"val":[abstract applications],"mut":[k,a,b],"tr":[trailer]}}
     {"ev":"dec","svc":..,...}     what the decoder of the service returned for the payload behind the status byte
     {"ev":"text","head","rest","json","hdr4","req","resp"}      what adlt shows for the message
     {"ev":"end"}
     {"ev":"panic","at":..,"msg":..}   the code under test panicked (no contract action matches)

   Contract:
     Dec   the claimed binding holds (the driver really fed the encoding of the abstract value, mutated as stated), the
           result satisfies DecodeOk: for a payload whose grammar is satisfied exactly the denoted value (for an unmutated
           encoding that is Project(status, val): round trip), for a payload that ends early nothing or a prefix-consistent
           part, for the fixed-size services the value / nothing.
     Text  the text is TextExp(message shape, decoded value of this case): a function of service id, request/response,
           status byte and decoded value with the names of SvcNames / StatusText; header words and the request/response
           flags follow the message type.
   Known finding (switched on from known_findings.jsonl, confined to its circumstances):
     KF_X07_DescLenOverrun   a description whose length field exceeds the rest of the payload is dropped and decoding
                             continues right behind the length field (entries made of description bytes may be reported)
   A case that no action matches is recorded in `viol` and skipped up to the next reset.                         *)
EXTENDS CtrlMsgsDefs, Json, IOUtils

CONSTANT KF_X07_DescLenOverrun

Rec == ndJsonDeserialize(IOEnv.TRACE)

VARIABLES l, case, phase, hdr, dec, viol, kfUsed, stat
vars == <<l, case, phase, hdr, dec, viol, kfUsed, stat>>

NoHdr == [fam |-> "", id |-> 0, be |-> 0, typ |-> "", noar |-> 0, short |-> 4, pl |-> <<>>, bind |-> 0, lay |-> 0, val |-> <<>>,
          mut |-> <<9, 0, 0>>, tr |-> <<>>]
NoDec == [svc |-> "none"]
Init == /\ l = 1 /\ case = -1 /\ phase = "idle" /\ hdr = NoHdr /\ dec = NoDec /\ viol = {} /\ kfUsed = {} /\ stat = <<>>

Ev(e) == l <= Len(Rec) /\ Rec[l].ev = e /\ l' = l + 1
Cur == Rec[l]
Unfinished == phase \in {"start", "decoded", "texted"}
Bump(s, k) == IF k \in DOMAIN s THEN [s EXCEPT ![k] = @ + 1] ELSE s @@ (k :> 1)

Reset == /\ Ev("reset")
         /\ case' = Cur.case /\ hdr' = Cur.hdr /\ dec' = NoDec /\ phase' = "start"
         /\ viol' = (IF Unfinished THEN viol \cup {case} ELSE viol)           \* the previous case never ended
         /\ UNCHANGED <<kfUsed, stat>>

Be == hdr.be = 1
\* the driver fed what it claims: the encoding of the abstract value, mutated as stated
BindOk == hdr.bind = 1 => /\ Len(hdr.pl) >= 1
                          /\ Tail(hdr.pl) = Mutate(Be, Enc(hdr.lay, Be, hdr.val), hdr.mut, hdr.tr)
\* round trip, stated directly: an unmutated encoding (with or without trailer) decodes to exactly the value
RoundTripOk(o) == (hdr.bind = 1 /\ hdr.mut[1] = 0 /\ hdr.lay = hdr.pl[1]) => AppsOk(Project(hdr.lay, hdr.val), o.apps)

\* statistics: which part of the contract judged the case
DecPath(o, kf) ==
  IF o.svc # "loginfo" THEN o.svc \o (IF o.svc = "none" THEN "" ELSE IF o.some = 1 THEN ":some" ELSE ":none")
  ELSE LET r == Parse(hdr.pl[1], Be, Tail(hdr.pl), FALSE) IN
       "loginfo:" \o (IF r.ok THEN (IF r.w = "status" THEN "status" ELSE "complete") ELSE r.w) \o ":"
                  \o (IF kf THEN "kf" ELSE IF r.ok THEN (IF o.apps = <<>> THEN "empty" ELSE "value")
                      ELSE IF o.apps = <<>> THEN "nothing" ELSE IF Len(o.apps) = Len(r.apps) + 1 THEN "partial" ELSE "prefix")

Dec == /\ Ev("dec") /\ phase = "start"
       /\ BindOk
       /\ DecodeOk(hdr, Cur)
       /\ (Cur.svc = "loginfo" => RoundTripOk(Cur))
       /\ dec' = Cur /\ phase' = "decoded"
       /\ stat' = Bump(stat, DecPath(Cur, FALSE))
       /\ UNCHANGED <<case, hdr, viol, kfUsed>>

KF_DescLenOverrun ==
       /\ Ev("dec") /\ phase = "start"
       /\ KF_X07_DescLenOverrun
       /\ BindOk
       /\ DecSvc(hdr) = "loginfo" /\ Cur.svc = "loginfo"
       /\ LogInfoKF(hdr.pl[1], Be, Tail(hdr.pl), Cur.apps)
       /\ dec' = Cur /\ phase' = "decoded"
       /\ kfUsed' = kfUsed \cup {[case |-> case, kf |-> "KF_X07_DescLenOverrun"]}
       /\ stat' = Bump(stat, DecPath(Cur, TRUE))
       /\ UNCHANGED <<case, hdr, viol>>

TextPath == "text:" \o hdr.typ \o ":" \o (IF hdr.short < 4 THEN "short" ELSE IF Len(hdr.pl) = 0 THEN "nostatus"
                                         ELSE IF hdr.typ = "request" THEN "dump"
                                         ELSE IF TextExp(hdr, dec).json # <<>> THEN "json" ELSE IF DecSvc(hdr) = "swver" THEN "swver" ELSE "dump")
Text == /\ Ev("text") /\ phase = "decoded"
        /\ MsgTextOk(hdr, dec, Cur)
        /\ phase' = "texted"
        /\ stat' = Bump(stat, TextPath)
        /\ UNCHANGED <<case, hdr, dec, viol, kfUsed>>

End == /\ Ev("end") /\ phase = "texted"
       /\ phase' = "ended"
       /\ UNCHANGED <<case, hdr, dec, viol, kfUsed, stat>>

Matches == ENABLED Dec \/ ENABLED KF_DescLenOverrun \/ ENABLED Text \/ ENABLED End
Reject == /\ l <= Len(Rec) /\ Cur.ev # "reset" /\ Unfinished /\ ~Matches
          /\ PrintT(<<"CASE_REJECTED", case, l, ToJson([event |-> Cur, phase |-> phase])>>)
          /\ l' = l + 1 /\ phase' = "rejected" /\ viol' = viol \cup {case}
          /\ UNCHANGED <<case, hdr, dec, kfUsed, stat>>
SkipRest == /\ l <= Len(Rec) /\ Cur.ev # "reset" /\ phase \in {"rejected", "ended", "idle"}
            /\ l' = l + 1
            /\ IF phase = "ended" THEN viol' = viol \cup {case} /\ phase' = "rejected"     \* events after the end of the case
                                  ELSE UNCHANGED <<viol, phase>>
            /\ UNCHANGED <<case, hdr, dec, kfUsed, stat>>

Next == Reset \/ Dec \/ KF_DescLenOverrun \/ Text \/ End \/ Reject \/ SkipRest
Spec == Init /\ [][Next]_vars

AtEnd == l = Len(Rec) + 1
FinalViol == IF Unfinished THEN viol \cup {case} ELSE viol
Report == AtEnd => PrintT(<<"VERDICT", ToJson([violations |-> FinalViol, known |-> kfUsed,
                                               stat |-> [k \in DOMAIN stat |-> stat[k]]])>>)
Accepted == IF TLCGet("stats").diameter - 1 = Len(Rec) THEN TRUE
            ELSE Print(<<"TRACE_NOT_CONSUMED", TLCGet("stats").diameter, Len(Rec)>>, FALSE)
=============================================================================
