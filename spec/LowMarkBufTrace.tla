--------------------------- MODULE LowMarkBufTrace ---------------------------
(* C04, layer 1 - trace contract of the buffering reader alone (REAL numbers: CL = 4096, offsets < 2^31).

   trace lines (ndjson), one case = one reader over one scripted short-read source:
     {"ev":"reset","case":n,"hdr":{"cl":4096,"lm":LM,"capacity":CAP,"src_len":N,...}}
     {"ev":"fill","at":p,"len":n,"hash":h,"src_hash":g,"src_pos":s, pos,cap,abs_pos,eof, nreads,reads}
           fill_buf returned n bytes with hash h; g = hash of source bytes [p, p+n) (p = the driver's logical position)
     {"ev":"consume","n":n,...}
     {"ev":"read","n":requested,"k":returned,"at":p,"hash":h,"src_hash":g,...}
     {"ev":"seek","kind":"start"|"current","arg":a,"ok":b,"result":r,...}
     {"ev":"end"}       the driver stopped after fill_buf handed out an empty slice
     {"ev":"panic",...} no action matches

   The contract is the reader part of property C04 and nothing else (no cache-line arithmetic, no buffer geometry):
     * bytes are handed out exactly once and in order: every slice handed out at logical position cur is Source[cur, cur+len)
       (`cur` is kept HERE: it advances by consume/read and jumps by a successful seek),
     * low-water mark: fill_buf shows at least LM bytes unless everything up to the end of the source is shown,
     * no early end-of-data: an empty fill_buf slice / a 0-byte read into a non-empty buffer only at the end of the source,
     * a seek inside the window handed out last succeeds; a successful seek lands exactly on its target, a failed one
       does not move.

   Known finding KF_C04_SeekGap (found by this check): compaction moves the unread bytes to a cache-line aligned offset > 0
   and rebases abs_pos as if the `offset` bytes below were the preceding source bytes (they are stale). A backward
   seek(Start(n)) with abs_pos <= n < abs_pos + offset succeeds and the following fill_buf/read hands out stale bytes.
   The deviation actions KFFill / KFRead waive ONLY the content equality and ONLY while the logical position is inside
   that gap [abs_pos, gapEnd) (gapEnd is reconstructed from the reader's Debug state at the event where abs_pos moved).   *)
EXTENDS Integers, Sequences, FiniteSets, TLC, Json, IOUtils

CONSTANT KF_C04_SeekGap

Rec == ndJsonDeserialize(IOEnv.TRACE)

VARIABLES l, case, phase, hdr, cur, avail, viol, pabs, gapEnd, kfUsed
vars == <<l, case, phase, hdr, cur, avail, viol, pabs, gapEnd, kfUsed>>

NoHdr == [lm |-> 1, capacity |-> 0, src_len |-> 0]
Init == l = 1 /\ case = -1 /\ phase = "idle" /\ hdr = NoHdr /\ cur = 0 /\ avail = 0 /\ viol = {}
        /\ pabs = 0 /\ gapEnd = 0 /\ kfUsed = {}

Ev(e) == l <= Len(Rec) /\ Rec[l].ev = e /\ l' = l + 1
Cur == Rec[l]
Max(a, b) == IF a > b THEN a ELSE b

Reset == /\ Ev("reset")
         /\ case' = Cur.case /\ hdr' = Cur.hdr /\ cur' = 0 /\ avail' = 0 /\ phase' = "running"
         /\ viol' = (IF phase = "running" THEN viol \cup {case} ELSE viol)
         /\ pabs' = 0 /\ gapEnd' = 0 /\ UNCHANGED kfUsed

\* bookkeeping for the known finding only: where does the stale gap below the compacted bytes end (absolute position)
Track(consumedInOp) == /\ pabs' = Cur.abs_pos
                       /\ gapEnd' = (IF Cur.abs_pos # pabs THEN Cur.abs_pos + (Cur.pos - consumedInOp) ELSE gapEnd)
InGap == KF_C04_SeekGap /\ cur >= Cur.abs_pos /\ cur < gapEnd

FillRest == /\ Cur.at = cur                                              \* the slice starts at the logical position
            /\ Cur.at + Cur.len <= hdr.src_len                           \* nothing beyond the source
            /\ (Cur.len >= hdr.lm \/ Cur.at + Cur.len = hdr.src_len)     \* low-water mark kept (covers: empty only at the end)
            /\ Cur.src_pos <= hdr.src_len
            /\ avail' = Cur.len
            /\ Track(0)
            /\ UNCHANGED <<case, phase, hdr, cur, viol>>
Fill == /\ Ev("fill") /\ phase = "running"
        /\ Cur.hash = Cur.src_hash                                   \* exactly the source bytes [at, at+len)
        /\ FillRest /\ UNCHANGED kfUsed
KFFill == /\ Ev("fill") /\ phase = "running"
          /\ Cur.hash # Cur.src_hash /\ InGap                         \* stale bytes, position inside the compaction gap
          /\ FillRest /\ kfUsed' = kfUsed \cup {[case |-> case, kf |-> "KF_C04_SeekGap"]}

Consume == /\ Ev("consume") /\ phase = "running"
           /\ Cur.n <= avail                                         \* driver stays inside the BufRead domain
           /\ cur' = cur + Cur.n /\ avail' = avail - Cur.n
           /\ Track(0)
           /\ UNCHANGED <<case, phase, hdr, viol, kfUsed>>

ReadRest == /\ Cur.at = cur /\ Cur.k <= Cur.n
            /\ Cur.at + Cur.k <= hdr.src_len
            /\ (Cur.k = 0 => (Cur.n = 0 \/ cur = hdr.src_len))            \* 0 bytes only at the end
            /\ cur' = cur + Cur.k /\ avail' = 0
            /\ Track(Cur.k)
            /\ UNCHANGED <<case, phase, hdr, viol>>
Read == /\ Ev("read") /\ phase = "running"
        /\ Cur.hash = Cur.src_hash
        /\ ReadRest /\ UNCHANGED kfUsed
KFRead == /\ Ev("read") /\ phase = "running"
          /\ Cur.hash # Cur.src_hash /\ InGap
          /\ ReadRest /\ kfUsed' = kfUsed \cup {[case |-> case, kf |-> "KF_C04_SeekGap"]}

\* kind "end" = SeekFrom::End(arg): the reader documents it as unsupported (it cannot know the source length); it is never
\* REQUIRED to succeed, but whatever it answers must be consistent: Ok only with the exact target, Err without moving
Target == IF Cur.kind = "start" THEN Cur.arg
          ELSE IF Cur.kind = "end" THEN Max(0, hdr.src_len + Cur.arg)
          ELSE Max(0, cur + Cur.arg)
Seek == /\ Ev("seek") /\ phase = "running"
        /\ Target >= 0 /\ Target <= hdr.src_len                      \* driver domain
        /\ ((Cur.kind # "end" /\ Target >= cur /\ Target <= cur + avail) => Cur.ok)   \* inside the window handed out last: must succeed
        /\ (Cur.ok => Cur.result = Target)
        /\ cur' = (IF Cur.ok THEN Target ELSE cur) /\ avail' = 0
        /\ Track(0)
        /\ UNCHANGED <<case, phase, hdr, viol, kfUsed>>

\* {"ev":"peek","at":p,"len":n,"hash":h,"src_hash":g,"capacity":c}: the accessors buffer() / capacity() between calls -
\* what buffer() shows are the source bytes from the logical position on (any length), capacity() is the constructor's value
PeekRest == /\ Cur.at = cur /\ Cur.at + Cur.len <= hdr.src_len
            /\ Cur.capacity = hdr.capacity
            /\ Track(0)
            /\ UNCHANGED <<case, phase, hdr, cur, avail, viol>>
Peek == /\ Ev("peek") /\ phase = "running" /\ Cur.hash = Cur.src_hash /\ PeekRest /\ UNCHANGED kfUsed
KFPeek == /\ Ev("peek") /\ phase = "running" /\ Cur.hash # Cur.src_hash /\ InGap
          /\ PeekRest /\ kfUsed' = kfUsed \cup {[case |-> case, kf |-> "KF_C04_SeekGap"]}

End == /\ Ev("end") /\ phase = "running"
       /\ avail = 0 /\ cur = hdr.src_len                              \* everything was handed out
       /\ phase' = "ended" /\ UNCHANGED <<case, hdr, cur, avail, viol, pabs, gapEnd, kfUsed>>

Matches == ENABLED Fill \/ ENABLED Consume \/ ENABLED Read \/ ENABLED Seek \/ ENABLED End \/ ENABLED KFFill \/ ENABLED KFRead
           \/ ENABLED Peek \/ ENABLED KFPeek
Reject == /\ l <= Len(Rec) /\ Cur.ev # "reset" /\ phase = "running" /\ ~Matches
          /\ PrintT(<<"CASE_REJECTED", case, l, ToJson([event |-> Cur, cur |-> cur, avail |-> avail, gapEnd |-> gapEnd, hdr |-> hdr])>>)
          /\ l' = l + 1 /\ phase' = "rejected" /\ viol' = viol \cup {case}
          /\ UNCHANGED <<case, hdr, cur, avail, pabs, gapEnd, kfUsed>>
SkipRest == /\ l <= Len(Rec) /\ Cur.ev # "reset" /\ phase \in {"rejected", "ended", "idle"}
            /\ l' = l + 1
            /\ IF phase = "ended" THEN viol' = viol \cup {case} /\ phase' = "rejected"
                                  ELSE UNCHANGED <<viol, phase>>
            /\ UNCHANGED <<case, hdr, cur, avail, pabs, gapEnd, kfUsed>>

Next == Reset \/ Fill \/ KFFill \/ Consume \/ Read \/ KFRead \/ Seek \/ Peek \/ KFPeek \/ End \/ Reject \/ SkipRest
Spec == Init /\ [][Next]_vars

AtEnd == l = Len(Rec) + 1
FinalViol == IF phase = "running" THEN viol \cup {case} ELSE viol
Report == AtEnd => PrintT(<<"VERDICT", ToJson([violations |-> FinalViol, known |-> kfUsed])>>)
Accepted == IF TLCGet("stats").diameter - 1 = Len(Rec) THEN TRUE
            ELSE Print(<<"TRACE_NOT_CONSUMED", TLCGet("stats").diameter, Len(Rec)>>, FALSE)
=============================================================================
