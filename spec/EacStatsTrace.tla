---------------------------- MODULE EacStatsTrace ----------------------------
(* X01 - trace validation: recorded runs of the real adlt::utils::eac_stats::EacStats (harness/src/bin/x01.rs).

   trace lines (ndjson):
     {"ev":"reset","case":n,"hdr":{"src":..,"ops":[ input records, see EacStatsContract ], ...}}
     {"ev":"snap","after":i,"view":"direct"|"remote"|"split"|"wire","ecu":0|e,"total":t,"ecus":[ ECU entries ]}
          what was visible after the first i inputs had been fed:
            direct  the public maps of the collector (plus EacStats::nr_msgs / ApidStats::nr_msgs)
            remote  the same collector converted to the remote types, encoded as BinType::EacInfo, decoded again
            split   (after = all inputs) a second collector that was fed only the inputs of ECU `ecu`
            wire    (after = all inputs) the last EacInfo frame a websocket client of `adlt remote` received after
                    opening a file that holds exactly the messages of `ops`
     {"ev":"end"}
     {"ev":"panic","msg":..}                the code under test panicked (no action matches => violation)

   Contract (EacStatsContract!SnapOk is the statement): every snapshot satisfies SnapOk for the inputs fed so far;
   a remote snapshot shows exactly what the direct one taken at the same point shows (conversion preserves
   everything); a split snapshot satisfies SnapOk for that ECU's inputs alone AND equals the ECU's entry in the
   final snapshot of the collector that saw all ECUs interleaved (order independence between ECUs); a case ends
   only after its final direct (or wire) snapshot.  Cases that no action matches are recorded in `viol`.       *)
EXTENDS EacStatsContract, TLC, Json, IOUtils

Rec == ndJsonDeserialize(IOEnv.TRACE)

VARIABLES l, case, phase, hdr,
          lastAfter,      \* `after` of the latest snapshot (snapshots are taken in input order)
          direct,         \* canonical form of the latest direct snapshot, taken at dAfter
          dAfter,
          haveFinal,      \* a direct/wire snapshot after ALL inputs was seen
          viol
vars == <<l, case, phase, hdr, lastAfter, direct, dAfter, haveFinal, viol>>
cst == <<hdr, lastAfter, direct, dAfter, haveFinal>>

NoHdr == [src |-> "", ops |-> <<>>]
Init == /\ l = 1 /\ case = -1 /\ phase = "idle" /\ hdr = NoHdr /\ lastAfter = 0 /\ direct = {} /\ dAfter = -1
        /\ haveFinal = FALSE /\ viol = {}

Ev(e) == l <= Len(Rec) /\ Rec[l].ev = e /\ l' = l + 1
Cur == Rec[l]

Reset == /\ Ev("reset") /\ case' = Cur.case /\ hdr' = Cur.hdr /\ lastAfter' = 0 /\ direct' = {} /\ dAfter' = -1
         /\ haveFinal' = FALSE /\ phase' = "running"
         /\ viol' = (IF phase = "running" THEN viol \cup {case} ELSE viol)       \* previous case never ended

NOps == Len(hdr.ops)
Canon(ecus) == {CanonEcu(x) : x \in Elems(ecus)}
OnlyEcu(e) == SelectSeq(hdr.ops, LAMBDA o : o.e = e)

SnapDirect == /\ Cur.view = "direct"
              /\ SnapOk(hdr.ops, Cur.after, "direct", Cur.ecus, Cur.total)
              /\ SumsOk(hdr.ops, Cur.after, Cur.ecus, Cur.total)
SnapRemote == /\ Cur.view = "remote"
              /\ SnapOk(hdr.ops, Cur.after, "remote", Cur.ecus, Cur.total)
              /\ Cur.after = dAfter /\ Canon(Cur.ecus) = direct                  \* conversion preserves everything
SnapWire ==   /\ Cur.view = "wire" /\ Cur.after = NOps
              /\ SnapOk(hdr.ops, NOps, "remote", Cur.ecus, Cur.total)
SnapSplit ==  /\ Cur.view = "split" /\ Cur.after = NOps /\ haveFinal /\ dAfter = NOps
              /\ LET ops == OnlyEcu(Cur.ecu) IN
                 /\ SnapOk(ops, Len(ops), "split", Cur.ecus, Cur.total)
                 /\ SumsOk(ops, Len(ops), Cur.ecus, Cur.total)
              /\ Canon(Cur.ecus) = {y \in direct : y.ecu = Cur.ecu}             \* same result as interleaved

Snap == /\ Ev("snap") /\ phase = "running"
        /\ Cur.after \in lastAfter..NOps
        /\ (SnapDirect \/ SnapRemote \/ SnapWire \/ SnapSplit)
        /\ lastAfter' = Cur.after
        /\ direct' = (IF Cur.view = "direct" THEN Canon(Cur.ecus) ELSE direct)
        /\ dAfter' = (IF Cur.view = "direct" THEN Cur.after ELSE dAfter)
        /\ haveFinal' = (haveFinal \/ (Cur.view \in {"direct", "wire"} /\ Cur.after = NOps))
        /\ UNCHANGED <<case, phase, hdr, viol>>

End == /\ Ev("end") /\ phase = "running" /\ haveFinal
       /\ phase' = "ended" /\ UNCHANGED <<case, cst, viol>>

Matches == ENABLED Snap \/ ENABLED End

\* diagnostics for a rejected snapshot: which ECU entries fail, and which of the cross-snapshot equalities
Why == IF Cur.ev # "snap" THEN [event |-> Cur.ev]
       ELSE LET ops == IF Cur.view = "split" THEN OnlyEcu(Cur.ecu) ELSE hdr.ops
                n == IF Cur.view = "split" THEN Len(ops) ELSE (IF Cur.after \in 0..NOps THEN Cur.after ELSE 0)
                v == IF Cur.view = "wire" THEN "remote" ELSE Cur.view
            IN [event |-> "snap", view |-> Cur.view, after |-> Cur.after, ecu |-> Cur.ecu,
                ecus_listed |-> [i \in 1..Len(Cur.ecus) |-> Cur.ecus[i].ecu], ecus_expected |-> MustEcus(ops, n),
                bad_ecu_entries |-> {Cur.ecus[i] : i \in {j \in 1..Len(Cur.ecus) : ~EcuOk(ops, n, v, Cur.ecus[j])}},
                total |-> Cur.total, total_expected |-> Total(ops, n),
                in_order |-> (Cur.after \in lastAfter..NOps),
                same_as_direct |-> (Cur.view # "remote" \/ (Cur.after = dAfter /\ Canon(Cur.ecus) = direct)),
                same_as_interleaved |-> (Cur.view # "split" \/ Canon(Cur.ecus) = {y \in direct : y.ecu = Cur.ecu})]

Reject == /\ l <= Len(Rec) /\ Cur.ev # "reset" /\ phase = "running" /\ ~Matches
          /\ PrintT(<<"CASE_REJECTED", case, l, ToJson(Why)>>)
          /\ l' = l + 1 /\ phase' = "rejected" /\ viol' = viol \cup {case}
          /\ UNCHANGED <<case, cst>>
SkipRest == /\ l <= Len(Rec) /\ Cur.ev # "reset" /\ phase \in {"rejected", "ended", "idle"}
            /\ l' = l + 1
            /\ IF phase = "ended" THEN viol' = viol \cup {case} /\ phase' = "rejected"   \* events after `end`
                                  ELSE UNCHANGED <<viol, phase>>
            /\ UNCHANGED <<case, cst>>

Next == Reset \/ Snap \/ End \/ Reject \/ SkipRest
Spec == Init /\ [][Next]_vars

AtEnd == l = Len(Rec) + 1
FinalViol == IF phase = "running" THEN viol \cup {case} ELSE viol
Report == AtEnd => PrintT(<<"VERDICT", ToJson([violations |-> FinalViol, known |-> {}])>>)
Accepted == IF TLCGet("stats").diameter - 1 = Len(Rec) THEN TRUE
            ELSE Print(<<"TRACE_NOT_CONSUMED", TLCGet("stats").diameter, Len(Rec)>>, FALSE)
=============================================================================
