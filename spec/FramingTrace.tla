---------------------------- MODULE FramingTrace ----------------------------
(* C01 - trace contract: complete, faithful recovery of DLT messages between marker-free garbage (REAL numbers).

   One case = one run of the real DltMessageIterator over one generated (or repository) byte stream.
     {"ev":"reset","case":n,"hdr":{"framing":"storage"|"serial","start":i,"total":bytes,
            "msgs":[{"off","len","rec":{ecu,tknown,secs,micros,wtms,tmsp,mcnt,htyp,len,ext,paylen,payhash}}...],   ground truth
            "garb":[g0..gn]  garbage bytes before message 1..n and after the last one (n+1 entries)}}
     {"ev":"yield","index":i,"rec":{...same shape, projected from the yielded DltMessage},"processed":p,"skipped":s}
     {"ev":"end","index":i,"processed":p,"skipped":s,"storage":b,"serial":b}       next() returned None
     {"ev":"panic",...}                                                             no action matches

   Contract = the statement of C01: the k-th yield is the k-th message of the stream - index start+k-1, every header
   field and the payload (length + hash) as generated - with bytes_processed = end of that message and bytes_skipped =
   garbage so far; `end` only after all messages, with unconsumed = total - processed inside the trailing garbage run and
   shorter than a minimal message (20 bytes storage, 8 bytes serial; 20 when the stream has no message at all and the
   framing was never latched), bytes_skipped = all garbage - unconsumed, processed <= total.
   Fields a framing does not carry are not compared (serial framing: reception time; ECU unless the header has WEID).

   Known finding KF_C01_ShortSerial (DESIGN.md Appendix C #1): while no framing is latched the storage probe answers
   NotEnoughData as soon as fewer than 20 bytes remain and the iterator stops; a serial stream whose FIRST message starts
   within the last 19 bytes of the input (in particular every serial stream of total length 8..19) yields nothing.        *)
EXTENDS Integers, Sequences, FiniteSets, TLC, Json, IOUtils

CONSTANT KF_C01_ShortSerial

Rec == ndJsonDeserialize(IOEnv.TRACE)

VARIABLES l, case, phase, hdr, k, sk, viol, kfUsed
vars == <<l, case, phase, hdr, k, sk, viol, kfUsed>>

NoHdr == [framing |-> "storage", start |-> 0, total |-> 0, msgs |-> <<>>, garb |-> <<0>>]
Init == l = 1 /\ case = -1 /\ phase = "idle" /\ hdr = NoHdr /\ k = 0 /\ sk = 0 /\ viol = {} /\ kfUsed = {}

Ev(e) == l <= Len(Rec) /\ Rec[l].ev = e /\ l' = l + 1
Cur == Rec[l]

Reset == /\ Ev("reset")
         /\ Len(Cur.hdr.garb) = Len(Cur.hdr.msgs) + 1                       \* well-formed header (driver sanity)
         /\ case' = Cur.case /\ hdr' = Cur.hdr /\ k' = 0 /\ sk' = 0 /\ phase' = "running"
         /\ viol' = (IF phase = "running" THEN viol \cup {case} ELSE viol)
         /\ UNCHANGED kfUsed

RecEq(o, t) == /\ o.mcnt = t.mcnt /\ o.htyp = t.htyp /\ o.len = t.len
               /\ o.wtms = t.wtms /\ o.tmsp = t.tmsp
               /\ o.ext = t.ext
               /\ o.paylen = t.paylen /\ o.payhash = t.payhash
               /\ (t.ecu # <<>> => o.ecu = t.ecu)
               /\ (t.tknown => (o.secs = t.secs /\ o.micros = t.micros))

Yield == /\ Ev("yield") /\ phase = "running"
         /\ k < Len(hdr.msgs)
         /\ LET m == hdr.msgs[k + 1] IN
              /\ Cur.index = hdr.start + k                                  \* numbered consecutively from the start index
              /\ RecEq(Cur.rec, m.rec)                                      \* every header field and the payload intact
              /\ Cur.processed = m.off + m.len                              \* consumed exactly up to the end of that message
              /\ Cur.skipped = sk + hdr.garb[k + 1]                         \* skipped = the garbage so far
              /\ Cur.processed <= hdr.total
         /\ k' = k + 1 /\ sk' = sk + hdr.garb[k + 1]
         /\ UNCHANGED <<case, phase, hdr, viol, kfUsed>>

MinEnd == IF hdr.framing = "serial" /\ Len(hdr.msgs) > 0 THEN 8 ELSE 20
Trailing == hdr.garb[Len(hdr.garb)]

End == /\ Ev("end") /\ phase = "running"
       /\ k = Len(hdr.msgs)                                                 \* complete
       /\ Cur.index = hdr.start + k
       /\ LET unconsumed == hdr.total - Cur.processed IN
            /\ unconsumed >= 0 /\ unconsumed < MinEnd /\ unconsumed <= Trailing
            /\ Cur.skipped = sk + Trailing - unconsumed
       /\ phase' = "ended"
       /\ UNCHANGED <<case, hdr, k, sk, viol, kfUsed>>

\* ---- known finding: storage probe starves the serial probe within the last 19 bytes
KFEnd == /\ KF_C01_ShortSerial
         /\ Ev("end") /\ phase = "running"
         /\ hdr.framing = "serial" /\ k = 0 /\ Len(hdr.msgs) > 0             \* nothing recognised, so no framing latched
         /\ hdr.total - Cur.processed < 20 /\ hdr.total - Cur.processed >= 0 \* fewer than a minimal storage message left
         /\ Cur.skipped = Cur.processed /\ Cur.processed <= hdr.garb[1]      \* only leading garbage was passed over
         /\ Cur.index = hdr.start
         /\ phase' = "ended"
         /\ kfUsed' = kfUsed \cup {[case |-> case, kf |-> "KF_C01_ShortSerial"]}
         /\ UNCHANGED <<case, hdr, k, sk, viol>>

Matches == ENABLED Yield \/ ENABLED End \/ ENABLED KFEnd
Reject == /\ l <= Len(Rec) /\ Cur.ev # "reset" /\ phase = "running" /\ ~Matches
          /\ PrintT(<<"CASE_REJECTED", case, l, ToJson([event |-> Cur, k |-> k, skipped_expected |-> sk,
                        expected |-> (IF k < Len(hdr.msgs) THEN <<hdr.msgs[k + 1]>> ELSE <<>>),
                        framing |-> hdr.framing, total |-> hdr.total, nmsgs |-> Len(hdr.msgs)])>>)
          /\ l' = l + 1 /\ phase' = "rejected" /\ viol' = viol \cup {case}
          /\ UNCHANGED <<case, hdr, k, sk, kfUsed>>
SkipRest == /\ l <= Len(Rec) /\ Cur.ev # "reset" /\ phase \in {"rejected", "ended", "idle"}
            /\ l' = l + 1
            /\ IF phase = "ended" THEN viol' = viol \cup {case} /\ phase' = "rejected"     \* events after `end`
                                  ELSE UNCHANGED <<viol, phase>>
            /\ UNCHANGED <<case, hdr, k, sk, kfUsed>>
\* a malformed header is a driver error: skip the case loudly (counted as violation so that it cannot hide)
BadReset == /\ l <= Len(Rec) /\ Cur.ev = "reset" /\ Len(Cur.hdr.garb) # Len(Cur.hdr.msgs) + 1
            /\ l' = l + 1 /\ case' = Cur.case /\ phase' = "rejected" /\ viol' = viol \cup {Cur.case}
            /\ UNCHANGED <<hdr, k, sk, kfUsed>>

Next == Reset \/ BadReset \/ Yield \/ End \/ KFEnd \/ Reject \/ SkipRest
Spec == Init /\ [][Next]_vars

AtEnd == l = Len(Rec) + 1
FinalViol == IF phase = "running" THEN viol \cup {case} ELSE viol
Report == AtEnd => PrintT(<<"VERDICT", ToJson([violations |-> FinalViol, known |-> kfUsed])>>)
Accepted == IF TLCGet("stats").diameter - 1 = Len(Rec) THEN TRUE
            ELSE Print(<<"TRACE_NOT_CONSUMED", TLCGet("stats").diameter, Len(Rec)>>, FALSE)
=============================================================================
