------------------------ MODULE ExtractVolumesTrace ------------------------
(* C20 - trace validation of the volume discovery and of extract_archives on a multi-volume archive that has a
   look-alike neighbour in the same directory.

   trace lines (ndjson):
     {"ev":"reset","case":n,"hdr":{"dir":[{"prefix","ext","num","nd","arch","name"}],   every file of the directory
                                   "open":o, "sevenz":b,                                  the volume that is opened; libarchive built in
                                   "archs":[[{"name","len","hash"}],[..]]}}               the members of archive 1 (real) and 2 (neighbour)
     {"ev":"search","found":[i,..]}     search_dir_for_multi_volume_archive(dir[o]): indices into dir of the returned paths (0 = unknown path)
     {"ev":"extract","reported":[{"arch":a,"m":k,"inside":b,"len":l,"hash":h}]}   extract_archives(dir[o]): per reported file the
                                        archive/member with that file name (0 = none), whether it lies in the temp dir, its bytes
     {"ev":"end"} / {"ev":"panic","msg":..}

   Contract: the volume list is exactly ExtractVolDefs!OwnVolumes (the opened archive's own volumes, ordered); the files
   extracted and reported are exactly the members of the opened archive, with their bytes - whatever the neighbour is called. *)
EXTENDS ExtractVolDefs, TLC, Json, IOUtils

Rec == ndJsonDeserialize(IOEnv.TRACE)

VARIABLES l, case, phase, hdr, step, viol
vars == <<l, case, phase, hdr, step, viol>>

NoHdr == [dir |-> <<>>, open |-> 0, sevenz |-> FALSE, archs |-> <<>>]
Init == l = 1 /\ case = -1 /\ phase = "idle" /\ hdr = NoHdr /\ step = 0 /\ viol = {}

Ev(e) == l <= Len(Rec) /\ Rec[l].ev = e /\ l' = l + 1
Cur == Rec[l]

Reset == /\ Ev("reset")
         /\ case' = Cur.case /\ hdr' = Cur.hdr /\ step' = 0 /\ phase' = "running"
         /\ viol' = (IF phase = "running" THEN viol \cup {case} ELSE viol)

Search == /\ Ev("search") /\ phase = "running" /\ step = 0
          /\ Cur.found = OwnVolumes(hdr.dir, hdr.open, hdr.sevenz)
          /\ step' = 1 /\ UNCHANGED <<case, phase, hdr, viol>>

Mine == hdr.archs[hdr.dir[hdr.open].arch]
Extract == /\ Ev("extract") /\ phase = "running" /\ step = 1
           /\ \A j \in 1..Len(Cur.reported) : LET r == Cur.reported[j] IN
                 /\ r.inside /\ r.arch = hdr.dir[hdr.open].arch /\ r.m \in 1..Len(Mine)
                 /\ r.len = Mine[r.m].len /\ r.hash = Mine[r.m].hash
           /\ \A k \in 1..Len(Mine) : Cardinality({j \in 1..Len(Cur.reported) : Cur.reported[j].m = k}) = 1
           /\ step' = 2 /\ UNCHANGED <<case, phase, hdr, viol>>

End == /\ Ev("end") /\ phase = "running" /\ step = 2
       /\ phase' = "ended" /\ UNCHANGED <<case, hdr, step, viol>>

Matches == ENABLED Search \/ ENABLED Extract \/ ENABLED End
Reject == /\ l <= Len(Rec) /\ Cur.ev # "reset" /\ phase = "running" /\ ~Matches
          /\ PrintT(<<"CASE_REJECTED", case, l, ToJson(Cur)>>)
          /\ l' = l + 1 /\ phase' = "rejected" /\ viol' = viol \cup {case}
          /\ UNCHANGED <<case, hdr, step>>
SkipRest == /\ l <= Len(Rec) /\ Cur.ev # "reset" /\ phase \in {"rejected", "ended", "idle"}
            /\ l' = l + 1
            /\ (IF phase = "ended" THEN viol' = viol \cup {case} /\ phase' = "rejected"
                                   ELSE UNCHANGED <<viol, phase>>)
            /\ UNCHANGED <<case, hdr, step>>

Next == Reset \/ Search \/ Extract \/ End \/ Reject \/ SkipRest
Spec == Init /\ [][Next]_vars

AtEnd == l = Len(Rec) + 1
FinalViol == IF phase = "running" THEN viol \cup {case} ELSE viol
Report == AtEnd => PrintT(<<"VERDICT", ToJson([violations |-> FinalViol, known |-> {}])>>)
Accepted == IF TLCGet("stats").diameter - 1 = Len(Rec) THEN TRUE
            ELSE Print(<<"TRACE_NOT_CONSUMED", TLCGet("stats").diameter, Len(Rec)>>, FALSE)
=============================================================================
