--------------------------- MODULE TextConvTrace ---------------------------
(* X04 - trace validation: recorded runs of the real text-log converters against the contract of TextConvDefs.

   trace lines (ndjson):
     {"ev":"reset","case":n,"hdr":{"kind":"asc"|"logcat"|"genlog","nsmod":namespace mod 100,"files":[file,...],...}}
     {"ev":"file","f":k}          a fresh iterator starts on file k (1-based, in order, same namespace)
     {"ev":"msg", ...}            one per message yielded by next() (fields: TextConvDefs)
     {"ev":"eof","f":k}           next() returned None
     {"ev":"panic","f":k,"msg":s} the converter panicked (matches no contract action; the known finding below excepted)

   Contract: when a file starts, Exp(kind, file) is the sequence of messages it must yield (one per record line, the
   announcement of a tag before its first record, nothing for other lines); every `msg` must be the next expected one
   (numbering, reception time in the file's time base, time stamp, content) with a name (ECU / APID) that is the one
   first given to its channel name / tag, and a new one for a new name; `eof` only when nothing is expected any more.
   Known findings (switched on from known_findings.jsonl, each confined to its circumstances):
     KF_X04_AscUpperHexId     a frame whose id is written with upper-case hex letters yields nothing
     KF_X04_AscNoTrailData    a CAN / CAN FD line that ends with its last data byte yields a message without data bytes
     KF_X04_LogcatPrevYear    a logcat date that the year rule puts into the previous year makes the converter panic
   A case that no action matches is recorded in `viol` and skipped up to the next reset.                          *)
EXTENDS TextConvDefs, Json, IOUtils

CONSTANTS KF_X04_AscUpperHexId, KF_X04_AscNoTrailData, KF_X04_LogcatPrevYear

Rec == ndJsonDeserialize(IOEnv.TRACE)

VARIABLES l, case, phase, hdr, f, exp, n, cnt, base, names, viol, kfUsed, stat
vars == <<l, case, phase, hdr, f, exp, n, cnt, base, names, viol, kfUsed, stat>>
cst == <<hdr, f, exp, n, cnt, base, names>>

NoHdr == [kind |-> "", nsmod |-> 0, files |-> <<>>]
Init == /\ l = 1 /\ case = -1 /\ phase = "idle" /\ hdr = NoHdr /\ f = 0 /\ exp = <<>> /\ n = 1 /\ cnt = 0 /\ base = NoBase
        /\ names = <<>> /\ viol = {} /\ kfUsed = {} /\ stat = <<>>

Ev(e) == l <= Len(Rec) /\ Rec[l].ev = e /\ l' = l + 1
Cur == Rec[l]
Unfinished == phase \in {"between", "infile"}
Bump(s, k) == IF k \in DOMAIN s THEN [s EXCEPT ![k] = @ + 1] ELSE s @@ (k :> 1)

Reset == /\ Ev("reset")
         /\ case' = Cur.case /\ hdr' = Cur.hdr /\ f' = 0 /\ exp' = <<>> /\ n' = 1 /\ cnt' = 0 /\ base' = NoBase /\ names' = <<>>
         /\ phase' = "between"
         /\ viol' = (IF Unfinished THEN viol \cup {case} ELSE viol)           \* the previous case never ended
         /\ UNCHANGED <<kfUsed, stat>>

File == /\ Ev("file") /\ phase = "between" /\ Cur.f = f + 1 /\ Cur.f <= Len(hdr.files)
        /\ f' = Cur.f /\ exp' = Exp(hdr.kind, hdr.files[Cur.f], Cur.f) /\ n' = 1 /\ cnt' = 0 /\ base' = NoBase
        /\ phase' = "infile"
        /\ UNCHANGED <<case, hdr, names, viol, kfUsed, stat>>

FH == hdr.files[f]
N2 == SkipKF(KF_X04_AscUpperHexId, hdr.kind, hdr.nsmod, FH, cnt, base, names, exp, n, Cur)
PathOf(e, m) == hdr.kind \o ":" \o e.cls \o (IF e.mode # "" THEN ":" \o e.mode ELSE "") \o (IF e.rxm = "rel" THEN ":nodate" ELSE "") \o (IF e.dmsAny THEN ":anyts" ELSE "")
                \o (IF e.keyAny THEN ":anyname" ELSE IF e.key \in DOMAIN names THEN "" ELSE ":newname")
Msg == /\ Ev("msg") /\ phase = "infile"
       /\ N2 <= Len(exp)
       /\ MsgOK(hdr.kind, hdr.nsmod, FH, cnt, base, exp[N2], Cur, KF_X04_AscNoTrailData)
       /\ NameOK(names, exp[N2], NameOf(hdr.kind, Cur))
       /\ n' = N2 + 1 /\ cnt' = cnt + 1
       /\ base' = BaseNext(exp[N2], Cur, base)
       /\ names' = NameNext(names, exp[N2], NameOf(hdr.kind, Cur))
       /\ kfUsed' = kfUsed \cup (IF N2 > n THEN {[case |-> case, kf |-> "KF_X04_AscUpperHexId"]} ELSE {})
                           \cup (IF exp[N2].cls = "can" /\ Cur.data # exp[N2].data THEN {[case |-> case, kf |-> "KF_X04_AscNoTrailData"]} ELSE {})
       /\ stat' = Bump(stat, PathOf(exp[N2], Cur))
       /\ UNCHANGED <<case, phase, hdr, f, exp, viol>>

RestSkippable == \A j \in n..Len(exp) : KF_X04_AscUpperHexId /\ exp[j].kfskip
Eof == /\ Ev("eof") /\ phase = "infile" /\ Cur.f = f
       /\ RestSkippable
       /\ phase' = (IF f = Len(hdr.files) THEN "ended" ELSE "between")
       /\ kfUsed' = kfUsed \cup (IF n <= Len(exp) THEN {[case |-> case, kf |-> "KF_X04_AscUpperHexId"]} ELSE {})
       /\ stat' = Bump(stat, hdr.kind \o ":eof")
       /\ UNCHANGED <<case, hdr, f, exp, n, cnt, base, names, viol>>

\* known finding: the record whose date lies in the previous year panics (nothing of that line is yielded; the case ends)
KF_PrevYearPanic == /\ Ev("panic") /\ phase = "infile" /\ Cur.f = f
                    /\ KF_X04_LogcatPrevYear /\ hdr.kind = "logcat" /\ n <= Len(exp) /\ exp[n].kfprev
                    /\ phase' = "ended"
                    /\ kfUsed' = kfUsed \cup {[case |-> case, kf |-> "KF_X04_LogcatPrevYear"]}
                    /\ stat' = Bump(stat, "logcat:panic-prev-year")
                    /\ UNCHANGED <<case, hdr, f, exp, n, cnt, base, names, viol>>

Matches == ENABLED File \/ ENABLED Msg \/ ENABLED Eof \/ ENABLED KF_PrevYearPanic
Reject == /\ l <= Len(Rec) /\ Cur.ev # "reset" /\ Unfinished /\ ~Matches
          /\ PrintT(<<"CASE_REJECTED", case, l, ToJson([event |-> Cur, file |-> f, yielded |-> cnt,
                       expected |-> IF phase = "infile" /\ n <= Len(exp) THEN <<exp[n]>> ELSE <<>>])>>)
          /\ l' = l + 1 /\ phase' = "rejected" /\ viol' = viol \cup {case}
          /\ UNCHANGED <<case, cst, kfUsed, stat>>
SkipRest == /\ l <= Len(Rec) /\ Cur.ev # "reset" /\ phase \in {"rejected", "ended", "idle"}
            /\ l' = l + 1
            /\ IF phase = "ended" THEN viol' = viol \cup {case} /\ phase' = "rejected"     \* events after the end of the case
                                  ELSE UNCHANGED <<viol, phase>>
            /\ UNCHANGED <<case, cst, kfUsed, stat>>

Next == Reset \/ File \/ Msg \/ Eof \/ KF_PrevYearPanic \/ Reject \/ SkipRest
Spec == Init /\ [][Next]_vars

AtEnd == l = Len(Rec) + 1
FinalViol == IF Unfinished THEN viol \cup {case} ELSE viol
Report == AtEnd => PrintT(<<"VERDICT", ToJson([violations |-> FinalViol, known |-> kfUsed,
                                               stat |-> [k \in DOMAIN stat |-> stat[k]]])>>)
Accepted == IF TLCGet("stats").diameter - 1 = Len(Rec) THEN TRUE
            ELSE Print(<<"TRACE_NOT_CONSUMED", TLCGet("stats").diameter, Len(Rec)>>, FALSE)
=============================================================================
