------------------------- MODULE RewritePluginTrace -------------------------
(* X06 - the contract of the Rewrite plugin and the plugin factory (RewritePluginDefs.tla), evaluated on recorded
   executions of the REAL code: get_plugin / RewritePlugin::from_json per configuration, then plugins_process_msgs over the
   chain of the created Rewrite plugins (harness pass-through plugins in between) and a stream of messages.

   trace lines (ndjson); tokens are sequences of character codes, time stamps [s, f] = s * 10000 + f units of 0.1 ms:
     {"ev":"reset","case":n,"hdr":{"path":"factory"|"direct","src":..,"cfgs":[configuration..],"n":messages sent}}
          configuration / rule / pattern / filter records as described in RewritePluginDefs.tla
     {"ev":"create","i":configuration (1..),"res":"some"|"none","name":s,"enabled":b,"st_name":s,"labels":[s..],"gen":n}
          what get_plugin / from_json returned: Plugin::name(), enabled(), the state's "name", the labels of its treeItems
          and its generation ("" / false / [] / 0 when nothing was created); labels are recorded for Rewrite plugins only
          (direct path, or name() = "Rewrite"), [] for the other plugins (their tree depends on their environment)
     {"ev":"msg","k":k-th message that left the chain,"idx":its position in the input stream,
          "inp":{"ecu","hasext","apid","ctid","ts","pthas","pt","raw"},    the message as sent (raw = the text its payload decodes to)
          "out":{"ts","pthas","pt","text","same"}}                        as received: time stamp, payload text, payload_as_text(),
                                                                          same = every other field equals the message sent
     {"ev":"end","ok":b,"nfwd":n,"chain":plugins given,"ret":plugins returned,"states":[{"name","labels","gen"}..]}
          plugins_process_msgs returned Ok (then sync_all on every plugin); states of the created plugins (configuration
          order) after the run
     {"ev":"panic","where":..,"msg":..}        no contract action matches a panic

   Contract (statement of checks/x06.py):
     Create   a configuration yields a plugin exactly as Creates says (enabled: null not required); the plugin reports the
              configured name (name(), state), enabled() = the configured flag, a Rewrite plugin's state lists the rule names
              in configured order, generation # 0 (a state with generation 0 is never sent to a client)
     Msg      messages leave the chain once, in the order sent (k-th out = k-th in), with every field but time stamp and
              payload text unchanged, and (payload text, time stamp) is a result Chain allows; the text a reader sees is the
              payload text, else the decoded payload
     KF_TextGroupUnset   known finding: a `text` group that took no part in the match erased the payload text set before
     End      the call returned Ok with all plugins, nothing was lost, the states still report name and rule names
   A case for which no action matches is recorded in `viol` and skipped up to the next reset.                           *)
EXTENDS RewritePluginDefs, TLC, Json, IOUtils

CONSTANT KF_X06_TextGroupUnset

Rec == ndJsonDeserialize(IOEnv.TRACE)

VARIABLES l, case, phase, hdr,
          created,     \* per configuration handled so far: did it yield a plugin
          nm,          \* messages that left the chain so far
          viol, kfUsed,
          stat         \* path tag -> number of messages that exercised it (vacuity bookkeeping, not part of the contract)
vars == <<l, case, phase, hdr, created, nm, viol, kfUsed, stat>>

NoHdr == [path |-> "direct", cfgs |-> <<>>, n |-> 0]
Init == l = 1 /\ case = -1 /\ phase = "idle" /\ hdr = NoHdr /\ created = <<>> /\ nm = 0 /\ viol = {} /\ kfUsed = {}
        /\ stat = [t \in AllTags |-> 0]

Ev(e) == l <= Len(Rec) /\ Rec[l].ev = e /\ l' = l + 1
Cur == Rec[l]
Running == phase \in {"create", "run"}

Reset == /\ Ev("reset")
         /\ case' = Cur.case /\ hdr' = Cur.hdr /\ created' = <<>> /\ nm' = 0 /\ phase' = "create"
         /\ viol' = (IF Running THEN viol \cup {case} ELSE viol)                 \* previous case never ended
         /\ UNCHANGED <<kfUsed, stat>>

ReportsOK(c, name, labels, gen) ==
  /\ name = c.name /\ gen # 0
  /\ (IsRewrite(hdr.path, c) => labels = RuleNames(c))

Create == /\ Ev("create") /\ phase = "create" /\ Cur.i = Len(created) + 1 /\ Cur.i <= Len(hdr.cfgs)
          /\ LET c == hdr.cfgs[Cur.i]
                 w == Creates(hdr.path, c)
             IN \/ /\ Cur.res = "some" /\ w \in {"yes", "open"}
                   /\ Cur.name = c.name
                   /\ Cur.enabled = (IF hdr.path = "factory" THEN TRUE ELSE EnabledOf(c))
                   /\ ReportsOK(c, Cur.st_name, Cur.labels, Cur.gen)
                \/ /\ Cur.res = "none" /\ w \in {"no", "open"}
          /\ created' = Append(created, Cur.res = "some")
          /\ UNCHANGED <<case, phase, hdr, nm, viol, kfUsed, stat>>

AllCreated == Len(created) = Len(hdr.cfgs)
Rules == ActiveRules(hdr.path, hdr.cfgs, created, 1)
Obs(o) == [pthas |-> o.pthas, pt |-> o.pt, ts |-> o.ts]
FitsChain(KF) == \E st \in Chain(Rules, Cur.inp, KF) : Fits(st, Obs(Cur.out))
MsgFrame == /\ Running /\ AllCreated
            /\ Cur.k = nm + 1 /\ Cur.idx = Cur.k /\ Cur.k <= hdr.n
            /\ Cur.out.same
            /\ Cur.out.text = (IF Cur.out.pthas THEN Cur.out.pt ELSE Cur.inp.raw)
            /\ nm' = nm + 1 /\ phase' = "run"
            /\ stat' = (LET tg == Tags(Rules, Cur.inp) IN [t \in AllTags |-> IF t \in tg THEN stat[t] + 1 ELSE stat[t]])

Msg == /\ Ev("msg") /\ MsgFrame
       /\ FitsChain(FALSE)
       /\ UNCHANGED <<case, hdr, created, viol, kfUsed>>

KF_TextGroupUnset ==
       /\ Ev("msg") /\ MsgFrame
       /\ KF_X06_TextGroupUnset /\ ~FitsChain(FALSE) /\ FitsChain(TRUE)
       /\ kfUsed' = kfUsed \cup {[case |-> case, kf |-> "KF_X06_TextGroupUnset"]}
       /\ UNCHANGED <<case, hdr, created, viol>>

CreatedIdx == SelectSeq([i \in Idx(hdr.cfgs) |-> i], LAMBDA i : created[i])
End == /\ Ev("end") /\ Running /\ AllCreated
       /\ Cur.ok /\ Cur.nfwd = hdr.n /\ nm = hdr.n /\ Cur.ret = Cur.chain
       /\ Len(Cur.states) = Len(CreatedIdx)
       /\ \A j \in Idx(CreatedIdx) : ReportsOK(hdr.cfgs[CreatedIdx[j]], Cur.states[j].name, Cur.states[j].labels, Cur.states[j].gen)
       /\ phase' = "ended"
       /\ UNCHANGED <<case, hdr, created, nm, viol, kfUsed, stat>>

Matches == ENABLED Create \/ ENABLED Msg \/ ENABLED KF_TextGroupUnset \/ ENABLED End
Reject == /\ l <= Len(Rec) /\ Cur.ev # "reset" /\ Running /\ ~Matches
          /\ PrintT(<<"CASE_REJECTED", case, l, ToJson(Cur)>>)
          /\ l' = l + 1 /\ phase' = "rejected" /\ viol' = viol \cup {case}
          /\ UNCHANGED <<case, hdr, created, nm, kfUsed, stat>>
SkipRest == /\ l <= Len(Rec) /\ Cur.ev # "reset" /\ phase \in {"rejected", "ended", "idle"}
            /\ l' = l + 1
            /\ (IF phase = "ended" THEN viol' = viol \cup {case} /\ phase' = "rejected"      \* events after `end`
                                   ELSE UNCHANGED <<viol, phase>>)
            /\ UNCHANGED <<case, hdr, created, nm, kfUsed, stat>>

Next == Reset \/ Create \/ Msg \/ KF_TextGroupUnset \/ End \/ Reject \/ SkipRest
Spec == Init /\ [][Next]_vars

AtEnd == l = Len(Rec) + 1
FinalViol == IF Running THEN viol \cup {case} ELSE viol
Report == AtEnd => PrintT(<<"VERDICT", ToJson([violations |-> FinalViol, known |-> kfUsed, stat |-> stat])>>)
Accepted == IF TLCGet("stats").diameter - 1 = Len(Rec) THEN TRUE
            ELSE Print(<<"TRACE_NOT_CONSUMED", TLCGet("stats").diameter, Len(Rec)>>, FALSE)
=============================================================================
