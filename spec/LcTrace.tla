------------------------------ MODULE LcTrace ------------------------------
(* Contracts of the lifecycle detector (C05, C06, C07, C08) evaluated on traces recorded from the real
   `parse_lifecycles_buffered_from_stream` (driver: harness/src/bin/lc.rs).  The constant `Check` selects the
   property whose conjuncts are enforced, so a rejection is attributed to the right property id; the same traces
   serve all four checks.

   trace lines:
     reset   {case, hdr:{kind:"stream"|"clean", src, prepop, boots:[{ecu,bt,delay,maxts}]}}
     in      {idx, ecu, boot, ix, ...}                  message handed to the detector (all before the first `out`); idx = position
                                                        in the stream, ix = its index field (may jump: the detector's regular
                                                        refresh is keyed on it)
     out     {idx, ecu, lc, visible, ecu_ok, vis2, intact}   call of the outflow closure; idx = position of the (first not yet
                                                        delivered) input this message equals in everything but `lifecycle`
                                                        (-1 and intact = FALSE if there is none); `visible`/`ecu_ok`: lookup of
                                                        the id through an evmap read handle AT the call, `vis2`: the
                                                        same lookup by a reader in another thread (synchronous
                                                        hand-shake), `intact`: all fields but `lifecycle` unchanged
     table   {t:[{id, ecu, nr, start, end, ongrid, start_rank, res}]}   the published table after the detector returned
     listing {ids}  |  listing_panic {msg}              result of get_sorted_lifecycles_as_vec
     panic   {msg}                                      the detector panicked (no contract action matches)
     end

   C05  Out: next undelivered input, exactly once, in order, unchanged but for the assignment, non-zero id;
        End: everything delivered; every id carried by a message of ECU e is listed with ecu = e.
   C06  Out: the id is visible with the message's ECU at that moment (same thread and other thread).
   C07  Table: every listed lifecycle has nr >= 1 = number of delivered messages carrying its id, counts add up,
        every delivered id listed; Listing: produced (no panic), a permutation of the table, a resumed lifecycle
        never before the one it resumes, ordered by start time when no resume is listed.
   C08  (kind = "clean") messages of one boot <=> one lifecycle; one lifecycle per boot; start = boot time + delay,
        end = start + largest timestamp.  Known finding KF_C08_Overlap (see below).                            *)
EXTENDS Integers, Sequences, FiniteSets, TLC, Json, IOUtils

CONSTANTS Check,            \* "C05" | "C06" | "C07" | "C08"
          KF_C08_Overlap    \* known finding: consecutive boots of an ECU whose estimates overlap are reported as one lifecycle

Rec == ndJsonDeserialize(IOEnv.TRACE)

VARIABLES l, case, phase, hdr, inSeq, inBoot, nDel, lcOf, tab, gotListing, viol, kfUsed
vars == <<l, case, phase, hdr, inSeq, inBoot, nDel, lcOf, tab, gotListing, viol, kfUsed>>

NoHdr == [kind |-> "", src |-> "", prepop |-> FALSE, boots |-> <<>>]
Init == /\ l = 1 /\ case = -1 /\ phase = "idle" /\ hdr = NoHdr /\ inSeq = <<>> /\ inBoot = <<>> /\ nDel = 0 /\ lcOf = <<>>
        /\ tab = <<>> /\ gotListing = FALSE /\ viol = {} /\ kfUsed = {}

Cur == Rec[l]
Ev(e) == l <= Len(Rec) /\ Cur.ev = e /\ l' = l + 1

Reset == /\ Ev("reset")
         /\ case' = Cur.case /\ hdr' = Cur.hdr /\ inSeq' = <<>> /\ inBoot' = <<>> /\ nDel' = 0 /\ lcOf' = <<>> /\ tab' = <<>>
         /\ gotListing' = FALSE /\ phase' = "running"
         /\ viol' = (IF phase \in {"running", "table"} THEN viol \cup {case} ELSE viol)
         /\ UNCHANGED kfUsed

In == /\ Ev("in") /\ phase = "running" /\ nDel = 0
      /\ Cur.idx = Len(inSeq)
      /\ inSeq' = Append(inSeq, Cur.ecu) /\ inBoot' = Append(inBoot, Cur.boot)
      /\ UNCHANGED <<case, phase, hdr, nDel, lcOf, tab, gotListing, viol, kfUsed>>

Out == /\ Ev("out") /\ phase = "running"
       /\ (Check = "C05" =>
             /\ nDel < Len(inSeq) /\ Cur.idx = nDel             \* next undelivered input: once, in order
             /\ Cur.ecu = inSeq[nDel + 1] /\ Cur.intact          \* unchanged except for the assignment
             /\ Cur.lc # 0)                                      \* non-zero lifecycle id
       /\ (Check = "C06" => Cur.visible /\ Cur.ecu_ok /\ Cur.vis2)   \* published with the message's ECU *now*
       /\ nDel' = nDel + 1 /\ lcOf' = Append(lcOf, [lc |-> Cur.lc, ecu |-> Cur.ecu, idx |-> Cur.idx])
       /\ UNCHANGED <<case, phase, hdr, inSeq, inBoot, tab, gotListing, viol, kfUsed>>

\* huge cases (hdr.kind = "big": more than 10^6 messages queued while a lifecycle is unconfirmed): the driver records one summary
\* event instead of 10^6 `in` / `out` events - counts only: messages delivered, position of the first delivery that is not the
\* next input (-1 = none), deliveries that differ from their input in more than the assignment, deliveries without lifecycle id,
\* deliveries whose lifecycle was not published with the message's ECU at that moment, and deliveries per (lifecycle, ECU).
\* The counts per (lifecycle, ECU) are kept in lcOf (field idx = count) for the table contract BigTable.
BigOut == /\ Ev("big_out") /\ phase = "running" /\ hdr.kind = "big" /\ nDel = 0 /\ lcOf = <<>>
          /\ (Check = "C05" => /\ Cur.n_out = hdr.n /\ Cur.first_misordered = -1 /\ Cur.not_intact = 0 /\ Cur.unassigned = 0)
          /\ (Check = "C06" => Cur.invisible = 0)
          /\ nDel' = Cur.n_out
          /\ lcOf' = [i \in 1..Len(Cur.per) |-> [lc |-> Cur.per[i].lc, ecu |-> Cur.per[i].ecu, idx |-> Cur.per[i].n]]
          /\ UNCHANGED <<case, phase, hdr, inSeq, inBoot, tab, gotListing, viol, kfUsed>>

CountDel(id) == Cardinality({i \in 1..Len(lcOf) : lcOf[i].lc = id})
RECURSIVE SumNr(_)
SumNr(t) == IF t = <<>> THEN 0 ELSE Head(t).nr + SumNr(Tail(t))
Ids(t) == {t[i].id : i \in 1..Len(t)}
Entry(t, id) == t[CHOOSE i \in 1..Len(t) : t[i].id = id]

\* C05 at end of input: nothing lost, every carried id denotes a lifecycle of the message's own ECU
AssignedOwnEcu(t) == \A i \in 1..Len(lcOf) : \E j \in 1..Len(t) : t[j].id = lcOf[i].lc /\ t[j].ecu = lcOf[i].ecu
\* C07 table part (pre-populated runs: the table also holds the lifecycles of the earlier segment - not judged)
TableOk(t) == /\ \A i \in 1..Len(t) : t[i].nr >= 1 /\ t[i].nr = CountDel(t[i].id)
              /\ \A i, j \in 1..Len(t) : i # j => t[i].id # t[j].id
              /\ SumNr(t) = Len(lcOf)
              /\ \A i \in 1..Len(lcOf) : lcOf[i].lc \in Ids(t)

\* ---- C08 ground truth
Boots == hdr.boots
BootsOfEcu(e) == {b \in 1..Len(Boots) : Boots[b].ecu = e}
UsedBoots == {inBoot[i] : i \in 1..Len(inBoot)}
StartEst(b) == Boots[b].bt + Boots[b].delay
EndEst(b) == StartEst(b) + Boots[b].maxts
\* the known-finding class: some boot's start estimate does not exceed the end estimate of an earlier boot of its ECU
KfClass == \E b1, b2 \in UsedBoots : b1 < b2 /\ Boots[b1].ecu = Boots[b2].ecu /\ StartEst(b2) <= EndEst(b1)
LcOfMsg(i) == lcOf[i].lc          \* delivery is in input order (C05), position i of lcOf is message i-1
Exact(t) ==
  /\ Len(lcOf) = Len(inSeq)
  /\ \A i \in 1..Len(lcOf) : lcOf[i].idx = i - 1
  /\ \A i, j \in 1..Len(lcOf) : (inBoot[i] = inBoot[j]) <=> (LcOfMsg(i) = LcOfMsg(j))     \* boot <=> lifecycle
  /\ Len(t) = Cardinality(UsedBoots)                                                      \* one lifecycle per boot
  /\ \A i \in 1..Len(lcOf) : LcOfMsg(i) \in Ids(t) /\
        LET e == Entry(t, LcOfMsg(i)) b == inBoot[i] IN
          /\ e.ecu = Boots[b].ecu
          /\ e.ongrid /\ e.start = StartEst(b) /\ e.end = EndEst(b)       \* start = boot time + delay, end = start + max ts

RECURSIVE SumCnt(_, _)
SumCnt(q, id) == IF q = <<>> THEN 0 ELSE (IF Head(q).lc = id THEN Head(q).idx ELSE 0) + SumCnt(Tail(q), id)
BigTable == /\ Ev("table") /\ phase = "running" /\ hdr.kind = "big"
            /\ (Check = "C05" => nDel = hdr.n /\ AssignedOwnEcu(Cur.t))
            /\ (Check = "C07" => /\ \A i \in 1..Len(Cur.t) : Cur.t[i].nr >= 1 /\ Cur.t[i].nr = SumCnt(lcOf, Cur.t[i].id)
                                 /\ \A i, j \in 1..Len(Cur.t) : i # j => Cur.t[i].id # Cur.t[j].id
                                 /\ SumNr(Cur.t) = nDel
                                 /\ \A i \in 1..Len(lcOf) : lcOf[i].lc \in Ids(Cur.t))
            /\ tab' = Cur.t /\ phase' = "table"
            /\ UNCHANGED <<case, hdr, inSeq, inBoot, nDel, lcOf, gotListing, viol, kfUsed>>

Table == /\ Ev("table") /\ phase = "running" /\ hdr.kind # "big"
         /\ (Check = "C05" => nDel = Len(inSeq) /\ AssignedOwnEcu(Cur.t))
         /\ (Check = "C07" /\ ~hdr.prepop => TableOk(Cur.t))
         /\ (Check = "C08" /\ hdr.kind = "clean" => Exact(Cur.t))
         /\ tab' = Cur.t /\ phase' = "table"
         /\ UNCHANGED <<case, hdr, inSeq, inBoot, nDel, lcOf, gotListing, viol, kfUsed>>

\* named deviation for C08: inside the known-finding class the detector may merge/split; nothing else is excused
KF_Table == /\ KF_C08_Overlap /\ Check = "C08" /\ Ev("table") /\ phase = "running" /\ hdr.kind = "clean"
            /\ ~Exact(Cur.t) /\ KfClass
            /\ kfUsed' = kfUsed \cup {[case |-> case, kf |-> "KF_C08_Overlap"]}
            /\ tab' = Cur.t /\ phase' = "table"
            /\ UNCHANGED <<case, hdr, inSeq, inBoot, nDel, lcOf, gotListing, viol>>

\* ---- C07 listing
PosIn(ids, id) == CHOOSE k \in 1..Len(ids) : ids[k] = id
ListingOk(ids) ==
  /\ Len(ids) = Len(tab) /\ {ids[k] : k \in 1..Len(ids)} = Ids(tab)                      \* each lifecycle exactly once
  /\ \A i \in 1..Len(tab) : (tab[i].res # 0 /\ tab[i].res \in Ids(tab)) =>
         PosIn(ids, tab[i].res) < PosIn(ids, tab[i].id)                                  \* never before the one it resumes
  /\ ((\A i \in 1..Len(tab) : tab[i].res = 0) =>
         \A k \in 1..(Len(ids) - 1) : Entry(tab, ids[k]).start_rank <= Entry(tab, ids[k + 1]).start_rank)
Listing == /\ Ev("listing") /\ phase = "table" /\ ~gotListing
           /\ (Check = "C07" => ListingOk(Cur.ids))
           /\ gotListing' = TRUE
           /\ UNCHANGED <<case, phase, hdr, inSeq, inBoot, nDel, lcOf, tab, viol, kfUsed>>
\* listing_panic: "can always be produced" - no C07 action matches; for the other properties it is not their business
ListingPanic == /\ Ev("listing_panic") /\ phase = "table" /\ ~gotListing /\ Check # "C07"
                /\ gotListing' = TRUE
                /\ UNCHANGED <<case, phase, hdr, inSeq, inBoot, nDel, lcOf, tab, viol, kfUsed>>

End == /\ Ev("end") /\ phase = "table" /\ gotListing
       /\ phase' = "ended"
       /\ UNCHANGED <<case, hdr, inSeq, inBoot, nDel, lcOf, tab, gotListing, viol, kfUsed>>

\* a panic of the detector loses the queued messages: it breaks C05 (messages not forwarded); the other properties'
\* checks skip the rest of such a case without judging it
PanicOther == /\ Ev("panic") /\ phase = "running" /\ Check # "C05"
              /\ phase' = "ended"
              /\ UNCHANGED <<case, hdr, inSeq, inBoot, nDel, lcOf, tab, gotListing, viol, kfUsed>>

Matches == ENABLED In \/ ENABLED Out \/ ENABLED BigOut \/ ENABLED Table \/ ENABLED BigTable \/ ENABLED KF_Table \/ ENABLED Listing \/ ENABLED ListingPanic
           \/ ENABLED End \/ ENABLED PanicOther
Reject == /\ l <= Len(Rec) /\ Cur.ev # "reset" /\ phase \in {"running", "table"} /\ ~Matches
          /\ PrintT(<<"CASE_REJECTED", case, l, ToJson(Cur)>>)
          /\ l' = l + 1 /\ phase' = "rejected" /\ viol' = viol \cup {case}
          /\ UNCHANGED <<case, hdr, inSeq, inBoot, nDel, lcOf, tab, gotListing, kfUsed>>
SkipRest == /\ l <= Len(Rec) /\ Cur.ev # "reset" /\ phase \in {"rejected", "ended", "idle"}
            /\ l' = l + 1
            /\ (IF phase = "ended" /\ Cur.ev # "end" THEN viol' = viol \cup {case} /\ phase' = "rejected" ELSE UNCHANGED <<viol, phase>>)
            /\ UNCHANGED <<case, hdr, inSeq, inBoot, nDel, lcOf, tab, gotListing, kfUsed>>

Next == Reset \/ In \/ Out \/ BigOut \/ Table \/ BigTable \/ KF_Table \/ Listing \/ ListingPanic \/ End \/ PanicOther \/ Reject \/ SkipRest
Spec == Init /\ [][Next]_vars

AtEnd == l = Len(Rec) + 1
FinalViol == IF phase \in {"running", "table"} THEN viol \cup {case} ELSE viol
Report == AtEnd => PrintT(<<"VERDICT", ToJson([violations |-> FinalViol, known |-> kfUsed])>>)
Accepted == IF TLCGet("stats").diameter - 1 = Len(Rec) THEN TRUE
            ELSE Print(<<"TRACE_NOT_CONSUMED", TLCGet("stats").diameter, Len(Rec)>>, FALSE)
=============================================================================
