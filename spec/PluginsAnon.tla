---------------------------- MODULE PluginsAnon ----------------------------
(* C19 - design model of AnonymizePlugin's pseudonym tables (src/plugins/anonymize.rs:50-103) against the
   anonymisation contract of Plugins.tla.

   The code keeps  ecu_map: ecu -> E<nnn>  and, per *new* ecu,  apid -> (A<nnn>, ctid -> C<nnn>);  a new pseudonym is
   numbered  size-of-the-table + 1 ;  numbers beyond Cap (999 in the code: "E1000" is no 4-character id) fall back to
   one fixed id (E99A / A99A / C99A) - that is the pseudonym capacity the property statement excludes.

   TLC checks on all id sequences within the bounds (small number system: base Base, Digits digits kept, capacity
   Base^Digits - 1): every step satisfies Plugins!MapStepG - functional and injective per name space within the capacity,
   the cut-off pseudonym of the id numbered by the leading digits past it - and the tables only grow.              *)
EXTENDS Integers, Sequences, FiniteSets, TLC

CONSTANTS Ecus, Apids, Ctids, Base, Digits, MaxMsgs

P == INSTANCE Plugins WITH MaxChain <- 0, MaxIn <- 0, chain <- <<>>, ins <- <<>>, i <- 1, st <- 1,
                           cur <- [ch |-> {}, ext |-> FALSE], outs <- <<>>, done <- FALSE

VARIABLES emap, amap, cmap, n, ok
vars == <<emap, amap, cmap, n, ok>>

\* the code: pseudonym text = letter + decimal number of (table size + 1), cut to the id length.  Here: numbers in base
\* Base with Digits digits kept, the pseudonym is represented by the number that remains after cutting.
Fresh(map, ns) == P!Leading(Cardinality(P!InNs(map, ns)) + 1, Base, Digits)
Val(map, ns, key) == IF P!Known(map, ns, key)
                     THEN (CHOOSE p \in map : p[1] = ns /\ p[2] = key)[3]
                     ELSE Fresh(map, ns)
WithinCap(map) == \A ns \in {p[1] : p \in map} : Cardinality(P!InNs(map, ns)) <= P!CapOf(Base, Digits)

Init == emap = {} /\ amap = {} /\ cmap = {} /\ n = 0 /\ ok = TRUE

Msg(e, a, c) == LET e2 == Val(emap, 0, e)
                    a2 == Val(amap, e2, a)
                    c2 == Val(cmap, <<e2, a>>, c)
                IN /\ n < MaxMsgs /\ n' = n + 1
                   /\ emap' = P!MapAdd(emap, 0, e, e2)
                   /\ amap' = P!MapAdd(amap, e2, a, a2)
                   /\ cmap' = P!MapAdd(cmap, <<e2, a>>, c, c2)
                   /\ ok' = (ok /\ P!MapStepG(emap, 0, e, e2, Base, Digits)
                                /\ P!MapStepG(amap, e2, a, a2, Base, Digits)
                                /\ P!MapStepG(cmap, <<e2, a>>, c, c2, Base, Digits))
Next == \E e \in Ecus, a \in Apids, c \in Ctids : Msg(e, a, c)
Spec == Init /\ [][Next]_vars

ContractHolds == ok          \* within AND past the capacity (documented overflow)
Functional(map) == \A p, q \in map : (p[1] = q[1] /\ p[2] = q[2]) => p[3] = q[3]
Injective(map) == \A p, q \in map : (p[1] = q[1] /\ p[3] = q[3]) => p[2] = q[2]
TablesOK == /\ Functional(emap) /\ Functional(amap) /\ Functional(cmap)
            /\ (WithinCap(emap) => Injective(emap))
            /\ (WithinCap(amap) => Injective(amap))
            /\ (WithinCap(cmap) => Injective(cmap))
\* non-vacuity of the overflow part: some behaviour really exceeds the capacity (checked as a violated "invariant" is not
\* possible in the same run, so the config simply makes the bounds large enough: 4 ECUs > capacity 2)
=============================================================================
