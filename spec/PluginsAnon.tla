---------------------------- MODULE PluginsAnon ----------------------------
(* C19 - design model of AnonymizePlugin's pseudonym tables (src/plugins/anonymize.rs:50-103) against the
   anonymisation contract of Plugins.tla.

   The code keeps  ecu_map: ecu -> E<nnn>  and, per *new* ecu,  apid -> (A<nnn>, ctid -> C<nnn>);  a new pseudonym is
   numbered  size-of-the-table + 1 ;  numbers beyond Cap (999 in the code: "E1000" is no 4-character id) fall back to
   one fixed id (E99A / A99A / C99A) - that is the pseudonym capacity the property statement excludes.

   TLC checks on all id sequences within the bounds: as long as every table holds at most Cap entries, each observed
   step satisfies Plugins!MapStep (functional and injective per name space), and the tables only grow.            *)
EXTENDS Integers, Sequences, FiniteSets, TLC

CONSTANTS Ecus, Apids, Ctids, Cap, MaxMsgs

P == INSTANCE Plugins WITH MaxChain <- 0, MaxIn <- 0, chain <- <<>>, ins <- <<>>, i <- 1, st <- 1,
                           cur <- [ch |-> {}, ext |-> FALSE], outs <- <<>>, done <- FALSE

VARIABLES emap, amap, cmap, n, ok
vars == <<emap, amap, cmap, n, ok>>

Overflow == 0
Fresh(map, ns) == LET k == Cardinality({p \in map : p[1] = ns}) + 1 IN IF k <= Cap THEN k ELSE Overflow
Val(map, ns, key) == IF \E p \in map : p[1] = ns /\ p[2] = key
                     THEN (CHOOSE p \in map : p[1] = ns /\ p[2] = key)[3]
                     ELSE Fresh(map, ns)
WithinCap(map) == \A ns \in {p[1] : p \in map} : Cardinality({p \in map : p[1] = ns}) <= Cap

Init == emap = {} /\ amap = {} /\ cmap = {} /\ n = 0 /\ ok = TRUE

Msg(e, a, c) == LET e2 == Val(emap, 0, e)
                    a2 == Val(amap, e2, a)
                    c2 == Val(cmap, <<e2, a>>, c)
                    em == P!MapAdd(emap, 0, e, e2)
                    am == P!MapAdd(amap, e2, a, a2)
                    cm == P!MapAdd(cmap, <<e2, a>>, c, c2)
                IN /\ n < MaxMsgs /\ n' = n + 1
                   /\ emap' = em /\ amap' = am /\ cmap' = cm
                   /\ ok' = (ok /\ ((WithinCap(em) /\ WithinCap(am) /\ WithinCap(cm)) =>
                                      /\ P!MapStep(emap, 0, e, e2)
                                      /\ P!MapStep(amap, e2, a, a2)
                                      /\ P!MapStep(cmap, <<e2, a>>, c, c2)))
Next == \E e \in Ecus, a \in Apids, c \in Ctids : Msg(e, a, c)
Spec == Init /\ [][Next]_vars

ContractHolds == ok
Functional(map) == \A p, q \in map : (p[1] = q[1] /\ p[2] = q[2]) => p[3] = q[3]
Injective(map) == \A p, q \in map : (p[1] = q[1] /\ p[3] = q[3]) => p[2] = q[2]
TablesOK == /\ Functional(emap) /\ Functional(amap) /\ Functional(cmap)
            /\ (WithinCap(emap) => Injective(emap))
            /\ (WithinCap(amap) => Injective(amap))
            /\ (WithinCap(cmap) => Injective(cmap))
=============================================================================
