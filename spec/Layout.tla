------------------------------- MODULE Layout -------------------------------
(* C02 - export fidelity: DltMessage::to_write -> parse_dlt_with_storage_header round trip and normal form
   (src/dlt/mod.rs: DltStorageHeader::{from_buf,from_msg,to_write}, DltStandardHeader::{from_buf,to_write},
   DltMessage::{from_headers,to_write}, parse_dlt_with_storage_header).

   Design = contract for this area (DESIGN.md section 6, C02).  A stored DLT message is a record of FIELDS, no bytes:

     weid wsid wtms ueh msbf   the five htyp flag bits (ECU id / session id / timestamp present in the standard header,
                               extended header used, payload big endian)
     vers                      the three version bits of htyp
     ecuSto secs micros        storage header (16 bytes: pattern, secs, micros, ecu)
     mcnt len                  standard header (4 bytes: htyp, mcnt, len; len counts everything after the storage header)
     ecuStd sid tmsp           optional standard-header fields (4 bytes each)
     ext                       extended header (10 bytes)
     pay                       payload identity (0 = irrelevant), payLen its length

   Field VALUES are opaque identities: the only operations are copying and comparing.  The trace module LayoutTrace
   re-uses these operators on records whose identities are the real byte strings of a recorded execution.

   ParseView = what the parser extracts, Write = what to_write emits for a parsed message (recomputed htyp and len),
   Size = bytes on disk.  The theorems below are checked by TLC for every record of a finite domain
   (spec/mc/MCLayout.tla) and every record of that domain is replayed on the real code.                           *)
EXTENDS Integers, Sequences, FiniteSets, TLC

\* identities of "field not there": the timestamp of a message without one reads as NoTmsp (the parser yields 0), an
\* absent extended header as NoExt, a standard-header ECU / session id that is never written as NoId.
\* (small integers in the model-checked instance, byte strings in the trace instance)
CONSTANTS NoTmsp, NoExt, NoId

B(b) == IF b THEN 1 ELSE 0
U16 == 65536
StorageHdr == 16

\* bytes between the storage header and the payload
HdrLen(weid, wsid, wtms, ueh) == 4 + 4 * B(weid) + 4 * B(wsid) + 4 * B(wtms) + 10 * B(ueh)
Hdr(m) == HdrLen(m.weid, m.wsid, m.wtms, m.ueh)
\* the largest payload a message of this shape can carry (len is a 16 bit field)
MaxPay(weid, wsid, wtms, ueh) == (U16 - 1) - HdrLen(weid, wsid, wtms, ueh)

\* a well-formed stored message: the len field covers the headers its flags announce; micros is a fraction of a second
WellFormed(m) == /\ m.len >= Hdr(m) /\ m.len < U16
                 /\ m.payLen = m.len - Hdr(m)
                 /\ m.micros >= 0 /\ m.micros < 1000000
Size(m) == StorageHdr + m.len

htyp(m) == B(m.ueh) + 2 * B(m.msbf) + 4 * B(m.weid) + 8 * B(m.wsid) + 16 * B(m.wtms) + 32 * m.vers

-----------------------------------------------------------------------------
(* the parser's view of a well-formed message (DltMessage): ECU from the standard header if present else from the
   storage header, timestamp 0 if absent, the standard header kept verbatim (htyp, mcnt, len), the session id is
   not kept at all, the extended header iff announced, `consumed` = bytes eaten.                                *)
ParseView(m) ==
  [ ecu     |-> IF m.weid THEN m.ecuStd ELSE m.ecuSto,
    secs    |-> m.secs,
    micros  |-> m.micros,
    wtms    |-> m.wtms,
    tmsp    |-> IF m.wtms THEN m.tmsp ELSE NoTmsp,
    mcnt    |-> m.mcnt,
    msbf    |-> m.msbf,
    hasExt  |-> m.ueh,
    ext     |-> IF m.ueh THEN m.ext ELSE NoExt,
    payLen  |-> m.len - Hdr(m),
    pay     |-> m.pay,
    htyp    |-> htyp(m),                 \* retained header byte (only its msbf / wtms bits are used by to_write)
    consumed |-> Size(m) ]

\* the fields the property statement lists
Listed(v) == [ecu |-> v.ecu, secs |-> v.secs, micros |-> v.micros, wtms |-> v.wtms, tmsp |-> v.tmsp, mcnt |-> v.mcnt,
              msbf |-> v.msbf, hasExt |-> v.hasExt, ext |-> v.ext, payLen |-> v.payLen, pay |-> v.pay]

(* to_write of a parsed message: storage header from reception time and ECU; htyp recomputed: version 1, msbf kept,
   ECU id and session id never written, timestamp iff the original had one, extended header iff present;
   len recomputed with 16 bit arithmetic (the code adds `payload.len() as u16`).                                *)
WLen(v) == 4 + 4 * B(v.wtms) + 10 * B(v.hasExt) + v.payLen
Write(v) ==
  [ weid |-> FALSE, wsid |-> FALSE, wtms |-> v.wtms, ueh |-> v.hasExt, msbf |-> v.msbf, vers |-> 1,
    ecuSto |-> v.ecu, secs |-> v.secs, micros |-> v.micros,
    mcnt |-> v.mcnt, len |-> WLen(v) % U16,
    ecuStd |-> NoId, sid |-> NoId, tmsp |-> v.tmsp, ext |-> v.ext,
    pay |-> v.pay, payLen |-> v.payLen ]
\* bytes really written (the payload is written verbatim whatever the len field says)
WrittenBytes(v) == StorageHdr + WLen(v)

(* DltStandardHeader::to_write called directly (public; DltMessage::to_write always passes None for both): the caller may ask
   for the ECU id and / or a session id IN the standard header.  Same message otherwise; behind a storage header that
   carries the message's ECU as well.  Only defined while the longer header still fits the 16 bit len field.        *)
WXLen(v, we, ws) == HdrLen(we, ws, v.wtms, v.hasExt) + v.payLen
FitsX(v, we, ws) == WXLen(v, we, ws) < U16
WriteX(v, we, ws, sid) ==
  [ Write(v) EXCEPT !.weid = we, !.wsid = ws, !.ecuStd = IF we THEN v.ecu ELSE NoId, !.sid = IF ws THEN sid ELSE NoId,
                    !.len = WXLen(v, we, ws) ]

(* The writers take any std::io::Write destination.  A destination may legally accept fewer bytes per call than offered, answer
   ErrorKind::Interrupted now and then, or fail after `limit` accepted bytes.  What arrives must not depend on that:
   whenever the write call returns Ok, the destination holds exactly the bytes the same call puts into a Vec (total of them);
   a destination that fails before the message is complete makes the call return an error (never Ok with a partial
   message; what has arrived by then is not claimed - the code documents partial writes on io errors); a destination
   that never reports an error is not an excuse for one.  Narrower reading: a destination that answers Interrupted may
   make the call fail (passing Interrupted on instead of retrying is not claimed to be wrong) - but Ok still means all.  *)
DestOk(total, limit, interrupts, ok, arrived, equal) ==
  IF limit < total THEN ~ok
  ELSE IF ok THEN (equal /\ arrived = total)
  ELSE interrupts

-----------------------------------------------------------------------------
\* the theorems (C02), as predicates over one well-formed stored message m
RoundTrip(m) == LET v == ParseView(m) w == Write(v) v2 == ParseView(w) IN
                  /\ WellFormed(w)
                  /\ Listed(v2) = Listed(v)
                  /\ v2.consumed = WrittenBytes(v)
NormalForm(m) == LET w == Write(ParseView(m)) IN
                  /\ ~w.weid /\ ~w.wsid /\ w.vers = 1 /\ w.wtms = m.wtms /\ w.ueh = m.ueh /\ w.msbf = m.msbf
                  /\ w.len = 4 + 4 * B(m.wtms) + 10 * B(m.ueh) + m.payLen
Idempotent(m) == LET w == Write(ParseView(m)) IN Write(ParseView(w)) = w
\* the 16 bit addition cannot wrap: the rewritten message is never longer than the original
NoWrap(m)     == LET v == ParseView(m) IN
                  /\ WLen(v) < U16
                  /\ WrittenBytes(v) <= Size(m)
                  /\ WrittenBytes(v) <= StorageHdr + (U16 - 1)
\* the ECU / session id variants round-trip as well (whenever they fit); a re-read variant is rewritten in normal form
RoundTripX(m) == LET v == ParseView(m) IN
                 \A we \in BOOLEAN, ws \in BOOLEAN :
                    FitsX(v, we, ws) =>
                       LET w == WriteX(v, we, ws, NoId)  v2 == ParseView(w) IN
                       /\ WellFormed(w)
                       /\ Listed(v2) = Listed(v)
                       /\ v2.consumed = StorageHdr + WXLen(v, we, ws)
                       /\ Write(v2) = Write(v)
Theorems(m) == RoundTrip(m) /\ NormalForm(m) /\ Idempotent(m) /\ NoWrap(m) /\ RoundTripX(m)
=============================================================================
