-------------------------- MODULE PluginsSomeIpSeg --------------------------
(* C19 - the segmented-transfer state machine of the SOME/IP plugin (src/plugins/someip.rs, NWST / NWCH / NWEN messages)
   under the stream contract "every input message is forwarded once, in order; the chain never panics".

   A segmented SOME/IP message arrives as
       ST(id, cnt, sz)    NWST: announces segment id, number of chunks, chunk size
       CH(id, idx, len)   NWCH: chunk number idx with len payload bytes
       EN(id)             NWEN: end of the transfer (the collected bytes are decoded)
   The plugin keeps a table  id -> [cnt, sz, got]  (got = bytes collected so far):
       ST  stores an entry iff  sz > 0, 0 < cnt < 65535 and cnt * sz < 1 000 000  (a second ST for the same id replaces it)
       CH  for a known id computes  got \div sz  - the number of complete chunks - and appends the payload iff idx is that
           number, idx < cnt and (len = sz or it is the last chunk);   unknown id: only the text changes
       EN  removes the entry
   Every message is forwarded, only its text may change.  The division in CH is defined only because ST never stores
   sz = 0 (DivisionDefined) - an entry with chunk size 0 would make the next CH of that id crash the chain thread, after
   which no message is forwarded any more.

   TLC checks, for every sequence of up to MaxLen messages over the boundary alphabet (counts 0 / 1 / 2 / 65534 / 65535,
   sizes 0 / 1 / 3 / 65535, chunk numbers 0 / 1 / 65535, payload lengths 0 / 1 / 3 / 4, one or two segment ids):
   StreamIntact, DivisionDefined and CollectedBounded.  The alphabet is emitted (EmitAlphabet); the orchestrator builds the
   message sequences from it (all sequences of <= 2 messages on one id, seeded longer ones on interleaved ids) and the
   driver replays them on the real plugin; the recorded runs are validated against PluginTrace.tla (all forwarded, once,
   in order, only the text changed, no panic).                                                                    *)
EXTENDS Integers, Sequences, FiniteSets, TLC, Json

CONSTANTS Ids, Counts, Sizes, Idxs, Lens, MaxLen

Letters == [k : {"ST"}, id : Ids, a : Counts, b : Sizes]          \* a = cnt, b = sz
             \cup [k : {"CH"}, id : Ids, a : Idxs, b : Lens]       \* a = idx, b = len
             \cup [k : {"EN"}, id : Ids, a : {0}, b : {0}]

VARIABLES seq, pos, tab, outs, crashed
vars == <<seq, pos, tab, outs, crashed>>

Init == /\ seq \in UNION {[1..n -> Letters] : n \in 0..MaxLen}
        /\ pos = 1 /\ tab = {} /\ outs = <<>> /\ crashed = FALSE

\* a * b < 1 000 000 without leaving TLC's 32-bit integers
SmallProduct(a, b) == b = 0 \/ a <= 999999 \div b
Entry(id) == CHOOSE e \in tab : e.id = id
Has(id) == \E e \in tab : e.id = id
Without(id) == {e \in tab : e.id # id}

Step == /\ pos <= Len(seq) /\ ~crashed
        /\ LET m == seq[pos] IN
           /\ CASE m.k = "ST" ->
                     /\ tab' = IF m.b > 0 /\ m.a > 0 /\ m.a < 65535 /\ SmallProduct(m.a, m.b)
                               THEN Without(m.id) \cup {[id |-> m.id, cnt |-> m.a, sz |-> m.b, got |-> 0]}
                               ELSE tab
                     /\ crashed' = FALSE
                [] m.k = "CH" ->
                     IF Has(m.id)
                     THEN LET e == Entry(m.id) IN
                          IF e.sz = 0 THEN crashed' = TRUE /\ tab' = tab        \* division by zero: the chain thread dies
                          ELSE /\ crashed' = FALSE
                               /\ tab' = IF m.a = e.got \div e.sz /\ m.a < e.cnt /\ (m.b = e.sz \/ m.a + 1 = e.cnt)
                                         THEN Without(m.id) \cup {[e EXCEPT !.got = e.got + m.b]}
                                         ELSE tab
                     ELSE tab' = tab /\ crashed' = FALSE
                [] m.k = "EN" -> tab' = Without(m.id) /\ crashed' = FALSE
           /\ outs' = IF crashed' THEN outs ELSE Append(outs, pos)
        /\ pos' = pos + 1 /\ UNCHANGED seq
Spec == Init /\ [][Step]_vars

StreamIntact == ~crashed /\ outs = [j \in 1..(pos - 1) |-> j]          \* every processed message forwarded once, in order
DivisionDefined == \A e \in tab : e.sz > 0
CollectedBounded == \A e \in tab : e.got <= (e.cnt - 1) * e.sz + 65535 /\ e.cnt * e.sz < 1000000
OneEntryPerId == \A e, f \in tab : e.id = f.id => e = f

EmitAlphabet == (pos = 1 /\ seq = <<>>) => \A x \in Letters : PrintT(<<"SCN", ToJson(x)>>)
=============================================================================
