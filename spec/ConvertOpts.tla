---------------------------- MODULE ConvertOpts ----------------------------
(* C14 - the abstract option space of `adlt convert` and the shapes of generated input sets, enumerated by TLC
   (scenario emission only; the semantics of the options is Convert.tla).

   An abstract option combination names *classes* for the index window and the lifecycle selection (their numbers
   depend on the input: the driver picks numbers of that class, records them, and ConvertTrace re-classifies them
   with Convert!WinClass / LcsClass) and *concrete* filters over the id universe the generated inputs use.

     winc   none | b (only -b) | e (only -e) | in (-b and -e inside) | empty (b > e) | beyond (b behind the last index)
     lcsc   none | first | last | firstlast | lastfirst | perm3 | dup | unknownmixed | absent (an id that does not exist)
     ord    order of the --eac expressions and of the filters in the -f file: asc | rev | dup
     eac    0..2 --eac expressions            ffmt/ff  -f file: none | DLF xml | dlt-convert "APID CTID " list
     sort   --sort      style  a | x | s | none        ofile  -o

   Mode = "opt" prints the dimensions of the option space (one SCN line), Mode = "shape" one per input-set shape.           *)
EXTENDS Integers, Sequences, TLC, Json

CONSTANT Mode

\* a criterion is a literal id or (only for --eac parts) a regular expression, see Convert.tla: NOT anchored
NoRx == [t |-> "none", w |-> <<>>, v |-> <<>>, s |-> ""]
Lit(x) == [lit |-> x, rx |-> NoRx]
Rx(t, w, v, s) == [lit |-> "", rx |-> [t |-> t, w |-> w, v |-> v, s |-> s]]
G(k, en, e, a, c) == [kind |-> k, en |-> en, ecu |-> e.lit, apid |-> a.lit, ctid |-> c.lit,
                      rx |-> [ecu |-> e.rx, apid |-> a.rx, ctid |-> c.rx]]
F(k, en, e, a, c) == G(k, en, Lit(e), Lit(a), Lit(c))
P(e, a, c) == F("pos", TRUE, e, a, c)
X(e, a, c) == G("pos", TRUE, e, a, c)

WinC == {"none", "b", "e", "in", "empty", "beyond"}
\* lifecycle selections are given in every kind of order: ascending, descending, three ids in a mixed order (middle,
\* first, last), with a duplicate, with an unknown id among real ones; the selection is a function of the SET of ids
LcsC == {"none", "first", "last", "firstlast", "lastfirst", "perm3", "dup", "unknownmixed", "absent"}
\* order in which the entries of the multi-valued options (--eac expressions, filters of the -f file) are written:
\* as listed, reversed, or with the first entry repeated at the end - Keep is a function of the set of filters
OrdC == {"asc", "rev", "dup"}
\* id universe of the generated inputs: ECUs ECU, ECUB; APIDs APP1 AP2 B TC TC1 ATC XTCY; CTIDs CTX1 CT2 T TC TC1 ATC XTCY
\* (lengths 4..1, zero padded in the messages; every short id has prefix-, suffix- and infix-extensions in the universe);
\* the filters name short and long ids, with the ctid shorter than the apid and vice versa, through every front-end
EacBase == { <<>>,
          <<P("ECU", "", "")>>, <<P("", "APP1", "")>>, <<P("", "", "CT2")>>,
          <<P("ECUB", "AP2", "")>>, <<P("ECU", "APP1", "TC")>>,
          <<P("ECU", "", ""), P("", "TC", "")>>, <<P("", "B", "CTX1"), P("", "", "T")>>,
          <<P("ECUX", "", "")>>,
          <<P("ECU", "APP1", ""), P("", "APP1", "")>>,                                    \* ECU-qualified entry shadowed by a general one
          <<P("ECUB", "", "CT2"), P("", "B", "CTX1"), P("ECU", "AP2", "")>> }            \* both ECUs share the APIDs/CTIDs
\* the --eac expression grid: each of the three parts absent | literal of 4 characters | literal of 1-3 characters | regex
None == Lit("")
PE == {None, Lit("ECUB"), Lit("ECU"), Rx("alt", <<"E", "C", "U", "B">>, <<"Q", "Q">>, "ECUB|QQ")}
PA == {None, Lit("APP1"), Lit("TC"), Rx("prefix", <<"T", "C">>, <<>>, "TC.*")}
PC == {None, Lit("CTX1"), Lit("TC"), Rx("aprefix", <<"T", "C">>, <<>>, "^TC")}
EacGrid == {<<X(e, a, c)>> : e \in PE, a \in PA, c \in PC} \ {<<X(None, None, None)>>}
\* the remaining regex forms on every level, followed by a short literal part where there is a later part
EacForms == { <<X(Rx("prefix", <<"E", "C">>, <<>>, "EC.*"), Lit("TC"), None)>>,
              <<X(Rx("aprefix", <<"E", "C", "U">>, <<>>, "^ECU"), Lit("TC"), Lit("T"))>>,
              <<X(Rx("class", <<"E", "C", "U">>, <<"B", "X">>, "ECU[BX]"), None, Lit("TC"))>>,
              <<X(None, Rx("alt", <<"A", "T", "C">>, <<"A", "P", "2">>, "ATC|AP2"), Lit("TC"))>>,
              <<X(None, Rx("aprefix", <<"T", "C">>, <<>>, "^TC"), Lit("T"))>>,
              <<X(Lit("ECU"), Rx("class", <<"T", "C">>, <<"1", "Y">>, "TC[1Y]"), Lit("TC"))>>,
              <<X(None, None, Rx("alt", <<"X", "T", "C">>, <<"C", "T", "2">>, "XTC|CT2"))>>,
              <<X(Lit("ECU"), None, Rx("prefix", <<"T", "C">>, <<>>, "TC.*"))>>,
              <<X(None, Lit("TC"), Rx("class", <<"T", "C">>, <<"1">>, "TC[1]"))>> }
EacC == EacBase \cup EacGrid \cup EacForms
\* the subset of the expressions that takes part in the pairwise arrays (every expression set is run at least alone)
EacCore == EacBase \cup { <<X(None, Rx("alt", <<"A", "T", "C">>, <<"A", "P", "2">>, "ATC|AP2"), Lit("TC"))>>,
                          <<X(Rx("class", <<"E", "C", "U">>, <<"B", "X">>, "ECU[BX]"), None, Lit("TC"))>> } \cup
           { <<X(e, a, c)>> : <<e, a, c>> \in { <<Rx("alt", <<"E", "C", "U", "B">>, <<"Q", "Q">>, "ECUB|QQ"), Lit("TC"), None>>,
                                                <<None, Rx("prefix", <<"T", "C">>, <<>>, "TC.*"), Lit("TC")>>,
                                                <<Lit("ECU"), Lit("TC"), Lit("TC")>> } }

\* -f files.  n = total number of entries (0: just the listed ones): the listed filters sit among n - Len(ff) further
\* entries that match no message (ids Z..., Y...), at the end of the file or so that the first listed one straddles the
\* given byte offset (dlt-convert format: 10 bytes per entry); eol: lf | crlf | nonl (no final newline) | trail (a
\* trailing partial record of 3 spaces) - the dlt-convert format has fixed 10-byte records and no line structure
FE(fmt, ff, n, at, eol) == [fmt |-> fmt, ff |-> ff, n |-> n, at |-> at, eol |-> eol]
FfBase == { FE("none", <<>>, 0, "end", "lf"),
         FE("dlf",  <<P("", "APP1", "")>>, 0, "end", "lf"),
         FE("dlf",  <<F("neg", TRUE, "ECUB", "", "")>>, 0, "end", "lf"),
         FE("dlf",  <<P("ECU", "", ""), F("neg", TRUE, "", "", "TC")>>, 0, "end", "lf"),
         FE("dlf",  <<F("pos", FALSE, "", "APP1", ""), F("marker", TRUE, "", "AP2", "")>>, 0, "end", "lf"),
         FE("dlf",  <<P("", "AP2", "T"), F("neg", FALSE, "ECU", "", ""), P("ECUB", "", "")>>, 0, "end", "lf"),
         FE("conv", <<P("", "APP1", "TC")>>, 0, "end", "lf"),
         FE("conv", <<P("", "AP2", "T"), P("", "B", "CTX1")>>, 0, "end", "lf"),
         FE("conv", <<P("", "TC", "CT2"), P("", "APP1", "CTX1")>>, 0, "end", "lf") }
FfScale == { FE("conv", <<P("", "APP1", "TC")>>, 30, "end", "trail"),
             FE("conv", <<P("", "APP1", "CTX1")>>, 819, "end", "lf"),
             FE("conv", <<P("", "TC1", "T")>>, 820, "end", "lf"),
             FE("conv", <<P("", "APP1", "TC"), P("", "B", "CTX1")>>, 820, "b8192", "lf"),
             FE("conv", <<P("", "ATC", "CT2"), P("", "APP1", "CTX1")>>, 900, "end", "lf"),
             FE("conv", <<P("", "APP1", "TC"), P("", "XTCY", "TC1")>>, 2000, "b16384", "lf"),
             FE("conv", <<P("", "AP2", "T"), P("", "APP1", "CTX1")>>, 10000, "b65536", "lf"),
             FE("conv", <<P("", "TC", "CT2")>>, 10000, "end", "lf"),
             FE("dlf",  <<P("", "APP1", ""), F("neg", TRUE, "", "", "TC")>>, 30, "end", "crlf"),
             FE("dlf",  <<P("ECU", "TC1", "")>>, 820, "end", "lf"),
             FE("dlf",  <<P("", "", "CT2"), P("ECUB", "", "")>>, 2000, "end", "nonl"),
             FE("dlf",  <<P("", "APP1", "CTX1")>>, 10000, "end", "lf") }
FfC == FfBase \cup FfScale
FfCore == FfBase \cup { FE("conv", <<P("", "TC1", "T")>>, 820, "end", "lf"), FE("dlf",  <<P("ECU", "TC1", "")>>, 820, "end", "lf") }
StyleC == {"a", "x", "s", "none"}

\* further options that must not change the selection: the decoding plugins configured from the repository's descriptions
\* (they sit between lifecycle detection and sorting / filtering in the pipeline and only change texts here), the file
\* transfer plugin (keeps FLDA, nothing matches its glob), the two debug verification switches
ExtraC == {"none", "decoders", "ft", "debug"}
\* how the input files are named: listed | one glob pattern | listed plus a file that is empty / holds only garbage / does
\* not exist (such a file contributes no message)
ArgsC == {"list", "glob", "plus_empty", "plus_garbage", "plus_missing"}
OptSpace == [winc : WinC, lcsc : LcsC, eac : EacC, f : FfC, ord : OrdC, sort : BOOLEAN, style : StyleC, ofile : BOOLEAN,
             extra : ExtraC, args : ArgsC]
\* the space is the full product of its dimensions; it is emitted as its dimensions (one SCN line), the orchestrator forms
\* the product (pairwise-complete arrays, every value alone, seeded samples of the product)
Dims == [winc |-> WinC, lcsc |-> LcsC, eac |-> EacC, f |-> FfC, ord |-> OrdC, sort |-> BOOLEAN, style |-> StyleC, ofile |-> BOOLEAN,
         extra |-> ExtraC, args |-> ArgsC, eaccore |-> EacCore, fcore |-> FfCore]

\* input sets: 1-3 files; per file the ECUs it contains (same pattern = same stream, read one after the other;
\* different patterns = parallel streams merged by reception time); boots per ECU; garbage between messages; some
\* messages without extended header
EcuPatterns == { <<"A">>, <<"AB">>,
                 <<"A", "A">>, <<"A", "B">>, <<"AB", "B">>,
                 <<"A", "A", "B">>, <<"A", "B", "AB">>, <<"A", "A", "A">> }
\* tie: first messages with IDENTICAL reception time - "same": the files of every group with the same ECU pattern,
\* "all": all files (the main clause - exactly the selected messages, each once - holds for such inputs too; only the
\* argument-permutation clause is conditioned on distinct first reception times, so tied sets are run with one fixed
\* argument order).  dup: the first file is named a second time (the tool de-duplicates identical files).
\* jitter: timestamps are not monotone in reception order (every few messages carry a timestamp up to 2.5 s older than
\* their neighbours - buffered messages, well inside the sorter's delay bound), so that --sort really permutes.
ShapeSpace == {sh \in [ecus : EcuPatterns, boots : 1..3, garbage : BOOLEAN, noext : BOOLEAN,
                        tie : {"none", "same", "all"}, dup : BOOLEAN, jitter : BOOLEAN] :
                  sh.tie # "none" => (Len(sh.ecus) >= 2 /\ ~sh.dup)}
\* (tie and dup are not combined: with tied first reception times the tool's sort-then-dedup does not bring the two
\*  entries of the duplicated file next to each other and the file is read twice - observed on the unchanged tree,
\*  reported to the lead; the property statement does not speak about files named twice: narrower reading)

VARIABLES x, printed
vars == <<x, printed>>

Init == /\ printed = FALSE
        /\ IF Mode = "opt" THEN x = Dims ELSE x \in ShapeSpace
Next == ~printed /\ printed' = TRUE /\ UNCHANGED x
Spec == Init /\ [][Next]_vars

EmitScn == ~printed => PrintT(<<"SCN", ToJson(x)>>)
=============================================================================
