---------------------------- MODULE ConvertOpts ----------------------------
(* C14 - the abstract option space of `adlt convert` and the shapes of generated input sets, enumerated by TLC
   (scenario emission only; the semantics of the options is Convert.tla).

   An abstract option combination names *classes* for the index window and the lifecycle selection (their numbers
   depend on the input: the driver picks numbers of that class, records them, and ConvertTrace re-classifies them
   with Convert!WinClass / LcsClass) and *concrete* filters over the id universe the generated inputs use.

     winc   none | b (only -b) | e (only -e) | in (-b and -e inside) | empty (b > e) | beyond (b behind the last index)
     lcsc   none | first | last | firstlast | lastfirst | perm3 | dup | unknownmixed | absent (an id that does not exist)
     ord    order of the --eac expressions and of the filters in the -f file: asc | rev | dup
     eac    0..2 --eac expressions            ffmt/ff  -f file: none | DLF xml | dlt-convert "APID CTID " list
     sort   --sort      style  a | x | s | none        ofile  -o

   Mode = "opt" prints the dimensions of the option space (one SCN line), Mode = "shape" one per input-set shape.           *)
EXTENDS Integers, Sequences, TLC, Json

CONSTANT Mode

F(k, en, e, a, c) == [kind |-> k, en |-> en, ecu |-> e, apid |-> a, ctid |-> c]
P(e, a, c) == F("pos", TRUE, e, a, c)

WinC == {"none", "b", "e", "in", "empty", "beyond"}
\* lifecycle selections are given in every kind of order: ascending, descending, three ids in a mixed order (middle,
\* first, last), with a duplicate, with an unknown id among real ones; the selection is a function of the SET of ids
LcsC == {"none", "first", "last", "firstlast", "lastfirst", "perm3", "dup", "unknownmixed", "absent"}
\* order in which the entries of the multi-valued options (--eac expressions, filters of the -f file) are written:
\* as listed, reversed, or with the first entry repeated at the end - Keep is a function of the set of filters
OrdC == {"asc", "rev", "dup"}
\* id universe of the generated inputs: APIDs APP1 AP2 A3 B, CTIDs CTX1 CT2 C3 T (lengths 4..1, zero padded in the messages);
\* the filters name short and long ids, with the ctid shorter than the apid and vice versa, through every front-end
EacC == { <<>>,
          <<P("ECUA", "", "")>>, <<P("", "APP1", "")>>, <<P("", "", "CT2")>>,
          <<P("ECUB", "AP2", "")>>, <<P("ECUA", "APP1", "C3")>>,
          <<P("ECUA", "", ""), P("", "A3", "")>>, <<P("", "B", "CTX1"), P("", "", "T")>>,
          <<P("ECUX", "", "")>>,
          <<P("ECUA", "APP1", ""), P("", "APP1", "")>>,                                    \* ECU-qualified entry shadowed by a general one
          <<P("ECUB", "", "CT2"), P("", "B", "CTX1"), P("ECUA", "AP2", "")>> }            \* both ECUs share the APIDs/CTIDs
FfC == { [fmt |-> "none", ff |-> <<>>],
         [fmt |-> "dlf",  ff |-> <<P("", "APP1", "")>>],
         [fmt |-> "dlf",  ff |-> <<F("neg", TRUE, "ECUB", "", "")>>],
         [fmt |-> "dlf",  ff |-> <<P("ECUA", "", ""), F("neg", TRUE, "", "", "C3")>>],
         [fmt |-> "dlf",  ff |-> <<F("pos", FALSE, "", "APP1", ""), F("marker", TRUE, "", "AP2", "")>>],
         [fmt |-> "dlf",  ff |-> <<P("", "AP2", "T"), F("neg", FALSE, "ECUA", "", ""), P("ECUB", "", "")>>],
         [fmt |-> "conv", ff |-> <<P("", "APP1", "C3")>>],
         [fmt |-> "conv", ff |-> <<P("", "AP2", "T"), P("", "B", "CTX1")>>],
         [fmt |-> "conv", ff |-> <<P("", "A3", "CT2"), P("", "APP1", "CTX1")>>] }
StyleC == {"a", "x", "s", "none"}

OptSpace == [winc : WinC, lcsc : LcsC, eac : EacC, f : FfC, ord : OrdC, sort : BOOLEAN, style : StyleC, ofile : BOOLEAN]
\* the space is the full product of its dimensions; it is emitted as its dimensions (one SCN line), the orchestrator forms
\* the product (pairwise-complete arrays, every value alone, seeded samples of the product)
Dims == [winc |-> WinC, lcsc |-> LcsC, eac |-> EacC, f |-> FfC, ord |-> OrdC, sort |-> BOOLEAN, style |-> StyleC, ofile |-> BOOLEAN]

\* input sets: 1-3 files; per file the ECUs it contains (same pattern = same stream, read one after the other;
\* different patterns = parallel streams merged by reception time); boots per ECU; garbage between messages; some
\* messages without extended header
EcuPatterns == { <<"A">>, <<"AB">>,
                 <<"A", "A">>, <<"A", "B">>, <<"AB", "B">>,
                 <<"A", "A", "B">>, <<"A", "B", "AB">>, <<"A", "A", "A">> }
\* tie: first messages with IDENTICAL reception time - "same": the files of every group with the same ECU pattern,
\* "all": all files (the main clause - exactly the selected messages, each once - holds for such inputs too; only the
\* argument-permutation clause is conditioned on distinct first reception times, so tied sets are run with one fixed
\* argument order).  dup: the first file is named a second time (the tool de-duplicates identical files).
\* jitter: timestamps are not monotone in reception order (every few messages carry a timestamp up to 2.5 s older than
\* their neighbours - buffered messages, well inside the sorter's delay bound), so that --sort really permutes.
ShapeSpace == {sh \in [ecus : EcuPatterns, boots : 1..3, garbage : BOOLEAN, noext : BOOLEAN,
                        tie : {"none", "same", "all"}, dup : BOOLEAN, jitter : BOOLEAN] :
                  sh.tie # "none" => (Len(sh.ecus) >= 2 /\ ~sh.dup)}
\* (tie and dup are not combined: with tied first reception times the tool's sort-then-dedup does not bring the two
\*  entries of the duplicated file next to each other and the file is read twice - observed on the unchanged tree,
\*  reported to the lead; the property statement does not speak about files named twice: narrower reading)

VARIABLES x, printed
vars == <<x, printed>>

Init == /\ printed = FALSE
        /\ IF Mode = "opt" THEN x = Dims ELSE x \in ShapeSpace
Next == ~printed /\ printed' = TRUE /\ UNCHANGED x
Spec == Init /\ [][Next]_vars

EmitScn == ~printed => PrintT(<<"SCN", ToJson(x)>>)
=============================================================================
