------------------------ MODULE PipelineRemoteTrace ------------------------
(* C13 at binary level - "when the consumer disappears, every stage terminates instead of blocking forever".
   The consumer of `adlt remote`'s pipeline (parser -> lifecycle detection [-> plugins -> sort] -> connection thread) is the
   websocket client.  One case = one server process: a file is opened, the pipeline runs (for the *parked* shapes until it
   is back-pressured: more messages than the bounded channels hold, nobody taking them), then the client vanishes WITHOUT
   `close` (socket shut down, no websocket close frame; optionally in the middle of a frame) - or, shape close_parked, leaves
   in the orderly way with `close` while the pipeline is back-pressured (close_ok: the command was answered with ok).

   trace lines (ndjson):
     {"ev":"reset","case":n,"hdr":{"kind":"remote_drop","shape":s,"file_msgs":m,"channel_capacity":c,...}}
     {"ev":"census","threads_before":a,"threads_during":b,"threads_after":d,"waited_ms":w,"parked":bool,...}
            thread census of the server process (/proc/<pid>/task): before the connection, just before the client
            vanished, and after it - polled until it is back at `threads_before` or the bound (30 s) is over
     {"ev":"reopen","ok":bool,...}      a NEW connection sent `open` for a small file: was the reply "ok:"?
     {"ev":"end"}
     {"ev":"server_exit",..}            the server process died: no action matches

   CONVERT cases (hdr.kind = "convert"): the `adlt convert` binary (its own wiring of the stages, convert.rs 595-657) on a
   generated log, and as reference the same parsed log through the library stages with channels that never fill:
     hdr: "shape":"plain"|"sort"|"filter"|"devfull","sorted":bool,"ref_count":n,"ref_seq":h,"ref_bag":h
          (seq = order-sensitive hash, bag = multiset hash of the messages, over the fields a DLT file keeps)
     {"ev":"convert_exit","code":c,"timed_out":bool,"waited_ms":w}      the process ended (or was killed after 90 s)
     {"ev":"convert_out","count":n,"seq":h,"bag":h}                      the written file, re-read (not for devfull)
     {"ev":"stalled",..}                                                  even the reference run hung: no action matches
   Contract: the process ends by itself - also when its consumer, the writer thread, fails at once (-o /dev/full); otherwise
   exit code 0 and the written messages are the reference's: same count and multiset, same sequence unless sorted.

   Contract: after the consumer disappeared the connection thread and every pipeline stage thread are gone
   (threads_after = threads_before), and the server still serves.                                                   *)
EXTENDS Integers, Sequences, FiniteSets, TLC, Json, IOUtils

Rec == ndJsonDeserialize(IOEnv.TRACE)

VARIABLES l, case, phase, hl, viol
vars == <<l, case, phase, hl, viol>>

Init == l = 1 /\ case = -1 /\ phase = "idle" /\ hl = 0 /\ viol = {}
Ev(e) == l <= Len(Rec) /\ Rec[l].ev = e /\ l' = l + 1
Cur == Rec[l]
Active == {"running", "counted", "served"}

Reset == /\ Ev("reset") /\ case' = Cur.case /\ phase' = "running" /\ hl' = l
         /\ viol' = IF phase \in Active THEN viol \cup {case} ELSE viol
Census == /\ Ev("census") /\ phase = "running" /\ Rec[hl].hdr.kind = "remote_drop"
          /\ Cur.threads_before >= 1
          /\ Cur.threads_after = Cur.threads_before          \* every thread that served the vanished client has ended
          /\ Cur.close_ok                                     \* (shape close_parked: the `close` command was answered with ok)
          /\ phase' = "counted" /\ UNCHANGED <<case, viol, hl>>
Reopen == /\ Ev("reopen") /\ phase = "counted" /\ Rec[hl].hdr.kind = "remote_drop" /\ Cur.ok
          /\ phase' = "served" /\ UNCHANGED <<case, viol, hl>>
End == /\ Ev("end") /\ phase = "served" /\ phase' = "ended" /\ UNCHANGED <<case, viol, hl>>

\* ---- adlt convert as a whole
ConvertExit == /\ Ev("convert_exit") /\ phase = "running" /\ Rec[hl].hdr.kind = "convert"
               /\ ~Cur.timed_out                                                \* every stage (and the process) terminates
               /\ (Rec[hl].hdr.shape # "devfull" => Cur.code = 0)
               /\ phase' = (IF Rec[hl].hdr.shape = "devfull" THEN "served" ELSE "counted") /\ UNCHANGED <<case, viol, hl>>
ConvertOut == /\ Ev("convert_out") /\ phase = "counted" /\ Rec[hl].hdr.kind = "convert"
              /\ Cur.count = Rec[hl].hdr.ref_count /\ Cur.bag = Rec[hl].hdr.ref_bag      \* nothing lost, duplicated, altered
              /\ (~Rec[hl].hdr.sorted => Cur.seq = Rec[hl].hdr.ref_seq)                 \* nothing reordered
              /\ phase' = "served" /\ UNCHANGED <<case, viol, hl>>

Matches == ENABLED Census \/ ENABLED Reopen \/ ENABLED End \/ ENABLED ConvertExit \/ ENABLED ConvertOut
Reject == /\ l <= Len(Rec) /\ Cur.ev # "reset" /\ phase \in Active /\ ~Matches
          /\ PrintT(<<"CASE_REJECTED", case, l, ToJson(Cur)>>)
          /\ l' = l + 1 /\ phase' = "rejected" /\ viol' = viol \cup {case} /\ UNCHANGED <<case, hl>>
SkipRest == /\ l <= Len(Rec) /\ Cur.ev # "reset" /\ phase \in {"rejected", "ended", "idle"}
            /\ l' = l + 1
            /\ IF phase = "ended" THEN viol' = viol \cup {case} /\ phase' = "rejected" ELSE UNCHANGED <<viol, phase>>
            /\ UNCHANGED <<case, hl>>
Next == Reset \/ Census \/ Reopen \/ ConvertExit \/ ConvertOut \/ End \/ Reject \/ SkipRest
Spec == Init /\ [][Next]_vars

AtEnd == l = Len(Rec) + 1
FinalViol == IF phase \in Active THEN viol \cup {case} ELSE viol
Report == AtEnd => PrintT(<<"VERDICT", ToJson([violations |-> FinalViol, known |-> {}])>>)
Accepted == IF TLCGet("stats").diameter - 1 = Len(Rec) THEN TRUE
            ELSE Print(<<"TRACE_NOT_CONSUMED", TLCGet("stats").diameter, Len(Rec)>>, FALSE)
=============================================================================
