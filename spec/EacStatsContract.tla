-------------------------- MODULE EacStatsContract --------------------------
(* X01 - ECU / APID / CTID statistics (src/utils/eac_stats.rs): the CONTRACT, as pure operators.

   An input history `ops` is a sequence of records  [k, e, a, c, d, st, be, apps]  (all fields always present):

     k = "plain"  a message of ECU e without extended header (no application / context id)
         "log"    a verbose log message of ECU e, application a, context c
         "nvlog"  a non-verbose LOG message (message id 3) of e/a/c
         "req"    a control REQUEST get_log_info of e/a/c
         "svc"    a control response of e/a/c for a service other than get_log_info
         "resp"   a non-verbose control RESPONSE get_log_info of e/a/c with status st and the application list
                  apps = << [a, d, cs : << [c, d] >>] >>   (d = 0: no description for that entry)
         "desc"   no message: the API call add_desc(description d, e, a, context c or none if c = 0)
     The payload of log / nvlog / svc / req (if apps is not empty) carries the same bytes as a get_log_info response would (look-alikes): they
     count as messages but never teach anything.  `be` (byte order of the message) is irrelevant to the contract.

   A snapshot is what an observer sees: a list of ECU entries
        [ecu, n, apids : << [apid, desc, n, ctids : << [ctid, n, desc] >>] >>]      (desc = 0: none)
   in any order (hash map order), plus the grand total.  `view` says where it was taken:
        "direct"  walking the public maps of the collector       "remote"  after conversion to the remote types,
        bincode encoding as BinType::EacInfo and decoding (the per-application count does not exist there)
        "split"   a collector that was fed only the inputs of one ECU

   SnapOk(ops, n, view, ecus, total) is the property for the first n inputs:
     * every ECU / (ECU, application) / (ECU, application, context) that occurred is listed EXACTLY ONCE;
     * counts equal the true histogram (hence the per-context counts add up to the application's count and the
       application counts plus the id-less messages add up to the ECU's count, and all ECUs to the total);
     * an entry that never occurred may only be listed if a get_log_info response OF THE SAME ECU (or an add_desc
       call for that ECU) named it, and then with count 0; it must be listed if a description was offered for it;
     * a description is shown iff one was offered for exactly that (ECU, application[, context]) and is one of the
       offered ones (which one is left open: the code keeps the first - "does not get overwritten" - the
       narrower reading does not insist on it); never one offered for another ECU / application / context;
       never learnt from requests, other services, log messages, or responses with a status other than 7.     *)
EXTENDS Integers, Sequences, FiniteSets

Elems(s) == {s[i] : i \in 1..Len(s)}

MsgKinds == {"plain", "log", "nvlog", "req", "svc", "resp"}
IsMsg(op) == op.k \in MsgKinds
HasIds(op) == op.k \in (MsgKinds \ {"plain"})
Teaches(op) == op.k = "resp" /\ op.st = 7
Mentions(op) == op.k = "resp" /\ op.st \in 3..7

\* ---- the true histogram of the first n inputs -------------------------------------------------------------
Total(ops, n) == Cardinality({i \in 1..n : IsMsg(ops[i])})
EcuCount(ops, n, e) == Cardinality({i \in 1..n : IsMsg(ops[i]) /\ ops[i].e = e})
ApidCount(ops, n, e, a) == Cardinality({i \in 1..n : HasIds(ops[i]) /\ ops[i].e = e /\ ops[i].a = a})
CtidCount(ops, n, e, a, c) == Cardinality({i \in 1..n : HasIds(ops[i]) /\ ops[i].e = e /\ ops[i].a = a /\ ops[i].c = c})

\* ---- what was offered / named ------------------------------------------------------------------------------
\* application records of the get_log_info responses of ECU e (teaching ones / all well-formed ones)
TeachApps(ops, n, e) == UNION {Elems(ops[i].apps) : i \in {j \in 1..n : Teaches(ops[j]) /\ ops[j].e = e}}
NamedApps(ops, n, e) == UNION {Elems(ops[i].apps) : i \in {j \in 1..n : Mentions(ops[j]) /\ ops[j].e = e}}
DescOps(ops, n, e) == {ops[i] : i \in {j \in 1..n : ops[j].k = "desc" /\ ops[j].e = e}}

ApidOffers(ops, n, e, a) ==
   {o.d : o \in {p \in DescOps(ops, n, e) : p.a = a /\ p.c = 0}}
   \cup {ap.d : ap \in {q \in TeachApps(ops, n, e) : q.a = a /\ q.d # 0}}
CtidOffers(ops, n, e, a, c) ==
   {o.d : o \in {p \in DescOps(ops, n, e) : p.a = a /\ p.c = c}}
   \cup UNION {{ct.d : ct \in {x \in Elems(ap.cs) : x.c = c /\ x.d # 0}} : ap \in {q \in TeachApps(ops, n, e) : q.a = a}}

\* ---- which keys must / may be listed -----------------------------------------------------------------------
OccEcus(ops, n) == {ops[i].e : i \in {j \in 1..n : IsMsg(ops[j])}}
DescEcus(ops, n) == {ops[i].e : i \in {j \in 1..n : ops[j].k = "desc"}}
MustEcus(ops, n) == OccEcus(ops, n) \cup DescEcus(ops, n)

OccApids(ops, n, e) == {ops[i].a : i \in {j \in 1..n : HasIds(ops[j]) /\ ops[j].e = e}}
OfferedApids(ops, n, e) ==
   {o.a : o \in DescOps(ops, n, e)}
   \cup {ap.a : ap \in {q \in TeachApps(ops, n, e) : q.d # 0 \/ \E x \in Elems(q.cs) : x.d # 0}}
MustApids(ops, n, e) == OccApids(ops, n, e) \cup OfferedApids(ops, n, e)
MayApids(ops, n, e) == MustApids(ops, n, e) \cup {ap.a : ap \in NamedApps(ops, n, e)}

OccCtids(ops, n, e, a) == {ops[i].c : i \in {j \in 1..n : HasIds(ops[j]) /\ ops[j].e = e /\ ops[j].a = a}}
OfferedCtids(ops, n, e, a) ==
   {o.c : o \in {p \in DescOps(ops, n, e) : p.a = a /\ p.c # 0}}
   \cup UNION {{x.c : x \in {y \in Elems(ap.cs) : y.d # 0}} : ap \in {q \in TeachApps(ops, n, e) : q.a = a}}
MustCtids(ops, n, e, a) == OccCtids(ops, n, e, a) \cup OfferedCtids(ops, n, e, a)
MayCtids(ops, n, e, a) ==
   MustCtids(ops, n, e, a) \cup UNION {{x.c : x \in Elems(ap.cs)} : ap \in {q \in NamedApps(ops, n, e) : q.a = a}}

\* ---- the property on one snapshot ---------------------------------------------------------------------------
DescOk(d, offers) == IF offers = {} THEN d = 0 ELSE d \in offers
Listing(keys, must, may) ==      \* `keys` (a sequence) lists every key of `must` and only keys of `may`, each exactly once
   /\ \A i, j \in 1..Len(keys) : i # j => keys[i] # keys[j]
   /\ must \subseteq Elems(keys) /\ Elems(keys) \subseteq may

CtidOk(ops, n, e, a, z) ==
   /\ z.n = CtidCount(ops, n, e, a, z.ctid)
   /\ DescOk(z.desc, CtidOffers(ops, n, e, a, z.ctid))
ApidOk(ops, n, view, e, y) ==
   /\ DescOk(y.desc, ApidOffers(ops, n, e, y.apid))
   /\ (view # "remote" => y.n = ApidCount(ops, n, e, y.apid))
   /\ Listing([i \in 1..Len(y.ctids) |-> y.ctids[i].ctid], MustCtids(ops, n, e, y.apid), MayCtids(ops, n, e, y.apid))
   /\ \A i \in 1..Len(y.ctids) : CtidOk(ops, n, e, y.apid, y.ctids[i])
EcuOk(ops, n, view, x) ==
   /\ x.n = EcuCount(ops, n, x.ecu)
   /\ Listing([i \in 1..Len(x.apids) |-> x.apids[i].apid], MustApids(ops, n, x.ecu), MayApids(ops, n, x.ecu))
   /\ \A i \in 1..Len(x.apids) : ApidOk(ops, n, view, x.ecu, x.apids[i])
SnapOk(ops, n, view, ecus, total) ==
   /\ Listing([i \in 1..Len(ecus) |-> ecus[i].ecu], MustEcus(ops, n), MustEcus(ops, n))
   /\ \A i \in 1..Len(ecus) : EcuOk(ops, n, view, ecus[i])
   /\ (view # "remote" => total = Total(ops, n))

\* ---- derived statements (checked on the design model, implied by SnapOk) ------------------------------------
\* per-context counts add up to the application's count, application counts + id-less messages to the ECU's count
RECURSIVE SumSeq(_)
SumSeq(s) == IF s = <<>> THEN 0 ELSE Head(s) + SumSeq(Tail(s))
PlainCount(ops, n, e) == Cardinality({i \in 1..n : ops[i].k = "plain" /\ ops[i].e = e})
SumsOk(ops, n, ecus, total) ==
   /\ total = SumSeq([i \in 1..Len(ecus) |-> ecus[i].n])
   /\ \A i \in 1..Len(ecus) : LET x == ecus[i] IN
         /\ x.n = PlainCount(ops, n, x.ecu) + SumSeq([j \in 1..Len(x.apids) |-> x.apids[j].n])
         /\ \A j \in 1..Len(x.apids) : x.apids[j].n = SumSeq([k \in 1..Len(x.apids[j].ctids) |-> x.apids[j].ctids[k].n])

\* canonical (order-free) form of an ECU entry: used to compare two snapshots
CanonApid(y) == [apid |-> y.apid, desc |-> y.desc, ctids |-> Elems(y.ctids)]
CanonEcu(x) == [ecu |-> x.ecu, n |-> x.n, apids |-> {CanonApid(y) : y \in Elems(x.apids)}]
=============================================================================
