------------------------- MODULE ExportPluginTrace -------------------------
(* X03 - the contract of the export plugin, evaluated on recorded executions of the REAL code
   (lifecycle stage -> channel -> plugins_process_msgs([.., ExportPlugin]) with the shared lifecycle table).

   trace lines (ndjson); all times are microseconds relative to a fixed base (32-bit safe):
     {"ev":"reset","case":n,"hdr":{"mode":"lock"|"free","enabled":b,
          "filters":[{"kind":"pos"|"neg"|"mrk"|"evt","neg":b,"ecu":s,"apid":s,"ctid":s,"en":b}],       "" = criterion not set
          "lcis":[{"ecu":s,"start":t,"end":t,"hasres":b,"resume":t}],                                  lifecyclesToKeep ([] = none/absent)
          "hasfrom":b,"from":t,"hasto":b,"to":t,"ninfo":k (non-empty info texts),"n":messages sent,
          "twopass":b,"p1":[0|1 per message],...}}     twopass: lcis = unmodified final lifecycles of a previous run over the same
                                                      stream; p1[i+1] = 1 iff message i belonged to one of them in that run
     {"ev":"proc","i":pos,"ecu":s,"apid":s,"ctid":s ("-" = no extended header),"rx":t,"lc":id (renumbered by first appearance),
          "snap":{"ok":b,"ecu_ok":b,"start":t,"end":t,"isres":b,"rstart":t,"rtime":t},   the table entry of the message's lifecycle at
          "ret":b,"intact":b}                 the moment the plugin gets the message (lock mode); process_msg's result; message unchanged
     {"ev":"out","i":pos,"lc":id,"intact":b}  the message left the plugin stage, equal to the original input but for the lifecycle
     {"ev":"wr","k":k,"i":pos,"same":b}       k-th message after the info messages re-read from the export file; same = ECU, both
                                              times, timestamp flag, counter, byte order, extended header, payload equal the original
     {"ev":"end","file":b,"ninfo":k,"info_ok":b,"skipped":bytes not parsed,"st":b,"st_proc":n,"st_exp":n,"st_lcs":[id,..]}
     {"ev":"panic",...} / {"ev":"cfgerr",...}   no contract action matches these

   Contract (the statement of checks/x03.py):
     forwarding  every message the plugin gets is handed on exactly once, next, unchanged; process_msg returns true; no panic;
                 (lock mode) its lifecycle is in the table with the message's ECU at that moment
     selection   a message is selected iff plugin enabled, filters pass (positive OR / negative veto / event AND; disabled and
                 marker filters ignored), reception time in [from, to], and - if lifecycles to keep are configured - its
                 lifecycle is kept
     keep rule   (lock mode, where the table entry the plugin decides on is observable) a lifecycle is kept iff at its first
                 message some not yet used entry contains it (same ECU; plain: start >= start and end <= end, entry without
                 resume time; resumed: resume start >= start, end <= end, resume times less than 1.9 s apart); the entry is
                 then used up. If several unused entries contain it, the contract allows any of them to be the used one
                 (`poss` = set of possible outcomes). (free mode) only: a lifecycle is kept or not as a whole.
     file        exists iff something was selected; info messages (1 + ninfo, texts equal) then exactly the selected messages,
                 once, in stream order, identical fields, nothing unparsable
     state       after sync: processed = messages seen, exported = messages written, the kept lifecycles (each once, any order)
   A case for which no contract action matches is recorded in `viol` and skipped up to the next reset.
   `tpdiff` collects two-pass cases whose file differs from "the messages the chosen lifecycles had in the previous run" -
   an OBSERVATION about the early-decision heuristic (reported in the evidence), not part of the contract.              *)
EXTENDS Integers, Sequences, FiniteSets, TLC, Json, IOUtils

Rec == ndJsonDeserialize(IOEnv.TRACE)

VARIABLES l, case, phase, hdr,
          np,        \* proc events so far
          pend,      \* [i, lc] of the message that was given to the plugin and has not left the stage yet (i = -1: none)
          seen,      \* lifecycles whose first message has reached the plugin
          poss,      \* lock mode: possible outcomes [rem (unused entries), kept (sequence of lifecycles)]
          sel,       \* messages selected but for the lifecycle criterion: sequence of [i, lc]
          exps,      \* once the file is read: the still possible [seq (expected positions), kept]
          written,   \* positions read from the file so far
          cur, wlcs, slcs,     \* free mode: cursor into sel, lifecycles with a written / a skipped message
          viol, tpdiff
vars == <<l, case, phase, hdr, np, pend, seen, poss, sel, exps, written, cur, wlcs, slcs, viol, tpdiff>>

NoHdr == [mode |-> "lock", enabled |-> TRUE, filters |-> <<>>, lcis |-> <<>>, hasfrom |-> FALSE, from |-> 0, hasto |-> FALSE, to |-> 0,
          ninfo |-> 0, n |-> 0, twopass |-> FALSE, p1 |-> <<>>]
NoPend == [i |-> -1, lc |-> 0]
Init == /\ l = 1 /\ case = -1 /\ phase = "idle" /\ hdr = NoHdr /\ np = 0 /\ pend = NoPend /\ seen = {} /\ poss = {} /\ sel = <<>>
        /\ exps = {} /\ written = <<>> /\ cur = 0 /\ wlcs = {} /\ slcs = {} /\ viol = {} /\ tpdiff = {}

Ev(e) == l <= Len(Rec) /\ Rec[l].ev = e /\ l' = l + 1
Cur == Rec[l]
Idx(s) == 1..Len(s)
Abs(x) == IF x < 0 THEN -x ELSE x
ResumeTolUs == 1900000

Reset == /\ Ev("reset")
         /\ case' = Cur.case /\ hdr' = Cur.hdr /\ np' = 0 /\ pend' = NoPend /\ seen' = {}
         /\ poss' = {[rem |-> {x : x \in Idx(Cur.hdr.lcis)}, kept |-> <<>>]}
         /\ sel' = <<>> /\ exps' = {} /\ written' = <<>> /\ cur' = 0 /\ wlcs' = {} /\ slcs' = {}
         /\ phase' = "running"
         /\ viol' = (IF phase \in {"running", "file"} THEN viol \cup {case} ELSE viol)     \* previous case never ended
         /\ UNCHANGED tpdiff

Lock == hdr.mode = "lock"
HasLc == hdr.lcis # <<>>

\* ---- selection (the statement's filter rule on the id criteria; an id criterion needs the extended header)
Crit(f, m) == (f.ecu = "" \/ f.ecu = m.ecu) /\ (f.apid = "" \/ f.apid = m.apid) /\ (f.ctid = "" \/ f.ctid = m.ctid)
FMatch(f, m) == IF f.neg THEN ~Crit(f, m) ELSE Crit(f, m)
Act(kd) == {x \in Idx(hdr.filters) : hdr.filters[x].en /\ hdr.filters[x].kind = kd}
Passes(m) == /\ (Act("pos") = {} \/ \E x \in Act("pos") : FMatch(hdr.filters[x], m))
             /\ ~\E x \in Act("neg") : FMatch(hdr.filters[x], m)
             /\ (Act("evt") = {} \/ \E x \in Act("evt") : FMatch(hdr.filters[x], m))
InWindow(rx) == (hdr.hasfrom => rx >= hdr.from) /\ (hdr.hasto => rx <= hdr.to)

\* ---- the keep rule on the table entry seen at the lifecycle's first message
Contains(lci, ecu, t) ==
  /\ lci.ecu = ecu
  /\ IF lci.hasres THEN t.isres /\ t.rstart >= lci.start /\ t.end <= lci.end /\ Abs(t.rtime - lci.resume) < ResumeTolUs
                   ELSE ~t.isres /\ t.start >= lci.start /\ t.end <= lci.end
Decide(o, lc, ecu, t) ==
  LET c == {x \in o.rem : Contains(hdr.lcis[x], ecu, t)}
  IN IF c = {} THEN {o} ELSE {[rem |-> o.rem \ {x}, kept |-> Append(o.kept, lc)] : x \in c}

Proc == /\ Ev("proc") /\ phase = "running" /\ pend.i = -1
        /\ Cur.ret /\ Cur.intact                                             \* never asks to drop, never changes the message
        /\ Cur.lc # 0
        /\ (Lock => Cur.snap.ok /\ Cur.snap.ecu_ok)                          \* the lifecycle is published with the message's ECU
        /\ np' = np + 1 /\ pend' = [i |-> Cur.i, lc |-> Cur.lc]
        /\ seen' = seen \cup {Cur.lc}
        /\ poss' = (IF Lock /\ hdr.enabled /\ Cur.lc \notin seen
                    THEN UNION {Decide(o, Cur.lc, Cur.ecu, Cur.snap) : o \in poss} ELSE poss)
        /\ sel' = (IF hdr.enabled /\ Passes(Cur) /\ InWindow(Cur.rx) THEN Append(sel, [i |-> Cur.i, lc |-> Cur.lc]) ELSE sel)
        /\ UNCHANGED <<case, phase, hdr, exps, written, cur, wlcs, slcs, viol, tpdiff>>

Out == /\ Ev("out") /\ phase = "running" /\ pend.i # -1
       /\ Cur.i = pend.i /\ Cur.lc = pend.lc /\ Cur.intact
       /\ pend' = NoPend
       /\ UNCHANGED <<case, phase, hdr, np, seen, poss, sel, exps, written, cur, wlcs, slcs, viol, tpdiff>>

\* ---- the file
Pos(s) == [x \in Idx(s) |-> s[x].i]
Has(s, v) == \E x \in Idx(s) : s[x] = v
ExpectedOf(o) == [seq |-> Pos(SelectSeq(sel, LAMBDA e : ~HasLc \/ Has(o.kept, e.lc))), kept |-> o.kept]
Exps == IF phase = "running" THEN {ExpectedOf(o) : o \in poss} ELSE exps

WrLock == /\ Ev("wr") /\ phase \in {"running", "file"} /\ pend.i = -1 /\ Lock
          /\ Cur.same /\ Cur.k = Len(written) + 1
          /\ LET ok == {x \in Exps : Len(x.seq) >= Cur.k /\ x.seq[Cur.k] = Cur.i}
             IN ok # {} /\ exps' = ok
          /\ written' = Append(written, Cur.i) /\ phase' = "file"
          /\ UNCHANGED <<case, hdr, np, pend, seen, poss, sel, cur, wlcs, slcs, viol, tpdiff>>

\* free mode: the decision of the plugin is not observable; written messages are selected ones, in order, each once, and a
\* lifecycle is written as a whole or not at all (without lifecycles to keep nothing selected may be skipped)
NextSel(i) == {x \in (cur + 1)..Len(sel) : sel[x].i = i}
WrFree == /\ Ev("wr") /\ phase \in {"running", "file"} /\ pend.i = -1 /\ ~Lock
          /\ Cur.same /\ Cur.k = Len(written) + 1
          /\ NextSel(Cur.i) # {}
          /\ LET x == CHOOSE y \in NextSel(Cur.i) : \A z \in NextSel(Cur.i) : y <= z
             IN /\ cur' = x
                /\ wlcs' = wlcs \cup {sel[x].lc}
                /\ slcs' = slcs \cup {sel[y].lc : y \in (cur + 1)..(x - 1)}
          /\ written' = Append(written, Cur.i) /\ phase' = "file"
          /\ UNCHANGED <<case, hdr, np, pend, seen, poss, sel, exps, viol, tpdiff>>

\* two-pass observation (not part of the contract)
TwoPassExpected == SelectSeq(Pos(sel), LAMBDA i : hdr.p1[i + 1] = 1)
TpDiff == IF hdr.twopass /\ TwoPassExpected # written THEN tpdiff \cup {case} ELSE tpdiff

FileOK == /\ Cur.file = (written # <<>>)
          /\ (Cur.file => Cur.ninfo = 1 + hdr.ninfo /\ Cur.info_ok)
          /\ Cur.skipped = 0
          /\ Cur.st
          /\ (hdr.enabled => Cur.st_proc = np /\ Cur.st_exp = Len(written))

EndLock == /\ Ev("end") /\ phase \in {"running", "file"} /\ pend.i = -1 /\ Lock
           /\ FileOK
           /\ \E x \in Exps : /\ Len(x.seq) = Len(written)
                              /\ (hdr.enabled => /\ {Cur.st_lcs[y] : y \in Idx(Cur.st_lcs)} = {x.kept[y] : y \in Idx(x.kept)}
                                                 /\ Len(Cur.st_lcs) = Len(x.kept))
           /\ phase' = "ended" /\ tpdiff' = TpDiff
           /\ UNCHANGED <<case, hdr, np, pend, seen, poss, sel, exps, written, cur, wlcs, slcs, viol>>

EndFree == /\ Ev("end") /\ phase \in {"running", "file"} /\ pend.i = -1 /\ ~Lock
           /\ FileOK
           /\ LET skippedAll == slcs \cup {sel[y].lc : y \in (cur + 1)..Len(sel)}
                  keptSet == {Cur.st_lcs[x] : x \in Idx(Cur.st_lcs)}
              IN /\ wlcs \cap skippedAll = {}
                 /\ (~HasLc => skippedAll = {})
                 /\ (hdr.enabled /\ HasLc => wlcs \subseteq keptSet /\ keptSet \cap skippedAll = {}
                                            /\ Len(Cur.st_lcs) <= Len(hdr.lcis) /\ Cardinality(keptSet) = Len(Cur.st_lcs))
           /\ phase' = "ended" /\ tpdiff' = TpDiff
           /\ UNCHANGED <<case, hdr, np, pend, seen, poss, sel, exps, written, cur, wlcs, slcs, viol>>

Matches == ENABLED Proc \/ ENABLED Out \/ ENABLED WrLock \/ ENABLED WrFree \/ ENABLED EndLock \/ ENABLED EndFree
Reject == /\ l <= Len(Rec) /\ Cur.ev # "reset" /\ phase \in {"running", "file"} /\ ~Matches
          /\ PrintT(<<"CASE_REJECTED", case, l, ToJson(Cur)>>)
          /\ l' = l + 1 /\ phase' = "rejected" /\ viol' = viol \cup {case}
          /\ UNCHANGED <<case, hdr, np, pend, seen, poss, sel, exps, written, cur, wlcs, slcs, tpdiff>>
SkipRest == /\ l <= Len(Rec) /\ Cur.ev # "reset" /\ phase \in {"rejected", "ended", "idle"}
            /\ l' = l + 1
            /\ (IF phase = "ended" THEN viol' = viol \cup {case} /\ phase' = "rejected"      \* events after `end`
                                   ELSE UNCHANGED <<viol, phase>>)
            /\ UNCHANGED <<case, hdr, np, pend, seen, poss, sel, exps, written, cur, wlcs, slcs, tpdiff>>

Next == Reset \/ Proc \/ Out \/ WrLock \/ WrFree \/ EndLock \/ EndFree \/ Reject \/ SkipRest
Spec == Init /\ [][Next]_vars

AtEnd == l = Len(Rec) + 1
FinalViol == IF phase \in {"running", "file"} THEN viol \cup {case} ELSE viol
Report == AtEnd => PrintT(<<"VERDICT", ToJson([violations |-> FinalViol, known |-> {}, tpdiff |-> tpdiff])>>)
Accepted == IF TLCGet("stats").diameter - 1 = Len(Rec) THEN TRUE
            ELSE Print(<<"TRACE_NOT_CONSUMED", TLCGet("stats").diameter, Len(Rec)>>, FALSE)
=============================================================================
