----------------------------- MODULE StreamTrace -----------------------------
(* C16, server layer - trace validation of stream sessions against the real `adlt remote` binary
   (harness/src/bin/c16.rs, mode server).

   events (ndjson):
     {"ev":"log","name":k,"msgs":[M,...]}      a generated log file; M = [i, rx, ts, e, a, c, mc, h]: message index, reception
                                               time (ms), timestamp (0.1 ms), ecu/apid/ctid, message counter, hash of the payload text
     {"ev":"reset","case":n,"hdr":{"logline":line of the log event,"n":N,..}}
     {"ev":"ok_stream","id":n,"kind":"stream"|"query","filt":[[k,on,e,a,c],..],"win":[a,b],"parsed":bool}   the reply announcing the id
     {"ev":"bin_msgs","id":n,"n":k,"msgs":[M,...]}      a DltMsgs frame as received (k = 0: end marker of a query)
     {"ev":"bin_sum","id":n,"n":k,"first":i,"last":j,"sum":x,"intact":c}   big logs only (hdr.big = N > 0: N messages whose ecu/apid/ctid
                                               repeat with a period, the log event carries "period":[e[..],a[..],c[..]] instead of the
                                               messages): summary of a DltMsgs frame - message index of its first and last message, sum of
                                               the indices mod 1000003, number of messages equal in every field to the generated original
     {"ev":"txt_sum","id":n,"n":k,"pos0":p,"posinc":q,"first":i,"last":j,"sum":x,"intact":c}   a run of text frames `stream:<id> msg(<pos>):..`
                                               of a non-binary stream: first stream position, number of adjacent pairs whose position grows
                                               by 1, then as bin_sum (intact: index, timestamp, counter, ecu/apid/ctid of the header text)
     {"ev":"ok_change","old":o,"id":n,"win":[a,b]}      reply to stream_change_window
     {"ev":"quiescent"}                        the file is parsed completely and the server loop has nothing more to send
     {"ev":"ok_search","id","start","max","filt","idxs":[..],"next":n|-1}   one page of stream_search
     {"ev":"ok_search_sum","id","start","max","filt","n","first","last","asc","res":[..],"next"}   the same on a big periodic log, summarised
     {"ev":"ok_bsearch","id","key":"index"|"time","val","pos"} / {"ev":"err_bsearch",..}   stream_binary_search
     {"ev":"stopped","id"} {"ev":"end"}
     anything else (conn_closed, timeout, unexpected_reply, ...) -> no action: violation

   Contract (property C16).  FL = the positions of the log kept by the stream's filters, computed here from the
   message fields (Keep).  Data frames arrive only under the live announced id (events are in receive order, so
   never before the announcing reply); their concatenation is FL[a ..] in order, each position once, never beyond
   min(b, |FL|), every listed field equal to the file's; at `quiescent` exactly [a, min(b,|FL|)) has been delivered;
   a window change renews the id and the same holds again for the new window.  A query's end marker: complete if the
   query was created on a completely parsed file (otherwise only the prefix property - narrower reading).
   Big logs (windows of tens of thousands of messages) and text streams: the frames must tile [a, min(b,|FL|)) exactly, in
   order, each position once - first and last index and the index sum of every frame are those of the expected positions,
   and every delivered message equals the generated message with its index (equality established by the driver).
   A search page examined the positions [start, X) (X = next, or the stream length when next is absent) and returns
   exactly the matching ones, at most `max`; index/time lookups return the first stream position not before the
   requested message / time.                                                                                   *)
EXTENDS Integers, Sequences, FiniteSets, SequencesExt, TLC, Json, IOUtils

CONSTANTS KF_C16_SearchNextSkips,    \* a full page returns next = (last returned position) + 2: one position is never examined
          KF_C16_SearchUnfiltered,   \* a search in a stream without filters examines nothing (empty result, no next)
          KF_C16_IndexLookupUnfiltered \* an index lookup in a stream without filters returns position 0

Rec == ndJsonDeserialize(IOEnv.TRACE)

VARIABLES l, case, phase, logline, nbig, sorted, cur, maxId, viol, kfUsed
vars == <<l, case, phase, logline, nbig, sorted, cur, maxId, viol, kfUsed>>
\* sorted: the file was opened with "sort":true - the stream order is by calculated time (= timestamp order within the one lifecycle
\* per ECU of the generated logs; timestamps are distinct) instead of by index
\* cur: [id, kind, fl (1-based log positions kept by the filters), unf (no filters), a, b, del (delivered under id), live, full]

NoCur == [id |-> 0, kind |-> "", fl |-> <<>>, pr |-> <<>>, slen |-> 0, unf |-> FALSE, a |-> 0, b |-> 0, del |-> 0, live |-> FALSE, full |-> FALSE]
Init == /\ l = 1 /\ case = -1 /\ phase = "idle" /\ logline = 0 /\ nbig = 0 /\ sorted = FALSE /\ cur = NoCur /\ maxId = 0 /\ viol = {} /\ kfUsed = {}

Ev(e) == l <= Len(Rec) /\ Rec[l].ev = e /\ l' = l + 1
Cur == Rec[l]
Log == Rec[logline].msgs
Min2(x, y) == IF x < y THEN x ELSE y
Max2(x, y) == IF x > y THEN x ELSE y

\* ---- filters: literal ecu / apid / ctid criteria; positive OR, negative veto, event AND (match_filters; the semantics
\*      C11/C12 pin down)
FMatches(f, m) == (f.e = "" \/ f.e = m.e) /\ (f.a = "" \/ f.a = m.a) /\ (f.c = "" \/ f.c = m.c)
\* a filter: [k ("pos"|"neg"|"event"|"marker"), on (enabled), e, a, c]; marker and disabled filters never change the set
ActiveOf(filt, k) == {j \in 1..Len(filt) : filt[j].on /\ filt[j].k = k}
Keep(filt, m) == /\ (ActiveOf(filt, "pos") = {} \/ \E j \in ActiveOf(filt, "pos") : FMatches(filt[j], m))
                 /\ ~(\E j \in ActiveOf(filt, "neg") : FMatches(filt[j], m))
                 /\ (ActiveOf(filt, "event") = {} \/ \E j \in ActiveOf(filt, "event") : FMatches(filt[j], m))
FiltersActive(filt) == (ActiveOf(filt, "pos") \cup ActiveOf(filt, "neg") \cup ActiveOf(filt, "event")) # {}
\* the log positions in stream order
Order == IF sorted THEN SortSeq([i \in 1..Len(Log) |-> i], LAMBDA x, y : Log[x].ts < Log[y].ts) ELSE [i \in 1..Len(Log) |-> i]
Kept(filt) == SelectSeq(Order, LAMBDA i : Keep(filt, Log[i]))

\* ---- big periodic log: message i has ecu e[i % |e|], apid a[i % |a|], ctid c[i % |c|]; the kept positions repeat with period L
Per == Rec[logline].period
L == Len(Per.e) * Len(Per.a) * Len(Per.c)
BigMsg(i) == [e |-> Per.e[(i % Len(Per.e)) + 1], a |-> Per.a[(i % Len(Per.a)) + 1], c |-> Per.c[(i % Len(Per.c)) + 1]]
KeptResidues(filt) == SelectSeq([r \in 1..L |-> r - 1], LAMBDA r : Keep(filt, BigMsg(r)))        \* ascending
BigLen(res) == (nbig \div L) * Len(res) + Cardinality({k \in 1..Len(res) : res[k] < nbig % L})
LogEv == /\ Ev("log") /\ phase \in {"idle", "ended", "rejected"} /\ UNCHANGED <<case, phase, logline, nbig, sorted, cur, maxId, viol, kfUsed>>

Reset == /\ Ev("reset") /\ case' = Cur.case /\ logline' = Cur.hdr.logline /\ nbig' = Cur.hdr.big /\ sorted' = Cur.hdr.sort /\ cur' = NoCur /\ maxId' = 0 /\ phase' = "running"
         /\ viol' = (IF phase = "running" THEN viol \cup {case} ELSE viol) /\ UNCHANGED kfUsed

OkStream == /\ Ev("ok_stream") /\ phase = "running" /\ ~cur.live /\ Cur.id > maxId
            /\ LET kept == IF nbig > 0 THEN <<>> ELSE Kept(Cur.filt)
                   res == IF nbig > 0 THEN KeptResidues(Cur.filt) ELSE <<>> IN
               cur' = [id |-> Cur.id, kind |-> Cur.kind, fl |-> kept, pr |-> res,
                       slen |-> (IF nbig > 0 THEN BigLen(res) ELSE Len(kept)),
                       unf |-> ~FiltersActive(Cur.filt),
                       a |-> Cur.win[1], b |-> Cur.win[2], del |-> 0, live |-> TRUE, full |-> Cur.parsed]
            /\ maxId' = Cur.id /\ UNCHANGED <<case, phase, logline, nbig, sorted, viol, kfUsed>>

WinEnd == Max2(cur.a, Min2(cur.b, cur.slen))          \* first stream position (0-based) not to be delivered

SameMsg(o, m) == /\ o.i = m.i /\ o.rx = m.rx /\ o.ts = m.ts /\ o.e = m.e /\ o.a = m.a /\ o.c = m.c /\ o.mc = m.mc /\ o.h = m.h

BinMsgs == /\ Ev("bin_msgs") /\ phase = "running" /\ cur.live /\ Cur.id = cur.id /\ Cur.n > 0 /\ nbig = 0
           /\ cur.a + cur.del + Cur.n <= WinEnd                                  \* inside the window, nothing twice
           /\ \A j \in 1..Cur.n : SameMsg(Cur.msgs[j], Log[cur.fl[cur.a + cur.del + j]])   \* in order, fields equal
           /\ cur' = [cur EXCEPT !.del = @ + Cur.n]
           /\ UNCHANGED <<case, phase, logline, nbig, sorted, maxId, viol, kfUsed>>

\* ---- frame summaries.  IdxAt(p): message index expected at stream position p (0-based); SumIdx(lo, n): sum of the expected
\*      indices of the positions lo .. lo+n-1 modulo M (all intermediate values stay below 2^31)
M == 1000003
IdxAt(p) == IF nbig > 0 THEN (p \div Len(cur.pr)) * L + cur.pr[(p % Len(cur.pr)) + 1] ELSE Log[cur.fl[p + 1]].i
RECURSIVE PrefixP(_)
PrefixP(r) == IF r = 0 THEN 0 ELSE PrefixP(r - 1) + cur.pr[r]
\* F(m) = sum of the indices of the first m kept positions of the periodic log
F(m) == LET per == Len(cur.pr) q == m \div per r == m % per IN
        ((((q * (q - 1)) \div 2) % M) * (L * per) + q * PrefixP(per) + L * q * r + PrefixP(r)) % M
RECURSIVE SumSmall(_, _)
SumSmall(lo, n) == IF n = 0 THEN 0 ELSE (IdxAt(lo) + SumSmall(lo + 1, n - 1)) % M
SumIdx(lo, n) == IF nbig > 0 THEN (((F(lo + n) - F(lo)) % M) + M) % M ELSE SumSmall(lo, n)
SumOk == /\ cur.a + cur.del + Cur.n <= WinEnd                                    \* inside the window, nothing twice
         /\ Cur.first = IdxAt(cur.a + cur.del) /\ Cur.last = IdxAt(cur.a + cur.del + Cur.n - 1)
         /\ Cur.sum = SumIdx(cur.a + cur.del, Cur.n)                              \* exactly the expected positions' messages
         /\ Cur.intact = Cur.n                                                   \* each equal to the file's message
BinSum == /\ Ev("bin_sum") /\ phase = "running" /\ cur.live /\ Cur.id = cur.id /\ Cur.n > 0 /\ nbig > 0
          /\ SumOk
          /\ cur' = [cur EXCEPT !.del = @ + Cur.n]
          /\ UNCHANGED <<case, phase, logline, nbig, sorted, maxId, viol, kfUsed>>
TxtSum == /\ Ev("txt_sum") /\ phase = "running" /\ cur.live /\ Cur.id = cur.id /\ Cur.n > 0
          /\ Cur.pos0 = cur.a + cur.del /\ Cur.posinc = Cur.n - 1                 \* consecutive stream positions
          /\ SumOk
          /\ cur' = [cur EXCEPT !.del = @ + Cur.n]
          /\ UNCHANGED <<case, phase, logline, nbig, sorted, maxId, viol, kfUsed>>

EndMarker == /\ Ev("bin_msgs") /\ phase = "running" /\ cur.live /\ Cur.id = cur.id /\ Cur.n = 0 /\ cur.kind = "query"
             /\ (cur.full => cur.a + cur.del = WinEnd)
             /\ cur' = [cur EXCEPT !.live = FALSE]
             /\ UNCHANGED <<case, phase, logline, nbig, sorted, maxId, viol, kfUsed>>

Quiescent == /\ Ev("quiescent") /\ phase = "running"
             /\ (cur.live => cur.a + cur.del = WinEnd)                           \* eventually: exactly the window
             /\ (~cur.live /\ cur.kind = "query" /\ cur.full => cur.a + cur.del = WinEnd)
             /\ UNCHANGED <<case, phase, logline, nbig, sorted, cur, maxId, viol, kfUsed>>

OkChange == /\ Ev("ok_change") /\ phase = "running" /\ cur.live /\ Cur.old = cur.id /\ Cur.id > maxId
            /\ cur' = [cur EXCEPT !.id = Cur.id, !.a = Cur.win[1], !.b = Cur.win[2], !.del = 0]
            /\ maxId' = Cur.id /\ UNCHANGED <<case, phase, logline, nbig, sorted, viol, kfUsed>>

\* ---- search: stream positions are 0-based indices into the stream's sequence (FL, or the whole log without filters)
StreamLen == cur.slen
SMatches(sf, lo, hi) == SelectSeq([k \in 1..Max2(0, hi - lo) |-> lo + k - 1], LAMBDA p : Keep(sf, Log[cur.fl[p + 1]]))
SearchCommon == /\ Ev("ok_search") /\ phase = "running" /\ cur.live /\ Cur.id = cur.id /\ cur.kind = "stream"
OkSearch == /\ SearchCommon
            /\ Len(Cur.idxs) <= Max2(1, Cur.max)
            /\ IF Cur.next < 0 THEN Cur.idxs = SMatches(Cur.filt, Cur.start, StreamLen)
               ELSE /\ Cur.next > Cur.start /\ Cur.next <= StreamLen /\ Cur.idxs = SMatches(Cur.filt, Cur.start, Cur.next)
            /\ UNCHANGED <<case, phase, logline, nbig, sorted, cur, maxId, viol, kfUsed>>
\* one page of a search on a big periodic log, as a summary: n positions, strictly ascending (asc), the first and the last one, the
\* residues (position modulo L) that occur.  Only for streams in which the stream position is the message index (every residue
\* kept).  n ascending positions inside [start, hi) whose residues all satisfy the search filters, with n = the number of such
\* positions, are exactly the matching positions.
CountTo(res, x) == (x \div L) * Len(res) + Cardinality({k \in 1..Len(res) : res[k] < x % L})
OkSearchSum == /\ Ev("ok_search_sum") /\ phase = "running" /\ cur.live /\ Cur.id = cur.id /\ cur.kind = "stream" /\ nbig > 0
               /\ Len(cur.pr) = L
               /\ Cur.asc /\ Cur.n <= Max2(1, Cur.max) /\ Cur.start <= StreamLen
               /\ (Cur.next >= 0 => Cur.next > Cur.start /\ Cur.next <= StreamLen)
               /\ LET res == KeptResidues(Cur.filt)
                      hi == IF Cur.next < 0 THEN StreamLen ELSE Cur.next IN
                  /\ \A k \in 1..Len(Cur.res) : \E j \in 1..Len(res) : res[j] = Cur.res[k]
                  /\ Cur.n = CountTo(res, hi) - CountTo(res, Cur.start)
                  /\ (Cur.n > 0 => Cur.first >= Cur.start /\ Cur.last < hi)
               /\ UNCHANGED <<case, phase, logline, nbig, sorted, cur, maxId, viol, kfUsed>>
KfSearchSkips == /\ SearchCommon /\ KF_C16_SearchNextSkips /\ ~cur.unf
                 /\ Cur.next >= 0 /\ Len(Cur.idxs) = Cur.max /\ Cur.max >= 1 /\ Cur.next = Cur.idxs[Len(Cur.idxs)] + 2
                 /\ Cur.next <= StreamLen
                 /\ Cur.idxs = SMatches(Cur.filt, Cur.start, Cur.next - 1)            \* the page itself is right,
                 /\ Keep(Cur.filt, Log[cur.fl[Cur.next]])                            \* position next-1 matches and is skipped
                 /\ kfUsed' = kfUsed \cup {[case |-> case, kf |-> "KF_C16_SearchNextSkips"]}
                 /\ UNCHANGED <<case, phase, logline, nbig, sorted, cur, maxId, viol>>
KfSearchUnfiltered == /\ SearchCommon /\ KF_C16_SearchUnfiltered /\ cur.unf
                      /\ Cur.idxs = <<>> /\ Cur.next < 0 /\ SMatches(Cur.filt, Cur.start, StreamLen) # <<>>
                      /\ kfUsed' = kfUsed \cup {[case |-> case, kf |-> "KF_C16_SearchUnfiltered"]}
                      /\ UNCHANGED <<case, phase, logline, nbig, sorted, cur, maxId, viol>>

\* ---- lookups: the first stream position whose message is not before the requested message index / time
\* "not before" in STREAM order: by index, resp. for a sorted file by time; the message with index v is Log[v + 1]
OrdKey(m) == IF sorted THEN m.ts ELSE m.i
IndexPos(v) == Cardinality({p \in 1..StreamLen : OrdKey(Log[cur.fl[p]]) < OrdKey(Log[v + 1])})
\* time of a message in ms = timestamp (0.1 ms) / 10 (= reception time for the messages that were not delivered late)
TimePos(v) == Cardinality({p \in 1..StreamLen : Log[cur.fl[p]].ts \div 10 < v})
BsCommon(e) == /\ Ev(e) /\ phase = "running" /\ cur.live /\ Cur.id = cur.id /\ cur.kind = "stream"
OkBsearch == /\ BsCommon("ok_bsearch")
             /\ IF Cur.key = "index"
                THEN (IF Cur.val < Len(Log) THEN Cur.pos = IndexPos(Cur.val) ELSE Cur.pos = StreamLen)   \* beyond the end: saturating
                ELSE Cur.pos = TimePos(Cur.val)
             /\ UNCHANGED <<case, phase, logline, nbig, sorted, cur, maxId, viol, kfUsed>>
ErrBsearch == /\ BsCommon("err_bsearch") /\ Cur.key = "index" /\ Cur.val >= Len(Log)       \* or: no such message in the file
              /\ UNCHANGED <<case, phase, logline, nbig, sorted, cur, maxId, viol, kfUsed>>
KfIndexUnfiltered == /\ BsCommon("ok_bsearch") /\ KF_C16_IndexLookupUnfiltered /\ cur.unf /\ Cur.key = "index"
                     /\ Cur.val < Len(Log) /\ Cur.pos = 0 /\ IndexPos(Cur.val) # 0
                     /\ kfUsed' = kfUsed \cup {[case |-> case, kf |-> "KF_C16_IndexLookupUnfiltered"]}
                     /\ UNCHANGED <<case, phase, logline, nbig, sorted, cur, maxId, viol>>

Stopped == /\ Ev("stopped") /\ phase = "running" /\ cur.live /\ Cur.id = cur.id
           /\ cur' = [cur EXCEPT !.live = FALSE] /\ UNCHANGED <<case, phase, logline, nbig, sorted, maxId, viol, kfUsed>>
End == /\ Ev("end") /\ phase = "running" /\ phase' = "ended" /\ UNCHANGED <<case, logline, nbig, sorted, cur, maxId, viol, kfUsed>>

Matched == \/ ENABLED OkStream \/ ENABLED BinMsgs \/ ENABLED BinSum \/ ENABLED TxtSum \/ ENABLED EndMarker \/ ENABLED Quiescent \/ ENABLED OkChange
           \/ ENABLED OkSearch \/ ENABLED OkSearchSum \/ ENABLED KfSearchSkips \/ ENABLED KfSearchUnfiltered
           \/ ENABLED OkBsearch \/ ENABLED ErrBsearch \/ ENABLED KfIndexUnfiltered \/ ENABLED Stopped \/ ENABLED End
Reject == /\ l <= Len(Rec) /\ Cur.ev \notin {"reset", "log"} /\ phase = "running" /\ ~Matched
          /\ PrintT(<<"CASE_REJECTED", case, l, ToJson([event |-> Cur, id |-> cur.id, kind |-> cur.kind, a |-> cur.a, b |-> cur.b,
                                                       delivered |-> cur.del, live |-> cur.live, stream_len |-> cur.slen,
                                                       fl_head |-> SubSeq(cur.fl, 1, Min2(12, Len(cur.fl)))])>>)
          /\ l' = l + 1 /\ phase' = "rejected" /\ viol' = viol \cup {case} /\ UNCHANGED <<case, logline, nbig, sorted, cur, maxId, kfUsed>>
SkipRest == /\ l <= Len(Rec) /\ Cur.ev \notin {"reset", "log"} /\ phase \in {"rejected", "ended", "idle"}
            /\ l' = l + 1
            /\ IF phase = "ended" THEN viol' = viol \cup {case} /\ phase' = "rejected" ELSE UNCHANGED <<viol, phase>>
            /\ UNCHANGED <<case, logline, nbig, sorted, cur, maxId, kfUsed>>

\* the strict reading is tried first: a deviation action only where no contract action matches
Strict == OkStream \/ BinMsgs \/ BinSum \/ TxtSum \/ EndMarker \/ Quiescent \/ OkChange \/ OkSearch \/ OkSearchSum \/ OkBsearch \/ ErrBsearch \/ Stopped \/ End
Next == \/ LogEv \/ Reset \/ Strict
        \/ (~ENABLED OkSearch /\ (KfSearchSkips \/ KfSearchUnfiltered))
        \/ (~ENABLED OkBsearch /\ KfIndexUnfiltered)
        \/ Reject \/ SkipRest
Spec == Init /\ [][Next]_vars

AtEnd == l = Len(Rec) + 1
FinalViol == IF phase = "running" THEN viol \cup {case} ELSE viol
Report == AtEnd => PrintT(<<"VERDICT", ToJson([violations |-> FinalViol, known |-> kfUsed])>>)
Accepted == IF TLCGet("stats").diameter - 1 = Len(Rec) THEN TRUE
            ELSE Print(<<"TRACE_NOT_CONSUMED", TLCGet("stats").diameter, Len(Rec)>>, FALSE)
=============================================================================
