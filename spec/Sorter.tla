------------------------------- MODULE Sorter -------------------------------
(* C10 - time sorting (adlt::utils::buffer_sort_messages, src/utils/mod.rs 640-851).  DESIGN.md section 6 C10, Appendix I.

   Design module (implementation-shaped): a min-heap ordered by (calculated time, index), a per-ECU sliding
   window of observed buffering delays (entries at least 1 s apart, at most W of them, cleared when the ECU
   switches lifecycle, running maximum recomputed when the popped entry was the maximum), and the release
   threshold  thr = D + max over ECUs (window younger than W-1 s ? 1000 s : window maximum).
   After every message everything with  calc + thr < rx  is released; End flushes the heap.

   A step is parameterised by (ecu, lifecycle, reception delta, raw delay, ctrl):
       rx   = previous rx + delta                      (delta may be negative: reception time going backwards)
       ts   = rx - raw delay - LcStart[lc]             (raw delay < 0: a timestamp beyond the reception time)
       calc = rx for control requests, else min(LcStart[lc] + ts, rx)       -- the property's "calculated time"
   TIME UNIT.  All times (reception, lifecycle start, calculated time) are in model ticks of TickUs microseconds; the
   calculated time is a MICROSECOND quantity in the code (lifecycle start in us + timestamp in 0.1 ms units, or the
   reception time in us for control requests / capped messages), so it is finer than the timestamp resolution:
   lifecycle starts and reception times need not lie on the 0.1 ms timestamp grid, and two calculated times less than
   0.1 ms apart are DIFFERENT times that have to come out in their order.  Sec = ticks per second (the code's 1 s entry
   spacing and 1000 s young-window value are Sec and 1000*Sec), TsGrid = timestamp resolution in ticks (timestamps are
   multiples of it).  The coarse configs use TickUs = 10^6, Sec = 1, TsGrid = 1; the sub-tick config uses TickUs = 50,
   Sec = 20000, TsGrid = 2 with lifecycle starts that differ by an odd number of ticks (50 us off each other's grid).

   A message's identity is its position in the input (idx); its index FIELD (what the code's heap compares after the
   calculated time) is a separate value and may repeat (IndexMode).  Among buffered messages with equal
   (calc, index) the real heap's order is unspecified; the model picks the smaller idx (a prediction that differs
   from the code there is a drift, judged by the contract - never a violation by itself).

   The buffer has NO capacity: Release (everything with calc + thr < rx) and the final Flush are the only ways out of
   the heap, however many messages it holds (the code's `with_capacity(1024 * 1024)` is a preallocation, not a limit; a
   forced release at some fill level would break OrderedUnderBound as soon as more messages than that sit inside the
   buffering window - the driver's burst cases hold > 2^20).  HeldUntilOld states it as an invariant.

   Invariants (TLC, all bounded behaviours): ThrAtLeastD (the crux of the ordering argument), Permutation,
   OrderedUnderBound.  With Record = TRUE the inputs are remembered and EmitScn prints one scenario line per
   complete behaviour: inputs, the predicted output order and the contract's verdict on it.                  *)
EXTENDS Integers, Sequences, FiniteSets, TLC, Json

CONSTANTS Ecus,        \* set of ECU names (strings)
          LcOfEcu,     \* [Ecus -> SUBSET lifecycle ids]
          LcStart,     \* [lifecycle id -> start tick]  (the lifecycle table)
          W,           \* window size in seconds (>= 1)
          D,           \* configured minimum buffering delay (ticks)
          MaxMsgs,
          RxDeltas,    \* reception time deltas (a negative one leaves the ordering claim's domain)
          Delays,      \* raw delays rx - (start + ts) of ordinary messages (negative: timestamp beyond rx; > D: outside the bound)
          CtrlDelays,  \* raw delays of control requests (their timestamp is ignored); {} = no control requests
          Record,      \* TRUE: remember the inputs (scenario emission), FALSE: exhaustive checking without history
          Sec, TsGrid, TickUs, BaseTicks,   \* time unit (see above); BaseTicks * TickUs = the absolute time of tick 0 for the replay
          IndexMode    \* the messages' index field: "pos" = 0,1,2,.. (what one producer in adlt delivers), "zero" = never
                       \* assigned, "mod2" = 0,1,0,1,.. (merged sources each numbered on their own): duplicates allowed

VARIABLES n, rxNow, heap, win, thr, out, bound, inputs, done
vars == <<n, rxNow, heap, win, thr, out, bound, inputs, done>>

YOUNG == 1000 * Sec
Max2(a, b) == IF a > b THEN a ELSE b
Min2(a, b) == IF a < b THEN a ELSE b
NoWin == [lc |-> 0, entries |-> <<>>, cur |-> 0]
RxStart == 200

Init == /\ n = 0 /\ rxNow = RxStart /\ heap = {} /\ win = [e \in Ecus |-> NoWin] /\ thr = D /\ out = <<>>
        /\ bound = TRUE /\ inputs = <<>> /\ done = FALSE

SeqMax(s) == LET RECURSIVE M(_)
                 M(i) == IF i = 0 THEN 0 ELSE Max2(s[i].maxd, M(i - 1))
             IN M(Len(s))
Key(w, rx) == IF w.entries[1].start + (W - 1) * Sec > rx THEN YOUNG ELSE w.cur
KeyMax(ws, rx) == LET used == {e \in Ecus : ws[e].entries # <<>>}
                      RECURSIVE MM(_)
                      MM(S) == IF S = {} THEN 0
                               ELSE LET x == CHOOSE y \in S : TRUE IN Max2(Key(ws[x], rx), MM(S \ {x}))
                  IN MM(used)

\* the window update as coded (update_max_buffering_delays); returns [w, recalcT, roll, sw]
Upd(w0, lc, rx, delay) ==
  LET sw == w0.lc # lc
      w1 == IF sw THEN [lc |-> lc, entries |-> <<>>, cur |-> delay] ELSE w0
      insertNew == w1.entries = <<>> \/ w1.entries[Len(w1.entries)].start + Sec < rx
  IN IF insertNew THEN
        LET full == Len(w1.entries) = W
            rD0 == full /\ w1.entries[1].maxd = w1.cur
            e1 == IF full THEN Tail(w1.entries) ELSE w1.entries
            e2 == Append(e1, [start |-> rx, maxd |-> delay])
            rD == IF delay > w1.cur THEN FALSE ELSE rD0
            cur1 == IF delay > w1.cur THEN delay ELSE w1.cur
            cur2 == IF rD THEN SeqMax(e2) ELSE cur1
        IN [w |-> [lc |-> lc, entries |-> e2, cur |-> cur2], recalcT |-> TRUE, roll |-> full, sw |-> sw /\ w0.lc # 0]
     ELSE
        LET k == Len(w1.entries)
            last == w1.entries[k]
            upd == last.maxd < delay
            e2 == IF upd THEN [w1.entries EXCEPT ![k].maxd = delay] ELSE w1.entries
            cur1 == IF upd /\ delay > w1.cur THEN delay ELSE w1.cur
        IN [w |-> [lc |-> lc, entries |-> e2, cur |-> cur1], recalcT |-> (upd /\ delay > w1.cur), roll |-> FALSE, sw |-> FALSE]

IndexOf(k) == CASE IndexMode = "pos" -> k [] IndexMode = "zero" -> 0 [] IndexMode = "mod2" -> k % 2
KeyLE(a, b) == a.calc < b.calc \/ (a.calc = b.calc /\ a.index <= b.index)              \* the code's order: (calc, index)
KeyLT(a, b) == a.calc < b.calc \/ (a.calc = b.calc /\ a.index < b.index)
                \/ (a.calc = b.calc /\ a.index = b.index /\ a.idx < b.idx)            \* model's choice among equal keys
HeapMin(h) == CHOOSE x \in h : \A y \in h : x = y \/ KeyLT(x, y)
RECURSIVE Release(_, _, _, _)
Release(h, o, t, rx) == IF h = {} THEN [h |-> h, o |-> o]
                        ELSE LET m == HeapMin(h) IN
                             IF m.calc + t < rx THEN Release(h \ {m}, Append(o, m), t, rx) ELSE [h |-> h, o |-> o]
RECURSIVE Flush(_, _)
Flush(h, o) == IF h = {} THEN o ELSE LET m == HeapMin(h) IN Flush(h \ {m}, Append(o, m))

Proc(e, lc, rx, raw, ctrl) ==
  LET ts == rx - raw - LcStart[lc]
      calc == IF ctrl THEN rx ELSE Min2(LcStart[lc] + ts, rx)
      delay == rx - calc
      u == Upd(win[e], lc, rx, delay)
      ws == [win EXCEPT ![e] = u.w]
      t == IF u.recalcT THEN D + KeyMax(ws, rx) ELSE thr
      r == Release(heap \cup {[idx |-> n, index |-> IndexOf(n), calc |-> calc]}, out, t, rx)
  IN /\ ts >= 0 /\ ts % TsGrid = 0          \* a timestamp the 0.1 ms field can hold
     /\ win' = ws /\ thr' = t /\ heap' = r.h /\ out' = r.o /\ n' = n + 1 /\ rxNow' = rx
     /\ bound' = (bound /\ delay <= D /\ rx >= rxNow)
     /\ inputs' = IF Record THEN Append(inputs, [ecu |-> e, lc |-> lc, rx |-> rx, ts |-> ts, ctrl |-> ctrl, index |-> IndexOf(n),
                                                 roll |-> u.roll, sw |-> u.sw, capped |-> (~ctrl /\ raw < 0)])
                            ELSE inputs

Step == /\ ~done /\ n < MaxMsgs /\ done' = done
        /\ \E e \in Ecus : \E lc \in LcOfEcu[e] : \E d \in RxDeltas :
             \/ \E raw \in Delays : Proc(e, lc, rxNow + d, raw, FALSE)
             \/ \E raw \in CtrlDelays : Proc(e, lc, rxNow + d, raw, TRUE)
End == /\ ~done /\ n > 0 /\ done' = TRUE /\ out' = Flush(heap, out) /\ heap' = {}
       /\ UNCHANGED <<n, rxNow, win, thr, bound, inputs>>
Next == Step \/ End
Spec == Init /\ [][Next]_vars

-----------------------------------------------------------------------------
\* the property (C10) on the model
ThrAtLeastD == thr >= D
Permutation == /\ Len(out) + Cardinality(heap) = n
               /\ \A i, j \in 1..Len(out) : i # j => out[i].idx # out[j].idx
               /\ \A i \in 1..Len(out) : out[i] \notin heap /\ out[i].idx \in 0..(n - 1)
               /\ \A m \in heap : m.idx \in 0..(n - 1)
               /\ (done => heap = {})
Sorted == \A i \in 1..(Len(out) - 1) : KeyLE(out[i], out[i + 1])     \* (strict when the index fields are unique)
OrderedUnderBound == bound => Sorted
\* no forced release: before End, whatever has left the heap was older than the threshold when it left, i.e. everything
\* still younger is still held - equivalently: nothing in `out` could still be overtaken by a message within the bound
HeldUntilOld == ~done => \A i \in 1..Len(out) : out[i].calc + D < rxNow \/ ~bound
ContractOk == Permutation /\ OrderedUnderBound

\* scenario emission (Record = TRUE): one line per complete behaviour
LcIds == UNION {LcOfEcu[e] : e \in Ecus}
TableSeq == LET RECURSIVE T(_)
                T(S) == IF S = {} THEN <<>>
                        ELSE LET x == CHOOSE y \in S : \A z \in S : y <= z
                             IN <<[id |-> x, start |-> LcStart[x]]>> \o T(S \ {x})
            IN T(LcIds)
EmitScn == done => PrintT(<<"SCN", ToJson([w |-> W, d |-> D, tick_us |-> TickUs, base |-> BaseTicks, index_mode |-> IndexMode, table |-> TableSeq, msgs |-> inputs,
                                           out |-> [i \in 1..Len(out) |-> out[i].idx],
                                           bound |-> bound, contract_ok |-> ContractOk])>>)
=============================================================================
