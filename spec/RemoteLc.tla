------------------------------ MODULE RemoteLc ------------------------------
(* X05 (extra area) - the lifecycle / statistics side channel of `adlt remote`
   (src/bin/adlt/remote.rs process_file_context; src/utils/remote_types.rs BinType::{FileInfo, Lifecycles, EacInfo}).

   Design model = the lifecycle detector model (LcDetector.tla, one `Step` per received message, `Finish` at the end of
   the input) composed with

     publication   the detector writes lifecycles into a shared table (evmap): every `update` carries the current refresh
                   index (lcs_w_refresh_idx), `refresh` makes the pending writes (and pending removals) visible and the
                   index is increased after it.  At the granularity of one detector step this is: every table entry whose
                   content changed in the step gets the step's index; the index grows when anything was written/removed.
     server poll   one pass of process_file_context: take the forwarded messages from the channel (count them for
                   FileInfo, add them to the ECU/APID/CTID statistics), send FileInfo if something arrived, send the
                   lifecycles whose refresh index is larger than the largest index seen so far
                   (last_lcs_w_refresh_index), except lifecycles that consist only of control requests, send EacInfo
                   when its timer is due or the parser has finished (only if the count grew), and - once, when the
                   channel is closed and drained - the final FileInfo.
     client        folds the Lifecycles frames into a table: last write wins per id (an entry with 0 messages withdraws
                   the id - only the proposed fix ever sends one).

   Poll schedules (constant Scheds, chosen in Init):  0 = the server only looks after the parser has finished;
   k > 0 = the parser pauses before every k-th message (hook ADLT_VERIF_PARSE_THROTTLE=k:ms) and the server looks during
   every pause; FreePolls = TRUE: a poll may happen between any two detector steps (model checking of the properties).

   The property (checked as invariants at `Idle` = parser finished and the server has noticed it):
     NoMissingNoStale  every lifecycle of the final table (with a message that is not a control request) is in the
                       client's table with exactly the final values;
     NoExtra           the client's table lists nothing else                    -- VIOLATED by the code as it is:
     ExtraOnlyRemoved  (FixWithdraw = FALSE) what it lists in excess are exactly lifecycles that were listed and later
                       merged into an older lifecycle of the same ECU (removed from the shared table; no message carries
                       their id) - known finding KF_X05_RemovedLcStaysListed;
     FileInfoOk        the reported message counts increase and end with the number of messages;
     EacOk             the last statistics frame is the histogram of all messages;
     CountsOk          the message count of every listed lifecycle is the number of forwarded messages carrying its id.
   FixWithdraw = TRUE models proposed_fixes/X05-withdraw-removed.diff (the server remembers the ids it sent and sends an
   entry with 0 messages for an id that left the shared table): NoExtra holds.                                        *)
EXTENDS LcDetector

CONSTANTS Scheds,        \* set of poll schedules (see above)
          FreePolls,     \* TRUE: polls at arbitrary points between detector steps
          PartialRecv,   \* TRUE: a poll may take only a prefix of the forwarded messages (50 ms deadline / 10 ms timeout)
          EacTimer,      \* TRUE: the statistics timer may be due at any poll
          FixWithdraw

VARIABLES sched,      \* the schedule of this behaviour
          rix,        \* last_lcw_refresh_index of the detector (starts at 1)
          stamp,      \* table id -> refresh index of its last write
          rpub,       \* table id -> what the server would send for it (mirror of `published` with the wire fields)
          srvLast,    \* last_lcs_w_refresh_index of the server
          srvSent,    \* ids the server has sent and not withdrawn (used by the proposed fix only)
          srvRecv,    \* messages the server has taken from the channel
          srvFin,     \* did_inform_parser_processing_finished
          polledN,    \* (n at the last poll) + 1, 0 = no poll yet
          view,       \* the client's table: id -> wire record
          views,      \* history: the distinct successive client tables
          fiSeq,      \* history: the distinct successive FileInfo counts
          eacLast,    \* last EacInfo: ECU -> count
          eacNr       \* eac_last_nr_msgs
rvars == <<sched, rix, stamp, rpub, srvLast, srvSent, srvRecv, srvFin, polledN, view, views, fiSeq, eacLast, eacNr>>

\* what BinLifecycle carries (times in ticks + a microsecond remainder: a resumed lifecycle that would start before the one it
\* resumes is reported 1 us after that one's start); co = consists of control requests only (never sent)
RSnap(lc) ==
  LET isRes == lc.res.id # 0
      adj == isRes /\ lc.start <= lc.res.start
      shift == IF isRes /\ lc.res.start < lc.start THEN lc.start - lc.res.start ELSE 0
  IN [id |-> lc.id, ecu |-> lc.ecu, nr |-> lc.nr,
      st |-> (IF adj THEN lc.res.start ELSE lc.start), su |-> (IF adj THEN 1 ELSE 0),
      et |-> EndTime(lc), eu |-> 0,
      res |-> isRes, rt |-> (IF isRes THEN (lc.start + lc.minTs) - shift ELSE 0), ru |-> 0,
      co |-> lc.nrCtrl >= lc.nr]
Wire(r) == [id |-> r.id, ecu |-> r.ecu, nr |-> r.nr, st |-> r.st, su |-> r.su, et |-> r.et, eu |-> r.eu,
            res |-> r.res, rt |-> r.rt, ru |-> r.ru]

MaxOf(S, d) == IF S = {} THEN d ELSE CHOOSE x \in S : \A y \in S : y <= x
MinOf(S, d) == IF S = {} THEN d ELSE CHOOSE x \in S : \A y \in S : x <= y
AppendDistinct(s, x) == IF s # <<>> /\ s[Len(s)] = x THEN s ELSE Append(s, x)
EcuHist(k) == [e \in Ecus |-> Cardinality({i \in 1..k : delivered[i].ecu = e})]

RInit == /\ Init
         /\ sched \in Scheds
         /\ rix = 1 /\ stamp = <<>> /\ rpub = <<>> /\ srvLast = 0 /\ srvSent = {} /\ srvRecv = 0 /\ srvFin = FALSE
         /\ polledN = 0 /\ view = <<>> /\ views = <<>> /\ fiSeq = <<>> /\ eacLast = [e \in Ecus |-> 0] /\ eacNr = 0

\* the table writes of one detector step, seen through the refresh index
Publish ==
  LET upd == {i \in DOMAIN published' : i \notin DOMAIN published \/ published'[i] # published[i]}
      rem == DOMAIN published \ DOMAIN published'
  IN /\ rpub' = [i \in DOMAIN published' |-> IF i \in upd THEN RSnap(CHOOSE lc \in AllLcs' : lc.id = i) ELSE rpub[i]]
     /\ stamp' = [i \in DOMAIN published' |-> IF i \in upd THEN rix ELSE stamp[i]]
     /\ rix' = (IF upd # {} \/ rem # {} THEN rix + 1 ELSE rix)

PollDue == sched > 0 /\ n < MaxMsgs /\ (n + 1) % sched = 0
SrvUnch == UNCHANGED <<sched, srvLast, srvSent, srvRecv, srvFin, polledN, view, views, fiSeq, eacLast, eacNr>>

DStep == /\ ~done /\ n < MaxMsgs
         /\ FreePolls \/ (PollDue => polledN = n + 1)
         /\ \E m \in Msgs : \E order \in Perms(Ecus) : Step(m, order)
         /\ Publish /\ SrvUnch

DFinish == /\ n > 0
           /\ FreePolls \/ polledN # n + 1          \* the parser does not pause after the last message
           /\ Finish
           /\ Publish /\ SrvUnch

\* one pass of process_file_context
Poll ==
  /\ ~srvFin
  /\ FreePolls \/ done \/ (PollDue /\ polledN # n + 1)
  /\ \E k \in (IF PartialRecv THEN srvRecv..Len(delivered) ELSE {Len(delivered)}) :
     \E timer \in (IF EacTimer THEN BOOLEAN ELSE {FALSE}) :
       LET fin == done /\ k = Len(delivered)
           cand == {i \in DOMAIN rpub : stamp[i] > srvLast}
           items == {i \in cand : ~rpub[i].co}
           gone == IF FixWithdraw THEN srvSent \ DOMAIN rpub ELSE {}
           view1 == [i \in (DOMAIN view \cup items) \ gone |-> IF i \in items THEN Wire(rpub[i]) ELSE view[i]]
           eacDue == (timer \/ fin) /\ eacNr < k
       IN /\ srvRecv' = k
          /\ srvLast' = MaxOf({stamp[i] : i \in cand}, srvLast)
          /\ srvSent' = (srvSent \cup items) \ gone
          /\ view' = view1
          /\ views' = (IF view1 # view THEN Append(views, view1) ELSE views)
          /\ fiSeq' = (IF k > srvRecv \/ fin THEN AppendDistinct(fiSeq, k) ELSE fiSeq)
          /\ eacLast' = (IF eacDue THEN EcuHist(k) ELSE eacLast)
          /\ eacNr' = (IF eacDue THEN k ELSE eacNr)
          /\ srvFin' = fin
          /\ polledN' = n + 1
  /\ UNCHANGED <<vars, sched, rix, stamp, rpub>>

RNext == DStep \/ DFinish \/ Poll
RSpec == RInit /\ [][RNext]_<<vars, rvars>> /\ WF_<<vars, rvars>>(RNext)

-----------------------------------------------------------------------------
Idle == done /\ srvFin
FinalIds == {i \in DOMAIN rpub : ~rpub[i].co}
FinalTable == {Wire(rpub[i]) : i \in FinalIds}

NoMissingNoStale == Idle => \A i \in FinalIds : i \in DOMAIN view /\ view[i] = Wire(rpub[i])
NoExtra == Idle => DOMAIN view \subseteq FinalIds
ExtraOnlyRemoved == Idle => \A i \in DOMAIN view \ FinalIds :
                        /\ i \notin DOMAIN rpub
                        /\ CountDel(i) = 0
                        /\ \E j \in FinalIds : j < i /\ rpub[j].ecu = view[i].ecu
Increasing(s) == \A i \in 1..(Len(s) - 1) : s[i] < s[i + 1]
FileInfoOk == Increasing(fiSeq) /\ (Idle => fiSeq # <<>> /\ fiSeq[Len(fiSeq)] = n)
EacOk == Idle => eacLast = EcuHist(n) /\ eacNr = n
CountsOk == Idle => \A i \in FinalIds : CountDel(i) = rpub[i].nr
TableMirror == DOMAIN rpub = DOMAIN published /\ DOMAIN stamp = DOMAIN published
               /\ (\A i \in DOMAIN rpub : rpub[i].nr = published[i].nr /\ rpub[i].ecu = published[i].ecu /\ rpub[i].et = published[i].end)
               /\ (\A j \in DOMAIN stamp : stamp[j] < rix)
Terminates == <>Idle
\* vacuity witness for the configs that are meant to reach the known finding: prints one line per idle state with an entry in excess
KfWitness == (Idle /\ DOMAIN view \ FinalIds # {}) => PrintT(<<"KFHIT", Cardinality(DOMAIN view \ FinalIds)>>)

\* state constraint of the small witness config (quick tier): streams shaped like the known finding's input (three messages
\* with timestamp 0, then timestamps 70), all reception-time steps
KfFamily == \A i \in 1..Len(inputs) : inputs[i].ts = (IF i <= 3 THEN 0 ELSE 70)

\* fingerprint view for the model-checking configs (histories dropped; LcDetector's View already drops its own)
RView == <<View, sched, stamp, rix, rpub, srvLast, srvSent, srvRecv, srvFin, polledN, view, eacLast, eacNr,
           IF fiSeq = <<>> THEN 0 ELSE fiSeq[Len(fiSeq)] + 1>>

-----------------------------------------------------------------------------
\* scenario emission: one line per terminal behaviour with the predicted observables and the contract's verdict on it
RelRec(r, base) == [r EXCEPT !.id = (r.id + 1) - base]
SentBase == MinOf(UNION {DOMAIN views[j] : j \in 1..Len(views)}, 1)
ContractOk == NoMissingNoStale /\ NoExtra /\ FileInfoOk /\ EacOk /\ CountsOk
REmit == Idle =>
  PrintT(<<"SCN", ToJson([inputs |-> inputs, k |-> sched,
                          pred |-> [n |-> n,
                                    views |-> [j \in 1..Len(views) |-> {RelRec(views[j][i], SentBase) : i \in DOMAIN views[j]}],
                                    fi |-> fiSeq,
                                    eac |-> {<<e, eacLast[e]>> : e \in Ecus},
                                    final |-> LET base == MinOf(FinalIds, 1) IN {RelRec(w, base) : w \in FinalTable},
                                    ok |-> ContractOk,
                                    kf |-> IF ContractOk THEN "" ELSE IF ~NoExtra /\ ExtraOnlyRemoved THEN "KF_X05_RemovedLcStaysListed" ELSE "?"]])>>)
=============================================================================
