------------------------------- MODULE Merge -------------------------------
(* C09 - merging / chaining message sources (src/utils/sorting_multi_readeriterator.rs).

   Design = contract for this area (DESIGN.md section 6, C09).  A family of sources is chosen in Init; every
   source is a finite sequence of reception times.

     Kind = "merge"  SortingMultiReaderIterator: a min-heap holds the head of every non-exhausted source; `next`
                     pops the smallest head (ties: BinaryHeap order is unspecified => nondeterministic here),
                     numbers it, refills from the same source.
     Kind = "chain"  SequentialMultiIterator: emits from the first non-exhausted source.

   TLC checks on every family within the bounds: the output is an interleaving that keeps each source's order,
   is complete, consecutively numbered from Start, and sorted whenever every source is sorted.               *)
EXTENDS Integers, Sequences, FiniteSets, TLC, Json

CONSTANTS MaxSrc,      \* families of 0..MaxSrc sources
          MaxLen,      \* each with 0..MaxLen messages
          Times,       \* reception time alphabet
          Starts,      \* start indices
          Kind         \* "merge" | "chain"

VARIABLES srcs, start, pos, out, done
vars == <<srcs, start, pos, out, done>>

SeqsUpTo(n, S) == UNION {[1..k -> S] : k \in 0..n}
Families == UNION {[1..k -> SeqsUpTo(MaxLen, Times)] : k \in 0..MaxSrc}

N == Len(srcs)
Active == {s \in 1..N : pos[s] < Len(srcs[s])}
HeadRx(s) == srcs[s][pos[s] + 1]
IsMinHead(s) == \A t \in Active : HeadRx(s) <= HeadRx(t)
FirstActive(s) == \A t \in Active : s <= t

Init == /\ srcs \in Families
        /\ start \in Starts
        /\ pos = [s \in 1..Len(srcs) |-> 0]
        /\ out = <<>>
        /\ done = FALSE

Emit(s) == /\ ~done /\ s \in Active
           /\ IF Kind = "merge" THEN IsMinHead(s) ELSE FirstActive(s)
           /\ out' = Append(out, [src |-> s, pos |-> pos[s] + 1, rx |-> HeadRx(s), index |-> start + Len(out)])
           /\ pos' = [pos EXCEPT ![s] = @ + 1]
           /\ UNCHANGED <<srcs, start, done>>

End == /\ ~done /\ Active = {} /\ done' = TRUE /\ UNCHANGED <<srcs, start, pos, out>>

Next == (\E s \in 1..N : Emit(s)) \/ End
Spec == Init /\ [][Next]_vars /\ WF_vars(Next)

-----------------------------------------------------------------------------
\* the property (C09)
Sorted(sq) == \A i \in 1..(Len(sq) - 1) : sq[i] <= sq[i + 1]
AllSorted == \A s \in 1..N : Sorted(srcs[s])
FromSrc(s) == SelectSeq(out, LAMBDA e : e.src = s)

PerSourceOrder == \A s \in 1..N : LET f == FromSrc(s) IN
                      /\ Len(f) = pos[s]
                      /\ \A i \in 1..Len(f) : f[i].pos = i /\ f[i].rx = srcs[s][i]
Numbered == \A i \in 1..Len(out) : out[i].index = start + i - 1
Complete == done => \A s \in 1..N : pos[s] = Len(srcs[s])
SortedIfSorted == (Kind = "merge" /\ AllSorted) => Sorted([i \in 1..Len(out) |-> out[i].rx])
Concatenation == Kind = "chain" => \A i \in 1..(Len(out) - 1) :
                      out[i].src < out[i + 1].src \/ (out[i].src = out[i + 1].src /\ out[i].pos + 1 = out[i + 1].pos)
Terminates == <>done

\* scenario emission: one line per family (initial state)
EmitFamilies == (out = <<>> /\ ~done) => PrintT(<<"SCN", ToJson([srcs |-> srcs, start |-> start])>>)
=============================================================================
