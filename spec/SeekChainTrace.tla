-------------------------- MODULE SeekChainTrace --------------------------
(* C20, part 1 - trace validation of the real SeekableChain against the reference cursor (the contract).

   trace lines (ndjson), real byte counts:
     {"ev":"reset","case":n,"hdr":{"sizes":[..],"total":t,"concat":[bytes] or [] when t > 64,"src":...}}
     {"ev":"read","n":n,"k":k,"eq":b,"hash":h,"ref_hash":h2,"data":[bytes] or []}
            read(buf of n bytes) returned Ok(k); eq = the k bytes equal the reference slice (data equality done by
            the driver), hash/ref_hash = 31-bit hashes of returned and reference bytes, data = returned bytes (small cases)
     {"ev":"seek","from":"start"|"cur"|"end","a":arg,"ok":b,"r":result}
     {"ev":"rte","k":k,"eq":b,"hash":h,"ref_hash":h2}            read_to_end returned k bytes
     {"ev":"end"} / {"ev":"panic","msg":..}

   Contract = a cursor `pos` over the concatenation:
     read:  k <= n, pos + k <= total, bytes = Concat[pos, pos+k), k = 0 only if n = 0 or pos = total
     seek:  (driver domain: target inside [0, total]) succeeds and returns the target
     rte:   returns everything from pos to the end
   Known finding KF_C20_EmptyVolume (defect #13): a zero-length read (or an early end of read_to_end) before the
   end is tolerated only at a position where an empty volume starts, and at most once per empty volume there
   until the position changes.                                                                               *)
EXTENDS Integers, Sequences, FiniteSets, TLC, Json, IOUtils

CONSTANT KF_C20_EmptyVolume

Rec == ndJsonDeserialize(IOEnv.TRACE)

VARIABLES l, case, phase, hdr, pos, zeros, viol, kfUsed
vars == <<l, case, phase, hdr, pos, zeros, viol, kfUsed>>

NoHdr == [sizes |-> <<>>, total |-> 0, concat |-> <<>>]
Init == l = 1 /\ case = -1 /\ phase = "idle" /\ hdr = NoHdr /\ pos = 0 /\ zeros = 0 /\ viol = {} /\ kfUsed = {}

Ev(e) == l <= Len(Rec) /\ Rec[l].ev = e /\ l' = l + 1
Cur == Rec[l]

RECURSIVE SumTo(_, _)
SumTo(s, k) == IF k = 0 THEN 0 ELSE s[k] + SumTo(s, k - 1)
Total == hdr.total
\* number of empty volumes that start at reference position p
NEmptyAt(p) == Cardinality({i \in 1..Len(hdr.sizes) : hdr.sizes[i] = 0 /\ SumTo(hdr.sizes, i - 1) = p})

Reset == /\ Ev("reset")
         /\ case' = Cur.case /\ hdr' = Cur.hdr /\ pos' = 0 /\ zeros' = 0 /\ phase' = "running"
         /\ viol' = (IF phase = "running" THEN viol \cup {case} ELSE viol)
         /\ UNCHANGED kfUsed

HdrOk == Total = SumTo(hdr.sizes, Len(hdr.sizes))

DataOk(k) == /\ Cur.eq /\ Cur.hash = Cur.ref_hash
             /\ (Len(hdr.concat) > 0 => Cur.data = SubSeq(hdr.concat, pos + 1, pos + k))

Read == /\ Ev("read") /\ phase = "running" /\ HdrOk
        /\ LET k == Cur.k IN
           /\ k >= 0 /\ k <= Cur.n /\ pos + k <= Total
           /\ DataOk(k)
           /\ (k = 0 => (Cur.n = 0 \/ pos = Total))
           /\ pos' = pos + k /\ zeros' = (IF k = 0 THEN zeros ELSE 0)
        /\ UNCHANGED <<case, phase, hdr, viol, kfUsed>>

KF_Read0 == /\ KF_C20_EmptyVolume
            /\ Ev("read") /\ phase = "running" /\ HdrOk
            /\ Cur.k = 0 /\ Cur.n > 0 /\ pos < Total /\ Cur.eq
            /\ zeros < NEmptyAt(pos)
            /\ zeros' = zeros + 1 /\ pos' = pos
            /\ kfUsed' = kfUsed \cup {[case |-> case, kf |-> "KF_C20_EmptyVolume"]}
            /\ UNCHANGED <<case, phase, hdr, viol>>

Target == IF Cur.from = "start" THEN Cur.a ELSE IF Cur.from = "cur" THEN pos + Cur.a ELSE Total + Cur.a

Seek == /\ Ev("seek") /\ phase = "running" /\ HdrOk
        /\ Cur.from \in {"start", "cur", "end"}
        /\ Target >= 0 /\ Target <= Total            \* the driver's domain; anything else is a driver error => rejected
        /\ Cur.ok /\ Cur.r = Target
        /\ pos' = Target /\ zeros' = (IF Target = pos THEN zeros ELSE 0)
        /\ UNCHANGED <<case, phase, hdr, viol, kfUsed>>

Rte == /\ Ev("rte") /\ phase = "running" /\ HdrOk
       /\ Cur.k = Total - pos /\ Cur.eq /\ Cur.hash = Cur.ref_hash
       /\ pos' = Total /\ zeros' = 0
       /\ UNCHANGED <<case, phase, hdr, viol, kfUsed>>

\* read_to_end stops at the first zero-length read: early end only where an empty volume starts (and none was consumed yet)
KF_Rte == /\ KF_C20_EmptyVolume
          /\ Ev("rte") /\ phase = "running" /\ HdrOk
          /\ Cur.k >= 0 /\ Cur.k < Total - pos /\ Cur.eq /\ Cur.hash = Cur.ref_hash
          /\ (IF Cur.k = 0 THEN zeros ELSE 0) < NEmptyAt(pos + Cur.k)
          /\ pos' = pos + Cur.k /\ zeros' = (IF Cur.k = 0 THEN zeros ELSE 0) + 1
          /\ kfUsed' = kfUsed \cup {[case |-> case, kf |-> "KF_C20_EmptyVolume"]}
          /\ UNCHANGED <<case, phase, hdr, viol>>

End == /\ Ev("end") /\ phase = "running"
       /\ phase' = "ended" /\ UNCHANGED <<case, hdr, pos, zeros, viol, kfUsed>>

Matches == ENABLED Read \/ ENABLED KF_Read0 \/ ENABLED Seek \/ ENABLED Rte \/ ENABLED KF_Rte \/ ENABLED End
Reject == /\ l <= Len(Rec) /\ Cur.ev # "reset" /\ phase = "running" /\ ~Matches
          /\ PrintT(<<"CASE_REJECTED", case, l, ToJson(Cur)>>)
          /\ l' = l + 1 /\ phase' = "rejected" /\ viol' = viol \cup {case}
          /\ UNCHANGED <<case, hdr, pos, zeros, kfUsed>>
SkipRest == /\ l <= Len(Rec) /\ Cur.ev # "reset" /\ phase \in {"rejected", "ended", "idle"}
            /\ l' = l + 1
            /\ (IF phase = "ended" THEN viol' = viol \cup {case} /\ phase' = "rejected"
                                   ELSE UNCHANGED <<viol, phase>>)
            /\ UNCHANGED <<case, hdr, pos, zeros, kfUsed>>

Next == Reset \/ Read \/ KF_Read0 \/ Seek \/ Rte \/ KF_Rte \/ End \/ Reject \/ SkipRest
Spec == Init /\ [][Next]_vars

AtEnd == l = Len(Rec) + 1
FinalViol == IF phase = "running" THEN viol \cup {case} ELSE viol
Report == AtEnd => PrintT(<<"VERDICT", ToJson([violations |-> FinalViol, known |-> kfUsed])>>)
Accepted == IF TLCGet("stats").diameter - 1 = Len(Rec) THEN TRUE
            ELSE Print(<<"TRACE_NOT_CONSUMED", TLCGet("stats").diameter, Len(Rec)>>, FALSE)
=============================================================================
