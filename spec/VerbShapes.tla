----------------------------- MODULE VerbShapes -----------------------------
(* C18 - the serde encoder (src/serde_verb_payload/ser_verb_payload.rs) fed with NESTED Rust shapes.

   "Encoding a sequence of typed values" through `to_payload` / `dlt_args!` / `add_to_serializer` is not limited to one
   plain value per call: the values can sit inside Option, newtype structs, tuples, structs, Vec, maps, enum variants,
   and a char / a unit / an enum unit variant can stand between them.  A handed shape is a TREE over the serde data
   model; a node is the record  [t, i, n, c]:

     t  "leaf"  argument i of the scenario (one of the statement's typed values)        "char"  char number i, n UTF-8 bytes
        "none" "unit" "unit_struct"                                                     (no data)
        "some" "newtype" "wrapper"            one child ("wrapper" = newtype variant 0 of an enum called DltVerbArgTypeWrapper,
                                              the documented way to get an ASCII-typed string from bytes)
        "unit_variant" "newtype_variant" "tuple_variant" "struct_variant" "field"       carry the NAME number i of n bytes
        "seq" "tuple" "tuple_struct" "map" "struct"                                     containers (children in c;
                                              struct / struct_variant children are "field" nodes, map children alternate key, value)
   A FORM is [via, tops]: the top-level trees in the order they are handed over and the entry point:
     "args"        one dlt_args! expression / add_to_serializer call per top        "to_payload"  to_payload(&top), one top
     "d_seq" "d_tuple" "d_tuple_struct" "d_tuple_variant"   the element method of the serializer's own SerializeSeq / ... helper
     "d_map"  serialize_key / serialize_value alternately   "d_struct" "d_struct_variant"  serialize_field(name, child) per "field" top
   (the helpers are public trait implementations on `&mut Serializer`; no `Serialize` implementation can reach them on this
   tree because every constructor - serialize_seq, serialize_map, ... - refuses, so they are driven directly).

   Two readings live here:
   * CLeaves  - the CONTRACT's reading (property-shaped): which typed values a shape hands over, in order.  Data-less nodes
     hand over nothing, transparent wrappers and containers hand over what their children hand over, a char is a UTF-8
     string, NAMES (variant names, struct field keys) are strings handed to the encoder too but a format may or may not
     carry them: they are OPTIONAL arguments (absent, or a UTF-8 string with exactly these bytes).  A "wrapper" around
     exactly one raw-bytes value makes it an ASCII-typed string; anything else under a "wrapper" (another kind, a name,
     several values) has no fixed meaning and is not judged (see VerbTrace).
     The encoder may REFUSE any form that is not a plain sequence of leaves (nothing is claimed then).
   * Ser      - the DESIGN's reading: exactly what the code of this tree does (which shapes are refused with which error,
     which are transparent) - used only for prediction (drift), never for a verdict.
   spec/mc/MCVerbPayload.tla checks on the bounded model that Ser refines CLeaves (ShapesConform).                          *)
EXTENDS VerbPayload

NoDataT  == {"none", "unit", "unit_struct"}
NamedT   == {"unit_variant", "newtype_variant", "tuple_variant", "struct_variant", "field"}
RefusedT == {"seq", "tuple", "tuple_struct", "tuple_variant", "map", "struct", "struct_variant"}   \* constructors that return Nyi
PlainVias == {"args", "to_payload"}

\* ---------------------------------------------------------------- contract reading: the values a tree hands over
\* leaf descriptor: nd = the node, opt = may be absent, name = the value is the node's NAME, ascii = below a "wrapper",
\* solo = the only value below its outermost "wrapper"
RECURSIVE CLeaves(_, _), CatLeaves(_, _, _)
CLeaves(nd, ascii) ==
  CASE nd.t \in {"leaf", "char"} -> <<[nd |-> nd, opt |-> FALSE, name |-> FALSE, ascii |-> ascii, solo |-> TRUE]>>
    [] nd.t \in NoDataT          -> <<>>
    [] nd.t \in NamedT           -> <<[nd |-> nd, opt |-> TRUE, name |-> TRUE, ascii |-> ascii, solo |-> TRUE]>> \o CatLeaves(nd.c, 1, ascii)
    [] nd.t = "wrapper"          -> (LET D == CatLeaves(nd.c, 1, TRUE) IN
                                     IF Len(D) = 0 THEN <<>> ELSE [j \in 1..Len(D) |-> [D[j] EXCEPT !.solo = (Len(D) = 1)]])
    [] OTHER                     -> CatLeaves(nd.c, 1, ascii)
CatLeaves(kids, j, ascii) == IF j > Len(kids) THEN <<>> ELSE CLeaves(kids[j], ascii) \o CatLeaves(kids, j + 1, ascii)
FormLeaves(f) == CatLeaves(f.tops, 1, FALSE)
OptIdx(D) == {k \in 1..Len(D) : D[k].opt}
\* a form the encoder has to accept: plain entry point, every top a typed value itself
PlainForm(f) == f.via \in PlainVias /\ \A j \in 1..Len(f.tops) : f.tops[j].t = "leaf"

\* ---------------------------------------------------------------- design reading: what this tree's serializer does
SOk(lv) == [ok |-> TRUE, err |-> "", leaves |-> lv]
SErr(e) == [ok |-> FALSE, err |-> e, leaves |-> <<>>]
ALeaf(kind, w, n, src, si) == [kind |-> kind, w |-> w, n |-> n, src |-> src, si |-> si]
NameLeaf(nd) == ALeaf("strU", 0, nd.n + 1, "name", nd.i)            \* serialize_str: the bytes and a terminating NUL
RECURSIVE Ser(_, _), SerAll(_, _, _)
Ser(args, nd) ==
  CASE nd.t = "leaf"         -> SOk(<<ALeaf(args[nd.i].kind, args[nd.i].w, args[nd.i].n, "arg", nd.i)>>)
    [] nd.t = "char"         -> SOk(<<ALeaf("strU", 0, nd.n + 1, "char", nd.i)>>)                 \* serialize_char = serialize_str
    [] nd.t = "unit_variant" -> SOk(<<NameLeaf(nd)>>)                                                \* serialize_str(variant)
    [] nd.t \in {"some", "newtype"} -> Ser(args, nd.c[1])                                            \* transparent
    [] nd.t \in NoDataT      -> SErr("Nyi")                                                           \* serialize_unit
    [] nd.t \in RefusedT     -> SErr("Nyi")                                                           \* serialize_seq / serialize_map / ...
    [] nd.t = "newtype_variant" -> (LET r == Ser(args, nd.c[1]) IN IF r.ok THEN SErr("Nyi") ELSE r)  \* writes both, then Nyi
    [] nd.t = "wrapper"      -> (LET r == Ser(args, nd.c[1]) IN
                                 IF ~r.ok THEN r
                                 ELSE IF Len(r.leaves) >= 1 /\ r.leaves[1].kind = "rawd"
                                      THEN SOk(<<[r.leaves[1] EXCEPT !.kind = "strA"]>> \o Tail(r.leaves))
                                      ELSE SErr("UnsupportedType"))
    [] nd.t = "field"        -> (LET r == Ser(args, nd.c[1]) IN IF r.ok THEN SOk(<<NameLeaf(nd)>> \o r.leaves) ELSE r)
SerAll(args, tops, j) == IF j > Len(tops) THEN SOk(<<>>)
                         ELSE LET r == Ser(args, tops[j]) IN
                              IF ~r.ok THEN r
                              ELSE LET rest == SerAll(args, tops, j + 1) IN IF rest.ok THEN SOk(r.leaves \o rest.leaves) ELSE rest
\* every entry point hands the tops over one after the other and stops at the first error (the helpers' `end` is Ok)
SerForm(args, f) == SerAll(args, f.tops, 1)
=============================================================================
