---------------------------- MODULE RemoteLcTrace ----------------------------
(* X05 (extra area) - contract + trace validation for the lifecycle / statistics side channel of `adlt remote`.

   One case = one file opened through the real server binary.  Trace lines (ndjson), in the order the client received the frames:
     {"ev":"reset","case":c,"hdr":{"n":N,              number of messages in the file
                                   "final":[rec,...],   lifecycle table of a LOCAL run of the real detector on the same file
                                                        (lifecycles with at least one message that is not a control request)
                                   "ecus":[[ecu,k],..], "eac":[[ecu,apid,ctid,k],..]   histogram of the file's messages
                                   "msgs":[[ecu,apid,ctid],..]   the messages themselves (small files; then TLC counts itself)
                                   "src","k","throttle","how","inputs","ctrl_only": informational }}
     {"ev":"fi","nr":k}                      a FileInfo frame
     {"ev":"lcs","items":[rec,...]}          a Lifecycles frame
     {"ev":"eac","ecus":[..],"eac":[..]}     an EacInfo frame (entries with count > 0)
     {"ev":"counts","total":t,"c":[[id,k],..]}  after parsing finished: all messages queried, counted per lifecycle id they carry
     {"ev":"idle"}                           parsing has finished and the connection is idle (no frame pending)
     {"ev":"end"}
     anything else (panic, conn_closed, timeout, bad_frame, other, unexpected_reply, connect_failed): no action matches
   rec = {"id" (relative to the smallest id of the table),"ecu","nr","st","su","et","eu","res","rt","ru","sw"}:
         start / end / resume time as seconds + microseconds, resume flag, software version.

   The contract (the property, nothing about how the server batches its frames):
     * FileInfo counts never decrease;
     * at `idle`: the client's table - the union of all Lifecycles frames, last write wins per id, an entry with 0 messages
       withdraws the id - equals the local run's table: no lifecycle missing, none stale, none listed in excess;
       the last FileInfo count is N; the last EacInfo is the true histogram; every listed lifecycle's message count is the
       number of delivered messages that carry its id.
   Known finding KF_X05_RemovedLcStaysListed (deviation action IdleKF): the table lists, in excess, lifecycles that no delivered
   message refers to and that belong to an ECU with an older lifecycle in the table (a lifecycle that was announced and was
   merged into its predecessor afterwards is never withdrawn); everything else must still be exact.                      *)
EXTENDS Integers, Sequences, FiniteSets, TLC, Json, IOUtils

CONSTANT KF_X05_RemovedLcStaysListed

Rec == ndJsonDeserialize(IOEnv.TRACE)

VARIABLES l, case, phase, hdr, view, fiLast, eacE, eacT, haveEac, cnt, cntTotal, haveCnt, viol, kfUsed
vars == <<l, case, phase, hdr, view, fiLast, eacE, eacT, haveEac, cnt, cntTotal, haveCnt, viol, kfUsed>>

NoHdr == [n |-> 0, final |-> <<>>, ecus |-> <<>>, eac |-> <<>>, msgs |-> <<>>]
Init == /\ l = 1 /\ case = -1 /\ phase = "none" /\ hdr = NoHdr /\ view = <<>> /\ fiLast = 0 /\ eacE = {} /\ eacT = {}
        /\ haveEac = FALSE /\ cnt = {} /\ cntTotal = 0 /\ haveCnt = FALSE /\ viol = {} /\ kfUsed = {}

Ev(e) == l <= Len(Rec) /\ Rec[l].ev = e /\ l' = l + 1
Cur == Rec[l]
ToSet(s) == {s[i] : i \in DOMAIN s}

Reset == /\ Ev("reset")
         /\ case' = Cur.case /\ hdr' = Cur.hdr /\ phase' = "running"
         /\ view' = <<>> /\ fiLast' = 0 /\ eacE' = {} /\ eacT' = {} /\ haveEac' = FALSE /\ cnt' = {} /\ cntTotal' = 0 /\ haveCnt' = FALSE
         /\ viol' = (IF phase \in {"running", "checked"} THEN viol \cup {case} ELSE viol)    \* previous case never ended
         /\ UNCHANGED kfUsed

Fi == /\ Ev("fi") /\ phase = "running"
      /\ Cur.nr >= fiLast                                     \* never decreases
      /\ fiLast' = Cur.nr
      /\ UNCHANGED <<case, phase, hdr, view, eacE, eacT, haveEac, cnt, cntTotal, haveCnt, viol, kfUsed>>

\* the client's fold: last write wins per id, an entry with 0 messages withdraws the id
LastOf(items, id) == items[CHOOSE i \in DOMAIN items : items[i].id = id /\ \A j \in DOMAIN items : items[j].id = id => j <= i]
Lcs == /\ Ev("lcs") /\ phase = "running"
       /\ LET items == Cur.items
              ids == {items[i].id : i \in DOMAIN items}
              gone == {id \in ids : LastOf(items, id).nr = 0}
          IN view' = [id \in (DOMAIN view \cup ids) \ gone |-> IF id \in ids THEN LastOf(items, id) ELSE view[id]]
       /\ UNCHANGED <<case, phase, hdr, fiLast, eacE, eacT, haveEac, cnt, cntTotal, haveCnt, viol, kfUsed>>

Eac == /\ Ev("eac") /\ phase = "running"
       /\ eacE' = ToSet(Cur.ecus) /\ eacT' = ToSet(Cur.eac) /\ haveEac' = TRUE
       /\ UNCHANGED <<case, phase, hdr, view, fiLast, cnt, cntTotal, haveCnt, viol, kfUsed>>

Counts == /\ Ev("counts") /\ phase = "running"
          /\ cnt' = ToSet(Cur.c) /\ cntTotal' = Cur.total /\ haveCnt' = TRUE
          /\ UNCHANGED <<case, phase, hdr, view, fiLast, eacE, eacT, haveEac, viol, kfUsed>>

\* the true histogram: counted here from the message list when the header carries it, else the driver's count of the generated log
Msgs == hdr.msgs
ExpEcus == IF Len(Msgs) > 0
           THEN {<<e, Cardinality({i \in DOMAIN Msgs : Msgs[i][1] = e})>> : e \in {Msgs[i][1] : i \in DOMAIN Msgs}}
           ELSE ToSet(hdr.ecus)
ExpEac == IF Len(Msgs) > 0
          THEN {<<t[1], t[2], t[3], Cardinality({i \in DOMAIN Msgs : Msgs[i] = t})>> : t \in {Msgs[i] : i \in {j \in DOMAIN Msgs : Msgs[j][2] # ""}}}
          ELSE ToSet(hdr.eac)

FinalSet == ToSet(hdr.final)
ViewSet == {view[i] : i \in DOMAIN view}
CountOf(id) == LET S == {p \in cnt : p[1] = id} IN IF S = {} THEN 0 ELSE (CHOOSE p \in S : TRUE)[2]
StatsOk == /\ fiLast = hdr.n
           /\ haveEac /\ eacE = ExpEcus /\ eacT = ExpEac
           /\ haveCnt /\ cntTotal = hdr.n /\ (\A f \in FinalSet : CountOf(f.id) = f.nr)

IdleStrict == /\ Ev("idle") /\ phase = "running"
              /\ ViewSet = FinalSet
              /\ StatsOk
              /\ phase' = "checked"
              /\ UNCHANGED <<case, hdr, view, fiLast, eacE, eacT, haveEac, cnt, cntTotal, haveCnt, viol, kfUsed>>

IdleKF == /\ Ev("idle") /\ phase = "running" /\ KF_X05_RemovedLcStaysListed
          /\ FinalSet \subseteq ViewSet /\ ViewSet # FinalSet
          /\ (\A x \in ViewSet \ FinalSet :
                /\ x.id \notin {f.id : f \in FinalSet}                       \* not a stale version of a listed lifecycle
                /\ CountOf(x.id) = 0                                         \* no delivered message refers to it
                /\ \E f \in FinalSet : f.id < x.id /\ f.ecu = x.ecu)         \* an older lifecycle of its ECU is in the table
          /\ StatsOk
          /\ phase' = "checked"
          /\ kfUsed' = kfUsed \cup {[case |-> case, kf |-> "KF_X05_RemovedLcStaysListed"]}
          /\ UNCHANGED <<case, hdr, view, fiLast, eacE, eacT, haveEac, cnt, cntTotal, haveCnt, viol>>

\* the two are mutually exclusive (the deviation needs an entry in excess)
Idle == IdleStrict \/ IdleKF

End == /\ Ev("end") /\ phase = "checked" /\ phase' = "ended"
       /\ UNCHANGED <<case, hdr, view, fiLast, eacE, eacT, haveEac, cnt, cntTotal, haveCnt, viol, kfUsed>>

Matches == ENABLED Fi \/ ENABLED Lcs \/ ENABLED Eac \/ ENABLED Counts \/ ENABLED Idle \/ ENABLED End
Reject == /\ l <= Len(Rec) /\ Cur.ev # "reset" /\ phase \in {"running", "checked"} /\ ~Matches
          /\ PrintT(<<"CASE_REJECTED", case, l, ToJson(Cur)>>)
          /\ l' = l + 1 /\ phase' = "rejected" /\ viol' = viol \cup {case}
          /\ UNCHANGED <<case, hdr, view, fiLast, eacE, eacT, haveEac, cnt, cntTotal, haveCnt, kfUsed>>
SkipRest == /\ l <= Len(Rec) /\ Cur.ev # "reset" /\ phase \in {"rejected", "ended", "none"}
            /\ l' = l + 1
            /\ IF phase = "ended" THEN viol' = viol \cup {case} /\ phase' = "rejected" ELSE UNCHANGED <<viol, phase>>
            /\ UNCHANGED <<case, hdr, view, fiLast, eacE, eacT, haveEac, cnt, cntTotal, haveCnt, kfUsed>>

Next == Reset \/ Fi \/ Lcs \/ Eac \/ Counts \/ Idle \/ End \/ Reject \/ SkipRest
Spec == Init /\ [][Next]_vars

AtEnd == l = Len(Rec) + 1
FinalViol == IF phase \in {"running", "checked"} THEN viol \cup {case} ELSE viol
Report == AtEnd => PrintT(<<"VERDICT", ToJson([violations |-> FinalViol, known |-> {k \in kfUsed : k.case \notin FinalViol}])>>)
Accepted == IF TLCGet("stats").diameter - 1 = Len(Rec) THEN TRUE
            ELSE Print(<<"TRACE_NOT_CONSUMED", TLCGet("stats").diameter, Len(Rec)>>, FALSE)
=============================================================================
