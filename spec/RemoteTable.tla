---------------------------- MODULE RemoteTable ----------------------------
(* C15 - the reply table of `adlt remote` (DESIGN.md section 6, C15), as pure operators.

   A text command is abstracted to  [verb, arg, tk]:
     verb  the command word ("open", "close", ..., or "unknown" for anything that is no command)
     arg   the *shape* of the parameters (which of the enumerated well-/ill-formed variants was sent)
     tk    the kind of the first parameter of the four stream-addressing verbs:
           "none" (missing) | "nonnum" (not a u32) | "id" (a u32; whether it is live is decided from the state)

   Pol(..) gives the set of reply polarities the property allows for a command in a session state:
   {"ok"}, {"err"}, {"unknown"} or {"ok","err"} where the statement leaves the outcome open (it depends on parsing
   progress, or the requirement is only "a reply").  Used by Remote.tla (prediction) and RemoteTrace.tla (contract). *)
EXTENDS Integers, Sequences, FiniteSets, TLC

\* ---- parameter shapes (each is concretised by harness/src/bin/c15.rs: fn concretise)
OpenOkArgs  == {"ok_zip_slow", "ok_zip_slow_onepass", "ok", "ok_sort", "ok_nocollect", "ok_onepass", "ok_plugins", "ok_zip", "ok_huge", "ok_huge_onepass",
                "zip_glob_all", "zip_glob_some", "ok_plugins_dup", "ok_ft", "ok_ft_nosave", "ok_ft_auto"}      \* _dup: every plugin configured twice under the same name
\* archive opens whose extraction (asynchronous, after the reply) finds nothing: inner glob without match, archive
\* without DLT file, file named like an archive that is none.  The statement fixes no polarity for the open itself
\* (today ok:, the code carries a todo to report an error) - but every later command must be answered.
OpenArchiveEmptyArgs == {"zip_glob_none", "zip_nodlt", "zip_nodlt_glob", "fakezip"}
HugeOpenArgs == {"ok_huge", "ok_huge_onepass"}     \* a log of > 512 Ki messages (more than the bounded channels hold); scripted sessions only
OnePassOpenArgs == {"ok_onepass", "ok_huge_onepass", "ok_zip_slow_onepass"}
\* ok_zip_slow..: an archive with a 96 MiB padding member, named 3 times - its extraction (sequential, after the reply) stays
\* pending for several 100 ms, so that the commands behind the open meet a file context without parser thread; scripted sessions only
OpenBadArgs == {"noarg", "badjson", "nofiles", "emptyfiles", "fileswrongtype", "filesnonstring", "missingfile",
                "nodlt", "badcollect", "pluginswrongtype", "pluginnotobj", "nonarchive_bang", "missingzip_bang"}
\* frame size classes: the same well-formed command padded to 1 KiB / 1 MiB / 15 MiB / 17 MiB / 64 MiB (JSON white space resp. a long
\* argument) - the reply is that of the small form
SizeClasses == {"1k", "1m", "15m", "17m", "64m"}
PadStreamArgs == {"pad:" \o z : z \in SizeClasses}
BigUnknownArgs == {"big:" \o z : z \in SizeClasses}
StreamOkArgs  == {"ok", "ok_filt", "ok_text", "ok_onepass", "ok_defaults", "ok_emptywin"} \cup PadStreamArgs
StreamBadArgs == {"noarg", "badjson", "badwindow", "windowwrongtype", "filterswrongtype", "badfilter"}
ChangeOkArgs  == {"ok", "ok_empty", "ok_garbage", "ok_beyond"}
ChangeBadArgs == {"noarg", "nocomma"}
BsearchArgs   == {"time", "time_garbage", "index_found", "index_garbage", "index_missing", "badkey", "nokey", "noarg"}
SearchOkArgs  == {"ok", "ok_defaults", "ok_nomatch"}
SearchBadArgs == {"noarg", "badjson", "startwrongtype", "maxwrongtype", "filterswrongtype", "badfilter"}
PluginArgs    == {"noarg", "badjson", "notobject", "nocmd", "noname", "noplugin", "ft_cmd", "rw_cmd",   \* rw_cmd: a plugin without commands
                  "save_ok", "save_ok2", "save_incomplete", "save_badidx", "save_unwritable", "save_noparams", "save_noctx"}
\* ok_ft..: a log with two complete and one incomplete file transfer, opened with the FileTransfer plugin (allowSave true / false /
\* autoSavePath).  FileTransfer `save`: the reply is `ok: plugin_cmd <bool>`; true only for a complete, already parsed transfer
\* (idx 0 and 2 of the log) with a writable target; the variants below can never succeed
PluginCmdOkArgs == {"ft_cmd", "save_ok", "save_ok2", "save_incomplete", "save_badidx", "save_unwritable", "save_noparams", "save_noctx"}
SaveNeverArgs == {"ft_cmd", "save_incomplete", "save_badidx", "save_unwritable", "save_noparams", "save_noctx"}
\* stat_oldtime.. : file-metadata shapes (modification time before 1970 / beyond 2500, directory, symlinks - live, to a
\* directory, dangling -, a fifo, a directory holding all of them and a non-UTF-8 name): existing paths, answered like any other
FsMetaArgs    == {"stat_oldtime", "stat_futuretime", "stat_dir", "stat_olddir", "stat_symlink", "stat_symlink_dir", "stat_dangling",
                  "stat_fifo", "readdir_meta", "readdir_emptydir", "readdir_via_symlink"}
FsOkArgs      == {"stat_ok", "readdir_ok", "zip_readdir", "zip_stat"} \cup FsMetaArgs
FsFakeArgs    == {"fakezip_readdir", "fakezip_stat"}
FsBadArgs     == {"noarg", "badjson", "notobject", "nocmd", "nopath", "unknowncmd", "stat_missing", "readdir_missing",
                  "arch_nonexist", "arch_unsupported"}
UnknownArgs   == {"frobnicate", "empty", "uppercase", "stream_window", "leadingspace", "sentinel"} \cup BigUnknownArgs
PlainArgs     == {"", "junk"}                  \* close / pause / resume / stop ignore trailing text

\* ---- numeric parameter classes: every numeric parameter (window start/end, start_idx, max_results, time_ms, index, ids) is
\* also sent with these values; len = number of messages of the file; u64k = u64::MAX/1000 + 1; p62 = 2^62
NumClasses == {"0", "3", "lenm1", "len", "lenp1", "u32max", "u32maxp1", "u64k", "u64max", "p62", "1e19", "neg", "float"}
NumU32 == {"0", "3", "lenm1", "len", "lenp1", "u32max"}                 \* the classes that are a valid stream id (u32)
NWinArgs == {"nwin:" \o a \o ":" \o b : a \in NumClasses, b \in NumClasses}   \* window [a,b] resp. "a,b"
NStartArgs == {"nstart:" \o a : a \in NumClasses}                    \* stream_search {"start_idx":a,..}
NMaxArgs == {"nmax:" \o a : a \in NumClasses}                        \* stream_search {"max_results":a,..}
NTimeArgs == {"ntime:" \o a : a \in NumClasses}                      \* stream_binary_search time_ms=a
NIndexArgs == {"nindex:" \o a : a \in NumClasses}                    \* stream_binary_search index=a
\* all of them are well-formed requests (numbers that do not fit are read as a default / 0 by the code): the reply is ok:
\* where the plain shape answers ok: (an index lookup: ok: or err: depending on whether such a message exists)

TargetVerbs == {"stop", "stream_change_window", "stream_binary_search", "stream_search"}

FileModeOf(arg) == CASE arg = "ok_nocollect" -> "nocollect" [] arg \in OnePassOpenArgs -> "onepass" [] OTHER -> "all"
HasPlugin(arg) == arg \in {"ok_plugins", "ok_plugins_dup", "ok_ft", "ok_ft_nosave", "ok_ft_auto"}
Both == {"ok", "err"}

(* file: "none" | "all" | "nocollect" | "onepass";  plug: a plugin with commands is active;  res: a resume was
   acknowledged since the open (in one-pass mode messages may have been drained since);
   tlive: the addressed id is a live stream of this connection;  top: that stream was created with one_pass:true.
   One-pass streams "support no window changes, no search" (StreamContext) and need "no msgs skipped yet" (todo in
   remote.rs): where the code answers ok: today and a repair would answer err:, both are allowed.               *)
Pol(verb, arg, tk, file, plug, res, tlive, top) ==
  CASE verb = "open" -> IF file # "none" THEN {"err"} ELSE IF arg \in OpenOkArgs THEN {"ok"}
                        ELSE IF arg \in OpenArchiveEmptyArgs THEN Both ELSE {"err"}
    [] verb \in {"close", "pause", "resume"} -> IF file # "none" THEN {"ok"} ELSE {"err"}
    [] verb \in {"stream", "query"} ->
         IF file \in {"none", "nocollect"} \/ arg \notin (StreamOkArgs \cup NWinArgs) THEN {"err"}
         ELSE IF file = "onepass" /\ arg # "ok_onepass" THEN {"err"}
         ELSE IF file = "onepass" /\ res THEN Both ELSE {"ok"}
    [] verb \in TargetVerbs ->
         IF tk # "id" \/ file = "none" \/ ~tlive THEN {"err"}
         ELSE IF verb = "stop" THEN {"ok"}
         ELSE IF verb = "stream_change_window" THEN (IF arg \in (ChangeOkArgs \cup NWinArgs) THEN (IF top THEN Both ELSE {"ok"}) ELSE {"err"})
         ELSE IF verb = "stream_binary_search" THEN
                (IF arg \in ({"time", "time_garbage"} \cup NTimeArgs) THEN (IF top THEN Both ELSE {"ok"})
                 ELSE IF arg \in ({"index_found", "index_garbage"} \cup NIndexArgs) THEN Both         \* found iff already parsed
                 ELSE {"err"})
         ELSE (IF arg \in (SearchOkArgs \cup NStartArgs \cup NMaxArgs) THEN (IF top THEN Both ELSE {"ok"})         \* one-pass: rejecting is the code's own todo
               ELSE {"err"})                                                      \* incl. "noarg": the statement requires err:
    [] verb = "plugin_cmd" -> IF file # "none" /\ plug /\ arg \in PluginCmdOkArgs THEN {"ok"} ELSE {"err"}
    [] verb = "fs" -> IF arg \in FsOkArgs THEN {"ok"} ELSE IF arg \in FsFakeArgs THEN Both ELSE {"err"}
    [] OTHER -> {"unknown"}
=============================================================================
