---------------------------- MODULE ExtractDefs ----------------------------
(* C20, part 2 - what "extracting the members that match a pattern into a temp dir" means (pure definitions,
   shared by Extract.tla (enumeration + sanity) and ExtractTrace.tla (contract)).

   A member name is a sequence of components. Component tokens (all strings):
       "/"            root marker, only as first component: the name is absolute
       ".."  "."  ""  parent dir, current dir, empty component ("d//x")
       "d" "e"        directory names
       "a.dlt" "b.txt" "c1.dlt" "c[1].dlt"     file names (the last one contains glob meta characters)
   The concrete name is the components joined with "/" (root marker -> an absolute prefix chosen by the driver);
   a directory member carries a trailing "/".

   A member is a record [name, dir, pre]: pre = the path the raw name denotes relative to the temp dir (or
   absolutely) exists before the extraction (only used for names that are not enclosed).

   Glob = [cls, k]:  "all" = `**/*`;  "ext" = `*.dlt`;  "dirp" = `d/*`;  "exact" = the concrete name of member k
   used as pattern (matches by string equality, and as a glob: `[1]` matches the character 1);
   "nofilter" = extract_to_dir without file filter.                                                         *)
EXTENDS Integers, Sequences, FiniteSets

FileTokens == {"a.dlt", "b.txt", "c1.dlt", "c[1].dlt"}
DltTokens == {"a.dlt", "c1.dlt", "c[1].dlt"}
DirTokens == {"d", "e"}

Last(s) == s[Len(s)]

\* depth walk of zip's enclosed_name: never above the root, not absolute
RECURSIVE DepthOk(_, _, _)
DepthOk(nm, i, depth) ==
  IF i > Len(nm) THEN TRUE
  ELSE IF nm[i] = "/" THEN FALSE
  ELSE IF nm[i] = ".." THEN (depth > 0 /\ DepthOk(nm, i + 1, depth - 1))
  ELSE IF nm[i] \in {".", ""} THEN DepthOk(nm, i + 1, depth)
  ELSE DepthOk(nm, i + 1, depth + 1)
Enclosed(nm) == DepthOk(nm, 1, 0)

\* the path below the target directory an enclosed name denotes
RECURSIVE NormFrom(_, _, _)
NormFrom(nm, i, acc) ==
  IF i > Len(nm) THEN acc
  ELSE IF nm[i] = ".." THEN NormFrom(nm, i + 1, IF Len(acc) = 0 THEN acc ELSE SubSeq(acc, 1, Len(acc) - 1))
  ELSE IF nm[i] \in {".", "", "/"} THEN NormFrom(nm, i + 1, acc)
  ELSE NormFrom(nm, i + 1, Append(acc, nm[i]))
Norm(nm) == NormFrom(nm, 1, <<>>)

\* a path made of plain names only: lies inside (below) the directory it is joined to
Plain(p) == Len(p) > 0 /\ \A i \in 1..Len(p) : p[i] \in FileTokens \cup DirTokens

\* `pat` used as glob matches `cand` component-wise (only meta characters in the alphabet: the class [1])
GlobLiteral(pat, cand) == /\ Len(pat) = Len(cand)
                          /\ \A j \in 1..Len(pat) : IF pat[j] = "c[1].dlt" THEN cand[j] = "c1.dlt" ELSE pat[j] = cand[j]

Matches(g, ms, i) ==
  LET m == ms[i] IN
  CASE g.cls = "all" -> TRUE
    [] g.cls = "nofilter" -> TRUE
    [] g.cls = "ext" -> ~m.dir /\ Last(m.name) \in DltTokens
    [] g.cls = "dirp" -> Len(m.name) >= 2 /\ m.name[1] = "d"
    [] g.cls = "exact" -> \/ (m.name = ms[g.k].name /\ m.dir = ms[g.k].dir)
                          \/ (m.dir = ms[g.k].dir /\ GlobLiteral(ms[g.k].name, m.name))

\* THE SPECIFIED RESULT: members that match the pattern, are files, and have an enclosed name
Expected(g, ms) == {i \in 1..Len(ms) : Matches(g, ms, i) /\ ~ms[i].dir /\ Enclosed(ms[i].name)}
Target(ms, i) == Norm(ms[i].name)
=============================================================================
