------------------------ MODULE LcRemoteListingTrace ------------------------
(* C07, listing clause, remote part - contract + trace validation for the lifecycle listing `adlt remote` sends to its clients.

   One case = one open of a generated DLT file through the real server binary (the same file is opened several times per server
   process, so the process-global lifecycle ids differ).  Trace lines (ndjson), in the order the client received the frames:
     {"ev":"reset","case":c,"hdr":{"local":[loc,...]   what a LOCAL run of the real detector on the same file says about every
                                                       lifecycle with a message that is not a control request:
                                                       loc = {"id","ecu","nr","st","su": raw start estimate (s, us),
                                                              "res": is a resume lifecycle, "org": id of the lifecycle it
                                                              resumes (0 = none / that one is not listed)}
                                   "src","file","open","idbase","server","conn_reused","n","how","classes","inputs": informational}}
     {"ev":"lcs","items":[ent,...]}   a Lifecycles frame, entries in the order of the frame:
                                      ent = {"id","ecu","nr","st","su": BinLifecycle.start_time (s, us) = the key the list is sorted
                                             by and the client sorts by, "res": resume_time present}
     {"ev":"idle"}                    parsing has finished and the connection is idle
     {"ev":"end"}
     anything else (panic, conn_closed, timeout, bad_frame, unexpected_reply, connect_failed): no action matches = the listing
     could not be produced.
   ids are relative to the smallest id of the case (received / local).

   The contract (the listing clause of C07, read for the remote listing):
     every Lifecycles frame   lists each lifecycle at most once and its start_time fields do not decrease in list order
                              (the list is a listing by the key; equal keys may come in any order);
     at `idle`, for the client's table (all frames folded, last write wins per id, 0 messages withdraws):
        every lifecycle of the local run is listed;
        a lifecycle that resumes nothing is listed under its start estimate      (=> without resumes: ordered by start time);
        a resume lifecycle's key is STRICTLY later than the key of the lifecycle it resumes, whenever that one is listed
        (=> by transitivity the keys increase strictly along every resume chain, so EVERY listing by the key - the frame's
         order, the client's sort, any tie-breaking of equal keys - places a resumed lifecycle after the one it resumes).
   Entries in excess of the local table (X05's known finding) are not judged here beyond the per-frame rules.
   Known finding KF_C07_ResumeChainKey (deviation action IdleKF): a resume lifecycle x whose origin o is itself a resume lifecycle
   listed under a key lifted above its own start estimate: x's key is computed against o's START ESTIMATE
   (x.key = o.start + 1 us if x.start <= o.start, else x.start) and is not later than o's key.  Every other link must be strict. *)
EXTENDS Integers, Sequences, FiniteSets, TLC, Json, IOUtils

CONSTANT KF_C07_ResumeChainKey

Rec == ndJsonDeserialize(IOEnv.TRACE)

VARIABLES l, case, phase, hdr, view, viol, kfUsed
vars == <<l, case, phase, hdr, view, viol, kfUsed>>

NoHdr == [local |-> <<>>]
Init == l = 1 /\ case = -1 /\ phase = "none" /\ hdr = NoHdr /\ view = <<>> /\ viol = {} /\ kfUsed = {}

Ev(e) == l <= Len(Rec) /\ Rec[l].ev = e /\ l' = l + 1
Cur == Rec[l]
ToSet(s) == {s[i] : i \in DOMAIN s}

Key(e) == <<e.st, e.su>>
KeyLess(a, b) == a[1] < b[1] \/ (a[1] = b[1] /\ a[2] < b[2])
KeyLeq(a, b) == ~KeyLess(b, a)
Plus1us(k) == IF k[2] = 999999 THEN <<k[1] + 1, 0>> ELSE <<k[1], k[2] + 1>>

Reset == /\ Ev("reset")
         /\ case' = Cur.case /\ hdr' = Cur.hdr /\ phase' = "running" /\ view' = <<>>
         /\ viol' = (IF phase \in {"running", "checked"} THEN viol \cup {case} ELSE viol)    \* previous case never ended
         /\ UNCHANGED kfUsed

\* a Lifecycles frame: each id at most once, keys non-decreasing in list order; the client's fold
LastOf(items, id) == items[CHOOSE i \in DOMAIN items : items[i].id = id /\ \A j \in DOMAIN items : items[j].id = id => j <= i]
Lcs == /\ Ev("lcs") /\ phase = "running"
       /\ LET items == Cur.items
              ids == {items[i].id : i \in DOMAIN items}
              gone == {id \in ids : LastOf(items, id).nr = 0}
          IN /\ (\A i, j \in DOMAIN items : i # j => items[i].id # items[j].id)
             /\ (\A i, j \in DOMAIN items : i < j => KeyLeq(Key(items[i]), Key(items[j])))
             /\ view' = [id \in (DOMAIN view \cup ids) \ gone |-> IF id \in ids THEN LastOf(items, id) ELSE view[id]]
       /\ UNCHANGED <<case, phase, hdr, viol, kfUsed>>

Local == ToSet(hdr.local)
LocOf(id) == CHOOSE r \in Local : r.id = id
Raw(r) == <<r.st, r.su>>
\* resume links whose both ends are listed by the client
Links == {r \in Local : r.org # 0 /\ r.id \in DOMAIN view /\ r.org \in DOMAIN view /\ \E o \in Local : o.id = r.org}
Strict(r) == KeyLess(Key(view[r.org]), Key(view[r.id]))
\* the exact circumstances of the known finding for the link r -> origin
KfShape(r) == LET o == LocOf(r.org) IN
              /\ o.res /\ Key(view[o.id]) # Raw(o)                                            \* the origin's key is lifted
              /\ Key(view[r.id]) = (IF KeyLeq(Raw(r), Raw(o)) THEN Plus1us(Raw(o)) ELSE Raw(r))   \* key against the origin's start estimate

Common == /\ (\A r \in Local : r.id \in DOMAIN view)                                  \* each lifecycle is listed
          /\ (\A r \in Local : (~r.res /\ r.id \in DOMAIN view) => Key(view[r.id]) = Raw(r))  \* listed under its start estimate

IdleStrict == /\ Ev("idle") /\ phase = "running"
              /\ Common
              /\ (\A r \in Links : Strict(r))
              /\ phase' = "checked"
              /\ UNCHANGED <<case, hdr, view, viol, kfUsed>>

IdleKF == /\ Ev("idle") /\ phase = "running" /\ KF_C07_ResumeChainKey
          /\ Common
          /\ (\E r \in Links : ~Strict(r))
          /\ (\A r \in Links : Strict(r) \/ KfShape(r))
          /\ phase' = "checked"
          /\ kfUsed' = kfUsed \cup {[case |-> case, kf |-> "KF_C07_ResumeChainKey"]}
          /\ UNCHANGED <<case, hdr, view, viol>>

\* mutually exclusive (the deviation needs a link that is not strict)
Idle == IdleStrict \/ IdleKF

End == /\ Ev("end") /\ phase = "checked" /\ phase' = "ended"
       /\ UNCHANGED <<case, hdr, view, viol, kfUsed>>

Matches == ENABLED Lcs \/ ENABLED Idle \/ ENABLED End
Reject == /\ l <= Len(Rec) /\ Cur.ev # "reset" /\ phase \in {"running", "checked"} /\ ~Matches
          /\ PrintT(<<"CASE_REJECTED", case, l, ToJson(Cur)>>)
          /\ l' = l + 1 /\ phase' = "rejected" /\ viol' = viol \cup {case}
          /\ UNCHANGED <<case, hdr, view, kfUsed>>
SkipRest == /\ l <= Len(Rec) /\ Cur.ev # "reset" /\ phase \in {"rejected", "ended", "none"}
            /\ l' = l + 1
            /\ IF phase = "ended" THEN viol' = viol \cup {case} /\ phase' = "rejected" ELSE UNCHANGED <<viol, phase>>
            /\ UNCHANGED <<case, hdr, view, kfUsed>>

Next == Reset \/ Lcs \/ Idle \/ End \/ Reject \/ SkipRest
Spec == Init /\ [][Next]_vars

AtEnd == l = Len(Rec) + 1
FinalViol == IF phase \in {"running", "checked"} THEN viol \cup {case} ELSE viol
Report == AtEnd => PrintT(<<"VERDICT", ToJson([violations |-> FinalViol, known |-> {k \in kfUsed : k.case \notin FinalViol}])>>)
Accepted == IF TLCGet("stats").diameter - 1 = Len(Rec) THEN TRUE
            ELSE Print(<<"TRACE_NOT_CONSUMED", TLCGet("stats").diameter, Len(Rec)>>, FALSE)
=============================================================================
