----------------------------- MODULE LcScripted -----------------------------
(* The lifecycle-detector design model (LcDetector) driven by SCRIPTS instead of its own message alphabets: every line of the
   ndjson file IOEnv.SCRIPTS is one input stream {"msgs":[{"ecu","rx","ts","kind","ix"},...]} produced by the driver's scenario
   composer (interleavings of per-ECU boot scripts, late arrivals = non-monotonic reception times, streams far longer than the
   bounded-exhaustive configs reach).  TLC computes, for every script and every iteration order of the confirmation pass, the
   model's behaviour: the design invariants C05/C06/C07/NoPanic are checked on it, and the terminal state is printed as a
   scenario with the predicted observables, the contract verdicts and the code paths taken - the driver replays the script on
   the real detector and compares (fast path) exactly as for the bounded-exhaustive configs.  This is how the rare paths that
   need 6-10 messages on two ECUs are reached (and counted: the check requires them, see lc_common.py).                       *)
EXTENDS LcDetector, IOUtils

VARIABLE sid           \* which script this behaviour replays
svars == <<vars, sid>>

Scripts == ndJsonDeserialize(IOEnv.SCRIPTS)
Cur == Scripts[sid].msgs
EcusIn == {Cur[i].ecu : i \in 1..Len(Cur)}     \* ECUs without messages have no lifecycles: their place in the iteration order is irrelevant

SInit == Init /\ sid \in 1..Len(Scripts)

SStep ==
  /\ ~done /\ n < Len(Cur)
  /\ LET r == Cur[n + 1] IN
       \E order \in Perms(EcusIn) : Step([ecu |-> r.ecu, rx |-> r.rx, ts |-> r.ts, kind |-> r.kind, ix |-> r.ix], order)
  /\ UNCHANGED sid

SFinish == n = Len(Cur) /\ n > 0 /\ Finish /\ UNCHANGED sid

SSpec == SInit /\ [][SStep \/ SFinish]_svars

EmitS == done => PrintT(<<"SCN", ToJson([sid |-> sid, inputs |-> inputs, delivered |-> delivered, pub |-> PubList, panic |-> panic,
                                         c05 |-> C05, c06 |-> C06, c07 |-> C07, paths |-> paths])>>)
=============================================================================
