----------------------------- MODULE LowMarkBuf -----------------------------
(* C04, layer 1 - design model of src/utils/lowmarkbufreader.rs (the reader alone), DESIGN.md section 6 C04 / Appendix L.

   All quantities are model bytes; the driver scales them by 4096 / CL (the cache-line arithmetic is linear).
   The source returns NONDETERMINISTIC SHORT READS: a read into a slice of `space` bytes returns any k in 1..min(space, rem),
   and 0 only for an empty slice or at the end of the source.

   One action per code step:
     Begin(op, arg)   an API call starts: fill_buf | consume(n) | read(n) | seek(Start(n)) | seek(Current(r))
     LoopIter         one iteration of the `loop` in fill_buf (compaction when pos >= CL, then ONE inner read)
     Fin              the rest of the API call after fill_buf returned (copy + consume for read, range check for seek)

   Invariants = the reader part of the property:
     I1 Window       the buffer holds exactly the source bytes [absPos, srcPos)  (so the slice handed out, buf[pos..cap), is
                     Src[absPos+pos .. absPos+cap): every byte exactly once, in order)
     I2 LowMarkKept  after fill_buf returned: cap - pos >= LM unless the source is exhausted
     I3 NoEarlyEof   the end-of-data latch implies that the source really is exhausted
     I4 Monotone     the logical position absPos + pos never moves backwards except through seek
     I5 SeekContent  a successful seek lands on buffer bytes that really are the source bytes of that position.
                     FINDING (reproduced on the real code by this check): compaction copies buf[pos..cap) to a cache-line
                     aligned offset > 0 and rebases abs_pos as if the bytes below `offset` were the preceding source bytes -
                     they are stale. Seek(Start(n)) only checks n >= abs_pos, so a backward seek into [abs_pos, abs_pos+offset)
                     succeeds and then hands out wrong bytes. Ghost variable `lo` = lowest valid buffer index; the deviation is
                     the named action part KFSeekGap (constant FixSeekGap = TRUE models the proposed repair: compaction also
                     copies the `offset` bytes in front of pos, so lo stays 0).                                              *)
EXTENDS Integers, Sequences, FiniteSets, TLC, Json

CONSTANTS CL,          \* cache line (model bytes)
          LMs,         \* set of low marks
          Extra,       \* capacity = LM + CL + x, x \in Extra   (x = 0 is the tightest capacity the constructor admits)
          SrcLens,     \* set of source lengths
          MaxOps,      \* API calls per behaviour (only binding when TrackHist)
          ConsumeNs,   \* consume amounts offered (clipped to what is buffered)
          ReadNs,      \* read request sizes
          SeekOn,      \* BOOLEAN: include seeks
          TrackHist,   \* BOOLEAN: keep the history (scenario emission) / FALSE: pure state space for the invariants
          FixSeekGap,  \* BOOLEAN: model the proposed repair of the seek-into-gap finding
          KFSeekGap    \* BOOLEAN: the seek-into-gap finding is an accepted known deviation (I5 is then not required)

VARIABLES LM, CAP, srcLen, pos, cap, absPos, eof, srcPos, pc, pend, last, ops, hist,
          lo,      \* ghost: buffer bytes [lo, cap) are the source bytes [absPos+lo, absPos+cap); bytes below lo are stale
          taint    \* ghost (history): some slice was handed out from below lo in this behaviour
vars == <<LM, CAP, srcLen, pos, cap, absPos, eof, srcPos, pc, pend, last, ops, hist, lo, taint>>

Min(a, b) == IF a < b THEN a ELSE b
Max(a, b) == IF a > b THEN a ELSE b
NoPend == [op |-> "none", arg |-> 0]
St(p, c, a, e) == [pos |-> p, cap |-> c, abs |-> a, eof |-> e]

Init == /\ LM \in LMs /\ \E x \in Extra : CAP = LM + CL + x
        /\ srcLen \in SrcLens
        /\ pos = 0 /\ cap = 0 /\ absPos = 0 /\ eof = FALSE /\ srcPos = 0
        /\ pc = "idle" /\ pend = NoPend /\ last = "none" /\ ops = 0 /\ hist = <<>> /\ lo = 0 /\ taint = FALSE

\* which API calls run fill_buf first
CallsFill(o) == o \in {"fill", "read"} \/ (o \in {"seek_start", "seek_cur"} /\ cap = 0)

Begin(o, a) ==
  /\ pc = "idle" /\ (TrackHist => ops < MaxOps)
  /\ pend' = [op |-> o, arg |-> a]
  /\ pc' = IF CallsFill(o) /\ ~eof THEN "loop" ELSE "fin"
  /\ ops' = (IF TrackHist THEN ops + 1 ELSE 0)
  /\ hist' = (IF TrackHist THEN Append(hist, [op |-> o, arg |-> a, reads |-> <<>>, k |-> 0, ok |-> TRUE, st |-> St(pos, cap, absPos, eof)])
                           ELSE hist)
  /\ UNCHANGED <<LM, CAP, srcLen, pos, cap, absPos, eof, srcPos, last, lo, taint>>

\* one iteration of the fill loop, as coded
LoopIter ==
  /\ pc = "loop"
  /\ IF cap - pos >= LM THEN pc' = "fin" /\ UNCHANGED <<pos, cap, absPos, eof, srcPos, hist, lo>>
     ELSE
       LET compact == pos >= CL
           nc0 == cap - pos
           off0 == CL - (nc0 % CL)
           off == IF off0 = CL THEN 0 ELSE off0
           cap1 == IF compact THEN nc0 + off ELSE cap
           pos1 == IF compact THEN off ELSE pos
           abs1 == IF compact THEN absPos + (pos - off) ELSE absPos
           space == CAP - cap1
           rem == srcLen - srcPos
       IN \E k \in 0..space :
            /\ k <= rem /\ (k = 0 <=> (space = 0 \/ rem = 0))
            /\ pos' = pos1 /\ absPos' = abs1 /\ srcPos' = srcPos + k
            /\ lo' = (IF compact THEN (IF FixSeekGap /\ lo = 0 THEN 0 ELSE off) ELSE lo)
            /\ IF k = 0 THEN eof' = TRUE /\ cap' = cap1 /\ pc' = "fin"
                        ELSE eof' = FALSE /\ cap' = cap1 + k /\ pc' = (IF k = space THEN "fin" ELSE "loop")
            /\ hist' = (IF TrackHist THEN [hist EXCEPT ![Len(hist)].reads = Append(@, k)] ELSE hist)
  /\ UNCHANGED <<LM, CAP, srcLen, pend, last, ops, taint>>

SeekTarget == IF pend.op = "seek_start" THEN pend.arg ELSE Max(0, absPos + pos + pend.arg)
SeekOk == SeekTarget >= absPos /\ SeekTarget <= absPos + cap

Fin ==
  /\ pc = "fin"
  /\ LET inbuf == cap - pos
         k == IF pend.op = "read" THEN Min(pend.arg, inbuf) ELSE 0
         okk == IF pend.op \in {"seek_start", "seek_cur"} THEN SeekOk ELSE TRUE
         pos2 == CASE pend.op = "consume" -> Min(pos + pend.arg, cap)
                   [] pend.op = "read" -> pos + k
                   [] pend.op \in {"seek_start", "seek_cur"} -> (IF SeekOk THEN SeekTarget - absPos ELSE pos)
                   [] OTHER -> pos
     IN /\ pos' = pos2
        /\ taint' = (taint \/ (pos2 < lo /\ pos2 < cap))
        /\ hist' = (IF TrackHist THEN [hist EXCEPT ![Len(hist)].k = k, ![Len(hist)].ok = okk,
                                                   ![Len(hist)].st = St(pos2, cap, absPos, eof)] ELSE hist)
  /\ last' = pend.op /\ pend' = NoPend /\ pc' = "idle"
  /\ UNCHANGED <<LM, CAP, srcLen, cap, absPos, eof, srcPos, ops, lo>>

Next == \/ Begin("fill", 0)
        \/ \E n \in ConsumeNs : /\ last \in {"fill", "consume"}                \* BufRead: consume only what the last fill_buf handed out
                                /\ n <= cap - pos /\ Begin("consume", n)
        \/ \E n \in ReadNs : Begin("read", n)
        \/ (SeekOn /\ \E n \in {absPos - 1, absPos, absPos + pos - 1, absPos + pos + 1, absPos + cap, absPos + cap + 1} :
                         n >= 0 /\ n <= srcLen /\ Begin("seek_start", n))
        \/ (SeekOn /\ \E r \in {-1, 1, cap - pos} : absPos + pos + r >= 0 /\ absPos + pos + r <= srcLen /\ Begin("seek_cur", r))
        \/ LoopIter \/ Fin
Spec == Init /\ [][Next]_vars

-----------------------------------------------------------------------------
Window      == absPos + cap = srcPos
Bounds      == 0 <= pos /\ pos <= cap /\ cap <= CAP /\ srcPos <= srcLen
NoEarlyEof  == eof => srcPos = srcLen
LowMarkKept == (pc = "idle" /\ last = "fill") => (cap - pos >= LM \/ srcPos = srcLen)
\* what a BufRead client sees: an empty slice only at the very end
EmptyOnlyAtEnd == (pc = "idle" /\ last = "fill" /\ cap = pos) => absPos + pos = srcLen
Monotone    == [][(pc = "fin" /\ pend.op \notin {"seek_start", "seek_cur"}) => absPos' + pos' >= absPos + pos]_vars
MonotoneFill == [][pc = "loop" => absPos' + pos' = absPos + pos]_vars
\* I5: what is (or can be) handed out lies in the valid part of the buffer - unless the known deviation is accepted
SeekContent == KFSeekGap \/ pos >= lo \/ pos = cap
\* with the proposed repair nothing stale is ever handed out
TaintOnlyBySeekGap == taint => ~FixSeekGap

\* scenario emission: one line per complete behaviour of MaxOps calls
Emit == (TrackHist /\ pc = "idle" /\ ops = MaxOps) =>
          PrintT(<<"SCN", ToJson([cl |-> CL, lm |-> LM, capacity |-> CAP, src |-> srcLen, hist |-> hist, ok |-> ~taint])>>)
=============================================================================
