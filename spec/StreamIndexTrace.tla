-------------------------- MODULE StreamIndexTrace --------------------------
(* C16, library layer - trace validation of the real process_stream_new_msgs (harness/src/bin/c16.rs, mode lib).

   events (ndjson):
     {"ev":"reset","case":n,"hdr":{"n":N,"m":[0|1,...],"s":isStream,"w":window end}}     m[i+1] = 1: position i matches
     {"ev":"arrive","k":k}                       k more messages are available to the loop
     {"ev":"grow","k":e}                         the window end of a query is raised to e (stream_change_window)
     {"ev":"process","k":chunk,"f":[...],"p":n}  after one call: filtered_msgs and all_msgs_last_processed_len
     {"ev":"panic","msg":..}                     no action: violation
     {"ev":"end"}

   Contract = the invariants of StreamIndex.tla stated on the observed values (property-shaped: no chunking is
   prescribed), plus monotony (the index only grows by appending, the marker never moves back) and progress (a call
   that sees new messages advances the marker unless a query's window is already satisfied).                    *)
EXTENDS Integers, Sequences, FiniteSets, TLC, Json, IOUtils

Rec == ndJsonDeserialize(IOEnv.TRACE)

VARIABLES l, case, phase, hdr, allLen, winEnd, processed, filtered, viol
vars == <<l, case, phase, hdr, allLen, winEnd, processed, filtered, viol>>
st == <<hdr, allLen, winEnd, processed, filtered>>

NoHdr == [n |-> 0, m |-> <<>>, s |-> TRUE, w |-> 0]
Init == /\ l = 1 /\ case = -1 /\ phase = "idle" /\ hdr = NoHdr /\ allLen = 0 /\ winEnd = 0 /\ processed = 0
        /\ filtered = <<>> /\ viol = {}

Ev(e) == l <= Len(Rec) /\ Rec[l].ev = e /\ l' = l + 1
Cur == Rec[l]

Reset == /\ Ev("reset") /\ case' = Cur.case /\ hdr' = Cur.hdr /\ allLen' = 0 /\ winEnd' = Cur.hdr.w /\ processed' = 0
         /\ filtered' = <<>> /\ phase' = "running"
         /\ viol' = (IF phase = "running" THEN viol \cup {case} ELSE viol)

Min(a, b) == IF a < b THEN a ELSE b
Matches(pos) == pos >= 0 /\ pos < hdr.n /\ hdr.m[pos + 1] = 1
\* ascending sequence of the matching positions in [0, hi)
MatchSeq(hi) == SelectSeq([i \in 1..hi |-> i - 1], Matches)
IsPrefix(a, b) == Len(a) <= Len(b) /\ \A i \in 1..Len(a) : a[i] = b[i]

Arrive == /\ Ev("arrive") /\ phase = "running" /\ Cur.k >= 0 /\ allLen + Cur.k <= hdr.n
          /\ allLen' = allLen + Cur.k /\ UNCHANGED <<case, phase, hdr, winEnd, processed, filtered, viol>>
Grow == /\ Ev("grow") /\ phase = "running" /\ ~hdr.s /\ winEnd' = Cur.k
        /\ UNCHANGED <<case, phase, hdr, allLen, processed, filtered, viol>>

Process ==
  /\ Ev("process") /\ phase = "running"
  /\ LET f == Cur.f p == Cur.p IN
     /\ \A i \in 1..(Len(f) - 1) : f[i] < f[i + 1]                             \* Increasing
     /\ \A i \in 1..Len(f) : Matches(f[i]) /\ f[i] < allLen                    \* OnlyMatches
     /\ p <= allLen                                                           \* ProcessedBound
     /\ IsPrefix(MatchSeq(Min(p, allLen)), f)                                  \* NothingSkipped
     /\ (hdr.s => f = MatchSeq(p))                                            \* StreamExact
     /\ (~hdr.s => IsPrefix(f, MatchSeq(allLen)))                             \* QueryPrefix
     /\ p >= processed /\ IsPrefix(filtered, f)                               \* monotone
     /\ (allLen > processed => p > processed \/ (~hdr.s /\ Len(f) >= winEnd))  \* progress
     /\ processed' = p /\ filtered' = f
  /\ UNCHANGED <<case, phase, hdr, allLen, winEnd, viol>>

End == /\ Ev("end") /\ phase = "running" /\ phase' = "ended" /\ UNCHANGED <<case, st, viol>>

Matched == ENABLED Arrive \/ ENABLED Grow \/ ENABLED Process \/ ENABLED End
Reject == /\ l <= Len(Rec) /\ Cur.ev # "reset" /\ phase = "running" /\ ~Matched
          /\ PrintT(<<"CASE_REJECTED", case, l, ToJson([event |-> Cur, allLen |-> allLen, winEnd |-> winEnd,
                                                       processed |-> processed, filtered |-> filtered])>>)
          /\ l' = l + 1 /\ phase' = "rejected" /\ viol' = viol \cup {case} /\ UNCHANGED <<case, st>>
SkipRest == /\ l <= Len(Rec) /\ Cur.ev # "reset" /\ phase \in {"rejected", "ended", "idle"}
            /\ l' = l + 1
            /\ IF phase = "ended" THEN viol' = viol \cup {case} /\ phase' = "rejected" ELSE UNCHANGED <<viol, phase>>
            /\ UNCHANGED <<case, st>>

Next == Reset \/ Arrive \/ Grow \/ Process \/ End \/ Reject \/ SkipRest
Spec == Init /\ [][Next]_vars

AtEnd == l = Len(Rec) + 1
FinalViol == IF phase = "running" THEN viol \cup {case} ELSE viol
Report == AtEnd => PrintT(<<"VERDICT", ToJson([violations |-> FinalViol, known |-> {}])>>)
Accepted == IF TLCGet("stats").diameter - 1 = Len(Rec) THEN TRUE
            ELSE Print(<<"TRACE_NOT_CONSUMED", TLCGet("stats").diameter, Len(Rec)>>, FALSE)
=============================================================================
