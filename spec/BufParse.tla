------------------------------ MODULE BufParse ------------------------------
(* C04, layer 2 - scaled design model: storage-framing parser (with its embedded-marker plausibility heuristic) composed with
   the visibility guarantee of the buffering reader (LowMarkBuf.tla establishes it: after fill_buf at least min(LM, rest)
   bytes are visible). DESIGN.md section 6 C04 (D2) / Appendix B.

   Tokens are numbers; 9 is the frame marker; a message is <<9, L, p1..pL>> (MinMsg = 2, MaxMsg = 2 + MaxL). Streams are ALL
   token sequences up to N tokens - embedded markers, garbage and truncated messages included.
   A step = one fill_buf + one parse attempt of DltMessageIterator::next in storage mode: the reader shows v tokens,
   v nondeterministic in [min(LM, rest), rest]  (= every read schedule and capacity).

   Property: ChunkIndependent - when the iterator stops, the yielded (offset, length) sequence equals the parse that always
   sees the whole rest. TLC shows:
     LM = MaxMsg      (what the callers configure)  => violated exactly through the ghost-flagged circumstance `kf`:
                      a maximal message ends the visible window while the stream continues and it embeds a marker
     LM = MaxMsg + 1  (real: DLT_MAX_STORAGE_MSG_SIZE + 4, the proposed repair) => holds for every stream and schedule.   *)
EXTENDS Naturals, Sequences, FiniteSets, TLC

CONSTANTS MaxL, N, LM
S == 9
Alphabet == {S} \cup (0..MaxL)
MinMsg == 2
MaxMsg == 2 + MaxL
Val(t) == IF t = S THEN 0 ELSE t

\* storage parse on window w: [k |-> "ok"/"invalid"/"notenough", n |-> consumed]
Parse(w) ==
  IF Len(w) < MinMsg THEN [k |-> "notenough", n |-> 0]
  ELSE IF w[1] # S THEN [k |-> "invalid", n |-> 0]
  ELSE LET total == 2 + Val(w[2]) IN
       IF Len(w) < total THEN [k |-> "notenough", n |-> 0]
       ELSE IF Len(w) - total >= 1 /\ w[total + 1] # S /\ \E i \in 3..total : w[i] = S
            THEN [k |-> "invalid", n |-> 0]
            ELSE [k |-> "ok", n |-> total]

VARIABLES stream, off, out, done, kf
vars == <<stream, off, out, done, kf>>

Rest == Len(stream) - off
Window(v) == SubSeq(stream, off + 1, off + v)

RECURSIVE Ref(_, _, _)
Ref(st, o, acc) ==
  LET r == Parse(SubSeq(st, o + 1, Len(st))) IN
  IF r.k = "ok" THEN Ref(st, o + r.n, Append(acc, <<o, r.n>>))
  ELSE IF r.k = "invalid" THEN Ref(st, o + 1, acc)
  ELSE acc

Seqs(n) == UNION {[1..k -> Alphabet] : k \in 0..n}
Init == stream \in Seqs(N) /\ off = 0 /\ out = <<>> /\ done = FALSE /\ kf = FALSE

Vis == {v \in 0..Rest : v >= (IF Rest < LM THEN Rest ELSE LM)}

\* the circumstance of the known finding, evaluated on the step that accepts a message
KFCirc(v, n) == /\ n = MaxMsg                                   \* a maximal message
                /\ v = n /\ Rest > v                            \* ends the visible window although the stream continues
                /\ \E i \in 3..n : stream[off + i] = S          \* and embeds a marker

Step == /\ ~done
        /\ \E v \in Vis :
             LET r == Parse(Window(v)) IN
             IF r.k = "ok" THEN /\ out' = Append(out, <<off, r.n>>) /\ off' = off + r.n /\ done' = done
                                /\ kf' = (kf \/ KFCirc(v, r.n))
             ELSE IF r.k = "invalid" THEN /\ off' = off + 1 /\ UNCHANGED <<out, done, kf>>
             ELSE /\ done' = TRUE /\ UNCHANGED <<out, off, kf>>
        /\ UNCHANGED stream
Next == Step
Spec == Init /\ [][Next]_vars

ChunkIndependent     == done => out = Ref(stream, 0, <<>>)
ChunkIndependentOrKF == (done /\ ~kf) => out = Ref(stream, 0, <<>>)
NoKF == ~kf
=============================================================================
