----------------------------- MODULE LcDetector -----------------------------
(* Design model of adlt's lifecycle detector: parse_lifecycles_buffered_from_stream + Lifecycle::update / new / merge
   (src/lifecycle/mod.rs).  Serves C05, C06, C07, C08 (DESIGN.md section 6).

   Times are ticks (1 tick = 1 s in the concretisation), the code's constants 60 s / 10 s / 30 s / 2 s / 10 s / 1 s
   become 60 / 10 / 30 / 2 / 10 / 1.  One `Step` is the processing of one received message (the body of the
   `for msg in inflow` loop): phase 1 update / new lifecycle / merge, phase 2 flush after merge ("send 4"),
   phase 3 once-per-second confirmation of buffered lifecycles with publication (lcs_w.update + refresh) and
   release of the queue prefix ("send 1/2"), phase 4 enqueue or forward ("send 3").  `Finish` is the code after
   the loop (publish still-buffered lifecycles, flush the queue, final refresh of marked lifecycles).

   The iteration order over ECUs in the confirmation pass is a HashMap order in the code: nondeterministic here.

   FixMerged = TRUE  models the repaired tree (a lifecycle that was already confirmed/published and is merged
                     afterwards is removed from the published table; no internal assert),
             = FALSE models the pinned snapshot 9a57388 (internal assert `buffered_lcs does not contain` => panic;
                     merged lifecycle stays published = phantom).                                              *)
EXTENDS Naturals, Sequences, FiniteSets, TLC, Json

CONSTANTS Ecus,        \* set of ECU names
          MaxMsgs,     \* stream length bound
          RxDeltas,    \* reception time deltas between consecutive messages
          TsVals,      \* timestamp alphabet
          Kinds,       \* subset of {"norm", "ctrl", "nots"}: normal / control request / no timestamp in std header
          IdxDeltas,   \* increments of the messages' index field ({1} = consecutive; 100001 = a jump that makes the regular
                       \* "every 100 000 messages" refresh of the marked lifecycles due - the code keys it on msg.index)
          FixMerged

BufDelay == 60
ResumeGap == 10
ResumeBuf == 30
OverlapWin == 2
OverlapMinLen == 10
CheckPeriod == 1
RxBase == 1000
RegularRefresh == 100000     \* check_regular_refresh: last_regular_refresh_index + 100_000 < last_msg_index

VARIABLES inputs, n, rxNow, ecuLcs, bufMsgs, bufLcs, nextCheck, published, pendingEmpty, toRefresh, nextId,
          delivered, done, panic,
          nextIdx,       \* index field the next message would carry with increment 1
          lastRegular,   \* last_regular_refresh_index
          paths          \* ghost: which code paths this behaviour took (coverage evidence; not part of the VIEW)
vars == <<inputs, n, rxNow, ecuLcs, bufMsgs, bufLcs, nextCheck, published, pendingEmpty, toRefresh, nextId,
          delivered, done, panic, nextIdx, lastRegular, paths>>

NoRes == [id |-> 0, maxTs |-> 0, start |-> 0]
Max(a, b) == IF a > b THEN a ELSE b
Min(a, b) == IF a < b THEN a ELSE b

EndTime(lc) == IF lc.maxTs = 0 THEN lc.lastRx ELSE lc.start + lc.maxTs
SlightlyOv(lc, other) == LET e == EndTime(lc) IN other <= e /\ other + OverlapWin > e /\ e > lc.start + OverlapMinLen

\* timestamp as the code sees it: a message without timestamp flag carries 0
MsgTs(m) == IF m.kind = "nots" THEN 0 ELSE m.ts

NewLc(id, m) ==
  LET ts == IF m.kind = "ctrl" THEN 0 ELSE (IF MsgTs(m) > m.rx THEN 0 ELSE MsgTs(m)) IN
  [id |-> id, ecu |-> m.ecu, nr |-> 1, nrCtrl |-> IF m.kind = "ctrl" THEN 1 ELSE 0,
   start |-> m.rx - ts, minTs |-> ts, maxTs |-> ts, lastRx |-> m.rx, res |-> NoRes]

\* Lifecycle::update: [isNew, lc (updated self, or the new lifecycle)]
Update(lc, m, newId) ==
  IF m.kind = "ctrl" THEN [isNew |-> FALSE, lc |-> [lc EXCEPT !.nr = @ + 1, !.nrCtrl = @ + 1]]
  ELSE
  LET ts == MsgTs(m)
      msgStart == IF m.rx >= ts THEN m.rx - ts ELSE 0
      curEnd == EndTime(lc)
      partOf == (~SlightlyOv(lc, msgStart) /\ msgStart <= curEnd) \/ m.kind = "nots"
      wouldMove == IF msgStart < lc.start THEN lc.start - msgStart ELSE 0
  IN IF partOf /\ wouldMove > BufDelay /\ lc.maxTs > 0
     THEN [isNew |-> FALSE, lc |-> [lc EXCEPT !.nr = @ + 1]]
     ELSE
     LET isResume == /\ m.rx >= lc.lastRx + ResumeGap
                     /\ ts >= lc.maxTs
                     /\ msgStart >= lc.start + ResumeGap
                     /\ (m.rx - lc.lastRx) + ResumeBuf > msgStart - lc.start
     IN IF ~isResume /\ partOf
        THEN LET minTs2 == IF lc.minTs > ts
                           THEN (IF lc.res.id # 0 THEN (IF ts > lc.res.maxTs THEN ts ELSE lc.minTs) ELSE ts)
                           ELSE lc.minTs
                 maxTs2 == IF lc.maxTs < ts THEN ts ELSE lc.maxTs
                 res2 == IF lc.maxTs < ts THEN lc.res
                         ELSE IF lc.res.id # 0 /\ ts < lc.res.maxTs - (lc.res.maxTs \div 8) THEN NoRes ELSE lc.res
             IN [isNew |-> FALSE,
                 lc |-> [lc EXCEPT !.minTs = minTs2, !.maxTs = maxTs2, !.res = res2, !.lastRx = m.rx,
                                   !.start = IF msgStart < lc.start THEN msgStart ELSE lc.start, !.nr = @ + 1]]
        ELSE [isNew |-> TRUE,
              lc |-> [NewLc(newId, m) EXCEPT !.res = IF isResume THEN [id |-> lc.id, maxTs |-> lc.maxTs, start |-> lc.start]
                                                                   ELSE NoRes]]

MergeInto(prev, lc2) ==
  [prev EXCEPT !.nr = @ + lc2.nr, !.nrCtrl = @ + lc2.nrCtrl,
               !.maxTs = Max(@, lc2.maxTs), !.minTs = Min(@, lc2.minTs),
               !.start = Min(@, lc2.start), !.lastRx = Max(@, lc2.lastRx)]

Relabel(q, from, to) == [i \in 1..Len(q) |-> IF q[i].lc = from THEN [q[i] EXCEPT !.lc = to] ELSE q[i]]
CountLc(q, id) == Cardinality({i \in 1..Len(q) : q[i].lc = id})

\* what a reader of the shared table sees for id at this moment
Vis(pub, e) == e.lc \in DOMAIN pub /\ pub[e.lc].ecu = e.ecu
Deliv(pub, e) == [idx |-> e.idx, ecu |-> e.ecu, lc |-> e.lc, vis |-> Vis(pub, e)]

RECURSIVE Release(_, _, _, _, _, _)
Release(q, bl, prune, pub, out, mark) ==
  IF q = <<>> THEN [q |-> q, out |-> out, mark |-> mark]
  ELSE IF Head(q).lc = prune THEN Release(Tail(q), bl, prune, pub, Append(out, Deliv(pub, Head(q))), mark)
  ELSE IF Head(q).lc \notin bl
       THEN Release(Tail(q), bl, Head(q).lc, pub, Append(out, Deliv(pub, Head(q))), mark \cup {Head(q).lc})
  ELSE [q |-> q, out |-> out, mark |-> mark]

RECURSIVE FlushAll(_, _, _, _)
FlushAll(q, pub, out, mark) ==
  IF q = <<>> THEN [out |-> out, mark |-> mark]
  ELSE FlushAll(Tail(q), pub, Append(out, Deliv(pub, Head(q))), mark \cup {Head(q).lc})

Snap(lc) == [ecu |-> lc.ecu, nr |-> lc.nr, start |-> lc.start, end |-> EndTime(lc), res |-> lc.res.id]
PubAdd(pub, lc) == [i \in DOMAIN pub \cup {lc.id} |-> IF i = lc.id THEN Snap(lc) ELSE pub[i]]
PubDel(pub, S) == [i \in DOMAIN pub \ S |-> pub[i]]

Confirmable(lc, m, minLcStart) ==
  \/ (lc.start < minLcStart /\ lc.ecu = m.ecu)
  \/ lc.maxTs - lc.minTs > BufDelay
  \/ m.rx - BufDelay > EndTime(lc)

\* st = [bl, pub, pe (pending `empty` operations, applied by the next refresh), q, out, mark]
RECURSIVE ConfirmPass(_, _, _, _)
ConfirmPass(lcs, m, minLcStart, st) ==
  IF lcs = <<>> THEN st
  ELSE LET lc == Head(lcs) IN
       IF lc.id \in st.bl /\ Confirmable(lc, m, minLcStart)
       THEN LET bl2 == st.bl \ {lc.id}
                pub2 == PubDel(PubAdd(st.pub, lc), st.pe \ {lc.id})     \* update + refresh (applies pending empties)
                r == Release(st.q, bl2, lc.id, pub2, st.out, st.mark)
            IN ConfirmPass(Tail(lcs), m, minLcStart,
                           [bl |-> bl2, pub |-> pub2, pe |-> {}, q |-> r.q, out |-> r.out, mark |-> r.mark])
       ELSE ConfirmPass(Tail(lcs), m, minLcStart, st)

Rev(s) == [i \in 1..Len(s) |-> s[Len(s) + 1 - i]]
RECURSIVE Concat(_, _)
Concat(order, f) == IF order = <<>> THEN <<>> ELSE Rev(f[Head(order)]) \o Concat(Tail(order), f)
Perms(S) == {p \in [1..Cardinality(S) -> S] : \A i, j \in 1..Cardinality(S) : i # j => p[i] # p[j]}

Init ==
  /\ inputs = <<>> /\ n = 0 /\ rxNow = RxBase /\ ecuLcs = [e \in Ecus |-> <<>>] /\ bufMsgs = <<>> /\ bufLcs = {}
  /\ nextCheck = 0 /\ published = <<>> /\ pendingEmpty = {} /\ toRefresh = {} /\ nextId = 1 /\ delivered = <<>>
  /\ done = FALSE /\ panic = FALSE /\ nextIdx = 0 /\ lastRegular = 0 /\ paths = {}

\* which branch of Lifecycle::update a (non control request) message takes on lifecycle lc
UpdateTag(lc, m) ==
  LET ts == MsgTs(m)
      msgStart == IF m.rx >= ts THEN m.rx - ts ELSE 0
      partOf == (~SlightlyOv(lc, msgStart) /\ msgStart <= EndTime(lc)) \/ m.kind = "nots"
      wouldMove == IF msgStart < lc.start THEN lc.start - msgStart ELSE 0
      isResume == /\ m.rx >= lc.lastRx + ResumeGap /\ ts >= lc.maxTs /\ msgStart >= lc.start + ResumeGap
                  /\ (m.rx - lc.lastRx) + ResumeBuf > msgStart - lc.start
  IN IF m.kind = "ctrl" THEN "upd-ctrl-request"
     ELSE IF partOf /\ wouldMove > BufDelay /\ lc.maxTs > 0 THEN "upd-ignore-timestamp"
     ELSE IF ~isResume /\ partOf
          THEN (IF lc.res.id # 0 /\ lc.maxTs >= ts /\ ts < lc.res.maxTs - (lc.res.maxTs \div 8) THEN "upd-absorb-unresume"
                ELSE IF SlightlyOv(lc, msgStart) THEN "upd-absorb-no-timestamp" ELSE "upd-absorb")
     ELSE IF isResume THEN "upd-new-resume"
     ELSE IF SlightlyOv(lc, msgStart) THEN "upd-new-slightly-overlapping" ELSE "upd-new"

Step(m, order) ==
  LET L == ecuLcs[m.ecu]
      len == Len(L)
      base == [L |-> L, bl |-> bufLcs, q |-> bufMsgs, assigned |-> 0, removed |-> FALSE, pan |-> FALSE,
               nid |-> nextId, pe |-> pendingEmpty]
      \* phase 1: update / new lifecycle / merge into the previous one
      p1 ==
        IF len = 0 THEN [base EXCEPT !.L = <<NewLc(nextId, m)>>, !.bl = bufLcs \cup {nextId}, !.assigned = nextId, !.nid = nextId + 1]
        ELSE LET u == Update(L[len], m, nextId) IN
          IF u.isNew THEN [base EXCEPT !.L = Append(L, u.lc), !.bl = bufLcs \cup {nextId}, !.assigned = nextId, !.nid = nextId + 1]
          ELSE LET lc2 == u.lc
                   L1 == [L EXCEPT ![len] = lc2]
                   noMerge == [base EXCEPT !.L = L1, !.assigned = lc2.id]
                   merged(prev) == [base EXCEPT !.L = [SubSeq(L1, 1, len - 1) EXCEPT ![len - 1] = MergeInto(prev, lc2)],
                                                !.bl = bufLcs \ {lc2.id},
                                                !.q = Relabel(bufMsgs, lc2.id, prev.id),
                                                !.assigned = prev.id, !.removed = TRUE,
                                                !.pe = IF FixMerged /\ lc2.id \notin bufLcs THEN pendingEmpty \cup {lc2.id}
                                                                                            ELSE pendingEmpty]
               IN IF len > 1 /\ lc2.start <= EndTime(L[len - 1]) /\ lc2.res.id = 0 /\ ~SlightlyOv(L[len - 1], lc2.start)
                  THEN LET prev == L[len - 1] IN
                       IF prev.id \in bufLcs
                       THEN IF lc2.id \notin bufLcs /\ ~FixMerged THEN [noMerge EXCEPT !.pan = TRUE]   \* the internal assert
                            ELSE merged(prev)
                       ELSE IF CountLc(bufMsgs, lc2.id) + 1 = lc2.nr THEN merged(prev) ELSE noMerge
                  ELSE noMerge
      lcs1 == [ecuLcs EXCEPT ![m.ecu] = p1.L]
      \* phase 2: flush after merge ("send 4")
      p2 == IF p1.removed /\ p1.bl = {} /\ p1.q # <<>>
            THEN LET f == FlushAll(p1.q, published, delivered, toRefresh) IN [q |-> <<>>, out |-> f.out, mark |-> f.mark]
            ELSE [q |-> p1.q, out |-> delivered, mark |-> toRefresh]
      \* phase 3: confirmation check, once per CheckPeriod of reception time
      doCheck == nextCheck < m.rx
      st0 == [bl |-> p1.bl, pub |-> published, pe |-> p1.pe, q |-> p2.q, out |-> p2.out, mark |-> p2.mark]
      p3 == IF doCheck /\ m.rx > MsgTs(m) + BufDelay
            THEN ConfirmPass(Concat(order, lcs1), m, m.rx - (MsgTs(m) + BufDelay), st0)
            ELSE st0
      cur == [idx |-> n, ecu |-> m.ecu, lc |-> p1.assigned]
  IN
  IF p1.pan THEN /\ panic' = TRUE /\ done' = TRUE /\ inputs' = Append(inputs, m)
                 /\ UNCHANGED <<ecuLcs, bufMsgs, bufLcs, nextCheck, published, pendingEmpty, toRefresh, nextId, delivered, lastRegular>>
                 /\ n' = n + 1 /\ rxNow' = m.rx /\ nextIdx' = m.ix + 1 /\ paths' = paths \cup {"internal-assert"}
  ELSE
  /\ inputs' = Append(inputs, m)
  /\ n' = n + 1 /\ rxNow' = m.rx
  /\ ecuLcs' = lcs1
  /\ nextId' = p1.nid
  /\ nextCheck' = (IF doCheck THEN m.rx + CheckPeriod ELSE nextCheck)
  /\ bufLcs' = p3.bl
  /\ nextIdx' = m.ix + 1
  /\ paths' = paths \cup
       {IF len = 0 THEN "first-lifecycle-of-ecu" ELSE UpdateTag(L[len], m)}
       \cup (IF m.kind # "ctrl" /\ MsgTs(m) > m.rx
             THEN {IF len = 0 \/ Len(p1.L) > len THEN "new-lc-timestamp-beyond-reception-time" ELSE "upd-timestamp-beyond-reception-time"}
             ELSE {})
       \cup (IF p1.removed /\ L[len - 1].id \in bufLcs /\ L[len].id \in bufLcs THEN {"merge-into-buffered-prev"} ELSE {})
       \cup (IF p1.removed /\ L[len - 1].id \in bufLcs /\ L[len].id \notin bufLcs THEN {"merge-confirmed-into-buffered-prev"} ELSE {})
       \cup (IF p1.removed /\ L[len - 1].id \notin bufLcs /\ L[len].id \in bufLcs THEN {"merge-into-confirmed-prev"} ELSE {})
       \cup (IF p1.removed /\ L[len - 1].id \notin bufLcs /\ L[len].id \notin bufLcs THEN {"merge-confirmed-into-confirmed-prev"} ELSE {})
       \cup (IF ~p1.removed /\ len > 1 /\ Len(p1.L) = len /\ p1.L[len].start <= EndTime(L[len - 1]) /\ p1.L[len].res.id = 0
                /\ ~SlightlyOv(L[len - 1], p1.L[len].start) THEN {"merge-skipped-not-all-queued"} ELSE {})
       \cup (IF p1.removed /\ p1.bl = {} /\ p1.q # <<>> THEN {"flush-after-merge-send4"} ELSE {})
       \* places where the marking decides the final table: the mark adds a lifecycle that is not marked yet
       \cup (IF p1.removed /\ p1.bl = {} /\ p1.q # <<>> /\ p2.mark # toRefresh THEN {"send4-marks-unmarked-lifecycle"} ELSE {})
       \cup (IF p1.removed /\ p1.bl = {} /\ (\E i \in 1..Len(p1.q) : p1.q[i].ecu # m.ecu /\ p1.q[i].lc \notin toRefresh)
             THEN {"send4-marks-unmarked-lifecycle-of-other-ecu"} ELSE {})
       \cup (IF p3.bl = {} /\ cur.lc \notin p3.mark THEN {"direct-marks-unmarked-lifecycle"} ELSE {})
       \cup (IF p3.bl # p1.bl THEN {"confirmed"} ELSE {})
       \cup (IF Len(p3.out) > Len(p2.out) THEN {"release-after-confirm-send1"} ELSE {})
       \cup (IF p3.mark # p2.mark THEN {"release-other-lifecycle-send2"} ELSE {})
       \cup (IF p3.bl # {} THEN {"enqueue"} ELSE {"forward-direct-send3"})
       \cup (IF p3.bl = {} /\ lastRegular + RegularRefresh < m.ix THEN {"regular-refresh"} ELSE {})
       \cup (IF m.kind = "nots" THEN {"no-timestamp-message"} ELSE {})
  \* phase 4: enqueue while anything is buffered, else forward directly ("send 3"); only the direct path marks the lifecycle and
  \* runs the regular refresh (publish every marked lifecycle that is still in the per-ECU lists, refresh, clear the marks)
  /\ IF p3.bl # {}
     THEN /\ bufMsgs' = Append(p3.q, cur) /\ delivered' = p3.out /\ toRefresh' = p3.mark
          /\ published' = p3.pub /\ pendingEmpty' = p3.pe /\ UNCHANGED lastRegular
     ELSE LET mark == p3.mark \cup {cur.lc}
              due == lastRegular + RegularRefresh < m.ix
              live == UNION {{lcs1[e][i] : i \in 1..Len(lcs1[e])} : e \in Ecus}
              upd == {lc \in live : lc.id \in mark}
              pubR == PubDel([i \in DOMAIN p3.pub \cup {lc.id : lc \in upd} |->
                                IF \E lc \in upd : lc.id = i THEN Snap(CHOOSE lc \in upd : lc.id = i) ELSE p3.pub[i]], p3.pe)
          IN /\ bufMsgs' = p3.q
             /\ published' = (IF due THEN pubR ELSE p3.pub)
             /\ pendingEmpty' = (IF due THEN {} ELSE p3.pe)
             /\ toRefresh' = (IF due THEN {} ELSE mark)
             /\ lastRegular' = (IF due THEN m.ix ELSE lastRegular)
             /\ delivered' = Append(p3.out, Deliv(IF due THEN pubR ELSE p3.pub, cur))
  /\ UNCHANGED <<done, panic>>

AllLcs == UNION {{ecuLcs[e][i] : i \in 1..Len(ecuLcs[e])} : e \in Ecus}
LcById(i) == CHOOSE lc \in AllLcs : lc.id = i

Finish ==
  /\ ~done
  /\ LET stillBuf == {lc.id : lc \in {l \in AllLcs : l.id \in bufLcs}}
         pub1 == PubDel([i \in DOMAIN published \cup stillBuf |-> IF i \in stillBuf THEN Snap(LcById(i)) ELSE published[i]],
                        pendingEmpty \ stillBuf)
         f == FlushAll(bufMsgs, pub1, delivered, toRefresh)
         pub2 == [i \in DOMAIN pub1 |-> IF i \in f.mark /\ (\E lc \in AllLcs : lc.id = i) THEN Snap(LcById(i)) ELSE pub1[i]]
     IN /\ delivered' = f.out /\ published' = pub2 /\ toRefresh' = {}
  /\ bufMsgs' = <<>> /\ bufLcs' = {} /\ pendingEmpty' = {} /\ done' = TRUE
  /\ paths' = paths \cup (IF bufLcs # {} THEN {"final-publish"} ELSE {}) \cup (IF bufMsgs # <<>> THEN {"final-flush"} ELSE {})
                     \cup (IF \E i \in 1..Len(bufMsgs) : bufMsgs[i].lc \notin toRefresh /\ bufMsgs[i].lc \notin bufLcs
                           THEN {"final-flush-marks-unmarked-published-lifecycle"} ELSE {})
  /\ UNCHANGED <<inputs, n, rxNow, ecuLcs, nextCheck, nextId, panic, nextIdx, lastRegular>>

Msgs == {m \in [ecu : Ecus, rx : {rxNow + d : d \in RxDeltas}, ts : TsVals, kind : Kinds, ix : {nextIdx + d - 1 : d \in IdxDeltas}] :
           m.kind = "nots" => m.ts = 0}

Next ==
  \/ /\ ~done /\ n < MaxMsgs
     /\ \E m \in Msgs : \E order \in Perms(Ecus) : Step(m, order)
  \/ /\ n > 0 /\ Finish

Spec == Init /\ [][Next]_vars

-----------------------------------------------------------------------------
\* The four properties on the model (terminal-state form; the trace modules evaluate them on the real code)
NoPanic == ~panic
\* C05: every message forwarded exactly once, in order, with a non-zero lifecycle id of its own ECU
C05 == done /\ ~panic => /\ Len(delivered) = n
                          /\ (\A i \in 1..Len(delivered) : delivered[i].idx = i - 1 /\ delivered[i].lc # 0
                                                           /\ delivered[i].ecu = inputs[i].ecu)
                          /\ (\A j \in 1..Len(delivered) : delivered[j].lc \in DOMAIN published
                                                           /\ published[delivered[j].lc].ecu = delivered[j].ecu)
C05Safe == \A i \in 1..Len(delivered) : delivered[i].idx = i - 1 /\ delivered[i].lc # 0
\* C06: at the moment of delivery the lifecycle is visible with the message's ECU
C06 == \A i \in 1..Len(delivered) : delivered[i].vis
\* C07: final table consistent with the delivered messages
CountDel(id) == Cardinality({i \in 1..Len(delivered) : delivered[i].lc = id})
C07 == done /\ ~panic => /\ (\A id \in DOMAIN published : published[id].nr = CountDel(id) /\ CountDel(id) >= 1)
                          /\ (\A i \in 1..Len(delivered) : delivered[i].lc \in DOMAIN published)

\* fingerprint view: times relative to the current reception time, histories dropped
RelLc(lc) == [lc EXCEPT !.start = rxNow - @, !.lastRx = rxNow - @, !.res = IF @.id = 0 THEN @ ELSE [@ EXCEPT !.start = rxNow - @]]
RelPub == [i \in DOMAIN published |-> [published[i] EXCEPT !.start = rxNow - @, !.end = rxNow - @]]
View == <<n, [e \in Ecus |-> [i \in 1..Len(ecuLcs[e]) |-> RelLc(ecuLcs[e][i])]], bufMsgs, bufLcs,
          IF nextCheck > rxNow THEN nextCheck - rxNow ELSE 0, RelPub, pendingEmpty, toRefresh, nextId, delivered, done, panic,
          IF nextIdx > lastRegular + RegularRefresh THEN RegularRefresh + 1 ELSE nextIdx - lastRegular>>

\* scenario emission: one line per terminal behaviour with the predicted observables and the contract verdicts
PubList == {[id |-> i, ecu |-> published[i].ecu, nr |-> published[i].nr, start |-> published[i].start,
             end |-> published[i].end, res |-> published[i].res] : i \in DOMAIN published}
EmitInv == done => PrintT(<<"SCN", ToJson([inputs |-> inputs, delivered |-> delivered, pub |-> PubList, panic |-> panic,
                                           c05 |-> C05, c06 |-> C06, c07 |-> C07, paths |-> paths])>>)

\* deep sampling (tlc -simulate): emit only behaviours that take one of the rare paths a bounded-exhaustive config cannot reach
RareTags == {"send4-marks-unmarked-lifecycle-of-other-ecu", "send4-marks-unmarked-lifecycle",
             "final-flush-marks-unmarked-published-lifecycle", "merge-confirmed-into-buffered-prev",
             "merge-confirmed-into-confirmed-prev", "merge-skipped-not-all-queued", "release-other-lifecycle-send2",
             "upd-absorb-unresume", "upd-new-resume", "upd-ignore-timestamp", "regular-refresh"}
EmitRare == (done /\ paths \cap RareTags # {}) =>
              PrintT(<<"SCN", ToJson([inputs |-> inputs, delivered |-> delivered, pub |-> PubList, panic |-> panic,
                                      c05 |-> C05, c06 |-> C06, c07 |-> C07, paths |-> paths])>>)
=============================================================================
