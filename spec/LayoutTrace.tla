---------------------------- MODULE LayoutTrace ----------------------------
(* C02 - trace validation: recorded executions of the real writer / parser, judged by the operators of Layout.tla
   applied to the ORIGINAL fields the driver generated (field identities are the real byte strings here).

   trace lines (ndjson); every case starts with a reset:
     {"ev":"reset","case":n,"hdr":{"kind":"rt"}}                      one message through the library round trip
     {"ev":"rt","m":M,"p1":P,"w1":W,"p2":P,"w2":W2,"wx":[X,...],"ww":[D,...]}
         M  = original fields: weid wsid wtms ueh msbf (bool) vers mcnt micros payLen len (int)
              ecuSto ecuStd sid tmsp secs (4 bytes, [] if absent) ext (10 bytes or []) pay ([hash,hash'])
         P  = {"ok":b,"consumed":k,"v":VIEW}   result of parse_dlt_with_storage_header (p1: original bytes, p2: bytes of w1)
         VIEW = ecu secs tmsp (4 bytes) micros mcnt payLen htyp (int) wtms msbf hasExt (bool) ext (10 bytes or []) pay
         W  = {"ok":b,"bytes":k,"htyp":h,"len":n}   first to_write: bytes written, htyp byte and len field found in them
         W2 = {"ok":b,"equal":b}                    to_write of the re-parsed message: byte-identical to w1
         X  = {"weid":b,"wsid":b,"ok":b,"bytes":k,"htyp":h,"len":n,"p":P,"w":W2}
              the parsed message written through DltStandardHeader::to_write directly WITH its ECU id (weid) and / or a
              session id (wsid) in the standard header, behind the storage header of w1; p = parse of those bytes,
              w = DltMessage::to_write of that re-read message compared with w1 (only variants that fit the len field)
         D  = {"path":"msg"|"std","weid":b,"wsid":b,"writer":"chunk"|"intr"|"fail"|"buf","k":k,"limit":n,"ok":b,"ref_len":t,
               "arrived":a,"equal":b,"prefix":b}
              the parsed message written by DltMessage::to_write (msg) / DltStandardHeader::to_write (std, with weid / wsid)
              into a destination that accepts at most k bytes per call / interrupts / fails after `limit` accepted bytes
              (99999999 = never) / is a BufWriter of capacity k; ref_len = bytes the same call wrote into a Vec, arrived =
              bytes at the destination, equal = they are those bytes, prefix = they are a prefix of them
     {"ev":"reset","case":n,"hdr":{"kind":"file","n":N}}              one generated file through `adlt convert -o`
     {"ev":"fmsg","i":i,"m":M,"v":VIEW}        i-th message of the exported file next to the i-th original
     {"ev":"fend","rc1":c,"rc2":c,"n_out":k,"trailing":t,"second_identical":b}
     {"ev":"panic","msg":...}                  the code under test panicked (no action matches)

   Contract = the property statement:
     - a well-formed message (version 1) is parsed; what the parser extracts are the generated fields (ParseView);
     - writing the parsed message and parsing the result yields the same listed fields and consumes exactly the
       bytes written; writing the re-parsed message reproduces the same bytes;
     - an exported file holds the same messages in the same order, nothing else, and exporting the export is
       byte-identical;
     - what a write call delivers does not depend on the destination's (legal) std::io::Write behaviour: Ok => exactly
       the bytes the same call writes into a Vec; a destination failing before the end => Err; Err without a failing
       destination only if the destination answered Interrupted (Layout!DestOk).
   Narrower readings: a message whose version bits are not 1 may be refused by the parser (then nothing is claimed);
   WHICH flags / len the writer chooses, and whether the parser keeps the original header byte, is not part of the
   verdict - a deviation from Layout's design (normal form, verbatim htyp) is only recorded as design drift (`drift`).                                                                            *)
EXTENDS Integers, Sequences, FiniteSets, TLC, Json, IOUtils

L == INSTANCE Layout WITH NoTmsp <- <<0, 0, 0, 0>>, NoExt <- <<>>, NoId <- <<>>

Rec == ndJsonDeserialize(IOEnv.TRACE)

VARIABLES l, case, phase, hdr, nSeen, viol, drift
vars == <<l, case, phase, hdr, nSeen, viol, drift>>

NoHdr == [kind |-> "", n |-> 0]
Init == l = 1 /\ case = -1 /\ phase = "idle" /\ hdr = NoHdr /\ nSeen = 0 /\ viol = {} /\ drift = {}

Ev(e) == l <= Len(Rec) /\ Rec[l].ev = e /\ l' = l + 1
Cur == Rec[l]

Reset == /\ Ev("reset")
         /\ case' = Cur.case /\ phase' = "running" /\ nSeen' = 0
         /\ hdr' = [kind |-> Cur.hdr.kind, n |-> IF Cur.hdr.kind = "file" THEN Cur.hdr.n ELSE 0]
         /\ viol' = (IF phase = "running" THEN viol \cup {case} ELSE viol)     \* previous case never ended
         /\ UNCHANGED drift

\* ---------------------------------------------------------------- library round trip
SameListed(v, w) == L!Listed(v) = L!Listed(w)
\* what the parser extracted from the original bytes is what was generated, and it ate exactly the message
OrigOk(e) == /\ SameListed(e.p1.v, L!ParseView(e.m))
             /\ e.p1.consumed = L!Size(e.m)
\* write -> parse -> write
RoundTripOk(e) == /\ e.w1.ok
                  /\ e.p2.ok /\ e.p2.consumed = e.w1.bytes
                  /\ SameListed(e.p2.v, e.p1.v)
                  /\ e.w2.ok /\ e.w2.equal
\* the same message written with ECU id / session id in the standard header reads back as the same message, eats exactly
\* the bytes written, and exporting the re-read message gives the bytes of the plain export
WxOk(e, x) == L!FitsX(L!ParseView(e.m), x.weid, x.wsid) =>
                 /\ x.ok
                 /\ x.p.ok /\ x.p.consumed = x.bytes
                 /\ SameListed(x.p.v, e.p1.v)
                 /\ x.w.ok /\ x.w.equal
RtOk(e) == /\ L!WellFormed(e.m)                          \* the driver stayed inside the domain
           /\ (e.m.vers = 1 => e.p1.ok)
           /\ (e.p1.ok => /\ OrigOk(e) /\ RoundTripOk(e) /\ \A i \in 1..Len(e.wx) : WxOk(e, e.wx[i])
                          /\ \A i \in 1..Len(e.ww) : LET d == e.ww[i] IN L!DestOk(d.ref_len, d.limit, d.writer = "intr", d.ok, d.arrived, d.equal))
\* design drift only: the writer's choice of flags / len against Layout's normal form
NormalFormSeen(e) == LET w == L!Write(L!ParseView(e.m)) IN
                       /\ e.w1.htyp = L!htyp(w) /\ e.w1.len = w.len /\ e.w1.bytes = L!WrittenBytes(L!ParseView(e.m))
                       /\ e.p1.v.htyp = L!htyp(e.m)          \* the parser keeps the header byte verbatim (design, not contract)
                       /\ \A i \in 1..Len(e.wx) : LET x == e.wx[i]  wx == L!WriteX(L!ParseView(e.m), x.weid, x.wsid, <<>>) IN
                             L!FitsX(L!ParseView(e.m), x.weid, x.wsid) => (x.htyp = L!htyp(wx) /\ x.len = wx.len)
                       \* a failing destination holds exactly what it accepted, a prefix of the message (design, not contract)
                       /\ \A i \in 1..Len(e.ww) : LET d == e.ww[i] IN d.limit < d.ref_len => (d.prefix /\ d.arrived = d.limit)

Rt == /\ Ev("rt") /\ phase = "running" /\ hdr.kind = "rt"
      /\ RtOk(Cur)
      /\ phase' = "ended"
      /\ drift' = (IF Cur.p1.ok /\ ~NormalFormSeen(Cur) THEN drift \cup {case} ELSE drift)
      /\ UNCHANGED <<case, hdr, nSeen, viol>>

\* ---------------------------------------------------------------- whole files through the binary
FMsg == /\ Ev("fmsg") /\ phase = "running" /\ hdr.kind = "file"
        /\ Cur.i = nSeen + 1 /\ Cur.i <= hdr.n                       \* same order, nothing inserted
        /\ L!WellFormed(Cur.m) /\ Cur.m.vers = 1
        /\ SameListed(Cur.v, L!ParseView(Cur.m))                     \* the i-th exported message is the i-th original
        /\ nSeen' = nSeen + 1
        /\ UNCHANGED <<case, phase, hdr, viol, drift>>

FEnd == /\ Ev("fend") /\ phase = "running" /\ hdr.kind = "file"
        /\ Cur.rc1 = 0 /\ Cur.rc2 = 0
        /\ nSeen = hdr.n /\ Cur.n_out = hdr.n /\ Cur.trailing = 0   \* every message, nothing else
        /\ Cur.second_identical                                      \* exporting the export is byte-identical
        /\ phase' = "ended"
        /\ UNCHANGED <<case, hdr, nSeen, viol, drift>>

\* ---------------------------------------------------------------- recovery
Matches == ENABLED Rt \/ ENABLED FMsg \/ ENABLED FEnd
Reject == /\ l <= Len(Rec) /\ Cur.ev # "reset" /\ phase = "running" /\ ~Matches
          /\ PrintT(<<"CASE_REJECTED", case, l, ToJson(Cur)>>)
          /\ l' = l + 1 /\ phase' = "rejected" /\ viol' = viol \cup {case}
          /\ UNCHANGED <<case, hdr, nSeen, drift>>
SkipRest == /\ l <= Len(Rec) /\ Cur.ev # "reset" /\ phase \in {"rejected", "ended", "idle"}
            /\ l' = l + 1
            /\ IF phase = "ended" THEN viol' = viol \cup {case} /\ phase' = "rejected"   \* events after the end
                                  ELSE UNCHANGED <<viol, phase>>
            /\ UNCHANGED <<case, hdr, nSeen, drift>>

Next == Reset \/ Rt \/ FMsg \/ FEnd \/ Reject \/ SkipRest
Spec == Init /\ [][Next]_vars

AtEnd == l = Len(Rec) + 1
FinalViol == IF phase = "running" THEN viol \cup {case} ELSE viol
Report == AtEnd => PrintT(<<"VERDICT", ToJson([violations |-> FinalViol, known |-> {}, drift |-> drift])>>)
Accepted == IF TLCGet("stats").diameter - 1 = Len(Rec) THEN TRUE
            ELSE Print(<<"TRACE_NOT_CONSUMED", TLCGet("stats").diameter, Len(Rec)>>, FALSE)
=============================================================================
