----------------------------- MODULE VerbPayload -----------------------------
(* C18 - verbose payloads: layout of encoded arguments and the decoder's cursor machine
   (src/dlt/mod.rs DltMessageArgIterator::next; encoders: src/serde_verb_payload/ser_verb_payload.rs Serializer /
   dlt_args!, src/utils/mod.rs payload_from_args).

   Design = contract for this area (DESIGN.md section 6, C18).  An abstract argument is [kind, w, n]:
     kind  "bool" "sint" "uint" "floa" (fixed width w bytes)   "strU" "strA" "rawd" (n data bytes, 16 bit length prefix)
   An encoded payload is a sequence of FIELDS, described by offsets and lengths only:
     TI (4 bytes, the type info word)  [LEN (2 bytes) for the length-prefixed kinds]  DATA
   The decoder is modelled over this length view exactly as the code walks it: needs 4 bytes for the type word, width
   table from the low nibble, VARI / FIXP stop, bool of width 0 reads 1 byte (dlt-viewer quirk) and any other bool
   width stops, ints need width >= 1, floats >= 2, strings / raw need 2 bytes for the length and then `length` bytes,
   everything else stops.  A `for arg in &msg` loop ends at the first `None`, so the machine stops there.

   Step(P, st, ti, ln) is the transition function: P = payload length, st = [idx, out, run], ti / ln = the type word /
   length word found at the cursor.  spec/mc/MCVerbPayload.tla closes the machine over all argument sequences, every
   truncation point and single-field corruptions (after which the words found are nondeterministic) and TLC checks:
   Decode(Encode(a)) = a;  truncation => prefix (exactly the arguments that fit);  every slice inside the payload.   *)
EXTENDS Integers, Sequences, FiniteSets, TLC

Kinds    == {"bool", "sint", "uint", "floa", "strU", "strA", "rawd"}
VarKinds == {"strU", "strA", "rawd"}
NumKinds == {"sint", "uint", "floa"}

\* ---------------------------------------------------------------- type info word (PRS_Dlt type info, as in the code)
TI_BOOL == 16      TI_SINT == 32      TI_UINT == 64       TI_FLOA == 128    TI_ARAY == 256
TI_STRG == 512     TI_RAWD == 1024    TI_VARI == 2048     TI_FIXP == 4096   SCOD_UTF8 == 32768

Tyle(w) == CASE w = 1 -> 1 [] w = 2 -> 2 [] w = 4 -> 3 [] w = 8 -> 4 [] w = 16 -> 5 [] OTHER -> 0
TyleLen(t) == CASE t = 1 -> 1 [] t = 2 -> 2 [] t = 3 -> 4 [] t = 4 -> 8 [] t = 5 -> 16 [] OTHER -> 0
TypeInfo(kind, w) == CASE kind = "bool" -> TI_BOOL + Tyle(w)
                       [] kind = "sint" -> TI_SINT + Tyle(w)
                       [] kind = "uint" -> TI_UINT + Tyle(w)
                       [] kind = "floa" -> TI_FLOA + Tyle(w)
                       [] kind = "strU" -> TI_STRG + SCOD_UTF8
                       [] kind = "strA" -> TI_STRG
                       [] kind = "rawd" -> TI_RAWD
TIof(a) == TypeInfo(a.kind, a.w)
\* the widths the property statement names (booleans, 8..64 bit integers, 32/64 bit floats)
WidthOk(kind, w) == CASE kind = "bool" -> w = 1
                      [] kind \in {"sint", "uint"} -> w \in {1, 2, 4, 8}
                      [] kind = "floa" -> w \in {4, 8}
                      [] OTHER -> TRUE

\* ---------------------------------------------------------------- layout of Encode(args)
IsVar(a)   == a.kind \in VarKinds
DataLen(a) == IF IsVar(a) THEN a.n ELSE a.w
ArgSize(a) == 4 + (IF IsVar(a) THEN 2 ELSE 0) + DataLen(a)
RECURSIVE OffsetOf(_, _)
OffsetOf(args, i) == IF i <= 1 THEN 0 ELSE OffsetOf(args, i - 1) + ArgSize(args[i - 1])     \* start of argument i
EncLen(args)      == OffsetOf(args, Len(args) + 1)
DataOff(args, i)  == OffsetOf(args, i) + 4 + (IF IsVar(args[i]) THEN 2 ELSE 0)
\* what a correct decoder yields for argument i: type word, slice offset, slice length
Expected(args, i) == [ti |-> TIof(args[i]), off |-> DataOff(args, i), len |-> DataLen(args[i])]
\* number of arguments that fit completely into the first P bytes
Fitting(args, P)  == Cardinality({i \in 1..Len(args) : OffsetOf(args, i + 1) <= P})

\* ---------------------------------------------------------------- the decoder's cursor machine
Bit(x, b) == (x \div (2 ^ b)) % 2 = 1
NeedsLen(ti) == ~Bit(ti, 11) /\ ~Bit(ti, 12) /\ ~Bit(ti, 4) /\ ~Bit(ti, 5) /\ ~Bit(ti, 6) /\ ~Bit(ti, 7)
                /\ (Bit(ti, 9) \/ Bit(ti, 10))

Start == [idx |-> 0, out |-> <<>>, run |-> TRUE]
Stop(st) == [st EXCEPT !.run = FALSE]
\* slice [at, at+len) if it lies inside the payload, else stop
Take(P, st, ti, at, len) == IF len > 0 /\ P >= at + len
                            THEN [idx |-> at + len, out |-> Append(st.out, [ti |-> ti, off |-> at, len |-> len]), run |-> TRUE]
                            ELSE Stop(st)
TakeVar(P, st, ti, at, len) == IF P >= at + len          \* "len 0 is weird but valid"
                            THEN [idx |-> at + len, out |-> Append(st.out, [ti |-> ti, off |-> at, len |-> len]), run |-> TRUE]
                            ELSE Stop(st)
Step(P, st, ti, ln) ==
  IF P < st.idx + 4 THEN Stop(st)
  ELSE LET i4 == st.idx + 4
           tl == TyleLen(ti % 16)
       IN IF Bit(ti, 11) \/ Bit(ti, 12) THEN Stop(st)                                   \* VARI, FIXP: unsupported
          ELSE IF Bit(ti, 4) THEN (IF tl = 1 \/ tl = 0 THEN Take(P, st, ti, i4, 1) ELSE Stop(st))     \* bool
          ELSE IF Bit(ti, 5) \/ Bit(ti, 6) THEN (IF tl < 1 THEN Stop(st) ELSE Take(P, st, ti, i4, tl)) \* sint, uint
          ELSE IF Bit(ti, 7) THEN (IF tl < 2 THEN Stop(st) ELSE Take(P, st, ti, i4, tl))               \* float
          ELSE IF Bit(ti, 9) \/ Bit(ti, 10) THEN                                                         \* string, raw
               (IF P < i4 + 2 THEN Stop(st) ELSE TakeVar(P, st, ti, i4 + 2, ln))
          ELSE Stop(st)

\* deterministic closure for an intact (possibly truncated) encoding: the words found are the encoder's
RECURSIVE DecodeFrom(_, _, _)
DecodeFrom(args, P, st) ==
  IF ~st.run THEN st.out
  ELSE LET here == {i \in 1..Len(args) : OffsetOf(args, i) = st.idx}
       IN IF here = {} THEN st.out                                         \* past the last argument (or lost: never, see MC)
          ELSE LET i == CHOOSE x \in here : TRUE
               IN DecodeFrom(args, P, Step(P, st, TIof(args[i]), DataLen(args[i])))
Decode(args, P) == DecodeFrom(args, P, Start)

InBounds(out, P) == \A j \in 1..Len(out) : out[j].off >= 0 /\ out[j].len >= 0 /\ out[j].off + out[j].len <= P
IsPrefixOf(out, args) == /\ Len(out) <= Len(args)
                         /\ \A j \in 1..Len(out) : out[j] = Expected(args, j)
=============================================================================
