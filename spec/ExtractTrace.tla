---------------------------- MODULE ExtractTrace ----------------------------
(* C20, part 2 - trace validation of extract_archives / extract_to_dir against the specified result.

   trace lines (ndjson): one reset line and one result line per request of the case's history (the requests are issued one
   after the other against the same archive with the same `temp_dirs`, i.e. the per-archive temp dir is reused):
     {"ev":"reset","case":n,"hdr":{"members":[{"name":[components],"dir":b,"pre":b,"len":n,"hash":h}],
                                   "globs":[{"cls":c,"k":k},..],"mode":"archives"|"to_dir",...}}
     {"ev":"result","req":j,"reported":[{"m":i,"inside":b,"rel":[components],"exists":b,"len":n,"hash":h}],
                    "tree":[{"rel":[components],"len":n,"hash":h}],"outside_created":[paths],"outside_changed":b}
         reported: one entry per returned path P; m = the member whose raw name joined to the temp dir IS P (0 = none),
                   inside = P (symlinks and dots resolved) lies below the temp dir, rel = that path below the temp dir,
                   exists/len/hash = the file found at P
         tree:     every file found below the temp dir afterwards
         outside_created / outside_changed: anything new in the sentinel directory around the temp dir (and the
                   absolute prefix), any pre-existing file there whose bytes changed
     {"ev":"panic","msg":..}

   Contract (the statement), for EVERY request j of the history: exactly the members in ExtractDefs!Expected of
   request j are reported, each once, at tempdir/<target> with the member's bytes (members extracted by an earlier
   request are reported again, from the same place, bytes still identical; where several members denote one path the
   file has the bytes of exactly one of them, never a mixture; a history of unfiltered extractions of archive
   versions 1, 2, .. into one directory - possibly pre-filled with longer files - leaves exactly the bytes of the
   version just extracted); the temp dir contains exactly the
   files of the requests so far (the union); nothing outside was created or changed; every reported path lies
   inside the temp dir.
   Known finding KF_C20_ReportedPreexisting (defect #15): additionally reported paths OUTSIDE the temp dir are
   tolerated only for a matching file member whose raw name is not enclosed (absolute / climbing) and whose
   denoted path existed before the extraction - everything else must still hold.                            *)
EXTENDS ExtractDefs, TLC, Json, IOUtils

CONSTANT KF_C20_ReportedPreexisting

Rec == ndJsonDeserialize(IOEnv.TRACE)

VARIABLES l, case, phase, hdr, nreq, viol, kfUsed
vars == <<l, case, phase, hdr, nreq, viol, kfUsed>>

NoHdr == [members |-> <<>>, globs |-> <<>>, vers |-> <<>>]
Init == l = 1 /\ case = -1 /\ phase = "idle" /\ hdr = NoHdr /\ nreq = 0 /\ viol = {} /\ kfUsed = {}

Ev(e) == l <= Len(Rec) /\ Rec[l].ev = e /\ l' = l + 1
Cur == Rec[l]

Reset == /\ Ev("reset")
         /\ case' = Cur.case /\ hdr' = Cur.hdr /\ phase' = "running" /\ nreq' = 0
         /\ viol' = (IF phase = "running" THEN viol \cup {case} ELSE viol)
         /\ UNCHANGED kfUsed

ms == hdr.members
\* the request this result line answers, what it has to report, and what has to be in the temp dir afterwards
g == hdr.globs[nreq + 1]
E == Expected(g, ms)
U == UNION {Expected(hdr.globs[q], ms) : q \in 1..(nreq + 1)}
NextReq == nreq < Len(hdr.globs) /\ Cur.req = nreq + 1
Advance == nreq' = nreq + 1 /\ phase' = (IF nreq + 1 = Len(hdr.globs) THEN "ended" ELSE "running")

\* the bytes a file at target path p may have after this request: those of ANY ONE member requested so far that denotes p
\* (members may alias: a.dlt and ./a.dlt), in the version of the archive this request extracts (hdr.vers[request][member];
\* a "nofilter" history extracts version j of the archive into the same directory and rewrites every file)
Ver == hdr.vers[nreq + 1]
BytesOk(p, len, hash) == \E a \in U : Target(ms, a) = p /\ len = Ver[a].len /\ hash = Ver[a].hash
GoodReport(r) == /\ r.inside /\ r.m \in E /\ r.exists
                 /\ r.rel = Target(ms, r.m) /\ BytesOk(r.rel, r.len, r.hash)
\* the deviation: a path outside the temp dir, reported although nothing was extracted there
PreexistingReport(r) == /\ ~r.inside /\ r.m \in 1..Len(ms)
                        /\ ~ms[r.m].dir /\ ~Enclosed(ms[r.m].name) /\ ms[r.m].pre /\ Matches(g, ms, r.m)
                        /\ g.cls # "nofilter"

Rest(rep, tree) ==
  /\ \A i \in E : Cardinality({j \in 1..Len(rep) : rep[j].m = i}) = 1
  /\ Len(tree) = Cardinality({Target(ms, i) : i \in U})
  /\ \A i \in U : \E j \in 1..Len(tree) : tree[j].rel = Target(ms, i) /\ BytesOk(tree[j].rel, tree[j].len, tree[j].hash)
  /\ Cur.outside_created = <<>> /\ ~Cur.outside_changed

Result == /\ Ev("result") /\ phase = "running" /\ NextReq
          /\ \A j \in 1..Len(Cur.reported) : GoodReport(Cur.reported[j])
          /\ Rest(Cur.reported, Cur.tree)
          /\ Advance /\ UNCHANGED <<case, hdr, viol, kfUsed>>

KF_Result == /\ KF_C20_ReportedPreexisting
             /\ Ev("result") /\ phase = "running" /\ NextReq
             /\ \E j \in 1..Len(Cur.reported) : ~Cur.reported[j].inside
             /\ \A j \in 1..Len(Cur.reported) : GoodReport(Cur.reported[j]) \/ PreexistingReport(Cur.reported[j])
             /\ Rest(Cur.reported, Cur.tree)
             /\ kfUsed' = kfUsed \cup {[case |-> case, kf |-> "KF_C20_ReportedPreexisting"]}
             /\ Advance /\ UNCHANGED <<case, hdr, viol>>

Matched == ENABLED Result \/ ENABLED KF_Result
Reject == /\ l <= Len(Rec) /\ Cur.ev # "reset" /\ phase = "running" /\ ~Matched
          /\ PrintT(<<"CASE_REJECTED", case, l, ToJson(Cur)>>)
          /\ l' = l + 1 /\ phase' = "rejected" /\ viol' = viol \cup {case}
          /\ UNCHANGED <<case, hdr, nreq, kfUsed>>
SkipRest == /\ l <= Len(Rec) /\ Cur.ev # "reset" /\ phase \in {"rejected", "ended", "idle"}
            /\ l' = l + 1
            /\ (IF phase = "ended" THEN viol' = viol \cup {case} /\ phase' = "rejected"
                                   ELSE UNCHANGED <<viol, phase>>)
            /\ UNCHANGED <<case, hdr, nreq, kfUsed>>

Next == Reset \/ Result \/ KF_Result \/ Reject \/ SkipRest
Spec == Init /\ [][Next]_vars

AtEnd == l = Len(Rec) + 1
\* a case whose result line is missing is a violation too
FinalViol == IF phase = "running" THEN viol \cup {case} ELSE viol
Report == AtEnd => PrintT(<<"VERDICT", ToJson([violations |-> FinalViol, known |-> kfUsed])>>)
Accepted == IF TLCGet("stats").diameter - 1 = Len(Rec) THEN TRUE
            ELSE Print(<<"TRACE_NOT_CONSUMED", TLCGet("stats").diameter, Len(Rec)>>, FALSE)
=============================================================================
