-------------------------- MODULE LcRemoteListing --------------------------
EXTENDS LcDetector

Listed(lc) == lc.nr > lc.nrCtrl
Table == {lc \in AllLcs : Listed(lc)}
IsRes(lc) == lc.res.id # 0
Adj(lc) == IsRes(lc) /\ lc.start <= lc.res.start
Key(lc) == IF Adj(lc) THEN <<lc.res.start, 1>> ELSE <<lc.start, 0>>
KeyLess(a, b) == a[1] < b[1] \/ (a[1] = b[1] /\ a[2] < b[2])
HasOrigin(lc) == IsRes(lc) /\ \E o \in Table : o.id = lc.res.id
OriginOf(lc) == CHOOSE o \in Table : o.id = lc.res.id

ChainStrict == done /\ ~panic => \A lc \in Table : HasOrigin(lc) => KeyLess(Key(OriginOf(lc)), Key(lc))
OriginStable == \A lc \in AllLcs : IsRes(lc) => \E o \in AllLcs : o.id = lc.res.id /\ o.start = lc.res.start /\ o.ecu = lc.ecu
=============================================================================
