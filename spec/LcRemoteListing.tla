-------------------------- MODULE LcRemoteListing --------------------------
(* C07, listing clause, remote part - design model of the lifecycle listing that `adlt remote` sends to its clients
   (src/bin/adlt/remote.rs process_file_context: entries carry `start_time: lc.resume_start_time()` and the list is sorted
   with sort_unstable_by on that value; src/lifecycle/mod.rs Lifecycle::resume_start_time; the client sorts by it, too).

   Design = the lifecycle detector model (LcDetector.tla: which lifecycles exist at the end of a stream, their start
   estimates and resume links) composed with

     the key   Key(lc) = resume_start_time as a function of the lifecycle's resume chain, a pair <<ticks, microseconds>>
               (1 tick = 1 s in the concretisation; the code adds 1 us, which is far below the grid):
                 Key(lc) = <<start(lc), 0>>                                  lc resumes nothing
                         = Max(<<start(lc), 0>>, Key(origin(lc)) + 1 us)     lc resumes origin(lc)        (ChainKey = TRUE)
               ChainKey = FALSE is the code as it is at the pinned tree: the comparison and the "+ 1 us" use the START
               ESTIMATE of the origin, not its key:
                 Key(lc) = IF start(lc) <= start(origin) THEN <<start(origin), 1>> ELSE <<start(lc), 0>>
               (the two agree unless the origin is itself a resume lifecycle whose key was lifted);
     the listing = the listed lifecycles (at least one message that is not a control request) sorted by the key; equal keys
               may come in ANY order (unstable sort over a hash map's iteration order), so `Listings` is the set of all
               sequences that are sorted by the key.

   The property on the model (invariants at the end of every bounded stream):
     ListingExists       there is a listing, and every listing is a permutation of the table (each lifecycle exactly once);
     KeyIsStartIfNoResume a lifecycle that resumes nothing is listed under its start estimate;
     ChainStrict         the keys strictly increase along every resume chain (also transitively) - which is what makes
     ResumedAfterOrigin  EVERY listing (every tie-breaking of equal keys) place a resumed lifecycle after the one it resumes;
     NoResumeByStart     without a resume every listing is ordered by start estimate;
     OriginStable        (modelling fact the contract relies on) the lifecycle a resume lifecycle resumes never changes after
                         the resume lifecycle was created: its start estimate is the one remembered in the resume link.
   With ChainKey = FALSE TLC refutes ChainStrict / ResumedAfterOrigin with four messages (config LcRemoteListing_asis.cfg):
   (rx, ts) = (1000,0) (1011,0) (1011,30) (1022,30): lifecycle 2 resumes 1 and is lifted to 1000 s + 1 us, lifecycle 3 resumes 2
   with start estimate 992 s > 981 s = start estimate of 2, so it keeps the key 992 s and is listed before 2 (and before 1).
   `KfShape` is the exact shape of that deviation.                                                                      *)
EXTENDS LcDetector

CONSTANT ChainKey

Listed(lc) == lc.nr > lc.nrCtrl                       \* not only control requests (those are never sent)
Table == {lc \in AllLcs : Listed(lc)}
IsRes(lc) == lc.res.id # 0
HasOrigin(lc) == IsRes(lc) /\ \E o \in AllLcs : o.id = lc.res.id
OriginOf(lc) == CHOOSE o \in AllLcs : o.id = lc.res.id

KeyLess(a, b) == a[1] < b[1] \/ (a[1] = b[1] /\ a[2] < b[2])
KeyLeq(a, b) == ~KeyLess(b, a)

KeyAsIs(lc) == IF IsRes(lc) /\ lc.start <= lc.res.start THEN <<lc.res.start, 1>> ELSE <<lc.start, 0>>
RECURSIVE KeyChain(_)
KeyChain(lc) == IF HasOrigin(lc)
                THEN LET ko == KeyChain(OriginOf(lc)) IN
                     (IF KeyLeq(<<lc.start, 0>>, ko) THEN <<ko[1], ko[2] + 1>> ELSE <<lc.start, 0>>)
                ELSE KeyAsIs(lc)
Key(lc) == IF ChainKey THEN KeyChain(lc) ELSE KeyAsIs(lc)

\* all sequences over the table that are sorted by the key - one per tie-breaking of equal keys
TPerms == {p \in [1..Cardinality(Table) -> Table] : \A i, j \in 1..Cardinality(Table) : i # j => p[i] # p[j]}
Listings == {s \in TPerms : \A i, j \in DOMAIN s : i < j => KeyLeq(Key(s[i]), Key(s[j]))}
Pos(s, lc) == CHOOSE k \in DOMAIN s : s[k] = lc

RECURSIVE Ancestors(_)
Ancestors(lc) == IF HasOrigin(lc) THEN {OriginOf(lc)} \cup Ancestors(OriginOf(lc)) ELSE {}

AtEnd == done /\ ~panic
ListingExists == AtEnd => Listings # {} /\ \A s \in Listings : {s[k] : k \in DOMAIN s} = Table
KeyIsStartIfNoResume == AtEnd => \A lc \in Table : ~IsRes(lc) => Key(lc) = <<lc.start, 0>>
ChainStrict == AtEnd => \A lc \in Table : \A o \in Ancestors(lc) \cap Table : KeyLess(Key(o), Key(lc))
ResumedAfterOrigin == AtEnd => \A s \in Listings : \A lc \in Table : \A o \in Ancestors(lc) \cap Table : Pos(s, o) < Pos(s, lc)
NoResumeByStart == AtEnd => ((\A lc \in Table : ~IsRes(lc)) =>
                                \A s \in Listings : \A i, j \in DOMAIN s : i < j => s[i].start <= s[j].start)
OriginStable == \A lc \in AllLcs : IsRes(lc) => \E o \in AllLcs : o.id = lc.res.id /\ o.start = lc.res.start /\ o.ecu = lc.ecu /\ o.id < lc.id
\* a lifecycle that consists of control requests only is never a resume lifecycle (so an unlisted lifecycle never sits inside a chain)
CtrlOnlyNeverResume == \A lc \in AllLcs : ~Listed(lc) => ~IsRes(lc)

\* the deviation of the code as it is: the direct link of x to its origin o is not strict although x's key is what the code
\* computes from o's START ESTIMATE - possible only when o is itself a resume lifecycle whose key was lifted above its start
KfShape(x) == /\ HasOrigin(x) /\ ~KeyLess(KeyAsIs(OriginOf(x)), KeyAsIs(x))
              /\ IsRes(OriginOf(x)) /\ KeyAsIs(OriginOf(x)) # <<OriginOf(x).start, 0>>
\* ChainKey = FALSE: whatever breaks the strictness has that shape (a non-strict transitive link contains a non-strict direct one)
AsIsOnlyKf == AtEnd => \A lc \in Table : (HasOrigin(lc) /\ ~KeyLess(KeyAsIs(OriginOf(lc)), KeyAsIs(lc))) => KfShape(lc)
ContractOk == \A lc \in Table : \A o \in Ancestors(lc) \cap Table : KeyLess(Key(o), Key(lc))

-----------------------------------------------------------------------------
\* scenario emission: one line per terminal behaviour whose table holds a resume lifecycle (or two equal keys), with the
\* predicted keys / links and the classes the driver and the vacuity guards count
MinId == CHOOSE i \in {lc.id : lc \in Table} : \A lc \in Table : i <= lc.id
Rel(i) == IF i = 0 THEN 0 ELSE (i + 1) - MinId
Classes ==
  (IF \E lc \in Table : HasOrigin(lc) /\ lc.start = lc.res.start THEN {"resume-start-equals-origin-start"} ELSE {})
  \cup (IF \E lc \in Table : HasOrigin(lc) /\ lc.start < lc.res.start THEN {"resume-start-before-origin-start"} ELSE {})
  \cup (IF \E lc \in Table : HasOrigin(lc) /\ lc.start > lc.res.start THEN {"resume-start-after-origin-start"} ELSE {})
  \cup (IF \E lc \in Table : HasOrigin(lc) /\ IsRes(OriginOf(lc)) THEN {"resume-chain-of-three"} ELSE {})
  \cup (IF \E lc \in Table : KfShape(lc) THEN {"chain-key-not-above-lifted-origin-key"} ELSE {})
  \cup (IF \E a, b \in Table : a # b /\ Key(a) = Key(b) THEN {"equal-keys"} ELSE {})
  \cup (IF \E a, b \in Table : a # b /\ a.ecu # b.ecu /\ IsRes(a) THEN {"resume-and-other-ecu"} ELSE {})
  \cup (IF \E a, b \in Table : a # b /\ IsRes(a) /\ IsRes(b) /\ a.ecu # b.ecu THEN {"resume-chains-on-two-ecus"} ELSE {})
  \cup (IF \E lc \in AllLcs : IsRes(lc) /\ ~Listed(OriginOf(lc)) THEN {"origin-not-listed"} ELSE {})
Interesting == Table # {} /\ ((\E lc \in Table : IsRes(lc)) \/ (\E a, b \in Table : a # b /\ Key(a) = Key(b)))
Emit == (AtEnd /\ Interesting) =>
  PrintT(<<"SCN", ToJson([inputs |-> inputs,
                          pred |-> {[id |-> Rel(lc.id), ecu |-> lc.ecu, st |-> lc.start, kst |-> Key(lc)[1], ksu |-> Key(lc)[2],
                                     org |-> IF HasOrigin(lc) /\ Listed(OriginOf(lc)) THEN Rel(lc.res.id) ELSE 0] : lc \in Table},
                          ok |-> ContractOk, classes |-> Classes])>>)
=============================================================================
