//! Shared helpers of the adlt verification harness.
//!
//! The harness only *drives* the real adlt code and *records* what it observed (ndjson traces); expected
//! behaviour lives in the TLA+ modules under /verif/spec. The only comparison done here is data equality
//! between an observation and a value predicted by TLC for the same scenario.
use std::io::{BufRead, Write};

pub use serde_json::{json, Value};

/// splitmix64 / xorshift PRNG (seeded by VERIF_SEED through the orchestrator) - no external crate needed
#[derive(Clone)]
pub struct Rng(pub u64);
impl Rng {
    pub fn new(seed: u64) -> Rng {
        let mut r = Rng(seed ^ 0x9E37_79B9_7F4A_7C15);
        r.next_u64();
        r
    }
    pub fn next_u64(&mut self) -> u64 {
        self.0 = self.0.wrapping_add(0x9E37_79B9_7F4A_7C15);
        let mut z = self.0;
        z = (z ^ (z >> 30)).wrapping_mul(0xBF58_476D_1CE4_E5B9);
        z = (z ^ (z >> 27)).wrapping_mul(0x94D0_49BB_1331_11EB);
        z ^ (z >> 31)
    }
    /// uniform in 0..n (n > 0)
    pub fn below(&mut self, n: u64) -> u64 {
        self.next_u64() % n
    }
    /// uniform in lo..=hi
    pub fn range(&mut self, lo: u64, hi: u64) -> u64 {
        lo + self.below(hi - lo + 1)
    }
    pub fn chance(&mut self, num: u64, den: u64) -> bool {
        self.below(den) < num
    }
    pub fn pick<'a, T>(&mut self, v: &'a [T]) -> &'a T {
        &v[self.below(v.len() as u64) as usize]
    }
    pub fn bytes(&mut self, n: usize) -> Vec<u8> {
        (0..n).map(|_| self.next_u64() as u8).collect()
    }
}

/// 31-bit FNV-1a hash (fits TLC's 32-bit integers)
pub fn hash31(b: &[u8]) -> u32 {
    let mut h: u32 = 0x811c_9dc5;
    for x in b {
        h ^= *x as u32;
        h = h.wrapping_mul(0x0100_0193);
    }
    h & 0x7fff_ffff
}

/// ndjson trace writer
pub struct Trace {
    w: std::io::BufWriter<std::fs::File>,
    pub lines: u64,
}
impl Trace {
    pub fn create(path: &str) -> Trace {
        Trace { w: std::io::BufWriter::new(std::fs::File::create(path).expect("create trace")), lines: 0 }
    }
    pub fn ev(&mut self, v: Value) {
        serde_json::to_writer(&mut self.w, &v).unwrap();
        self.w.write_all(b"\n").unwrap();
        self.lines += 1;
    }
    pub fn flush(&mut self) {
        self.w.flush().unwrap();
    }
}

/// read an ndjson file (scenarios written by the orchestrator from TLC's output)
pub fn read_ndjson(path: &str) -> Vec<Value> {
    let f = std::io::BufReader::new(std::fs::File::open(path).expect("open ndjson"));
    f.lines().map(|l| l.unwrap()).filter(|l| !l.trim().is_empty()).map(|l| serde_json::from_str(&l).expect("json")).collect()
}

/// simple `--key value` argument access
pub struct Args(pub Vec<String>);
impl Args {
    pub fn from_env() -> Args {
        Args(std::env::args().skip(1).collect())
    }
    pub fn get(&self, key: &str) -> Option<&str> {
        self.0.iter().position(|a| a == key).and_then(|i| self.0.get(i + 1)).map(|s| s.as_str())
    }
    pub fn str(&self, key: &str, default: &str) -> String {
        self.get(key).unwrap_or(default).to_string()
    }
    pub fn num(&self, key: &str, default: u64) -> u64 {
        self.get(key).map(|s| s.parse().expect("number")).unwrap_or(default)
    }
    pub fn has(&self, key: &str) -> bool {
        self.0.iter().any(|a| a == key)
    }
}

/// run `f`, turning a panic of the code under test into data (the panic message)
pub fn catch<T>(f: impl FnOnce() -> T + std::panic::UnwindSafe) -> Result<T, String> {
    match std::panic::catch_unwind(f) {
        Ok(v) => Ok(v),
        Err(e) => Err(if let Some(s) = e.downcast_ref::<&str>() {
            s.to_string()
        } else if let Some(s) = e.downcast_ref::<String>() {
            s.clone()
        } else {
            "panic".to_string()
        }),
    }
}

/// silence the default panic hook output (panics of the code under test are recorded as events instead)
pub fn quiet_panics() {
    std::panic::set_hook(Box::new(|_| {}));
}

pub const BASE_US: u64 = 1_640_995_200_000_000; // 1.1.2022 00:00:00 UTC
pub const TICK_US: u64 = 1_000_000; // 1 tick = 1 s

use adlt::dlt::{DltChar4, DltExtendedHeader, DltMessage, DltStandardHeader};

pub fn char4(s: &str) -> DltChar4 {
    let mut b = [0u8; 4];
    for (i, c) in s.bytes().take(4).enumerate() {
        b[i] = c;
    }
    DltChar4::from_buf(&b)
}

/// a log message (verbose, info) built directly from public fields
pub fn mk_msg(index: u32, ecu: &str, rx_us: u64, ts_dms: u32, payload: Vec<u8>) -> DltMessage {
    DltMessage {
        index,
        reception_time_us: rx_us,
        ecu: char4(ecu),
        timestamp_dms: ts_dms,
        standard_header: DltStandardHeader { htyp: 0x21 | 0x10, mcnt: (index & 0xff) as u8, len: 0 },
        extended_header: Some(DltExtendedHeader { verb_mstp_mtin: 0x41, noar: 0, apid: char4("APID"), ctid: char4("CTID") }),
        payload,
        payload_text: None,
        lifecycle: 0,
    }
}
