//! C07, remote-listing part - the lifecycle listing that `adlt remote` sends to its clients
//! (contract: spec/LcRemoteListingTrace.tla, design: spec/LcRemoteListing.tla).
//!
//! For every case a DLT file is generated from a lifecycle-detector scenario that contains suspend/resume lifecycles
//! (TLC-emitted behaviours of the bounded design model, microsecond variants of them, seeded random resume chains).  The real
//! detector is run locally on the file once (raw start estimates and the resume links: which lifecycle resumes which - facts
//! the wire format does not carry), then the file is opened SEVERAL times through the real `adlt remote` binary - on the same
//! server process, on the same and on fresh connections - so that the process-global lifecycle ids (and with them the iteration
//! order of the server's lifecycle map) differ between the opens.  Every `Lifecycles` frame is recorded entry by entry in the
//! order received.  Nothing here knows what a correct listing is: the only comparison is data equality between the observed
//! final keys and the keys TLC predicted for the same scenario (drift counter, never a verdict); every verdict is TLC's.
#[path = "c15/ws.rs"]
mod ws;
use adlt::dlt::{DltExtendedHeader, DltMessage};
use adlt::lifecycle::{parse_lifecycles_buffered_from_stream, Lifecycle, LifecycleId};
use adlt::utils::remote_types::BinType;
use std::collections::BTreeMap;
use std::io::BufRead;
use std::sync::{Arc, Mutex};
use std::time::{Duration, Instant};
use vh::*;
use ws::*;

// ================================================================================================ inputs
#[derive(Clone, Debug)]
struct In {
    ecu: String,
    rx_us: u64,
    ts_dms: u32,
    kind: String, // norm | ctrl (control request) | nots (no timestamp)
}

fn build(pos: u32, i: &In) -> DltMessage {
    let mut m = mk_msg(pos, &i.ecu, i.rx_us, i.ts_dms, vec![pos as u8, (pos >> 8) as u8, (pos >> 16) as u8, 0x5a]);
    match i.kind.as_str() {
        "ctrl" => m.extended_header = Some(DltExtendedHeader { verb_mstp_mtin: (3 << 1) | (1 << 4), noar: 0, apid: char4("APID"), ctid: char4("CTID") }),
        "nots" => {
            m.standard_header.htyp &= !0x10;
            m.timestamp_dms = 0;
        }
        _ => {}
    }
    m
}

fn write_file(path: &str, inputs: &[In]) {
    use std::io::Write;
    let mut w = std::io::BufWriter::new(std::fs::File::create(path).expect("create dlt"));
    for (i, x) in inputs.iter().enumerate() {
        build(i as u32, x).to_write(&mut w).expect("write dlt");
    }
    w.flush().unwrap();
}

fn split_t(us: u64) -> (u64, u64) {
    ((us / 1_000_000) & 0x7fff_ffff, us % 1_000_000)
}

fn ecu_str(e: &adlt::dlt::DltChar4) -> String {
    String::from_utf8_lossy(e.as_buf()).trim_end_matches('\0').to_string()
}

// ================================================================================================ local run of the detector
/// what the local run of the real detector says about one lifecycle of the file
#[derive(Clone, Debug)]
struct Loc {
    id: u32,
    ecu: String,
    nr: u32,
    start: u64,     // raw start estimate (pub field start_time)
    res: bool,      // is_resume()
    org: u32,       // id of the lifecycle it resumes (hook accessor), 0 = none
    ctrl_only: bool,
}

struct Local {
    table: Vec<Loc>, // all lifecycles of the final table (also control-request-only ones), by id
    n: u64,
    panic: Option<String>,
}

/// main thread only (lifecycle ids come from a process-global counter: one run at a time keeps them consecutive per file)
fn local_run(path: &str) -> Local {
    let mut res = Local { table: vec![], n: 0, panic: None };
    let fi = std::fs::File::open(path).expect("open dlt");
    let rd = adlt::utils::LowMarkBufReader::new(fi, 512 * 1024, adlt::dlt::DLT_MAX_STORAGE_MSG_SIZE + 4);
    let ns = adlt::utils::get_new_namespace();
    let msgs: Vec<DltMessage> = adlt::utils::get_dlt_message_iterator("dlt", 0, rd, ns, None, None, None).collect();
    res.n = msgs.len() as u64;
    let (lcs_r, lcs_w) = evmap::new::<LifecycleId, Lifecycle>();
    let (tx, rx) = std::sync::mpsc::channel();
    for m in msgs {
        tx.send(m).unwrap();
    }
    drop(tx);
    let r = catch(std::panic::AssertUnwindSafe(|| parse_lifecycles_buffered_from_stream(lcs_w, rx, &|_m: DltMessage| Ok(()))));
    match r {
        Ok(w) => {
            if let Some(rr) = lcs_r.read() {
                for (_id, b) in &rr {
                    if let Some(lc) = b.get_one() {
                        res.table.push(Loc {
                            id: lc.id(),
                            ecu: ecu_str(&lc.ecu),
                            nr: lc.nr_msgs,
                            start: lc.start_time,
                            res: lc.is_resume(),
                            org: lc.verif_resume_lc_id().unwrap_or(0),
                            ctrl_only: lc.only_control_requests(),
                        });
                    }
                }
            }
            res.table.sort_by_key(|r| r.id);
            drop(w);
        }
        Err(msg) => res.panic = Some(msg),
    }
    res
}

// ================================================================================================ remote run
/// one entry of a Lifecycles frame (the fields of BinLifecycle the listing is about)
#[derive(Clone, Debug)]
struct Rec {
    id: u32,
    ecu: String,
    nr: u32,
    start: u64, // BinLifecycle.start_time = the key the list is sorted by
    resume: Option<u64>,
}

enum Ev {
    Lcs(Vec<Rec>),
    Other(Value),
}

struct Sess<'a> {
    conn: &'a mut Conn,
    evs: Vec<Ev>,
    n: u64,
    fi_n_seen: u32,
    last_frame: Instant,
    sentinel: u64,
    dead: bool,
}

impl<'a> Sess<'a> {
    fn on_frame(&mut self, fr: Frame) -> Option<String> {
        match fr {
            Frame::Text(t) => {
                if t.starts_with("stream:") {
                    None
                } else {
                    Some(t)
                }
            }
            Frame::Bin(b) => {
                match decode(&b) {
                    Some(BinType::FileInfo(fi)) => {
                        self.last_frame = Instant::now();
                        if fi.nr_msgs as u64 == self.n {
                            self.fi_n_seen += 1;
                        }
                    }
                    Some(BinType::Lifecycles(l)) => {
                        self.last_frame = Instant::now();
                        self.evs.push(Ev::Lcs(l.iter().map(|x| Rec { id: x.id, ecu: char4_str(x.ecu), nr: x.nr_msgs, start: x.start_time, resume: x.resume_time }).collect()));
                    }
                    Some(BinType::EacInfo(_)) => self.last_frame = Instant::now(),
                    Some(_) => {}
                    None => self.evs.push(Ev::Other(json!({"ev":"bad_frame","len":b.len()}))),
                }
                None
            }
            Frame::Closed(why) => {
                self.evs.push(Ev::Other(json!({"ev":"conn_closed","why":trunc(&why, 120)})));
                self.dead = true;
                None
            }
            Frame::Timeout => {
                self.evs.push(Ev::Other(json!({"ev":"timeout","at":"reply"})));
                self.dead = true;
                None
            }
        }
    }
    fn cmd(&mut self, text: &str) -> Option<String> {
        if self.dead {
            return None;
        }
        if let Err(e) = self.conn.send(text) {
            self.evs.push(Ev::Other(json!({"ev":"conn_closed","why":trunc(&e, 120)})));
            self.dead = true;
            return None;
        }
        loop {
            let fr = self.conn.recv(Duration::from_secs(60));
            if let Some(t) = self.on_frame(fr) {
                return Some(t);
            }
            if self.dead {
                return None;
            }
        }
    }
    /// a sentinel command: its reply is written after one complete iteration of the server's loop
    fn roundtrip(&mut self) {
        self.sentinel += 1;
        let s = format!("__sync_{}", self.sentinel);
        let _ = self.cmd(&s);
    }
}

/// open the file, record every Lifecycles frame until parsing has finished (the server repeats the final FileInfo count as
/// its end-of-parsing notice) and two further complete server loop iterations passed, close the file.
/// Returns the events and how the end was recognised: finished | quiet (final count once + 3 s silence) | stalled | dead.
fn remote_open(conn: &mut Conn, path: &str, n: u64) -> (Vec<Ev>, String) {
    let mut s = Sess { conn, evs: vec![], n, fi_n_seen: 0, last_frame: Instant::now(), sentinel: 0, dead: false };
    let mut how = String::from("dead");
    'run: {
        let r = s.cmd(&format!("open {}", json!({"files":[path]})));
        if !r.as_deref().map(|t| t.starts_with("ok:")).unwrap_or(false) {
            s.evs.push(Ev::Other(json!({"ev":"unexpected_reply","to":"open","text":trunc(&r.unwrap_or_default(), 200)})));
            break 'run;
        }
        s.last_frame = Instant::now();
        loop {
            if s.dead {
                break 'run;
            }
            if s.fi_n_seen >= 2 {
                how = "finished".into();
                break;
            }
            let quiet = s.last_frame.elapsed();
            if (s.fi_n_seen >= 1 && quiet > Duration::from_secs(3)) || quiet > Duration::from_secs(30) {
                how = if s.fi_n_seen >= 1 { "quiet".into() } else { "stalled".into() };
                break;
            }
            s.roundtrip();
        }
        s.roundtrip();
        s.roundtrip();
        if s.dead {
            how = "dead".into();
            break 'run;
        }
        let r = s.cmd("close");
        if !r.as_deref().map(|t| t.starts_with("ok:")).unwrap_or(false) {
            s.evs.push(Ev::Other(json!({"ev":"unexpected_reply","to":"close","text":trunc(&r.unwrap_or_default(), 200)})));
            how = "dead".into();
        }
    }
    (s.evs, how)
}

/// `Server::start` picks a free port and then waits until SOMETHING accepts connections on it - which may be another process that
/// took the port in between (the child then exits with "Address already in use").  Only a child that printed its own
/// "listening" line and is still running counts as started.
fn start_checked(adlt: &str, dir: &str, tag: &str) -> Server {
    for attempt in 0..30 {
        let mut s = Server::start(adlt, dir, &format!("{}a{}", tag, attempt), None);
        let want = format!("remote server listening on 127.0.0.1:{}", s.port);
        let t0 = Instant::now();
        let mut ok = false;
        while t0.elapsed() < Duration::from_secs(15) {
            if s.exited().is_some() {
                break;
            }
            if std::fs::read_to_string(&s.stderr_path).map(|t| t.contains(&want)).unwrap_or(false) {
                ok = true;
                break;
            }
            std::thread::sleep(Duration::from_millis(10));
        }
        if ok && s.exited().is_none() {
            return s;
        }
        s.stop();
    }
    panic!("cannot start adlt remote");
}

// ================================================================================================ cases
#[derive(Clone)]
struct Case {
    src: String,
    inputs: Vec<In>,
    pred: Option<Value>,   // TLC's prediction for the scenario (final keys, links, classes)
    classes: Vec<String>,  // the model's classes of the scenario (TLC cases and their microsecond variants)
    base_us: u64,          // reception-time base of the grid (0 for the epoch configs)
}

struct Open {
    how: String,
    evs: Vec<Ev>,
    conn_reused: bool,
    server: usize,
}

fn grid_in(ecu: &str, rx_tick: u64, ts_tick: u64, kind: &str, base_us: u64) -> In {
    In { ecu: ecu.to_string(), rx_us: base_us + rx_tick * TICK_US, ts_dms: (ts_tick * 10_000) as u32, kind: kind.to_string() }
}

// ================================================================================================ random resume chains
struct Gen {
    rng: Rng,
}
impl Gen {
    /// messages of one ECU: a first lifecycle, then a chain of suspend/resume lifecycles whose start estimates end up
    /// exactly at / 1 us around / before / after the start estimate of the lifecycle they resume
    fn ecu_chain(&mut self, ecu: &str, links: u64, t0: u64) -> Vec<In> {
        let r = &mut self.rng;
        let mut v: Vec<In> = Vec::new();
        let mut est = t0 + r.below(50_000_000); // start estimate of the current lifecycle (us)
        let mut ts = 10_000 + r.below(200_000);  // 0.1 ms units
        let mut last_rx;
        // first lifecycle: at least one message without delay fixes the estimate
        let k = r.range(1, 3);
        let zero = r.below(k);
        for i in 0..k {
            ts += r.range(1, 30_000);
            let delay = if i == zero { 0 } else { r.below(2_000_000) };
            v.push(In { ecu: ecu.into(), rx_us: est + ts * 100 + delay, ts_dms: ts as u32, kind: "norm".into() });
        }
        last_rx = v.iter().map(|m| m.rx_us).max().unwrap();
        for _ in 0..links {
            // the resume is detected on: reception gap >= 10 s, timestamp not smaller, estimate later by >= 10 s but by less than gap + 30 s
            let gap = 10_000_000 + r.below(45_000_000);
            let shift = 10_000_000 + r.below((gap - 10_000_000).min(40_000_000) + 1);
            let rx1 = last_rx + gap;
            // timestamp such that rx1 - ts1 = est + shift (rounded to the timestamp grid: the estimate at creation is then <= 100 us later)
            let ts1 = (rx1 - est - shift) / 100;
            let ts1 = ts1.max(ts);
            let est_created = rx1 - ts1 * 100;
            v.push(In { ecu: ecu.into(), rx_us: rx1, ts_dms: ts1 as u32, kind: "norm".into() });
            ts = ts1;
            last_rx = rx1;
            // later messages arrive with a smaller buffering delay and lower the estimate to target = est + delta
            let delta: i64 = match r.below(12) {
                0 | 1 | 2 => 0,
                3 => 1,
                4 => -1,
                5 => *r.pick(&[2i64, -2, 99, -99, 100, -100, 101]),
                6 | 7 => -(r.below(9_000_000) as i64) - 1,               // crossing: before the origin's estimate
                8 => -(r.range(1, 9) as i64) * 1_000_000,               // crossing by whole seconds
                9 => r.below(5_000_000) as i64 + 1,                     // stays later
                _ => i64::MAX,                                          // not lowered at all
            };
            let mut cur = est_created;
            if delta != i64::MAX {
                let target = (est as i64 + delta) as u64;
                if target < est_created && est_created - target <= 59_000_000 {
                    let m = r.range(1, 2);
                    for j in 0..m {
                        // reception time not before the previous one: the timestamp advances by at least (est_created - target)
                        let adv = (est_created - target) / 100 + 1 + r.below(20_000);
                        ts += adv;
                        let rx = if j == 0 { target + ts * 100 } else { target + ts * 100 + r.below(3) * r.below(500_000) };
                        v.push(In { ecu: ecu.into(), rx_us: rx, ts_dms: ts as u32, kind: "norm".into() });
                        last_rx = last_rx.max(rx);
                    }
                    cur = target;
                }
            }
            if r.chance(1, 3) {
                ts += r.range(1, 20_000);
                let rx = cur + ts * 100 + r.below(1_000_000);
                v.push(In { ecu: ecu.into(), rx_us: rx, ts_dms: ts as u32, kind: "norm".into() });
                last_rx = last_rx.max(rx);
            }
            est = cur;
        }
        v
    }
    fn chains(&mut self, ecus: &[&str], max_links: u64) -> Vec<In> {
        let mut all: Vec<In> = Vec::new();
        let t0 = BASE_US + self.rng.below(1000) * 1_000_000 + self.rng.below(1_000_000);
        for e in ecus {
            let links = self.rng.range(1, max_links);
            // ECUs start at the same instant now and then: equal keys of lifecycles of different ECUs
            let t = if self.rng.chance(1, 3) { t0 } else { t0 + self.rng.below(60_000_000) };
            let mut v = self.ecu_chain(e, links, t);
            if self.rng.chance(1, 8) {
                // a control request of the logger in front (a lifecycle of control requests only is never listed)
                let rx = v[0].rx_us.saturating_sub(self.rng.below(20_000_000));
                v.insert(0, In { ecu: e.to_string(), rx_us: rx, ts_dms: 0, kind: "ctrl".into() });
            }
            all.extend(v);
        }
        all.sort_by_key(|m| m.rx_us); // stable: per ECU the order of generation is kept
        all
    }
    /// streams on the detector model's grid with whole-second values (alphabets known to reach merges, confirmations, resumes)
    fn grid_stream(&mut self, max_n: u64, ecus: &[&str]) -> Vec<In> {
        let n = self.rng.range(2, max_n);
        let rxd = [0u64, 0, 1, 1, 2, 9, 10, 11, 11, 12, 29, 31, 59, 61];
        let tsv = [0u64, 0, 1, 2, 9, 10, 11, 12, 20, 22, 30, 33, 59, 60, 61, 70, 71];
        let mut rx = 1000;
        (0..n)
            .map(|_| {
                rx += *self.rng.pick(&rxd);
                let k = if self.rng.chance(1, 10) { "ctrl" } else { "norm" };
                grid_in(*self.rng.pick(ecus), rx, *self.rng.pick(&tsv), k, BASE_US)
            })
            .collect()
    }
}

/// microsecond variant of a grid scenario: the reception times from message j on are moved by d us
fn jitter(inputs: &[In], j: usize, d: i64) -> Vec<In> {
    inputs.iter().enumerate().map(|(i, m)| if i >= j { In { rx_us: (m.rx_us as i64 + d) as u64, ..m.clone() } } else { m.clone() }).collect()
}

// ================================================================================================ main
fn main() {
    quiet_panics();
    let a = Args::from_env();
    let adlt = a.str("--adlt", "adlt");
    let work = a.str("--work", ".");
    let _ = std::fs::remove_dir_all(format!("{}/files", work));
    let _ = std::fs::remove_dir_all(format!("{}/srv", work));
    std::fs::create_dir_all(format!("{}/srv", work)).unwrap();
    std::fs::create_dir_all(format!("{}/files", work)).unwrap();
    let nworkers = a.num("--workers", 8) as usize;
    let passes = a.num("--passes", 2) as usize; // pass 0: one open on a fresh connection; later passes: a fresh connection again,
    let reuse_every = a.num("--reuse-every", 1) as usize; // ... and for every k-th file of a worker a second open on that same connection
    let mut g = Gen { rng: Rng::new(a.num("--seed", 1)) };
    let mut cases: Vec<Case> = Vec::new();

    // ---- TLC behaviours with predictions (+ microsecond variants of those whose resume estimate is at / before the origin's)
    let jitter_near = a.num("--jitter-near", 1_000_000) as usize; // at most that many +-1 us variants of the equal-start scenarios
    let jitter_sample = a.num("--jitter-sample", 0);
    let mut n_tlc = 0usize;
    if let Some(f) = a.get("--scenarios") {
        let rd = std::io::BufReader::new(std::fs::File::open(f).expect("scenarios"));
        let mut tlc: Vec<Case> = Vec::new();
        for line in rd.lines() {
            let line = line.unwrap();
            if line.trim().is_empty() {
                continue;
            }
            let scn: Value = serde_json::from_str(&line).unwrap();
            let base_us = if scn["epoch0"].as_bool().unwrap_or(false) { 0 } else { BASE_US };
            let inputs: Vec<In> = scn["inputs"].as_array().unwrap().iter().map(|m| grid_in(m["ecu"].as_str().unwrap(), m["rx"].as_u64().unwrap(), m["ts"].as_u64().unwrap(), m["kind"].as_str().unwrap(), base_us)).collect();
            let classes: Vec<String> = scn["classes"].as_array().map(|v| v.iter().map(|x| x.as_str().unwrap_or("").to_string()).collect()).unwrap_or_default();
            tlc.push(Case { src: "tlc".into(), inputs, pred: Some(scn["alts"].clone()), classes, base_us });
        }
        n_tlc = tlc.len();
        let mut vars: Vec<Case> = Vec::new();
        for c in &tlc {
            let near = c.classes.iter().any(|k| k == "resume-start-equals-origin-start");
            if near {
                for j in 1..c.inputs.len() {
                    for d in [1i64, -1] {
                        vars.push(Case { src: format!("tlc-us{}{}@{}", if d > 0 { "+" } else { "" }, d, j), inputs: jitter(&c.inputs, j, d), pred: None, classes: c.classes.clone(), base_us: c.base_us });
                    }
                }
            }
        }
        while vars.len() > jitter_near {
            let k = g.rng.below(vars.len() as u64) as usize;
            vars.swap_remove(k);
        }
        for _ in 0..jitter_sample {
            if tlc.is_empty() {
                break;
            }
            let c = &tlc[g.rng.below(tlc.len() as u64) as usize];
            if c.inputs.len() < 2 {
                continue;
            }
            let j = g.rng.range(1, c.inputs.len() as u64 - 1) as usize;
            let d = *g.rng.pick(&[1i64, -1, 2, -2, 50, -50, 99, -99, 100, -100, 101, -101, 999_999, -999_999]);
            vars.push(Case { src: format!("tlc-us{}{}@{}", if d > 0 { "+" } else { "" }, d, j), inputs: jitter(&c.inputs, j, d), pred: None, classes: c.classes.clone(), base_us: c.base_us });
        }
        cases.extend(tlc);
        cases.extend(vars);
    }
    // ---- regression inputs
    if a.has("--regressions") {
        let t = |v: &[(u64, u64)]| -> Vec<In> { v.iter().map(|(rx, ts)| grid_in("A", *rx, *ts, "norm", BASE_US)).collect() };
        let regs: Vec<(&str, Vec<In>)> = vec![
            // resume lifecycle lowered to exactly the start estimate of the lifecycle it resumes (round-4 seed of C07)
            ("resume-equal-start", t(&[(1090, 90), (1100, 100), (1150, 130), (1151, 151), (1152, 152)])),
            // chain of three: the second is lifted above its estimate, the third keeps an estimate in between
            ("chain-lifted-origin", t(&[(1000, 0), (1011, 0), (1011, 30), (1022, 30)])),
            // crossing start estimates (lc_ex004 like)
            ("resume-crossing", t(&[(1000, 0), (1011, 0), (1012, 30), (1013, 31)])),
        ];
        for (name, inputs) in regs {
            cases.push(Case { src: name.to_string(), inputs, pred: None, classes: vec![], base_us: BASE_US });
        }
    }
    // ---- seeded random resume chains / grid streams
    let n_random = a.num("--random", 0);
    for i in 0..n_random {
        let inputs = match i % 6 {
            0 => g.chains(&["A"], 2),
            1 | 2 => g.chains(&["A", "B"], 3),
            3 => g.chains(&["EA", "ECUB", "C"], 4),
            4 => g.grid_stream(12, &["A", "B"]),
            _ => g.chains(&["A"], 5),
        };
        cases.push(Case { src: "random".into(), inputs, pred: None, classes: vec![], base_us: BASE_US });
    }

    // ---- files + local runs (sequential: lifecycle ids of the local detector stay consecutive per file)
    let mut locals: Vec<Local> = Vec::with_capacity(cases.len());
    let mut paths: Vec<String> = Vec::with_capacity(cases.len());
    for (i, c) in cases.iter().enumerate() {
        let path = format!("{}/files/f{}.dlt", work, i);
        write_file(&path, &c.inputs);
        locals.push(local_run(&path));
        paths.push(path);
    }

    // ---- opens: worker w owns one server process and the files i with i % nworkers == w; every pass visits all its files again,
    //      so the same file is parsed with other lifecycle ids each time
    let cases = Arc::new(cases);
    let paths = Arc::new(paths);
    let ns: Arc<Vec<u64>> = Arc::new(locals.iter().map(|l| l.n).collect());
    let results: Arc<Mutex<BTreeMap<(usize, usize), Open>>> = Arc::new(Mutex::new(BTreeMap::new()));
    let panics: Arc<Mutex<Vec<(String, u64)>>> = Arc::new(Mutex::new(Vec::new()));
    let exits: Arc<Mutex<Vec<String>>> = Arc::new(Mutex::new(Vec::new()));
    let mut hs = Vec::new();
    for wid in 0..nworkers {
        let (cases, paths, ns, results, panics, exits, adlt, work) = (cases.clone(), paths.clone(), ns.clone(), results.clone(), panics.clone(), exits.clone(), adlt.clone(), work.clone());
        hs.push(std::thread::spawn(move || {
            let mine: Vec<usize> = (0..cases.len()).filter(|i| i % nworkers == wid).collect();
            if mine.is_empty() {
                return;
            }
            let mut srv = start_checked(&adlt, &format!("{}/srv", work), &format!("w{}", wid));
            let mut restarts = 0;
            let mut opened: BTreeMap<usize, usize> = BTreeMap::new();
            for pass in 0..passes {
                for (pos, &i) in mine.iter().enumerate() {
                    let reps = if pass > 0 && (pos + pass) % reuse_every.max(1) == 0 { 2 } else { 1 };
                    let mut conn = match Conn::connect(srv.port, Duration::from_secs(20)) {
                        Ok(c) => Some(c),
                        Err(e) => {
                            results.lock().unwrap().insert((i, 1000 + pass), Open { how: "dead".into(), evs: vec![Ev::Other(json!({"ev":"connect_failed","why":trunc(&e, 100)}))], conn_reused: false, server: wid });
                            None
                        }
                    };
                    if let Some(c) = conn.as_mut() {
                        for rep in 0..reps {
                            let (evs, how) = remote_open(c, &paths[i], ns[i]);
                            let dead = how == "dead";
                            let k = opened.entry(i).or_insert(0);
                            results.lock().unwrap().insert((i, *k), Open { how, evs, conn_reused: rep > 0, server: wid });
                            *k += 1;
                            if dead {
                                break;
                            }
                        }
                    }
                    if let Some(c) = conn {
                        c.close();
                    }
                    if let Some(st) = srv.exited() {
                        exits.lock().unwrap().push(st);
                        panics.lock().unwrap().extend(srv.panic_lines());
                        srv.stop();
                        restarts += 1;
                        srv = start_checked(&adlt, &format!("{}/srv", work), &format!("w{}r{}", wid, restarts));
                    }
                }
            }
            srv.stop();
            panics.lock().unwrap().extend(srv.panic_lines());
        }));
    }
    let mut worker_failed = false;
    for h in hs {
        if h.join().is_err() {
            worker_failed = true;
        }
    }
    if worker_failed {
        eprintln!("c07r driver: a worker thread failed");
        std::process::exit(3);
    }

    // ---- trace: one case per open
    let mut t = Trace::create(&a.str("--out", "trace.ndjson"));
    let res = results.lock().unwrap();
    let (mut opens, mut frames, mut entries, mut drift, mut compared) = (0u64, 0u64, 0u64, 0u64, 0u64);
    let mut drift_cases: Vec<u64> = Vec::new();
    let mut case_no = a.num("--first-case", 0);
    for ((i, k), o) in res.iter() {
        let c = &cases[*i];
        let l = &locals[*i];
        opens += 1;
        // case-relative ids: relative to the smallest id received / the smallest id of the local table's listed lifecycles
        let rbase = o.evs.iter().filter_map(|e| if let Ev::Lcs(v) = e { v.iter().map(|r| r.id).min() } else { None }).min().unwrap_or(1);
        let lbase = l.table.iter().filter(|r| !r.ctrl_only).map(|r| r.id).min().unwrap_or(1);
        let rel = |id: u32, base: u32| -> u64 { (id.wrapping_sub(base).wrapping_add(1) & 0x7fff_ffff) as u64 };
        let listed = |id: u32| l.table.iter().any(|r| r.id == id && !r.ctrl_only);
        let local_json: Vec<Value> = l
            .table
            .iter()
            .filter(|r| !r.ctrl_only)
            .map(|r| {
                let (st, su) = split_t(r.start);
                json!({"id": rel(r.id, lbase), "ecu": r.ecu, "nr": r.nr & 0x7fff_ffff, "st": st, "su": su, "res": r.res,
                       "org": if r.org != 0 && listed(r.org) { rel(r.org, lbase) } else { 0 }})
            })
            .collect();
        let small = c.inputs.len() <= 16;
        let hdr = json!({
            "src": c.src, "file": i, "open": k, "idbase": rbase & 0x7fff_ffff, "server": o.server, "conn_reused": o.conn_reused, "n": l.n, "how": o.how,
            "local": local_json, "ctrl_only": l.table.iter().filter(|r| r.ctrl_only).count(), "classes": c.classes,
            "inputs": if small { c.inputs.iter().map(|m| json!({"ecu": m.ecu, "rx_us": m.rx_us.wrapping_sub(c.base_us), "ts_dms": m.ts_dms, "kind": m.kind})).collect::<Vec<Value>>() } else { vec![] },
            "base_us": c.base_us,
        });
        t.ev(json!({"ev":"reset","case":case_no,"hdr":hdr}));
        if let Some(p) = &l.panic {
            t.ev(json!({"ev":"panic","where":"local detector","msg":trunc(p, 200)}));
        }
        let mut fold: BTreeMap<u64, (u64, u64)> = BTreeMap::new();
        for e in &o.evs {
            match e {
                Ev::Lcs(items) => {
                    frames += 1;
                    entries += items.len() as u64;
                    t.ev(json!({"ev":"lcs","items": items.iter().map(|r| {
                        let (st, su) = split_t(r.start);
                        if r.nr == 0 { fold.remove(&rel(r.id, rbase)); } else { fold.insert(rel(r.id, rbase), (st, su)); }
                        json!({"id": rel(r.id, rbase), "ecu": r.ecu, "nr": r.nr & 0x7fff_ffff, "st": st, "su": su, "res": r.resume.is_some()})
                    }).collect::<Vec<Value>>()}));
                }
                Ev::Other(v) => t.ev(v.clone()),
            }
        }
        match o.how.as_str() {
            "finished" | "quiet" => {
                t.ev(json!({"ev":"idle"}));
                t.ev(json!({"ev":"end"}));
            }
            "stalled" => t.ev(json!({"ev":"timeout","at":"end of parsing"})),
            _ => {}
        }
        // design conformance (counter only): the observed final keys equal the keys TLC predicted for the scenario
        if let Some(alts) = &c.pred {
            compared += 1;
            let base_s = c.base_us / 1_000_000;
            let obs: Vec<(u64, u64, u64)> = fold.iter().map(|(id, (st, su))| (*id, *st, *su)).collect();
            let hit = alts.as_array().map(|v| {
                v.iter().any(|p| {
                    let mut pv: Vec<(u64, u64, u64)> = p.as_array().unwrap().iter().map(|r| (r["id"].as_u64().unwrap(), r["kst"].as_u64().unwrap() + base_s, r["ksu"].as_u64().unwrap())).collect();
                    pv.sort();
                    pv == obs
                })
            });
            if hit != Some(true) {
                drift += 1;
                if drift_cases.len() < 20 {
                    drift_cases.push(case_no);
                }
            }
        }
        case_no += 1;
    }
    t.flush();
    let mut pl: Vec<(String, u64)> = Vec::new();
    for (k, c) in panics.lock().unwrap().iter() {
        if let Some(e) = pl.iter_mut().find(|e| &e.0 == k) {
            e.1 += c;
        } else {
            pl.push((k.clone(), *c));
        }
    }
    println!(
        "{}",
        json!({"files": cases.len(), "tlc_files": n_tlc, "opens": opens, "lines": t.lines, "frames": frames, "entries": entries, "compared": compared, "drift": drift,
               "drift_cases": drift_cases, "messages": locals.iter().map(|l| l.n).sum::<u64>(),
               "panics": pl.iter().map(|(k, c)| json!([k, c])).collect::<Vec<Value>>(), "server_exit": exits.lock().unwrap().clone()})
    );
}
