//! C17 driver: replays TLC-generated wire scripts (and seeded random ones) on the real FileTransferPlugin.
//! Messages are real verbose DLT messages built with adlt's own `dlt_args!` encoder (FLST 8 args, FLDA 5, FLFI 3).
//! After every process_msg the plugin's public state() JSON is projected to the state KIND per transfer key (the
//! counters inside the labels are stale between state changes and are not used); at the end every state entry is saved
//! through apply_command("save"), the auto-save directory and a sentinel directory around it are listed.
//! The driver computes no expectation: it compares bytes with the original bytes and, on the fast path, the observed
//! kinds/saves with the values TLC predicted for the same script.
use adlt::dlt::DltMessage;
use adlt::dlt_args;
use adlt::plugins::file_transfer::FileTransferPlugin;
use adlt::plugins::plugin::Plugin;
use std::collections::BTreeMap;
use std::path::{Path, PathBuf};
use vh::*;

// ---- argument wrappers for dlt_args! (the harness has no direct dependency on serde_bytes) -------------------------
struct Raw<'a>(&'a [u8]);
impl serde::Serialize for Raw<'_> {
    fn serialize<S: serde::Serializer>(&self, s: S) -> Result<S::Ok, S::Error> {
        s.serialize_bytes(self.0)
    }
}
/// same name / variant index as adlt's wrapper: serialised as DLT_TYPE_INFO_STRG | DLT_SCOD_ASCII
#[derive(serde::Serialize)]
enum DltVerbArgTypeWrapper<'a> {
    DltScodAscii(Raw<'a>),
}
fn asc(s: &'static [u8]) -> DltVerbArgTypeWrapper<'static> {
    DltVerbArgTypeWrapper::DltScodAscii(Raw(s))
}

#[derive(Clone)]
struct Tr {
    lens: Vec<usize>,
    data: Vec<u8>,
    name: String,
    name_class: &'static str,
    idx: usize,     // 1-based position in the case (part of the generated names)
    base_id: usize, // transfers with the same base_id share one base name
    pre: bool,
    ecu: &'static str,
    lc: u32,
    serial: u32,
    bs: usize,
}
impl Tr {
    fn chunk(&self, pkg: usize) -> &[u8] {
        let off: usize = self.lens[..pkg - 1].iter().sum();
        &self.data[off..off + self.lens[pkg - 1]]
    }
}

#[derive(Clone)]
struct Item {
    t: usize,     // transfer the item belongs to in the header; 0 = unrelated message
    owner: usize, // transfer whose key the real message carries (differs from t only for foreign-apid copies)
    k: &'static str,
    pkg: u32,
    payload: Vec<u8>,
    orig: bool,
    noise: u32,
}

#[derive(Clone)]
struct Cfg {
    allow_save: bool,
    auto: bool,
    keep_flda: bool,
    apid_filter: bool,
    glob: &'static str,
    /// 0: every message built by adlt's own dlt_args! (little endian, u32 / i32 numbers, UTF-8 file name);
    /// 1: "mixed wire encodings" - per message (chosen by its index) big or little endian payloads and every integer
    ///    argument in another width / signedness (u8..u64, i8..i64 where the value fits), ASCII or UTF-8 file names
    enc: u8,
    /// with apid_filter: the plugin is configured with a ctid instead of an apid (the foreign copies then differ in the ctid)
    by_ctid: bool,
    /// allowSave / keepFLDA are left out of the configuration where they have their default value (true / false)
    omit_defaults: bool,
}

fn base_msg(index: u32, ecu: &str, lc: u32, apid: &str, noar: u8, payload: Vec<u8>) -> DltMessage {
    let mut m = mk_msg(index, ecu, BASE_US + index as u64 * 1000, index * 10, payload);
    m.lifecycle = lc;
    if let Some(eh) = m.extended_header.as_mut() {
        eh.noar = noar;
        eh.apid = char4(apid);
    }
    m
}


// ---- raw argument encoder for the mixed wire encodings (independent of adlt's serialiser) ---------------------------
enum A<'a> {
    Asc(&'a [u8]),  // string, SCOD ASCII, bytes incl. the terminating 0
    Utf(&'a [u8]),  // string, SCOD UTF-8
    Num(u64),       // a non-negative integer: width / signedness picked by the encoder
    Raw(&'a [u8]),
}
fn mix(x: u64) -> u64 {
    let mut z = x.wrapping_add(0x9e3779b97f4a7c15);
    z = (z ^ (z >> 30)).wrapping_mul(0xbf58476d1ce4e5b9);
    z = (z ^ (z >> 27)).wrapping_mul(0x94d049bb133111eb);
    z ^ (z >> 31)
}
/// (noar, payload, big_endian)
fn enc_args(sel: u64, args: &[A]) -> (u8, Vec<u8>, bool) {
    let be = mix(sel) & 1 == 1;
    let mut p = Vec::new();
    let put32 = |p: &mut Vec<u8>, v: u32| p.extend_from_slice(&if be { v.to_be_bytes() } else { v.to_le_bytes() });
    let put16 = |p: &mut Vec<u8>, v: u16| p.extend_from_slice(&if be { v.to_be_bytes() } else { v.to_le_bytes() });
    for (k, a) in args.iter().enumerate() {
        match a {
            A::Asc(b) => { put32(&mut p, 0x200); put16(&mut p, b.len() as u16); p.extend_from_slice(b); }
            A::Utf(b) => { put32(&mut p, 0x200 | 0x8000); put16(&mut p, b.len() as u16); p.extend_from_slice(b); }
            A::Raw(b) => { put32(&mut p, 0x400); put16(&mut p, b.len() as u16); p.extend_from_slice(b); }
            A::Num(v) => {
                // candidate encodings in which the value fits: (tyle, bytes, signed)
                let mut c: Vec<(u32, usize, bool)> = vec![(4, 8, false), (4, 8, true)];
                if *v <= u32::MAX as u64 { c.push((3, 4, false)); }
                if *v <= i32::MAX as u64 { c.push((3, 4, true)); }
                if *v <= u16::MAX as u64 { c.push((2, 2, false)); }
                if *v <= i16::MAX as u64 { c.push((2, 2, true)); }
                if *v <= u8::MAX as u64 { c.push((1, 1, false)); }
                if *v <= i8::MAX as u64 { c.push((1, 1, true)); }
                let (tyle, n, signed) = c[(mix(sel ^ ((k as u64 + 1) << 40)) % c.len() as u64) as usize];
                put32(&mut p, tyle | if signed { 0x20 } else { 0x40 });
                let bytes = v.to_le_bytes();
                if be { p.extend(bytes[..n].iter().rev()); } else { p.extend_from_slice(&bytes[..n]); }
            }
        }
    }
    (args.len() as u8, p, be)
}

fn build_msg(index: u32, it: &Item, trs: &[Tr], enc: u8, by_ctid: bool) -> DltMessage {
    let mut m = build_msg_inner(index, it, trs, enc);
    // a copy sent by ANOTHER application: foreign apid, or - when the plugin filters by ctid - the own apid and a foreign ctid
    if it.noise >= 100 && by_ctid {
        if let Some(eh) = m.extended_header.as_mut() {
            eh.apid = char4("APID");
            eh.ctid = char4("XXXX");
        }
    }
    m
}
fn build_msg_inner(index: u32, it: &Item, trs: &[Tr], enc: u8) -> DltMessage {
    if it.t == 0 && it.noise < 100 {
        let t0 = &trs[0];
        return match it.noise % 6 {
            0 => {
                let (noar, p) = dlt_args!("an unrelated log line", 42u32).unwrap();
                base_msg(index, t0.ecu, t0.lc, "APID", noar, p)
            }
            1 => {
                // non-verbose message
                let mut m = base_msg(index, t0.ecu, t0.lc, "APID", 0, vec![1, 2, 3, 4, 5, 6, 7, 8]);
                if let Some(eh) = m.extended_header.as_mut() {
                    eh.verb_mstp_mtin = 0x40;
                }
                m
            }
            2 => {
                // five arguments, but not a file transfer message
                let (noar, p) = dlt_args!(asc(b"FLDB\0"), t0.serial, 1i32, Raw(&[1u8, 2, 3]), asc(b"FLDB\0")).unwrap();
                base_msg(index, t0.ecu, t0.lc, "APID", noar, p)
            }
            3 => {
                // a data package of a transfer nobody announced (other serial), not the first package: ignored
                let (noar, p) = dlt_args!(asc(b"FLDA\0"), 9999u32, 2i32, Raw(&[9u8; 5]), asc(b"FLDA\0")).unwrap();
                base_msg(index, t0.ecu, t0.lc, "APID", noar, p)
            }
            4 => {
                // same serial, other ECU, not the first package: another key
                let (noar, p) = dlt_args!(asc(b"FLDA\0"), t0.serial, 2i32, Raw(&[7u8; 3]), asc(b"FLDA\0")).unwrap();
                base_msg(index, "ECU9", t0.lc, "APID", noar, p)
            }
            _ => {
                // an end marker of an unknown transfer
                let (noar, p) = dlt_args!(asc(b"FLFI\0"), 9999u32, asc(b"FLFI\0")).unwrap();
                base_msg(index, t0.ecu, t0.lc, "APID", noar, p)
            }
        };
    }
    let tr = &trs[it.owner - 1];
    // noise >= 100: a copy of a data package sent by ANOTHER application id (only used when the plugin filters by apid)
    let apid = if it.noise >= 100 { "XXXX" } else { "APID" };
    if enc == 1 {
        let sel = (index as u64) << 8 | tr.serial as u64 % 251;
        let mut name0 = tr.name.clone().into_bytes();
        name0.push(0);
        let name_arg = if tr.name.is_ascii() && mix(sel ^ 77) & 1 == 1 { A::Asc(&name0) } else { A::Utf(&name0) };
        let (noar, p, be) = match it.k {
            "FLST" => enc_args(sel, &[A::Asc(b"FLST\0"), A::Num(tr.serial as u64), name_arg, A::Num(tr.data.len() as u64), A::Utf(b"2022-06-02 21:54:00\0"), A::Num(tr.lens.len() as u64), A::Num(tr.bs as u64), A::Asc(b"FLST\0")]),
            "FLDA" => enc_args(sel, &[A::Asc(b"FLDA\0"), A::Num(tr.serial as u64), A::Num(it.pkg as u64), A::Raw(&it.payload), A::Asc(b"FLDA\0")]),
            _ => enc_args(sel, &[A::Asc(b"FLFI\0"), A::Num(tr.serial as u64), A::Asc(b"FLFI\0")]),
        };
        let mut m = base_msg(index, tr.ecu, tr.lc, apid, noar, p);
        if be {
            m.standard_header.htyp |= 0x02;
        }
        return m;
    }
    let (noar, p) = match it.k {
        "FLST" => dlt_args!(
            asc(b"FLST\0"),
            tr.serial,
            tr.name.as_str(),
            tr.data.len() as u32,
            "2022-06-02 21:54:00",
            tr.lens.len() as u32,
            tr.bs as u32,
            asc(b"FLST\0")
        ),
        "FLDA" => dlt_args!(asc(b"FLDA\0"), tr.serial, it.pkg as i32, Raw(&it.payload), asc(b"FLDA\0")),
        _ => dlt_args!(asc(b"FLFI\0"), tr.serial, asc(b"FLFI\0")),
    }
    .unwrap();
    base_msg(index, tr.ecu, tr.lc, apid, noar, p)
}

/// one entry of the reported state tree: the list it stands in ("top" = by occurrence, else the label of the grouping item),
/// its position there, the transfer its tooltip names (by key; 0 = none of the case's transfers), its state kind and ITS OWN
/// command context (what a user interface would hand to apply_command when the user saves from this entry)
#[derive(Clone)]
struct Entry {
    list: String,
    pos: usize,
    t: usize,
    kind: &'static str,
    ctx: Value,
}

fn entry_of(it: &Value, list: &str, pos: usize, trs: &[Tr]) -> Entry {
    let tip = it["tooltip"].as_str().unwrap_or("");
    // "{ecu}, LC id={lc}, serial #{serial}, '...'"
    let mut t = 0;
    let parts: Vec<&str> = tip.splitn(4, ", ").collect();
    if parts.len() >= 3 {
        let ecu = parts[0];
        let lc = parts[1].strip_prefix("LC id=").and_then(|s| s.parse::<u32>().ok());
        let serial = parts[2].strip_prefix("serial #").and_then(|s| s.parse::<u32>().ok());
        for (i, tr) in trs.iter().enumerate() {
            if tr.ecu == ecu && Some(tr.lc) == lc && Some(tr.serial) == serial {
                t = i + 1;
            }
        }
    }
    let label = it["label"].as_str().unwrap_or("");
    let kind = if it["iconPath"].as_str() == Some("file") {
        "complete"
    } else if label.starts_with("Incomplete file transfer '") {
        "started"
    } else if label.starts_with("Incomplete file transfer. Missing FLST") {
        "missing"
    } else if label.starts_with("Incomplete file transfer. Missed package") {
        "incomplete"
    } else {
        "unknown"
    };
    Entry { list: list.to_string(), pos, t, kind, ctx: it["cmdCtx"].clone() }
}

/// projection of the public state JSON: EVERY entry of EVERY list of the tree (top level = by occurrence, "Sorted by name",
/// any other grouping item with children, recursively)
fn project_list(items: &[Value], list: &str, trs: &[Tr], out: &mut Vec<Entry>) {
    let mut pos = 0;
    for it in items {
        if let Some(children) = it["children"].as_array() {
            let name = it["label"].as_str().unwrap_or("group").to_string();
            project_list(children, &name, trs, out);
        } else {
            out.push(entry_of(it, list, pos, trs));
            pos += 1;
        }
    }
}
fn project(state: &Value, trs: &[Tr]) -> Vec<Entry> {
    let mut out = Vec::new();
    if let Some(items) = state["treeItems"].as_array() {
        project_list(items, "top", trs, &mut out);
    }
    out
}

fn walk(dir: &Path, files: &mut Vec<PathBuf>) {
    if let Ok(rd) = std::fs::read_dir(dir) {
        for e in rd.flatten() {
            let p = e.path();
            match std::fs::symlink_metadata(&p) {
                Ok(m) if m.is_dir() => walk(&p, files),
                Ok(_) => files.push(p),
                _ => {}
            }
        }
    }
}

struct Obs {
    kinds: Vec<String>,
    saves: Vec<bool>,
    /// final auto-save directory: (base id of the name, transfer whose original bytes the file has / 0)
    dir: Vec<(usize, usize)>,
    envs: Vec<Value>,
    /// list name -> (transfer named by the entry, idx of its save context or -1)
    report: BTreeMap<String, Vec<(usize, i64)>>,
}

struct Dirs {
    cases: PathBuf,
    cmd: PathBuf,
}

fn hdr_json(cfg: &Cfg, trs: &[Tr], wire: &[Item], src: &str, envs: &[Value]) -> Value {
    json!({
        "cfg": {"allow_save": cfg.allow_save, "auto": cfg.auto, "keep_flda": cfg.keep_flda, "apid_filter": cfg.apid_filter, "glob": cfg.glob, "enc": cfg.enc, "by_ctid": cfg.by_ctid, "omit_defaults": cfg.omit_defaults},
        "tr": trs.iter().map(|t| json!({"lens": t.lens, "size": t.data.len(), "hash": hash31(&t.data), "pre": t.pre, "name": t.name,
                "base": base_name(t.name_class, t.idx, t.serial), "base_id": t.base_id,
                "name_class": t.name_class, "key": {"ecu": t.ecu, "lc": t.lc, "serial": t.serial}})).collect::<Vec<_>>(),
        "wire": wire.iter().map(|i| json!({"t": i.t, "k": i.k, "pkg": i.pkg, "len": i.payload.len(), "orig": i.orig, "noise": i.noise})).collect::<Vec<_>>(),
        "src": src,
        "lost_name": "<missing_flst>",   // the file name the plugin uses for a transfer whose announcement it never saw
        // files the driver itself put into the auto-save directory (before the run: at = 0; at wire item i: at = i)
        "env": envs,
    })
}

/// names are fixed per case directory (the absolute name class points into the sentinel directory)
fn name_for(class: &'static str, t: usize, case_dir: &Path) -> String {
    match class {
        "plain" => format!("f{}.bin", t),
        "sub" => format!("a/b{}.bin", t),
        "dotdot" => format!("../x{}.bin", t),
        "abs" => format!("{}/outside/y{}.bin", case_dir.display(), t),
        "deep" => format!("a/../../z{}.bin", t),
        // transfers sharing ONE base name: different directory parts / identical full names / absolute vs climbing
        // chosen alphabetical rank (equal rank = equal name) / reverse of the order of occurrence / all names equal
        "ranked1" => "a.bin".to_string(),
        "ranked2" => "m.bin".to_string(),
        "ranked3" => "z.bin".to_string(),
        "rev" => format!("{}_rev.bin", ["z", "y", "x", "w"][(t - 1) % 4]),
        "dupname" => "dup.bin".to_string(),
        "shared_sub" => format!("d{}/same.bin", t),
        "shared_same" => "same.bin".to_string(),
        "shared_mix" => if t % 2 == 1 { format!("{}/outside/same.bin", case_dir.display()) } else { "../same.bin".to_string() },
        _ => "..".to_string(), // no file name at all
    }
}
fn base_name(class: &'static str, t: usize, serial: u32) -> String {
    match class {
        "plain" => format!("f{}.bin", t),
        "sub" => format!("b{}.bin", t),
        "dotdot" => format!("x{}.bin", t),
        "abs" => format!("y{}.bin", t),
        "deep" => format!("z{}.bin", t),
        "ranked1" => "a.bin".to_string(),
        "ranked2" => "m.bin".to_string(),
        "ranked3" => "z.bin".to_string(),
        "rev" => format!("{}_rev.bin", ["z", "y", "x", "w"][(t - 1) % 4]),
        "dupname" => "dup.bin".to_string(),
        "shared_sub" | "shared_same" | "shared_mix" => "same.bin".to_string(),
        _ => format!("<invalid_filename serial {}>", serial),
    }
}
const NAME_CLASSES: [&str; 6] = ["plain", "sub", "dotdot", "abs", "deep", "nofile"];

fn run_case(dirs: &Dirs, case: u64, cfg: &Cfg, trs: &mut Vec<Tr>, wire: &[Item], rng: &mut Rng) -> (Result<Vec<Value>, String>, Obs) {
    let case_dir = dirs.cases.join(format!("c{}", case));
    let save_dir = case_dir.join("save");
    let mut pre_files: Vec<(PathBuf, Vec<u8>)> = Vec::new();
    if cfg.auto {
        let _ = std::fs::remove_dir_all(&case_dir);
        std::fs::create_dir_all(&save_dir).unwrap();
        std::fs::create_dir_all(case_dir.join("outside")).unwrap();
        for (i, t) in trs.iter_mut().enumerate() {
            t.idx = i + 1;
            if t.base_id == 0 {
                t.base_id = i + 1;
            }
            t.name = name_for(t.name_class, i + 1, &case_dir);
            if t.pre {
                // a file with the name the auto-save would use already exists (in the auto-save dir; and where the raw name points)
                let content = rng.bytes(9);
                let p = save_dir.join(base_name(t.name_class, i + 1, t.serial));
                if !pre_files.iter().any(|(q, _)| *q == p) {
                    // (two transfers without a file name and with the same serial share one base name)
                    std::fs::write(&p, &content).unwrap();
                    pre_files.push((p, content));
                }
            }
        }
    } else {
        for (i, t) in trs.iter_mut().enumerate() {
            t.idx = i + 1;
            if t.base_id == 0 {
                t.base_id = i + 1;
            }
            t.name = name_for(t.name_class, i + 1, Path::new("/nonexistent-verif-c17"));
        }
    }
    let mut before = Vec::new();
    if cfg.auto {
        walk(&case_dir, &mut before);
    }
    let mut envs: Vec<Value> = pre_files.iter().map(|(p, c)| json!({"name": p.strip_prefix(&save_dir).unwrap().display().to_string(),
        "len": c.len(), "hash": hash31(c), "at": 0})).collect();
    // environment events: a file named like a transfer's base name appears in the auto-save directory at that point of the script
    let mut env_plan: Vec<Option<(PathBuf, Vec<u8>)>> = Vec::new();
    for (i, it) in wire.iter().enumerate() {
        if it.k == "ENV" && cfg.auto {
            let tr = trs.iter().find(|t| t.base_id == it.pkg as usize).expect("env base");
            let p = save_dir.join(base_name(tr.name_class, tr.idx, tr.serial));
            let content = rng.bytes(11);
            envs.push(json!({"name": p.strip_prefix(&save_dir).unwrap().display().to_string(), "len": content.len(), "hash": hash31(&content), "at": i + 1}));
            before.push(p.clone());
            env_plan.push(Some((p, content)));
        } else {
            env_plan.push(None);
        }
    }
    let list_dir = |auto: bool| -> Vec<Value> {
        let mut v = Vec::new();
        if auto {
            let mut fs = Vec::new();
            walk(&save_dir, &mut fs);
            fs.sort();
            for p in fs {
                let b = std::fs::read(&p).unwrap_or_default();
                v.push(json!({"name": p.strip_prefix(&save_dir).unwrap().display().to_string(), "len": b.len(), "hash": hash31(&b)}));
            }
        }
        v
    };
    let trs_ro: &Vec<Tr> = trs;
    let mut last_entries: Vec<Entry> = Vec::new();
    let res = catch(std::panic::AssertUnwindSafe(|| {
        let mut evs = Vec::new();
        let mut c = serde_json::Map::new();
        c.insert("name".into(), json!("FileTransfer"));
        if !(cfg.omit_defaults && cfg.allow_save) {
            c.insert("allowSave".into(), json!(cfg.allow_save));
        }
        if !(cfg.omit_defaults && !cfg.keep_flda) {
            c.insert("keepFLDA".into(), json!(cfg.keep_flda));
        }
        if cfg.apid_filter {
            if cfg.by_ctid {
                c.insert("ctid".into(), json!("CTID"));
            } else {
                c.insert("apid".into(), json!("APID"));
            }
        }
        if cfg.auto {
            c.insert("autoSavePath".into(), json!(save_dir.to_str().unwrap()));
            c.insert("autoSaveGlob".into(), json!(cfg.glob));
        }
        let mut plugin = FileTransferPlugin::from_json(&c).expect("plugin config");
        let state = plugin.state();
        let mut entries: Vec<Entry> = Vec::new();
        for (i, it) in wire.iter().enumerate() {
            let mut fwd = true;
            if it.k == "ENV" {
                // not a message: the environment creates a file in the auto-save directory (only if the name is still free)
                if let Some((p, content)) = &env_plan[i] {
                    if !p.exists() {
                        std::fs::write(p, content).unwrap();
                    }
                }
            } else {
                let mut m = build_msg(i as u32, it, trs_ro, cfg.enc, cfg.apid_filter && cfg.by_ctid);
                fwd = plugin.process_msg(&mut m);
            }
            entries = project(&state.read().unwrap().value, trs_ro);
            // (the kinds of all entries naming the transfer, in every list)
            let kinds: Vec<Vec<&str>> = (1..=trs_ro.len()).map(|t| entries.iter().filter(|e| e.t == t).map(|e| e.kind).collect()).collect();
            evs.push(json!({"ev":"msg","i":i + 1,"fwd":fwd,"kinds":kinds,"other_entries":entries.iter().filter(|e| e.t == 0).count(),
                "dir": list_dir(cfg.auto)}));
        }
        plugin.sync_all();
        // save through EVERY entry of EVERY list of the state tree, with the entry's own command context (as a user interface does);
        // entries without a save context (not complete / saving not allowed): top-level ones are tried with their index
        let mut saves = vec![false; trs_ro.len()];
        let mut bad = vec![false; trs_ro.len()];
        {
            let st = state.read().unwrap();
            for (e, en) in entries.iter().enumerate() {
                if en.t == 0 {
                    continue;
                }
                let (via, ctx) = if en.ctx.is_object() {
                    ("cmdctx", en.ctx.clone())
                } else if en.list == "top" {
                    ("index", json!({"save": {"idx": en.pos}}))
                } else {
                    continue;
                };
                let target = dirs.cmd.join(format!("e{}.bin", e));
                let _ = std::fs::remove_file(&target);
                let params = json!({"saveAs": target.to_str().unwrap()});
                let ret = match st.apply_command {
                    Some(f) => f(&st.internal_data, "save", params.as_object(), ctx.as_object()),
                    None => false,
                };
                let bytes = std::fs::read(&target).ok();
                let ok = ret && bytes.is_some();
                let b = bytes.unwrap_or_default();
                // the original of the transfer THIS ENTRY names
                let eq = ok && b == trs_ro[en.t - 1].data;
                if ok && eq {
                    saves[en.t - 1] = true;
                }
                if ok && !eq {
                    bad[en.t - 1] = true;
                }
                evs.push(json!({"ev":"saved","t":en.t,"list":en.list,"entry":en.pos,"kind":en.kind,"via":via,"ok":ok,"ret":ret,"eq":eq,
                    "len":b.len(),"hash":hash31(&b),"idx":ctx["save"]["idx"]}));
                let _ = std::fs::remove_file(&target);
            }
        }
        for t in 0..saves.len() {
            saves[t] = saves[t] && !bad[t];
        }
        (evs, entries, saves)
    }));
    let mut obs = Obs { kinds: vec!["none".to_string(); trs.len()], saves: vec![false; trs.len()], dir: vec![], envs, report: BTreeMap::new() };
    if cfg.auto {
        let mut fs = Vec::new();
        walk(&save_dir, &mut fs);
        for p in fs {
            let b = std::fs::read(&p).unwrap_or_default();
            let name = p.strip_prefix(&save_dir).unwrap().display().to_string();
            let bid = trs.iter().find(|t| base_name(t.name_class, t.idx, t.serial) == name).map(|t| t.base_id).unwrap_or(0);
            let owner = trs.iter().position(|t| t.data == b).map(|i| i + 1).unwrap_or(0);
            obs.dir.push((bid, owner));
        }
        obs.dir.sort();
    }
    let res = match res {
        Err(msg) => Err(msg),
        Ok((mut evs, entries, saves)) => {
            last_entries = entries;
            obs.saves = saves;
            // the auto-save directory and its surroundings
            let mut newf = Vec::new();
            let mut pre_ok = true;
            if cfg.auto {
                let mut after = Vec::new();
                walk(&case_dir, &mut after);
                after.sort();
                for p in after {
                    if before.contains(&p) {
                        continue;
                    }
                    let b = std::fs::read(&p).unwrap_or_default();
                    let t = trs.iter().position(|t| t.data == b).map(|i| i + 1).unwrap_or(0);
                    newf.push(json!({"inside": p.starts_with(&save_dir), "t": t, "len": b.len(), "hash": hash31(&b),
                        "rel": p.strip_prefix(&case_dir).unwrap().display().to_string()}));
                }
                for (p, c) in &pre_files {
                    if std::fs::read(p).ok().as_ref() != Some(c) {
                        pre_ok = false;
                    }
                }
            }
            evs.push(json!({"ev":"tree","new":newf,"pre_ok":pre_ok}));
            Ok(evs)
        }
    };
    for en in &last_entries {
        if en.t > 0 && en.list == "top" {
            obs.kinds[en.t - 1] = en.kind.to_string();
        }
        // the report itself: per list the transfer named and the index its save context carries (-1 = none)
        let idx = en.ctx["save"]["idx"].as_i64().unwrap_or(-1);
        obs.report.entry(en.list.clone()).or_default().push((en.t, idx));
    }
    if cfg.auto {
        let _ = std::fs::remove_dir_all(&case_dir);
    }
    (res, obs)
}

fn emit_case(t: &mut Trace, case: u64, hdr: Value, res: Result<Vec<Value>, String>) {
    t.ev(json!({"ev":"reset","case":case,"hdr":hdr}));
    match res {
        Ok(evs) => {
            for e in evs {
                t.ev(e);
            }
            t.ev(json!({"ev":"end"}));
        }
        Err(msg) => t.ev(json!({"ev":"panic","msg":msg})),
    }
}

fn keys_for(variant: u64, t: usize) -> (&'static str, u32, u32) {
    // distinct keys (ecu, lifecycle, serial): by serial / by ECU / by lifecycle
    match variant % 3 {
        0 => ("ECU1", 1, 17 + t as u32),
        1 => (["ECU1", "ECU2", "ECU3"][t % 3], 1, 17),
        _ => ("ECU1", 1 + t as u32, 17),
    }
}

fn make_tr(rng: &mut Rng, lens: Vec<usize>, bs: usize, class: &'static str, pre: bool, key: (&'static str, u32, u32)) -> Tr {
    let total: usize = lens.iter().sum();
    Tr { data: rng.bytes(total), lens, name: String::new(), name_class: class, idx: 0, base_id: 0, pre, ecu: key.0, lc: key.1, serial: key.2, bs }
}

/// the originals of one case are pairwise different, so that a saved file identifies its transfer (1-byte files could collide)
fn distinct_data(trs: &mut [Tr], rng: &mut Rng) {
    for i in 1..trs.len() {
        while (0..i).any(|j| trs[j].data == trs[i].data) {
            trs[i].data = rng.bytes(trs[i].data.len());
            if trs[i].data.is_empty() {
                break;
            }
        }
    }
}

fn resized(rng: &mut Rng, orig: &[u8], len: usize) -> Vec<u8> {
    let mut v = orig.to_vec();
    if len <= v.len() {
        v.truncate(len);
    } else {
        let extra = rng.bytes(len - v.len());
        v.extend_from_slice(&extra);
    }
    v
}

fn cfg_for(r: u64, idx: u64) -> Cfg {
    // 3 of 32 scripts run with auto-save configurations (always validated by TLC), the others with the base configuration
    let (allow_save, auto) = match r % 32 {
        13 => (true, true),
        14 => (false, true),
        15 => (true, true),
        _ => (true, false),
    };
    Cfg { allow_save, auto, keep_flda: (idx / 16) % 2 == 0, apid_filter: idx % 3 == 0, glob: if idx % 5 == 0 { "*.bin" } else { "*" }, enc: if idx % 4 == 1 { 1 } else { 0 }, by_ctid: idx % 6 == 3, omit_defaults: idx % 7 == 3 }
}

fn main() {
    quiet_panics();
    let a = Args::from_env();
    let mut t = Trace::create(&a.str("--out", "trace.ndjson"));
    let seed = a.num("--seed", 1);
    let mut rng = Rng::new(seed);
    let work = PathBuf::from(a.str("--tmp", "/verif/work/C17"));
    let dirs = Dirs { cases: work.join("cases"), cmd: work.join("cmd") };
    let _ = std::fs::remove_dir_all(&dirs.cases);
    let _ = std::fs::remove_dir_all(&dirs.cmd);
    std::fs::create_dir_all(&dirs.cases).unwrap();
    std::fs::create_dir_all(&dirs.cmd).unwrap();
    let sample = a.num("--sample", 300);
    let mut case = 0u64;
    let (mut replayed, mut fast, mut slow, mut drift, mut pred_not_ok) = (0u64, 0u64, 0u64, 0u64, 0u64);
    let mut paths: BTreeMap<String, u64> = BTreeMap::new();
    let mut drift_samples = Vec::new();
    macro_rules! bump {
        ($k:expr) => {
            *paths.entry($k.to_string()).or_insert(0) += 1
        };
    }

    if let Some(f) = a.get("--scenarios") {
        let scns = read_ndjson(f);
        let every = (scns.len() as u64 / sample.max(1)).max(1);
        for (si, scn) in scns.iter().enumerate() {
            let idx = si as u64;
            let r = idx + seed;
            let mut cfg = cfg_for(r, idx);
            // scenarios of the auto-save model (shared base names, files appearing in the directory) always run with auto-save on
            let auto_scn = scn["auto"].as_bool().unwrap_or(false);
            if auto_scn {
                cfg.auto = true;
                cfg.allow_save = idx % 4 != 3;
                cfg.glob = "*";
            }
            let bases: Vec<usize> = scn["base"].as_array().map(|v| v.iter().map(|b| b.as_u64().unwrap() as usize).collect()).unwrap_or_default();
            let shared = auto_scn && bases.len() > 1 && bases[0] == bases[1];
            let unit: usize = [1, 1, 7, 64][(idx % 4) as usize];
            let shapes = scn["shape"].as_array().unwrap();
            let mut trs = Vec::new();
            for (ti, sh) in shapes.iter().enumerate() {
                let n = sh["n"].as_u64().unwrap() as usize;
                let bs = sh["bs"].as_u64().unwrap() as usize * unit;
                let last = sh["last"].as_u64().unwrap() as usize * unit;
                let mut lens = vec![bs; n];
                lens[n - 1] = last;
                let ranked = scn["names"].as_bool().unwrap_or(false);
                let class = if shared {
                    ["shared_sub", "shared_same", "shared_mix"][(idx % 3) as usize]
                } else if ranked {
                    // the model chose the alphabetical rank of every name
                    ["ranked1", "ranked2", "ranked3"][scn["rank"][ti].as_u64().unwrap() as usize - 1]
                } else if !cfg.auto && idx % 5 == 1 {
                    "rev"
                } else if !cfg.auto && idx % 5 == 2 {
                    "dupname"
                } else {
                    NAME_CLASSES[((idx / 2) as usize + ti * 2) % NAME_CLASSES.len()]
                };
                let pre = !auto_scn && cfg.auto && r % 32 == 15 && (ti as u64 + idx / 16) % 2 == 0;
                let mut tr = make_tr(&mut rng, lens, bs, class, pre, keys_for(idx / 3, ti));
                if auto_scn {
                    tr.base_id = bases[ti];
                }
                trs.push(tr);
                if n == 1 { bump!("file_of_one_package"); }
                if last < bs { bump!("last_package_shorter"); }
                if bs == 1 { bump!("package_size_1"); }
            }
            distinct_data(&mut trs, &mut rng);
            let mut wire = Vec::new();
            let mut noise_n = idx as u32;
            for w in scn["wire"].as_array().unwrap() {
                let tix = w["t"].as_u64().unwrap() as usize;
                let k: &'static str = match w["k"].as_str().unwrap() {
                    "FLST" => "FLST",
                    "FLDA" => "FLDA",
                    "FLFI" => "FLFI",
                    "ENV" => "ENV",
                    _ => "X",
                };
                let pkg = w["pkg"].as_u64().unwrap() as u32;
                let orig = w["orig"].as_bool().unwrap();
                let len = w["len"].as_u64().unwrap() as usize * unit;
                let payload = if k == "FLDA" {
                    let o = trs[tix - 1].chunk(pkg as usize).to_vec();
                    if orig { o } else { resized(&mut rng, &o, len) }
                } else {
                    vec![]
                };
                noise_n += 1;
                wire.push(Item { t: tix, owner: tix, k, pkg, payload, orig, noise: if tix == 0 { noise_n % 6 } else { 0 } });
            }
            for f in scn["fault"].as_array().unwrap() {
                bump!(format!("fault_{}", f.as_str().unwrap()));
            }
            if shapes.len() > 1 { bump!("two_transfers"); }
            if shared { bump!("shared_base_name"); }
            if scn["names"].as_bool().unwrap_or(false) {
                bump!("names_ranked_by_model");
                let rk: Vec<u64> = scn["rank"].as_array().unwrap().iter().map(|v| v.as_u64().unwrap()).collect();
                let occ: Vec<u64> = scn["by_occ"].as_array().unwrap().iter().map(|e| e["label"].as_u64().unwrap()).collect();
                let byn: Vec<u64> = scn["by_name"].as_array().unwrap().iter().map(|e| e["label"].as_u64().unwrap()).collect();
                if occ != byn { bump!("name_order_differs_from_occurrence"); }
                if rk.iter().any(|a| rk.iter().filter(|b| *b == a).count() > 1) { bump!("duplicate_names"); }
            }
            if wire.iter().any(|i| i.k == "ENV") { bump!("file_appears_in_auto_save_dir"); }
            if wire.iter().any(|i| i.t == 0) { bump!("with_unrelated_message"); }
            bump!(format!("cfg_{}", if cfg.auto { if cfg.allow_save { "allow_save+auto_save" } else { "auto_save_only" } } else { "allow_save" }));
            let (res, obs) = run_case(&dirs, case, &cfg, &mut trs, &wire, &mut rng);
            replayed += 1;
            let pk: Vec<String> = scn["kinds"].as_array().unwrap().iter().map(|v| v.as_str().unwrap().to_string()).collect();
            let ps: Vec<bool> = scn["saves"].as_array().unwrap().iter().map(|v| v.as_bool().unwrap()).collect();
            let contract_ok = scn["contract_ok"].as_bool().unwrap();
            let base_cfg = cfg.allow_save && !cfg.auto;
            // design conformance is measured on the state kinds (all configurations) and the saves (base configuration)
            // ... and, for the auto-save scenarios with saving allowed, on the final content of the auto-save directory
            let pd: Option<Vec<(usize, usize)>> = if auto_scn && cfg.allow_save {
                let mut v: Vec<(usize, usize)> = scn["dir"].as_array().unwrap().iter().map(|e| (e["b"].as_u64().unwrap() as usize, e["c"].as_u64().unwrap() as usize)).collect();
                v.sort();
                Some(v)
            } else {
                None
            };
            // ... and on the state report itself where the model predicts it: per list the transfers named, in order, and for complete
            // transfers the index their save context carries (0-based in the plugin)
            let mut report_same = true;
            if scn["names"].as_bool().unwrap_or(false) && cfg.allow_save {
                for (list, key) in [("top", "by_occ"), ("Sorted by name", "by_name")] {
                    let predicted: Vec<(usize, i64)> = scn[key].as_array().unwrap().iter().map(|e| (e["label"].as_u64().unwrap() as usize,
                        if e["complete"].as_bool().unwrap() { e["idx"].as_i64().unwrap() - 1 } else { -1 })).collect();
                    if obs.report.get(list) != Some(&predicted) {
                        report_same = false;
                    }
                }
            }
            let same = res.is_ok() && obs.kinds == pk && (!base_cfg || obs.saves == ps) && pd.as_ref().map(|v| *v == obs.dir).unwrap_or(true) && report_same;
            if !same {
                drift += 1;
                if drift_samples.len() < 3 {
                    drift_samples.push(json!({"scenario": scn, "observed_kinds": obs.kinds, "observed_saves": obs.saves, "observed_dir": obs.dir, "observed_report": obs.report}));
                }
            }
            if !contract_ok { pred_not_ok += 1; }
            for k in &obs.kinds { bump!(format!("final_{}", k)); }
            if same && contract_ok && base_cfg && idx % every != 0 {
                fast += 1;
                continue;
            }
            slow += 1;
            emit_case(&mut t, case, hdr_json(&cfg, &trs, &wire, "tlc", &obs.envs), res);
            case += 1;
        }
    }

    // ---- seeded random cases: 1..3 interleaved transfers, real sizes, at most one fault per transfer ----------------
    let n_random = a.num("--random", 0);
    let max_pk = a.num("--max-pk", 6);
    let max_bs = a.num("--max-bs", 300);
    for ri in 0..n_random {
        let k = rng.range(1, 3) as usize;
        let variant = rng.below(3);
        let r = rng.below(16);
        let mut cfg = cfg_for(if rng.chance(1, 2) { 13 + r % 3 } else { 0 }, rng.below(1000));
        cfg.apid_filter = rng.chance(1, 2);
        let mut trs = Vec::new();
        let mut scripts: Vec<Vec<Item>> = Vec::new();
        // interleaved transfers may share one base name (different directory parts / identical names)
        let shared_class: Option<&'static str> = if cfg.auto && k > 1 && rng.chance(1, 3) { Some(*rng.pick(&["shared_sub", "shared_same", "shared_mix"])) } else { None };
        if shared_class.is_some() { bump!("rnd_shared_base_name"); }
        // name order: as it comes / reverse of the order of occurrence / all names equal
        let name_order = if shared_class.is_none() && k > 1 { rng.below(4) } else { 0 };
        if name_order == 1 { bump!("rnd_names_reverse_order"); }
        if name_order == 2 { bump!("rnd_names_all_equal"); }
        for ti in 0..k {
            let n = rng.range(1, max_pk) as usize;
            let bs = match rng.below(4) { 0 => 1, 1 => rng.range(1, 4), _ => rng.range(1, max_bs) } as usize;
            let last = if rng.chance(1, 3) { bs } else { rng.range(1, bs as u64) as usize };
            let mut lens = vec![bs; n];
            lens[n - 1] = last;
            let class = shared_class.unwrap_or(match name_order { 1 => "rev", 2 => "dupname", _ => *rng.pick(&NAME_CLASSES) });
            let pre = cfg.auto && rng.chance(1, 3);
            let mut tr = make_tr(&mut rng, lens, bs, class, pre, keys_for(variant, ti));
            tr.base_id = if shared_class.is_some() { 1 } else { ti + 1 };
            while trs.iter().any(|o: &Tr| o.data == tr.data) {
                tr.data = rng.bytes(tr.data.len()); // pairwise different originals (see distinct_data)
            }
            let mut s: Vec<Item> = Vec::new();
            s.push(Item { t: ti + 1, owner: ti + 1, k: "FLST", pkg: 0, payload: vec![], orig: true, noise: 0 });
            for p in 1..=n {
                s.push(Item { t: ti + 1, owner: ti + 1, k: "FLDA", pkg: p as u32, payload: tr.chunk(p).to_vec(), orig: true, noise: 0 });
            }
            s.push(Item { t: ti + 1, owner: ti + 1, k: "FLFI", pkg: 0, payload: vec![], orig: true, noise: 0 });
            // at most one fault
            match rng.below(10) {
                0 | 1 => {
                    let i = rng.below(s.len() as u64) as usize;
                    bump!(format!("rnd_drop_{}", s[i].k));
                    s.remove(i);
                }
                2 | 3 => {
                    let i = rng.range(1, n as u64) as usize; // a data package
                    let j = rng.range(i as u64 + 1, s.len() as u64) as usize; // re-sent at any later point
                    let d = s[i].clone();
                    s.insert(j, d);
                    bump!("rnd_dup");
                }
                4 => {
                    if n >= 2 {
                        let i = rng.range(1, n as u64 - 1) as usize;
                        s.swap(i, i + 1);
                        bump!("rnd_swap");
                    }
                }
                5 | 6 => {
                    let i = rng.range(1, n as u64) as usize;
                    let old = s[i].payload.len();
                    let mut nl = rng.range(1, bs as u64 + 1) as usize;
                    if nl == old { nl = if old > 1 { old - 1 } else { old + 1 }; }
                    let o = s[i].payload.clone();
                    s[i].payload = resized(&mut rng, &o, nl);
                    s[i].orig = false;
                    bump!("rnd_resize");
                }
                _ => { bump!("rnd_no_fault"); }
            }
            if rng.chance(1, 4) {
                // one additional duplicate of a data package as it was on the wire (on top of the fault above)
                let flda: Vec<usize> = (0..s.len()).filter(|i| s[*i].k == "FLDA").collect();
                if !flda.is_empty() {
                    let i = *rng.pick(&flda);
                    let j = rng.range(i as u64 + 1, s.len() as u64) as usize;
                    let d = s[i].clone();
                    s.insert(j, d);
                    bump!("rnd_extra_dup");
                }
            }
            if cfg.apid_filter && rng.chance(1, 3) {
                // a copy of a data package sent by another application id: unrelated traffic for a plugin filtering by apid
                let i = rng.range(1, s.len() as u64 - 1) as usize;
                if s[i].k == "FLDA" {
                    let mut d = s[i].clone();
                    d.t = 0;
                    d.noise = 100;
                    s.insert(i, d);
                    bump!("rnd_foreign_apid_copy");
                }
            }
            trs.push(tr);
            scripts.push(s);
        }
        // random interleaving that keeps each transfer's order, plus unrelated messages
        let mut wire: Vec<Item> = Vec::new();
        let mut pos = vec![0usize; k];
        loop {
            let live: Vec<usize> = (0..k).filter(|i| pos[*i] < scripts[*i].len()).collect();
            if live.is_empty() { break; }
            if rng.chance(1, 5) {
                wire.push(Item { t: 0, owner: 0, k: "X", pkg: 0, payload: vec![], orig: true, noise: rng.below(6) as u32 });
            }
            let i = *rng.pick(&live);
            wire.push(scripts[i][pos[i]].clone());
            pos[i] += 1;
        }
        if cfg.auto && rng.chance(1, 3) {
            // the environment creates a file with the base name of one of the transfers at some point of the script
            let at = rng.below(wire.len() as u64 + 1) as usize;
            let b = trs[rng.below(k as u64) as usize].base_id;
            wire.insert(at, Item { t: 0, owner: 0, k: "ENV", pkg: b as u32, payload: vec![], orig: true, noise: 0 });
            bump!("rnd_file_appears_in_auto_save_dir");
        }
        if k > 1 { bump!("rnd_interleaved_transfers"); }
        let (res, obs) = run_case(&dirs, case, &cfg, &mut trs, &wire, &mut rng);
        for kd in &obs.kinds { bump!(format!("rnd_final_{}", kd)); }
        emit_case(&mut t, case, hdr_json(&cfg, &trs, &wire, "random", &obs.envs), res);
        case += 1;
        let _ = ri;
    }
    t.flush();
    let _ = std::fs::remove_dir_all(&dirs.cases);
    let _ = std::fs::remove_dir_all(&dirs.cmd);
    let summary = json!({"cases": case, "lines": t.lines, "replayed": replayed, "fast_path": fast, "slow_path": slow, "drift": drift,
        "predicted_not_ok": pred_not_ok, "paths": paths, "drift_samples": drift_samples});
    if let Some(p) = a.get("--summary") {
        std::fs::write(p, summary.to_string()).unwrap();
    }
    println!("{}", summary);
}

