//! X05 driver - lifecycle / statistics side channel of `adlt remote` (contract: spec/RemoteLcTrace.tla, design: spec/RemoteLc.tla).
//!
//! For every case a DLT file is generated, (a) the real lifecycle detector is run locally on the file exactly as the server's
//! parser thread would feed it (same iterator, same detector function) and its final table is recorded, (b) the file is opened
//! through the real `adlt remote` binary over a websocket and every side-channel frame (FileInfo, Lifecycles, EacInfo, ...) is
//! recorded in the order received, until parsing has finished and the connection is idle.  Nothing here knows what a correct
//! answer is: the only comparison is data equality between an observation and the value TLC predicted for the same scenario
//! (prediction fast path); every other verdict is TLC's (trace validation against RemoteLcTrace.tla).
#[path = "c15/ws.rs"]
mod ws;
use adlt::dlt::{DltExtendedHeader, DltMessage};
use adlt::lifecycle::{parse_lifecycles_buffered_from_stream, Lifecycle, LifecycleId};
use adlt::utils::remote_types::BinType;
use std::collections::BTreeMap;
use std::io::BufRead;
use std::sync::atomic::{AtomicUsize, Ordering};
use std::sync::{Arc, Mutex};
use std::time::{Duration, Instant};
use vh::*;
use ws::*;

const BASE_S: u64 = BASE_US / 1_000_000;

// ================================================================================================ inputs
#[derive(Clone, Debug)]
struct In {
    ecu: String,
    apid: String, // "" = message without extended header
    ctid: String,
    rx_us: u64,
    ts_dms: u32,
    kind: String, // norm | ctrl (control request) | nots (no timestamp) | crsw (control response GET_SOFTWARE_VERSION) | noext
}

fn build(pos: u32, i: &In) -> DltMessage {
    let mut m = mk_msg(pos, &i.ecu, i.rx_us, i.ts_dms, vec![pos as u8, (pos >> 8) as u8, (pos >> 16) as u8, 0x5a]);
    m.standard_header.mcnt = (pos & 0xff) as u8;
    let (a, c) = (char4(&i.apid), char4(&i.ctid));
    match i.kind.as_str() {
        "ctrl" => m.extended_header = Some(DltExtendedHeader { verb_mstp_mtin: (3 << 1) | (1 << 4), noar: 0, apid: a, ctid: c }),
        "nots" => {
            m.standard_header.htyp &= !0x10;
            m.timestamp_dms = 0;
            m.extended_header = Some(DltExtendedHeader { verb_mstp_mtin: 0x41, noar: 0, apid: a, ctid: c });
        }
        "crsw" => {
            // non-verbose control response, service id 19 (GET_SOFTWARE_VERSION): status, length, text
            m.extended_header = Some(DltExtendedHeader { verb_mstp_mtin: (3 << 1) | (2 << 4), noar: 0, apid: a, ctid: c });
            let text = format!("SW {}.{}", pos % 7, i.ecu);
            let mut p = vec![19u8, 0, 0, 0, 0];
            p.extend_from_slice(&(text.len() as u32).to_le_bytes());
            p.extend_from_slice(text.as_bytes());
            m.payload = p;
        }
        "noext" => {
            m.standard_header.htyp &= !0x01;
            m.extended_header = None;
        }
        _ => m.extended_header = Some(DltExtendedHeader { verb_mstp_mtin: 0x41, noar: 0, apid: a, ctid: c }),
    }
    m
}

fn grid_in(ecu: &str, rx_tick: u64, ts_tick: u64, kind: &str) -> In {
    In { ecu: ecu.to_string(), apid: "APID".into(), ctid: "CTID".into(), rx_us: BASE_US + rx_tick * TICK_US, ts_dms: (ts_tick * 10_000) as u32, kind: kind.to_string() }
}

fn write_file(path: &str, inputs: &[In]) {
    use std::io::Write;
    let mut w = std::io::BufWriter::new(std::fs::File::create(path).expect("create dlt"));
    for (i, x) in inputs.iter().enumerate() {
        build(i as u32, x).to_write(&mut w).expect("write dlt");
    }
    w.flush().unwrap();
}

// ================================================================================================ projection
/// what the side channel says about one lifecycle (the fields of BinLifecycle), with a case-relative id
#[derive(Clone, Debug, PartialEq)]
struct LcRec {
    id: u32,
    ecu: String,
    nr: u32,
    start: u64,
    end: u64,
    resume: Option<u64>,
    sw: String,
}

fn split_t(us: u64) -> (u64, u64) {
    ((us / 1_000_000) & 0x7fff_ffff, us % 1_000_000)
}

fn rec_json(r: &LcRec, base: u32) -> Value {
    let (st, su) = split_t(r.start);
    let (et, eu) = split_t(r.end);
    let (rt, ru) = split_t(r.resume.unwrap_or(0));
    json!({"id": r.id.wrapping_sub(base).wrapping_add(1) & 0x7fff_ffff, "ecu": r.ecu, "nr": r.nr & 0x7fff_ffff, "st": st, "su": su, "et": et, "eu": eu,
           "res": r.resume.is_some(), "rt": rt, "ru": ru, "sw": r.sw})
}

fn ecu_str(e: &adlt::dlt::DltChar4) -> String {
    String::from_utf8_lossy(e.as_buf()).trim_end_matches('\0').to_string()
}

// ================================================================================================ local run of the detector
static LOCAL_RUN: Mutex<()> = Mutex::new(()); // lifecycle ids come from a process-global counter: one local run at a time

struct Local {
    table: Vec<LcRec>,       // lifecycles with at least one message that is not a control request
    ctrl_only: usize,        // lifecycles that consist of control requests only (never listed by the server)
    n: u64,                  // messages parsed from the file
    ecus: Vec<(String, u64)>,                      // histogram of the parsed messages
    eac: Vec<(String, String, String, u64)>,
    triples: Vec<(String, String, String)>,        // per message (ecu, apid, ctid), "" = no extended header
    panic: Option<String>,
}

fn local_run(path: &str) -> Local {
    let _g = LOCAL_RUN.lock().unwrap_or_else(|e| e.into_inner());
    let mut res = Local { table: vec![], ctrl_only: 0, n: 0, ecus: vec![], eac: vec![], triples: vec![], panic: None };
    let fi = std::fs::File::open(path).expect("open dlt");
    let rd = adlt::utils::LowMarkBufReader::new(fi, 512 * 1024, adlt::dlt::DLT_MAX_STORAGE_MSG_SIZE + 4);
    let ns = adlt::utils::get_new_namespace();
    let msgs: Vec<DltMessage> = adlt::utils::get_dlt_message_iterator("dlt", 0, rd, ns, None, None, None).collect();
    res.n = msgs.len() as u64;
    let mut ecus: BTreeMap<String, u64> = BTreeMap::new();
    let mut eac: BTreeMap<(String, String, String), u64> = BTreeMap::new();
    for m in &msgs {
        let e = ecu_str(&m.ecu);
        *ecus.entry(e.clone()).or_default() += 1;
        let (a, c) = match (m.apid(), m.ctid()) {
            (Some(a), Some(c)) => (ecu_str(a), ecu_str(c)),
            _ => (String::new(), String::new()),
        };
        if m.apid().is_some() {
            *eac.entry((e.clone(), a.clone(), c.clone())).or_default() += 1;
        }
        res.triples.push((e, a, c));
    }
    res.ecus = ecus.into_iter().collect();
    res.eac = eac.into_iter().map(|(k, v)| (k.0, k.1, k.2, v)).collect();
    let (lcs_r, lcs_w) = evmap::new::<LifecycleId, Lifecycle>();
    let (tx, rx) = std::sync::mpsc::channel();
    for m in msgs {
        tx.send(m).unwrap();
    }
    drop(tx);
    let r = catch(std::panic::AssertUnwindSafe(|| parse_lifecycles_buffered_from_stream(lcs_w, rx, &|_m: DltMessage| Ok(()))));
    match r {
        Ok(w) => {
            if let Some(rr) = lcs_r.read() {
                for (_id, b) in &rr {
                    if let Some(lc) = b.get_one() {
                        if lc.only_control_requests() {
                            res.ctrl_only += 1;
                        } else {
                            res.table.push(LcRec {
                                id: lc.id(),
                                ecu: ecu_str(&lc.ecu),
                                nr: lc.nr_msgs,
                                start: lc.resume_start_time(),
                                end: lc.end_time(),
                                resume: if lc.is_resume() { Some(lc.resume_time()) } else { None },
                                sw: lc.sw_version.clone().unwrap_or_default(),
                            });
                        }
                    }
                }
            }
            res.table.sort_by_key(|r| r.id);
            drop(w);
        }
        Err(msg) => res.panic = Some(msg),
    }
    res
}

// ================================================================================================ remote run
struct Plan {
    spam: bool,                 // keep the server's loop spinning with sentinel commands while the file is parsed
    pause: Option<(u64, u64)>,  // send `pause` after a ms, `resume` b ms later
    counts: bool,               // after idle: query all messages and count them per lifecycle id
    sort: bool,                 // open with "sort": true (messages pass the time sorter before they reach the server loop)
}

enum Ev {
    Fi(u64),
    Lcs(Vec<LcRec>),
    Eac(Vec<(String, u64)>, Vec<(String, String, String, u64)>),
    Other(Value),
}

struct Sess {
    conn: Conn,
    evs: Vec<Ev>,
    n: u64,
    fi_n_seen: u32,
    frames: u64,
    last_frame: Instant,
    sentinel: u64,
    dead: bool,
    counting: Option<BTreeMap<u32, u64>>,
    count_done: bool,
    count_total: u64,
}

impl Sess {
    fn on_frame(&mut self, fr: Frame) -> Option<String> {
        match fr {
            Frame::Text(t) => {
                if t.starts_with("stream:") {
                    None
                } else {
                    Some(t)
                }
            }
            Frame::Bin(b) => {
                match decode(&b) {
                    Some(BinType::FileInfo(fi)) => {
                        self.frames += 1;
                        self.last_frame = Instant::now();
                        if fi.nr_msgs as u64 == self.n {
                            self.fi_n_seen += 1;
                        }
                        self.evs.push(Ev::Fi(fi.nr_msgs as u64));
                    }
                    Some(BinType::Lifecycles(l)) => {
                        self.frames += 1;
                        self.last_frame = Instant::now();
                        self.evs.push(Ev::Lcs(
                            l.iter()
                                .map(|x| LcRec { id: x.id, ecu: char4_str(x.ecu), nr: x.nr_msgs, start: x.start_time, end: x.end_time, resume: x.resume_time, sw: x.sw_version.clone().unwrap_or_default() })
                                .collect(),
                        ));
                    }
                    Some(BinType::EacInfo(e)) => {
                        self.frames += 1;
                        self.last_frame = Instant::now();
                        let mut ecus = Vec::new();
                        let mut eac = Vec::new();
                        for es in &e {
                            let en = char4_str(es.ecu);
                            ecus.push((en.clone(), es.nr_msgs as u64));
                            for a in &es.apids {
                                for c in &a.ctids {
                                    if c.nr_msgs > 0 {
                                        eac.push((en.clone(), char4_str(a.apid), char4_str(c.ctid), c.nr_msgs as u64));
                                    }
                                }
                            }
                        }
                        ecus.sort();
                        eac.sort();
                        self.evs.push(Ev::Eac(ecus, eac));
                    }
                    Some(BinType::DltMsgs((_id, msgs))) => {
                        if let Some(cnt) = self.counting.as_mut() {
                            if msgs.is_empty() {
                                self.count_done = true;
                            }
                            for m in &msgs {
                                *cnt.entry(m.lifecycle_id).or_default() += 1;
                                self.count_total += 1;
                            }
                        } else {
                            self.evs.push(Ev::Other(json!({"ev":"other","kind":"DltMsgs"})));
                        }
                    }
                    Some(BinType::StreamInfo(_)) => {
                        if self.counting.is_none() {
                            self.evs.push(Ev::Other(json!({"ev":"other","kind":"StreamInfo"})));
                        }
                    }
                    Some(BinType::PluginState(_)) => self.evs.push(Ev::Other(json!({"ev":"other","kind":"PluginState"}))),
                    Some(BinType::Progress(_)) => self.evs.push(Ev::Other(json!({"ev":"other","kind":"Progress"}))),
                    None => self.evs.push(Ev::Other(json!({"ev":"bad_frame","len":b.len()}))),
                }
                None
            }
            Frame::Closed(why) => {
                self.evs.push(Ev::Other(json!({"ev":"conn_closed","why":trunc(&why, 120)})));
                self.dead = true;
                None
            }
            Frame::Timeout => {
                self.evs.push(Ev::Other(json!({"ev":"timeout","at":"reply"})));
                self.dead = true;
                None
            }
        }
    }
    fn cmd(&mut self, text: &str) -> Option<String> {
        if self.dead {
            return None;
        }
        if let Err(e) = self.conn.send(text) {
            self.evs.push(Ev::Other(json!({"ev":"conn_closed","why":trunc(&e, 120)})));
            self.dead = true;
            return None;
        }
        loop {
            let fr = self.conn.recv(Duration::from_secs(60));
            if let Some(t) = self.on_frame(fr) {
                return Some(t);
            }
            if self.dead {
                return None;
            }
        }
    }
    /// a sentinel command: its reply is written after one complete iteration of the server's loop
    fn roundtrip(&mut self) {
        self.sentinel += 1;
        let s = format!("__sync_{}", self.sentinel);
        let _ = self.cmd(&s);
    }
}

/// "parsing has finished": the server announces the end of parsing by a FileInfo frame that repeats the final count as the
/// last frame of the pass in which it noticed the end (all lifecycle / statistics frames of that pass precede it).  The
/// driver knows the number of messages it wrote.  Fallbacks (no verdict here, TLC judges what was recorded): the final count
/// reported once and 3 s of silence; or 20 s of silence.
fn remote_run(port: u16, path: &str, n: u64, plan: &Plan) -> (Vec<Ev>, String, Option<(BTreeMap<u32, u64>, u64)>) {
    let conn = match Conn::connect(port, Duration::from_secs(20)) {
        Ok(c) => c,
        Err(e) => return (vec![Ev::Other(json!({"ev":"connect_failed","why":trunc(&e, 100)}))], "dead".into(), None),
    };
    let mut s = Sess { conn, evs: vec![], n, fi_n_seen: 0, frames: 0, last_frame: Instant::now(), sentinel: 0, dead: false, counting: None, count_done: false, count_total: 0 };
    let mut how = String::from("dead");
    let mut counts = None;
    'run: {
        let r = s.cmd(&format!("open {}", if plan.sort { json!({"files":[path],"sort":true}) } else { json!({"files":[path]}) }));
        if !r.as_deref().map(|t| t.starts_with("ok:")).unwrap_or(false) {
            s.evs.push(Ev::Other(json!({"ev":"unexpected_reply","to":"open","text":trunc(&r.unwrap_or_default(), 200)})));
            break 'run;
        }
        let t0 = Instant::now();
        s.last_frame = t0;
        let mut paused = false;
        let mut pause_done = plan.pause.is_none();
        loop {
            if s.dead {
                break 'run;
            }
            if let Some((a, b)) = plan.pause {
                let el = t0.elapsed().as_millis() as u64;
                if !paused && !pause_done && el >= a {
                    let _ = s.cmd("pause");
                    paused = true;
                } else if paused && el >= a + b {
                    let _ = s.cmd("resume");
                    paused = false;
                    pause_done = true;
                    s.last_frame = Instant::now();
                }
            }
            if s.fi_n_seen >= 2 && pause_done {
                how = "finished".into();
                break;
            }
            let quiet = s.last_frame.elapsed();
            if !paused && pause_done && ((s.fi_n_seen >= 1 && quiet > Duration::from_secs(3)) || quiet > Duration::from_secs(20)) {
                how = if s.fi_n_seen >= 1 { "quiet".into() } else { "stalled".into() };
                break;
            }
            if plan.spam {
                s.roundtrip();
            } else {
                let fr = s.conn.recv(Duration::from_millis(if paused { 5 } else { 150 }));
                if let Frame::Timeout = fr {
                    if !paused {
                        s.roundtrip();
                    }
                } else {
                    let _ = s.on_frame(fr);
                }
            }
        }
        // idle: two more complete server loop iterations
        s.roundtrip();
        s.roundtrip();
        if plan.counts && !s.dead {
            s.counting = Some(BTreeMap::new());
            let r = s.cmd(&format!("query {}", json!({"window":[0, n + 16],"binary":true})));
            if r.as_deref().map(|t| t.starts_with("ok:")).unwrap_or(false) {
                let t1 = Instant::now();
                while !s.count_done && !s.dead && t1.elapsed() < Duration::from_secs(60) {
                    s.roundtrip();
                }
                if s.count_done {
                    counts = Some((s.counting.take().unwrap(), s.count_total));
                }
            } else {
                s.evs.push(Ev::Other(json!({"ev":"unexpected_reply","to":"query","text":trunc(&r.unwrap_or_default(), 200)})));
            }
            s.counting = None;
            s.roundtrip();
        }
        if s.dead {
            how = "dead".into();
            break 'run;
        }
        let r = s.cmd("close");
        if !r.as_deref().map(|t| t.starts_with("ok:")).unwrap_or(false) {
            s.evs.push(Ev::Other(json!({"ev":"unexpected_reply","to":"close","text":trunc(&r.unwrap_or_default(), 200)})));
            how = "dead".into();
        }
    }
    let Sess { conn, evs, .. } = s;
    conn.close();
    (evs, how, counts)
}

// ================================================================================================ cases
#[derive(Clone)]
struct Case {
    src: String,
    inputs: Vec<In>,
    k: u64,                    // poll schedule of the scenario: 0 = no pacing, k > 0: parser pauses before every k-th message
    throttle: Option<String>,  // ADLT_VERIF_PARSE_THROTTLE of the server process to use
    pause: Option<(u64, u64)>,
    sort: bool,
    pred: Option<Value>,       // TLC's prediction
    big: bool,                 // no per-message list in the trace header
}

struct Outcome {
    lines: Vec<Value>,
    matched: Option<bool>, // Some(equal?) when a prediction existed
    contract_ok: bool,
    frames: u64,
    lcs_frames: u64,
    n: u64,
    nontrivial: bool,
    final_agrees: bool, // the final observables equal the prediction's (a drift is then only a different batching of the server's passes)
}

fn views_of(evs: &[Ev], base: u32) -> (Vec<Value>, Vec<u64>, Value) {
    // cumulative table after every Lifecycles frame (last write wins per id; an entry with 0 messages withdraws the id),
    // consecutive duplicates dropped; distinct FileInfo values in order; last EacInfo
    let mut cur: BTreeMap<u32, Value> = BTreeMap::new();
    let mut views: Vec<Value> = Vec::new();
    let mut fis: Vec<u64> = Vec::new();
    let mut eac = json!([]);
    for e in evs {
        match e {
            Ev::Lcs(items) => {
                for r in items {
                    let j = rec_json(r, base);
                    let id = j["id"].as_u64().unwrap() as u32;
                    if r.nr == 0 {
                        cur.remove(&id);
                    } else {
                        cur.insert(id, j);
                    }
                }
                let v = Value::Array(cur.values().cloned().collect());
                if views.last() != Some(&v) {
                    views.push(v);
                }
            }
            Ev::Fi(n) => {
                if fis.last() != Some(n) {
                    fis.push(*n);
                }
            }
            Ev::Eac(ecus, _) => eac = json!(ecus),
            _ => {}
        }
    }
    (views, fis, eac)
}

fn pred_rec(p: &Value) -> Value {
    // prediction in model units (ticks relative to the base, microsecond remainder) -> the projection's units
    json!({"id": p["id"], "ecu": p["ecu"], "nr": p["nr"], "st": p["st"].as_u64().unwrap() + BASE_S, "su": p["su"], "et": p["et"].as_u64().unwrap() + BASE_S, "eu": p["eu"],
           "res": p["res"], "rt": if p["res"].as_bool().unwrap() { p["rt"].as_u64().unwrap() + BASE_S } else { 0 }, "ru": p["ru"], "sw": ""})
}

fn run_case(port: u16, work: &str, wid: usize, case_no: usize, c: &Case, force_slow: bool) -> Outcome {
    let path = format!("{}/files/c{}-w{}.dlt", work, case_no, wid);
    write_file(&path, &c.inputs);
    let local = local_run(&path);
    let n = local.n;
    let plan = Plan { spam: true, pause: c.pause, counts: true, sort: c.sort };
    let (evs, how, counts) = remote_run(port, &path, n, &plan);
    if !c.big {
        let _ = std::fs::remove_file(&path);
    }
    // case-relative lifecycle ids: relative to the smallest id of the table (server side: of all entries received)
    let rbase = evs.iter().filter_map(|e| if let Ev::Lcs(l) = e { l.iter().map(|r| r.id).min() } else { None }).min().unwrap_or(1);
    let lbase = local.table.iter().map(|r| r.id).min().unwrap_or(1);
    let frames = evs.iter().filter(|e| !matches!(e, Ev::Other(_))).count() as u64;
    let lcs_frames = evs.iter().filter(|e| matches!(e, Ev::Lcs(_))).count() as u64;
    let mut matched = None;
    let mut contract_ok = true;
    let mut final_agrees = true;
    if let Some(alts) = &c.pred {
        // the schedule of the server's passes is not under the driver's control: the observation is compared with the model's
        // prediction for every schedule / ECU iteration order emitted for the same input (data equality only)
        let (views, fis, eac) = views_of(&evs, rbase);
        let lfinal: Vec<Value> = local.table.iter().map(|r| rec_json(r, lbase)).collect();
        let other = evs.iter().any(|e| matches!(e, Ev::Other(_)));
        let by_id = |mut v: Vec<Value>| -> Vec<Value> {
            v.sort_by_key(|r| r["id"].as_u64().unwrap_or(0));
            v
        };
        let mut eq_ok = false;
        let mut eq_any = false;
        let mut eq_final = false;
        for p in alts.as_array().unwrap() {
            let pviews: Vec<Value> = p["views"].as_array().unwrap().iter().map(|v| Value::Array(by_id(v.as_array().unwrap().iter().map(pred_rec).collect()))).collect();
            let pfis: Vec<u64> = p["fi"].as_array().unwrap().iter().map(|x| x.as_u64().unwrap()).collect();
            let peac: Vec<Value> = p["eac"].as_array().unwrap().iter().filter(|x| x[1].as_u64().unwrap() > 0).cloned().collect();
            let pfinal: Vec<Value> = by_id(p["final"].as_array().unwrap().iter().map(pred_rec).collect());
            // counts per lifecycle id as delivered = the table's message counts (prediction: the model's table)
            let cnt_ok = match &counts {
                Some((m, total)) => *total == n && pfinal.iter().all(|f| m.get(&(f["id"].as_u64().unwrap() as u32 + rbase - 1)).copied().unwrap_or(0) == f["nr"].as_u64().unwrap()),
                None => false,
            };
            if views.last() == pviews.last() && fis.last() == pfis.last() && eac == Value::Array(peac.clone()) && pfinal == lfinal && !other && how == "finished" && cnt_ok {
                eq_final = true;
            }
            if views == pviews && fis == pfis && eac == Value::Array(peac) && pfinal == lfinal && !other && how == "finished" && cnt_ok && local.panic.is_none() && p["n"].as_u64() == Some(n) {
                eq_any = true;
                if p["ok"].as_bool().unwrap_or(false) {
                    eq_ok = true;
                }
            }
        }
        matched = Some(eq_any);
        contract_ok = eq_ok || !eq_any;
        final_agrees = eq_final;
    }
    let mut lines = Vec::new();
    if matched != Some(true) || !contract_ok || force_slow {
        let small = !c.big;
        let hdr = json!({
            "src": c.src, "k": c.k, "throttle": c.throttle.clone().unwrap_or_default(), "n": n, "how": how, "paused": c.pause.is_some(), "sorted": c.sort,
            "final": local.table.iter().map(|r| rec_json(r, lbase)).collect::<Vec<Value>>(),
            "ctrl_only": local.ctrl_only,
            "ecus": local.ecus.iter().map(|(e, k)| json!([e, k])).collect::<Vec<Value>>(),
            "eac": local.eac.iter().map(|(e, a, c2, k)| json!([e, a, c2, k])).collect::<Vec<Value>>(),
            "msgs": if small { local.triples.iter().map(|(e, a, c2)| json!([e, a, c2])).collect::<Vec<Value>>() } else { vec![] },
            "inputs": if small && c.inputs.len() <= 12 { c.inputs.iter().map(|i| json!({"ecu":i.ecu,"rx":(i.rx_us.saturating_sub(BASE_US)) / 1000,"ts":i.ts_dms,"kind":i.kind})).collect::<Vec<Value>>() } else { vec![] },
        });
        lines.push(json!({"ev":"reset","case":case_no,"hdr":hdr}));
        if let Some(p) = &local.panic {
            lines.push(json!({"ev":"panic","where":"local detector","msg":trunc(p, 200)}));
        }
        for e in &evs {
            match e {
                Ev::Fi(k) => lines.push(json!({"ev":"fi","nr":k})),
                Ev::Lcs(items) => lines.push(json!({"ev":"lcs","items":items.iter().map(|r| rec_json(r, rbase)).collect::<Vec<Value>>()})),
                Ev::Eac(ecus, eac) => lines.push(json!({"ev":"eac","ecus":ecus.iter().map(|(e, k)| json!([e, k])).collect::<Vec<Value>>(),
                                                        "eac":eac.iter().map(|(e, a, c2, k)| json!([e, a, c2, k])).collect::<Vec<Value>>()})),
                Ev::Other(v) => lines.push(v.clone()),
            }
        }
        if how != "dead" {
            match &counts {
                Some((m, total)) => lines.push(json!({"ev":"counts","total":total,"c":m.iter().map(|(id, k)| json!([id.wrapping_sub(rbase).wrapping_add(1) & 0x7fff_ffff, k])).collect::<Vec<Value>>()})),
                None => lines.push(json!({"ev":"timeout","at":"counts"})),
            }
            lines.push(json!({"ev":"idle"}));
            lines.push(json!({"ev":"end"}));
        }
    }
    let nontrivial = lcs_frames >= 2 || local.table.len() >= 2;
    Outcome { lines, matched, contract_ok, frames, lcs_frames, n, nontrivial, final_agrees }
}

// ================================================================================================ random logs
struct Gen {
    rng: Rng,
}
impl Gen {
    fn ids(&mut self, ne: usize) -> (Vec<&'static str>, Vec<&'static str>, Vec<&'static str>) {
        let _ = ne;
        (vec!["EA", "ECUB", "C", "ECUD"], vec!["APP", "SYS", "A", "NAV1"], vec!["CTX", "C1", "MAIN", "X"])
    }
    /// streams on the detector model's grid (alphabets known to reach merges, confirmations, resumes, control-only lifecycles)
    fn grid_stream(&mut self, max_n: u64, ecus: &[&str], kinds: &[&str]) -> Vec<In> {
        let n = self.rng.range(2, max_n);
        let rxd = [0u64, 0, 1, 1, 2, 9, 10, 11, 29, 31, 59, 60, 61, 62, 120];
        let tsv = [0u64, 0, 1, 2, 9, 10, 11, 12, 20, 59, 60, 61, 70, 71, 116, 118, 130];
        let (_, ap, ct) = self.ids(0);
        let mut rx = 1000;
        (0..n)
            .map(|_| {
                rx += *self.rng.pick(&rxd);
                let k = if self.rng.chance(1, 6) { *self.rng.pick(kinds) } else { "norm" };
                let ts = if k == "nots" { 0 } else { *self.rng.pick(&tsv) };
                let mut i = grid_in(*self.rng.pick(ecus), rx, ts, k);
                i.apid = self.rng.pick(&ap[..2]).to_string();
                i.ctid = self.rng.pick(&ct[..2]).to_string();
                i
            })
            .collect()
    }
    /// "physical" stream: ECUs with boots, buffering delays, suspend/resume, reboots, garbage timestamps, control requests,
    /// software-version responses, messages without extended header, non-monotonic reception times
    fn physical_stream(&mut self, n: u64, ne: usize, reboot_1_in: u64) -> Vec<In> {
        let (names, ap, ct) = self.ids(ne);
        let mut rx_us = BASE_US + self.rng.below(100_000) * 1000;
        let mut st: Vec<(u64, u64)> = (0..ne).map(|_| (rx_us.saturating_sub(self.rng.below(200_000) * 1000), self.rng.below(5_000) * 1000)).collect();
        let step_max = if n > 20_000 { 20_000 } else { 2_000_000 };
        let mut v = Vec::with_capacity(n as usize);
        for _ in 0..n {
            rx_us += match self.rng.below(10) {
                0 => 0,
                1..=5 => self.rng.below(50) * 1000,
                6 | 7 => self.rng.below(step_max / 1000) * 1000,
                8 => self.rng.below(15 * step_max / 2_000) * 1000,
                _ => self.rng.below(90 * step_max / 2_000) * 1000,
            };
            let e = self.rng.below(ne as u64) as usize;
            match self.rng.below(reboot_1_in) {
                0 => st[e] = (rx_us, self.rng.below(70_000) * 1000),  // reboot with a new buffering delay
                1 => st[e].0 += self.rng.below(100_000) * 1000,      // suspend: the uptime clock stood still
                2 => st[e].1 = self.rng.below(70_000) * 1000,        // delay change
                _ => {}
            }
            let up = rx_us.saturating_sub(st[e].0).saturating_sub(st[e].1.min(rx_us.saturating_sub(st[e].0)));
            let mut ts_dms = (up / 100) as u32;
            let mut kind = "norm";
            match self.rng.below(60) {
                0 => ts_dms = 0,
                1 => ts_dms = (self.rng.next_u64() as u32) / 10 * 10, // garbage (possibly > reception time)
                2 | 3 => kind = "ctrl",
                4 => kind = "nots",
                5 => kind = "crsw",
                6 => kind = "noext",
                _ => {}
            }
            let rx_here = if self.rng.chance(1, 40) { rx_us.saturating_sub(self.rng.below(3_000) * 1000) } else { rx_us };
            v.push(In {
                ecu: names[e].to_string(),
                apid: self.rng.pick(&ap).to_string(),
                ctid: self.rng.pick(&ct).to_string(),
                rx_us: rx_here,
                ts_dms: if kind == "nots" { 0 } else { ts_dms },
                kind: kind.to_string(),
            });
        }
        v
    }
}

// ================================================================================================ main
fn main() {
    quiet_panics();
    let a = Args::from_env();
    let adlt = a.str("--adlt", "adlt");
    let work = a.str("--work", ".");
    let _ = std::fs::remove_dir_all(format!("{}/files", work));
    let _ = std::fs::remove_dir_all(format!("{}/srv", work));
    std::fs::create_dir_all(format!("{}/srv", work)).unwrap();
    std::fs::create_dir_all(format!("{}/files", work)).unwrap();
    let nworkers = a.num("--workers", 8) as usize;
    let sample_every = a.num("--sample-every", 25);
    let t_ms = a.num("--pace-ms", 30);
    let mut cases: Vec<Case> = Vec::new();

    // ---- TLC behaviours with predictions
    if let Some(f) = a.get("--scenarios") {
        let rd = std::io::BufReader::new(std::fs::File::open(f).expect("scenarios"));
        for line in rd.lines() {
            let line = line.unwrap();
            if line.trim().is_empty() {
                continue;
            }
            let scn: Value = serde_json::from_str(&line).unwrap();
            let inputs: Vec<In> = scn["inputs"].as_array().unwrap().iter().map(|m| grid_in(m["ecu"].as_str().unwrap(), m["rx"].as_u64().unwrap(), m["ts"].as_u64().unwrap(), m["kind"].as_str().unwrap())).collect();
            let k = scn["k"].as_u64().unwrap();
            cases.push(Case { src: "tlc".into(), inputs, k, throttle: if k > 0 { Some(format!("{}:{}", k, t_ms)) } else { None }, pause: None, sort: false, pred: Some(scn["alts"].clone()), big: false });
        }
    }
    let n_tlc = cases.len();
    // ---- regression inputs: a published lifecycle that is merged away later (both known shapes), with and without pacing
    if a.has("--regressions") {
        let regs: Vec<(&str, Vec<In>)> = vec![
            ("removed-1ecu", vec![grid_in("A", 1000, 0, "norm"), grid_in("A", 1001, 0, "norm"), grid_in("A", 1002, 0, "norm"), grid_in("A", 1013, 70, "norm"), grid_in("A", 1013, 70, "norm")]),
            ("removed-2ecu", vec![grid_in("B", 1011, 70, "norm"), grid_in("A", 1022, 1, "norm"), grid_in("B", 1023, 70, "norm"), grid_in("B", 1024, 1, "ctrl"), grid_in("B", 1024, 20, "norm")]),
            ("ctrl-first", vec![grid_in("A", 1000, 0, "ctrl"), grid_in("B", 1001, 5, "norm"), grid_in("A", 1100, 70, "ctrl"), grid_in("B", 1200, 70, "norm"), grid_in("A", 1300, 10, "norm")]),
        ];
        for (name, inputs) in regs {
            for k in [0u64, 1, 2] {
                cases.push(Case { src: name.to_string(), inputs: inputs.clone(), k, throttle: if k > 0 { Some(format!("{}:{}", k, t_ms.max(40))) } else { None }, pause: None, sort: false, pred: None, big: false });
            }
        }
    }
    // ---- random logs
    let mut g = Gen { rng: Rng::new(a.num("--seed", 1)) };
    let n_random = a.num("--random", 0);
    let max_n = a.num("--max-n", 400);
    for i in 0..n_random {
        let style = i % 5;
        let inputs = match style {
            0 => g.grid_stream(14, &["A", "B"], &["norm", "ctrl", "nots"]),
            1 => g.grid_stream(max_n.min(60), &["A", "B", "C"], &["norm", "ctrl", "crsw", "noext"]),
            2 => {
                let n = g.rng.range(5, max_n);
                g.physical_stream(n, 2, 40)
            }
            3 => {
                let n = g.rng.range(20, max_n * 4);
                g.physical_stream(n, 4, 60)
            }
            _ => g.grid_stream(8, &["A"], &["norm", "ctrl"]),
        };
        let n = inputs.len() as u64;
        // pacing: none / every message / batches; sometimes a pause while the file is parsed
        let ks = [2u64, 3, 5, 8, 13, 21, 50, 200, 1000];
        let (k, thr) = match g.rng.below(4) {
            0 => (0, None),
            1 if n <= 40 => (1, Some(format!("1:{}", t_ms))),
            _ => {
                // at most ~50 parser pauses per file
                let fit: Vec<u64> = ks.iter().copied().filter(|k| *k <= n.max(2) && *k >= n / 50).collect();
                let kk = if fit.is_empty() { 1000 } else { *g.rng.pick(&fit) };
                (kk, Some(format!("{}:{}", kk, t_ms)))
            }
        };
        let pause = if g.rng.chance(1, 4) { Some((g.rng.below(60), g.rng.range(20, 200))) } else { None };
        let sort = g.rng.chance(1, 4);
        cases.push(Case { src: "random".into(), inputs, k, throttle: thr, pause, sort, pred: None, big: n > 1500 });
    }
    // ---- big logs (> 100 000 messages: the detector's regular refresh is due while messages stream through)
    let big = a.num("--big", 0);
    for j in 0..a.num("--big-cases", 0) {
        let n = big + g.rng.below(big / 4 + 1);
        let inputs = g.physical_stream(n, 3, if j % 2 == 0 { 30_000 } else { 4_000 });
        // pacings that stretch parsing beyond the statistics timer (first EacInfo 2 s after open, then every 3 s)
        let thr = match j % 3 {
            0 => None,
            1 => Some(format!("{}:{}", 5_000, 150)),
            _ => Some(format!("{}:{}", 30_011, 700)),
        };
        let pause = if j % 3 == 2 { Some((50, 400)) } else { None };
        cases.push(Case { src: "big".into(), inputs, k: 0, throttle: thr, pause, sort: false, pred: None, big: true });
    }

    // ---- run: worker threads, each with its own server process per pacing (cases of one server run one after the other)
    let cases = Arc::new(cases);
    let next = Arc::new(AtomicUsize::new(0));
    let results: Arc<Mutex<BTreeMap<usize, Outcome>>> = Arc::new(Mutex::new(BTreeMap::new()));
    let panics: Arc<Mutex<Vec<(String, u64)>>> = Arc::new(Mutex::new(Vec::new()));
    let exits: Arc<Mutex<Vec<String>>> = Arc::new(Mutex::new(Vec::new()));
    let mut hs = Vec::new();
    for wid in 0..nworkers {
        let (cases, next, results, panics, exits, adlt, work) = (cases.clone(), next.clone(), results.clone(), panics.clone(), exits.clone(), adlt.clone(), work.clone());
        hs.push(std::thread::spawn(move || {
            let mut servers: BTreeMap<String, Server> = BTreeMap::new();
            loop {
                let i = next.fetch_add(1, Ordering::SeqCst);
                if i >= cases.len() {
                    break;
                }
                let c = &cases[i];
                let key = c.throttle.clone().unwrap_or_default();
                if !servers.contains_key(&key) {
                    if servers.len() >= 6 {
                        // keep the number of idle processes small
                        let k0 = servers.keys().next().unwrap().clone();
                        let mut s = servers.remove(&k0).unwrap();
                        s.stop();
                        panics.lock().unwrap().extend(s.panic_lines());
                    }
                    servers.insert(key.clone(), Server::start(&adlt, &format!("{}/srv", work), &format!("w{}-{}", wid, key.replace(':', "_")), c.throttle.as_deref()));
                }
                let srv = servers.get_mut(&key).unwrap();
                let force_slow = c.pred.is_none() || i % (sample_every as usize) == 0;
                let out = run_case(srv.port, &work, wid, i, c, force_slow);
                if let Some(st) = srv.exited() {
                    exits.lock().unwrap().push(st);
                    let mut s = servers.remove(&key).unwrap();
                    panics.lock().unwrap().extend(s.panic_lines());
                    s.stop();
                }
                results.lock().unwrap().insert(i, out);
            }
            for (_, mut s) in servers {
                s.stop();
                panics.lock().unwrap().extend(s.panic_lines());
            }
        }));
    }
    let mut worker_failed = false;
    for h in hs {
        if h.join().is_err() {
            worker_failed = true;
        }
    }
    if worker_failed || results.lock().unwrap().len() != cases.len() {
        eprintln!("x05 driver: a worker thread failed or cases are missing ({} of {})", results.lock().unwrap().len(), cases.len());
        std::process::exit(3);
    }
    let mut t = Trace::create(&a.str("--out", "trace.ndjson"));
    let (mut replayed, mut fast, mut slow, mut drift, mut frames, mut lcs_frames, mut msgs) = (0u64, 0u64, 0u64, 0u64, 0u64, 0u64, 0u64);
    let mut drift_cases: Vec<usize> = Vec::new();
    let mut pred_not_ok = 0u64;
    let mut nontrivial = 0u64;
    let mut drift_final = 0u64;
    let res = results.lock().unwrap();
    let mut written = 0u64;
    for (i, o) in res.iter() {
        frames += o.frames;
        if o.nontrivial {
            nontrivial += 1;
        }
        lcs_frames += o.lcs_frames;
        msgs += o.n;
        if *i < n_tlc {
            replayed += 1;
            if o.matched == Some(false) {
                drift += 1;
                if !o.final_agrees {
                    drift_final += 1;
                }
                if drift_cases.len() < 20 {
                    drift_cases.push(*i);
                }
            }
        }
        if o.lines.is_empty() {
            fast += 1;
        } else {
            slow += 1;
            written += 1;
            for l in &o.lines {
                t.ev(l.clone());
            }
        }
        if o.matched == Some(true) && !o.contract_ok {
            pred_not_ok += 1;
        }
    }
    t.flush();
    let mut pl: Vec<(String, u64)> = Vec::new();
    for (k, c) in panics.lock().unwrap().iter() {
        if let Some(e) = pl.iter_mut().find(|e| &e.0 == k) {
            e.1 += c;
        } else {
            pl.push((k.clone(), *c));
        }
    }
    println!(
        "{}",
        json!({"cases": res.len(), "written": written, "lines": t.lines, "replayed": replayed, "fast_path": fast, "slow_path": slow, "drift": drift, "drift_final": drift_final, "drift_cases": drift_cases, "predicted_contract_violation": pred_not_ok, "nontrivial": nontrivial,
               "frames": frames, "lcs_frames": lcs_frames, "messages": msgs, "panics": pl.iter().map(|(k, c)| json!([k, c])).collect::<Vec<Value>>(),
               "server_exit": exits.lock().unwrap().clone()})
    );
}
