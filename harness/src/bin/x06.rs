//! X06 driver: the Rewrite plugin (`adlt::plugins::rewrite::RewritePlugin`) and the plugin factory (`adlt::plugins::factory::get_plugin`)
//! driven through the public API the way adlt's own callers do it:
//!   factory path (remote.rs 450-467): every configuration object of the list -> get_plugin -> the plugins that were created, in list order
//!   direct path  (convert.rs 533-563): RewritePlugin::from_json(config) -> the plugin, also when it is disabled
//! then `plugins_process_msgs(receiver, outflow, chain)` over the chain of the created Rewrite plugins (harness pass-through plugins
//! in between in every other case) and the message stream of the case.
//!
//! A case is ABSTRACT (spec/RewritePluginDefs.tla): configurations with rules = (filter, pattern of elements), messages whose texts are
//! token sequences. This driver only concretises (pattern -> regex string, configuration -> JSON, message -> DltMessage), runs the real
//! code and records what it saw as ndjson events (spec/RewritePluginTrace.tla decides). The only comparisons it makes are data
//! equality: message fields before / after, and recorded events vs the events TLC predicted for a scenario (prediction fast path).
use adlt::dlt::{DltArg, DltExtendedHeader, DltMessage, DLT_TYPE_INFO_STRG};
use adlt::plugins::factory::get_plugin;
use adlt::plugins::plugin::{Plugin, PluginState};
use adlt::plugins::plugins_process_msgs;
use adlt::plugins::rewrite::RewritePlugin;
use adlt::utils::eac_stats::EacStats;
use std::collections::BTreeMap;
use std::sync::mpsc::channel;
use std::sync::{Arc, RwLock};
use vh::*;

// ------------------------------------------------------------------------------------------------ projection helpers
fn toks_of(text: &str) -> Value {
    if text.is_empty() {
        return json!([]);
    }
    Value::Array(text.split(' ').map(|t| Value::Array(t.bytes().map(|b| json!(b)).collect())).collect())
}
fn tok_str(tok: &Value) -> String {
    let b: Vec<u8> = tok.as_array().map(|a| a.iter().map(|c| c.as_u64().unwrap_or(63) as u8).collect()).unwrap_or_default();
    String::from_utf8_lossy(&b).to_string()
}
fn text_of(toks: &Value) -> String {
    toks.as_array().map(|a| a.iter().map(tok_str).collect::<Vec<_>>().join(" ")).unwrap_or_default()
}
fn ts_pair(ts: u32) -> Value {
    json!({"s": ts / 10000, "f": ts % 10000})
}
fn ts_of(p: &Value) -> u32 {
    (p["s"].as_u64().unwrap() * 10000 + p["f"].as_u64().unwrap()) as u32
}
fn c4(c: &adlt::dlt::DltChar4) -> String {
    String::from_utf8_lossy(c.as_buf()).trim_end_matches('\0').to_string()
}

// ------------------------------------------------------------------------------------------------ concretisation
fn group(g: &str, inner: &str, alt: bool) -> String {
    if g.is_empty() {
        format!("({})", inner)
    } else if alt {
        format!("(?P<{}>{})", g, inner)
    } else {
        format!("(?<{}>{})", g, inner)
    }
}
/// pattern -> regex: elements joined by single blanks (the blank of an optional element is inside its group)
fn regex_of(pat: &Value, alt: bool) -> String {
    let mut s = String::new();
    if pat["as"] == true {
        s.push('^');
    }
    let el = pat["el"].as_array().unwrap();
    for (i, e) in el.iter().enumerate() {
        if i > 0 && el[i - 1]["k"] != "opt" && e["k"] != "glued" {
            s.push(' ');
        }
        let g = e["g"].as_str().unwrap();
        match e["k"].as_str().unwrap() {
            "lit" => s.push_str(&regex::escape(&tok_str(&e["w"]))),
            "tok" => s.push_str(&group(g, r"\S+", alt)),
            "num" => s.push_str(&group(g, r"\d+\.\d+", alt)),
            "rest" | "glued" => s.push_str(&group(g, ".*", alt)),
            "opt" => s.push_str(&format!("(?:{} )?", group(g, r"\S+", alt))),
            k => panic!("element kind {}", k),
        }
    }
    if pat["ae"] == true {
        s.push('$');
    }
    s
}
fn filter_json(f: &Value, ftype: &str, alt: bool) -> Value {
    let mut o = serde_json::Map::new();
    match ftype {
        "absent" => {}
        "str" => {
            o.insert("type".into(), json!("0"));
        }
        n => {
            o.insert("type".into(), json!(n.parse::<u64>().unwrap()));
        }
    }
    if f["en"] == false {
        o.insert("enabled".into(), json!(false));
    } else if alt {
        o.insert("enabled".into(), json!(true));
    }
    if f["not"] == true {
        o.insert("not".into(), json!(true));
    }
    for k in ["ecu", "apid", "ctid"] {
        let v = f[k].as_str().unwrap();
        if !v.is_empty() {
            o.insert(k.into(), json!(v));
        }
    }
    match f["pk"].as_str().unwrap() {
        "has" => {
            o.insert("payload".into(), json!(tok_str(&f["pw"])));
        }
        "first" => {
            o.insert("payloadRegex".into(), json!(format!("^{}( |$)", regex::escape(&tok_str(&f["pw"])))));
        }
        _ => {}
    }
    Value::Object(o)
}
fn rule_json(r: &Value, alt: bool) -> Value {
    if r["shape"] == "num" {
        return json!(5);
    }
    let mut o = serde_json::Map::new();
    match r["nk"].as_str().unwrap() {
        "str" => {
            o.insert("name".into(), r["name"].clone());
        }
        "num" => {
            o.insert("name".into(), json!(7));
        }
        _ => {}
    }
    match r["fk"].as_str().unwrap() {
        "obj" => {
            o.insert("filter".into(), filter_json(&r["flt"], r["ftype"].as_str().unwrap(), alt));
        }
        "str" => {
            o.insert("filter".into(), json!("apid"));
        }
        "arr" => {
            o.insert("filter".into(), json!([]));
        }
        _ => {}
    }
    match r["rk"].as_str().unwrap() {
        "ok" => {
            o.insert("payloadRegex".into(), json!(regex_of(&r["pat"], alt)));
        }
        "num" => {
            o.insert("payloadRegex".into(), json!(5));
        }
        "invalid" => {
            o.insert("payloadRegex".into(), json!(r"^bar (?<text>\S+"));
        }
        _ => {}
    }
    Value::Object(o)
}
fn cfg_json(c: &Value, dirs: &Dirs, alt: bool) -> Value {
    let mut o = serde_json::Map::new();
    match c["nk"].as_str().unwrap() {
        "str" => {
            o.insert("name".into(), c["name"].clone());
        }
        "num" => {
            o.insert("name".into(), json!(5));
        }
        "null" => {
            o.insert("name".into(), Value::Null);
        }
        _ => {}
    }
    match c["en"].as_str().unwrap() {
        "true" => {
            o.insert("enabled".into(), json!(true));
        }
        "false" => {
            o.insert("enabled".into(), json!(false));
        }
        "null" => {
            o.insert("enabled".into(), Value::Null);
        }
        "str" => {
            o.insert("enabled".into(), json!("yes"));
        }
        "num" => {
            o.insert("enabled".into(), json!(1));
        }
        _ => {}
    }
    let family = c["name"].as_str().unwrap_or("").to_lowercase();
    match c["body"].as_str().unwrap() {
        "rules" => {
            o.insert("rewrites".into(), Value::Array(c["rules"].as_array().unwrap().iter().map(|r| rule_json(r, alt)).collect()));
        }
        "norewrites" => {}
        "rewritesobj" => {
            o.insert("rewrites".into(), json!({"name":"a","filter":{},"payloadRegex":"x"}));
        }
        b => {
            // the other plugins: a minimal acceptable body, a required member missing / of the wrong type
            let (key, good): (&str, Value) = match family.as_str() {
                "someip" | "nonverbose" | "can" => ("fibexDir", json!(dirs.empty)),
                "muniic" => ("jsonDir", json!(dirs.empty)),
                "export" => ("exportFileName", json!(format!("{}/x06_export_{}.dlt", dirs.tmp, std::process::id()))),
                _ => ("allowSave", json!(false)),
            };
            if family == "export" {
                o.insert("filters".into(), json!([]));
            }
            match (b, family.as_str()) {
                ("ok", _) => {
                    o.insert(key.into(), good);
                }
                ("missing", "filetransfer") => {
                    o.insert("apid".into(), json!(5)); // (the file transfer plugin has no required member)
                }
                ("missing", _) => {}
                (_, "filetransfer") => {
                    o.insert(key.into(), json!("x"));
                }
                _ => {
                    o.insert(key.into(), json!(5));
                }
            }
        }
    }
    Value::Object(o)
}

struct Dirs {
    tmp: String,
    empty: String,
}

fn build_msg(m: &Value, pos: usize, alt: bool) -> DltMessage {
    let raw: Vec<String> = m["raw"].as_array().unwrap().iter().map(tok_str).collect();
    let form = m["form"].as_str().unwrap();
    let strs: Vec<Vec<u8>> = match form {
        "args" => raw.iter().map(|t| t.as_bytes().to_vec()).collect(),
        "one" => vec![raw.join(" ").into_bytes()],
        _ => vec![],
    };
    let strs: Vec<Vec<u8>> = strs.into_iter().map(|mut b| {
        if !alt {
            b.push(0); // zero terminated as most senders do
        }
        b
    }).collect();
    let args: Vec<DltArg> = strs.iter().map(|b| DltArg { type_info: DLT_TYPE_INFO_STRG, is_big_endian: false, payload_raw: b }).collect();
    let payload = adlt::utils::payload_from_args(&args);
    let mut msg = mk_msg(pos as u32, m["ecu"].as_str().unwrap(), BASE_US + 1000 * pos as u64, ts_of(&m["ts"]), payload);
    msg.standard_header.mcnt = (pos * 7 + 3) as u8;
    if m["hasext"] == true && form != "noext" {
        msg.extended_header = Some(DltExtendedHeader {
            verb_mstp_mtin: if form == "nv" { 0x40 } else { 0x41 },
            noar: args.len() as u8,
            apid: char4(m["apid"].as_str().unwrap()),
            ctid: char4(m["ctid"].as_str().unwrap()),
        });
    } else {
        msg.extended_header = None;
        msg.standard_header.htyp &= !0x01;
    }
    if m["pthas"] == true {
        msg.payload_text = Some(text_of(&m["pt"]));
    }
    msg
}

/// harness pass-through plugin (placed between the real plugins in every other case)
struct Tap {
    state: Arc<RwLock<PluginState>>,
}
impl Plugin for Tap {
    fn name(&self) -> &str {
        "verif-tap"
    }
    fn enabled(&self) -> bool {
        true
    }
    fn state(&self) -> Arc<RwLock<PluginState>> {
        self.state.clone()
    }
    fn set_lifecycle_read_handle(&mut self, _lcs_r: &adlt::plugins::plugin::LcsRType) {}
    fn sync_all(&mut self) {}
    fn process_msg(&mut self, _msg: &mut DltMessage) -> bool {
        true
    }
}

fn state_obs(st: &Arc<RwLock<PluginState>>) -> (String, Vec<String>, u32) {
    match st.read() {
        Ok(s) => (
            s.value["name"].as_str().unwrap_or("").to_string(),
            s.value["treeItems"].as_array().map(|a| a.iter().map(|t| t["label"].as_str().unwrap_or("").to_string()).collect()).unwrap_or_default(),
            s.generation,
        ),
        Err(_) => (String::new(), vec![], 0),
    }
}

fn inp_of(orig: &DltMessage) -> Value {
    // the text the payload itself decodes to
    let mut bare = orig.clone();
    bare.payload_text = None;
    let raw = catch(std::panic::AssertUnwindSafe(|| bare.payload_as_text().map(|t| t.to_string()).unwrap_or_else(|_| "<fmt error>".to_string())))
        .unwrap_or_else(|_| "<panic>".to_string());
    json!({"ecu": c4(&orig.ecu), "hasext": orig.extended_header.is_some(),
           "apid": orig.apid().map(c4).unwrap_or_default(), "ctid": orig.ctid().map(c4).unwrap_or_default(),
           "ts": ts_pair(orig.timestamp_dms), "pthas": orig.payload_text.is_some(),
           "pt": toks_of(orig.payload_text.as_deref().unwrap_or("")), "raw": toks_of(&raw)})
}

/// run one case on the real code; returns the events after `reset`
fn run_case(path: &str, cfgs: &[Value], msgs: &[Value], dirs: &Dirs, alt: bool, taps: bool) -> Vec<Value> {
    let mut events = Vec::new();
    let mut created: Vec<(Arc<RwLock<PluginState>>, bool)> = Vec::new(); // state handle, reports labels
    let mut chain: Vec<Box<dyn Plugin + Send>> = Vec::new();
    let mut eac_stats = EacStats::new();
    for (i, c) in cfgs.iter().enumerate() {
        let cj = cfg_json(c, dirs, alt);
        let obj = cj.as_object().unwrap();
        let r: Result<Option<Box<dyn Plugin + Send>>, String> = if path == "factory" {
            catch(std::panic::AssertUnwindSafe(|| get_plugin(obj, &mut eac_stats)))
        } else {
            catch(std::panic::AssertUnwindSafe(|| RewritePlugin::from_json(obj).ok().map(|p| Box::new(p) as Box<dyn Plugin + Send>)))
        };
        match r {
            Err(p) => events.push(json!({"ev":"create","i":i + 1,"res":"panic","name":"","enabled":false,"st_name":"","labels":[],"gen":0,
                                         "msg":p.chars().take(200).collect::<String>(),"json":cj})),
            Ok(None) => events.push(json!({"ev":"create","i":i + 1,"res":"none","name":"","enabled":false,"st_name":"","labels":[],"gen":0})),
            Ok(Some(p)) => {
                let st = p.state();
                let (st_name, labels, gen) = state_obs(&st);
                // labels are recorded for Rewrite plugins only (the tree of the other plugins depends on their environment)
                let is_rw = path == "direct" || p.name() == "Rewrite";
                events.push(json!({"ev":"create","i":i + 1,"res":"some","name":p.name(),"enabled":p.enabled(),"st_name":st_name,
                                   "labels": if is_rw { labels } else { vec![] },"gen":gen}));
                created.push((st, is_rw));
                if is_rw {
                    if taps && !chain.is_empty() {
                        chain.push(Box::new(Tap { state: Arc::new(RwLock::new(PluginState::default())) }));
                    }
                    chain.push(p);
                }
            }
        }
    }
    if events.iter().any(|e| e["res"] == "panic") {
        return events;
    }
    if taps {
        chain.push(Box::new(Tap { state: Arc::new(RwLock::new(PluginState::default())) }));
    }
    let originals: Vec<DltMessage> = msgs.iter().enumerate().map(|(i, m)| build_msg(m, i, alt)).collect();
    let nchain = chain.len();
    let (tx, rx) = channel();
    for m in &originals {
        tx.send(m.clone()).unwrap();
    }
    drop(tx);
    let outs = std::cell::RefCell::new(Vec::<DltMessage>::new());
    let r = catch(std::panic::AssertUnwindSafe(|| {
        plugins_process_msgs(rx, &|m: DltMessage| {
            outs.borrow_mut().push(m);
            Ok(())
        }, chain)
    }));
    let outs = outs.into_inner();
    for (k, o) in outs.iter().enumerate() {
        let idx = o.index as usize;
        let (inp, same) = match originals.get(idx) {
            Some(orig) => {
                let mut exp = orig.clone();
                exp.timestamp_dms = o.timestamp_dms;
                exp.payload_text = o.payload_text.clone();
                (inp_of(orig), exp == *o)
            }
            None => (inp_of(o), false),
        };
        let text = catch(std::panic::AssertUnwindSafe(|| o.payload_as_text().map(|t| t.to_string()).unwrap_or_else(|_| "<fmt error>".to_string())))
            .unwrap_or_else(|_| "<panic>".to_string());
        events.push(json!({"ev":"msg","k":k + 1,"idx":idx + 1,"inp":inp,
                           "out":{"ts":ts_pair(o.timestamp_dms),"pthas":o.payload_text.is_some(),"pt":toks_of(o.payload_text.as_deref().unwrap_or("")),
                                  "text":toks_of(&text),"same":same},
                           "txt_in":text_of(&inp_txt(&originals, idx)),"txt_out":text}));
    }
    match r {
        Err(p) => events.push(json!({"ev":"panic","where":"plugins_process_msgs","msg":p.chars().take(200).collect::<String>()})),
        Ok(mut res) => {
            // remote.rs: sync_all once all messages have been processed
            if let Ok(ps) = res.as_mut() {
                if let Err(p) = catch(std::panic::AssertUnwindSafe(|| ps.iter_mut().for_each(|p| p.sync_all()))) {
                    events.push(json!({"ev":"panic","where":"sync_all","msg":p.chars().take(200).collect::<String>()}));
                }
            }
            let states: Vec<Value> = created.iter().map(|(st, is_rw)| {
                let (name, labels, gen) = state_obs(st);
                json!({"name":name,"labels": if *is_rw { labels } else { vec![] },"gen":gen})
            }).collect();
            events.push(json!({"ev":"end","ok":res.is_ok(),"nfwd":outs.len(),"chain":nchain,"ret":res.map(|v| v.len()).unwrap_or(0),"states":states}));
        }
    }
    events
}
fn inp_txt(originals: &[DltMessage], idx: usize) -> Value {
    originals.get(idx).map(|o| inp_of(o)).map(|i| if i["pthas"] == true { i["pt"].clone() } else { i["raw"].clone() }).unwrap_or(json!([]))
}

/// the part of an event that a prediction speaks about
fn strip(e: &Value) -> Value {
    let mut o = e.as_object().unwrap().clone();
    for k in ["txt_in", "txt_out", "chain", "ret", "msg", "json"] {
        o.remove(k);
    }
    Value::Object(o)
}

// ------------------------------------------------------------------------------------------------ random cases (inside the domain)
const LIT_WORDS: [&str; 4] = ["bar", "qux", "zed", "ts"];
// never contain a literal word, never start with digits '.' digits
const WORDS: [&str; 18] = ["hello", "world", "x", "zz", "a", "b", "alpha", "gamma", "tick", "sys", "Kilo", "e5", "dot.", "mid-dle", "[tag]", "info", "nope", "\u{fc}n\u{ef}"];
const EXOTIC: [&str; 16] = ["1e3", "1E-2", "inf", "-inf", "+inf", "nan", "NaN", "infinity", "0x10", "1_000", "5.", ".5", "+1.5", "-.5", "-", "1e400"];

struct Gen {
    rng: Rng,
}
impl Gen {
    fn number(&mut self) -> String {
        let r = &mut self.rng;
        if r.chance(1, 10) {
            // values on the boundaries of the u32 conversion
            return r.pick(&["0", "0.0", "0.00002", "-0.00003", "-0.0", "429496.7295", "429496.72951", "429496.7296", "429496.72949", "214748.3648",
                            "6.5536", "0.0001", "429496.72955", "-0.0001", "4294967295", "00000.00000", "429496.7294999"]).to_string();
        }
        let ip: u64 = match r.below(10) {
            0 => 0,
            1 | 2 => r.below(10),
            3 | 4 => r.below(100_000),
            5 => 429_490 + r.below(12),
            6 => 429_496,
            7 => *r.pick(&[214_748u64, 6, 65, 4_294_967_295, 1_000_000, 999_999, 42_949_672_959]),
            8 => r.below(1_000_000_000_000),
            _ => r.below(1000),
        };
        let mut s = String::new();
        if r.chance(1, 8) {
            s.push('-');
        }
        if r.chance(1, 10) {
            s.push_str("00");
        }
        s.push_str(&ip.to_string());
        let nf = match r.below(8) { 0 => 0, 1 => 4, 2 | 3 => 5, 4 => r.range(1, 3), _ => r.range(5, 9) };
        if nf > 0 {
            s.push('.');
            let mut digits: Vec<u8> = (0..nf).map(|_| b'0' + r.below(10) as u8).collect();
            if ip == 429_496 && r.chance(2, 3) {
                // around u32::MAX * 0.1 ms = 429496.7295
                let base = *r.pick(&["7294", "7295", "7296"]);
                for (i, b) in base.bytes().enumerate() {
                    if i < digits.len() {
                        digits[i] = b;
                    }
                }
            }
            if nf >= 5 {
                // around the rounding boundary behind the fourth digit
                match r.below(6) {
                    0 => { for d in digits[4..].iter_mut() { *d = b'0'; } digits[4] = b'5'; }      // exact tie
                    1 => { for d in digits[4..].iter_mut() { *d = b'9'; } digits[4] = b'4'; }      // just below
                    2 => { for d in digits[4..].iter_mut() { *d = b'0'; } digits[4] = b'5'; let n = digits.len(); if n > 5 { digits[n - 1] = b'1'; } }  // just above
                    3 => { for d in digits[..4].iter_mut() { *d = b'9'; } digits[4] = b'5' + r.below(5) as u8; }   // carry into the seconds
                    _ => {}
                }
            }
            s.push_str(std::str::from_utf8(&digits).unwrap());
        }
        s
    }
    fn token(&mut self) -> String {
        match self.rng.below(12) {
            0..=3 => self.rng.pick(&WORDS).to_string(),
            4 | 5 => self.rng.pick(&LIT_WORDS).to_string(),
            6..=9 => self.number(),
            10 => self.rng.pick(&EXOTIC).to_string(),
            _ => format!("{}.{}", self.rng.below(100), self.rng.below(10000)),
        }
    }
    fn tokv(s: &str) -> Value {
        Value::Array(s.bytes().map(|b| json!(b)).collect())
    }
    fn pattern(&mut self) -> Value {
        let n = self.rng.range(0, 4) as usize;
        let mut el: Vec<Value> = Vec::new();
        let mut names: Vec<&str> = vec!["text", "timeStamp", "text", "timeStamp", "text", "timeStamp", "timestamp", "Text", "text2", "", "ts"];
        let as_ = self.rng.chance(2, 3);
        let mut ae = self.rng.chance(1, 2);
        let mut anchored_by_elem = false;
        for i in 0..n {
            let last = i + 1 == n;
            let kind = match self.rng.below(10) {
                0..=2 => "lit",
                3 => "tok",
                4 | 5 => "tok",
                6 => "num",
                7 => if last { "rest" } else { "opt" },
                _ => if last { "rest" } else { "tok" },
            };
            // domain: an unanchored pattern must not reach a decimal element before any other (it could start inside a token,
            // e.g. behind a sign), and a decimal element at an open end could stop inside a token
            let kind = if kind == "num" && ((!as_ && !anchored_by_elem) || (last && !ae)) { "tok" } else { kind };
            if kind != "opt" {
                anchored_by_elem = true;
            }
            let prev_kind = el.last().map(|e: &Value| e["k"].as_str().unwrap().to_string()).unwrap_or_default();
            let kind = if kind == "rest" && (prev_kind == "lit" || prev_kind == "tok") && self.rng.chance(1, 4) { "glued" } else { kind };
            if kind == "lit" {
                el.push(json!({"k":"lit","w":Self::tokv(*self.rng.pick(&LIT_WORDS)),"g":""}));
            } else {
                let gi = self.rng.below(names.len() as u64) as usize;
                let g = names[gi];
                if g == "text" || g == "timeStamp" {
                    names.retain(|x| *x != g); // at most one group of each effective name
                }
                el.push(json!({"k":kind,"w":[],"g":g}));
            }
        }
        if n == 0 && self.rng.chance(1, 2) {
            ae = false;
        }
        json!({"as":as_,"ae":ae,"el":el})
    }
    fn filter(&mut self) -> Value {
        let crit = if self.rng.chance(2, 3) { 0 } else { self.rng.below(16) };
        json!({"en": !self.rng.chance(1, 15), "not": self.rng.chance(1, 8),
               "ecu": if crit & 1 != 0 { *self.rng.pick(&["E1", "E2", "ECUX"]) } else { "" },
               "apid": if crit & 2 != 0 { *self.rng.pick(&["SYS", "APA"]) } else { "" },
               "ctid": if crit & 4 != 0 { *self.rng.pick(&["JOUR", "CTA"]) } else { "" },
               "pk": if crit & 8 != 0 { *self.rng.pick(&["has", "first"]) } else { "none" },
               "pw": if crit & 8 != 0 { Self::tokv(*self.rng.pick(&LIT_WORDS)) } else { json!([]) }})
    }
    fn rule(&mut self, name: String, allow_bad: bool) -> Value {
        let mut r = json!({"shape":"obj","nk":"str","name":name,"fk":"obj","ftype": *self.rng.pick(&["absent", "absent", "0", "1", "2", "3"]),
                           "flt": self.filter(), "rk":"ok", "pat": self.pattern()});
        if allow_bad && self.rng.chance(1, 12) {
            match self.rng.below(8) {
                0 => r["shape"] = json!("num"),
                1 => r["nk"] = json!(*self.rng.pick(&["absent", "num"])),
                2 => r["fk"] = json!(*self.rng.pick(&["absent", "str", "arr"])),
                3 => r["ftype"] = json!(*self.rng.pick(&["4", "str"])),
                _ => r["rk"] = json!(*self.rng.pick(&["absent", "num", "invalid"])),
            }
        }
        r
    }
    /// a text that a pattern of the case probably matches (instantiated from the pattern, then sometimes perturbed)
    fn text_for(&mut self, pat: &Value) -> Vec<String> {
        let mut t: Vec<String> = Vec::new();
        if pat["as"] == false && self.rng.chance(1, 2) {
            for _ in 0..self.rng.range(1, 2) {
                t.push(self.token());
            }
        }
        for e in pat["el"].as_array().unwrap() {
            match e["k"].as_str().unwrap() {
                "lit" => t.push(tok_str(&e["w"])),
                "tok" => t.push(if e["g"] == "timeStamp" && self.rng.chance(3, 4) { self.number() } else { self.token() }),
                "num" => t.push(if self.rng.chance(4, 5) { format!("{}.{}", self.rng.below(500_000), self.rng.below(100_000)) } else { self.token() }),
                "opt" => if self.rng.chance(1, 2) { t.push(self.token()) },
                _ => for _ in 0..self.rng.range(0, 3) { t.push(self.token()); },
            }
        }
        if pat["ae"] == false && self.rng.chance(1, 2) {
            t.push(self.token());
        }
        match self.rng.below(10) {
            0 if !t.is_empty() => { let i = self.rng.below(t.len() as u64) as usize; t.remove(i); }
            1 => { let i = self.rng.below(t.len() as u64 + 1) as usize; let x = self.token(); t.insert(i, x); }
            _ => {}
        }
        t
    }
    fn msg(&mut self, pats: &[Value]) -> Value {
        let text = if !pats.is_empty() && self.rng.chance(5, 6) { let p = self.rng.pick(pats).clone(); self.text_for(&p) } else { (0..self.rng.below(6)).map(|_| self.token()).collect() };
        let toks = |v: &[String]| Value::Array(v.iter().map(|s| Self::tokv(s)).collect());
        let ts: u32 = match self.rng.below(6) { 0 => 0, 1 => u32::MAX, 2 => 0x8000_0000, _ => self.rng.below(100_000_000) as u32 };
        let hasext = !self.rng.chance(1, 10);
        let mut m = json!({"ecu": *self.rng.pick(&["E1", "E2"]), "hasext": hasext,
                           "apid": if hasext { *self.rng.pick(&["SYS", "APA"]) } else { "" }, "ctid": if hasext { *self.rng.pick(&["JOUR", "CTA"]) } else { "" },
                           "ts": ts_pair(ts), "pthas": false, "pt": [], "raw": [], "form": "args"});
        if !hasext {
            // no extended header: non-verbose; the text comes from an earlier plugin
            m["form"] = json!("noext");
            m["raw"] = toks(&["[<args".to_string(), "missing>]".to_string()]);
            if self.rng.chance(4, 5) {
                m["pthas"] = json!(true);
                m["pt"] = toks(&text);
            }
        } else if self.rng.chance(1, 3) {
            // payload text set by an earlier plugin, the payload itself reads differently
            m["pthas"] = json!(true);
            m["pt"] = toks(&text);
            let other: Vec<String> = (0..self.rng.below(4)).map(|_| self.token()).collect();
            m["form"] = json!(if other.is_empty() { "empty" } else { "args" });
            m["raw"] = toks(&other);
        } else if text.is_empty() {
            m["form"] = json!(if self.rng.chance(1, 4) { "nv" } else { "empty" });
            if m["form"] == "nv" {
                m["raw"] = toks(&["[<args".to_string(), "missing>]".to_string()]);
            }
        } else {
            m["form"] = json!(*self.rng.pick(&["args", "one"]));
            m["raw"] = toks(&text);
        }
        m
    }
    fn case(&mut self) -> (String, Vec<Value>, Vec<Value>) {
        let path = if self.rng.chance(1, 2) { "factory" } else { "direct" };
        let ncfg = self.rng.range(1, 3);
        let mut cfgs = Vec::new();
        let mut pats = Vec::new();
        let mut rn = 0;
        for _ in 0..ncfg {
            let other = path == "factory" && self.rng.chance(1, 6);
            if other {
                let name = *self.rng.pick(&["SomeIp", "NonVerbose", "CAN", "FileTransfer", "Muniic", "Export", "Can", "export", "Unknown", "Rewrite2"]);
                cfgs.push(json!({"nk":"str","name":name,"en": *self.rng.pick(&["absent", "absent", "true", "false", "null", "str"]),
                                 "body": *self.rng.pick(&["ok", "ok", "missing", "badtype"]), "rules": []}));
                continue;
            }
            let nr = match self.rng.below(8) { 0 => 0, 1..=3 => 1, 4 | 5 => 2, 6 => 3, _ => 4 };
            let rules: Vec<Value> = (0..nr).map(|_| { rn += 1; self.rule(format!("rule {}", rn), true) }).collect();
            for r in &rules {
                if r["rk"] == "ok" {
                    pats.push(r["pat"].clone());
                }
            }
            let name = if path == "factory" { if self.rng.chance(1, 12) { *self.rng.pick(&["rewrite", "REWRITE", ""]) } else { "Rewrite" } } else { *self.rng.pick(&["Rewrite", "Rewrite", "my rules", ""]) };
            let mut c = json!({"nk":"str","name":name,"en": *self.rng.pick(&["absent", "absent", "absent", "true", "true", "false", "null", "str", "num"]),
                               "body":"rules","rules":rules});
            if self.rng.chance(1, 20) {
                c["nk"] = json!(*self.rng.pick(&["absent", "num", "null"]));
                c["name"] = json!("");
            }
            if self.rng.chance(1, 25) {
                c["body"] = json!(*self.rng.pick(&["norewrites", "rewritesobj"]));
                c["rules"] = json!([]);
            }
            cfgs.push(c);
        }
        let nm = self.rng.range(1, 5);
        let msgs: Vec<Value> = (0..nm).map(|_| self.msg(&pats)).collect();
        (path.to_string(), cfgs, msgs)
    }
}

fn main() {
    quiet_panics();
    let a = Args::from_env();
    let tmp = a.str("--tmp", "/verif/work/X06/tmp");
    let dirs = Dirs { empty: format!("{}/empty", tmp), tmp: tmp.clone() };
    std::fs::create_dir_all(&dirs.empty).unwrap();
    let mut t = Trace::create(&a.str("--out", "trace.ndjson"));
    let seed = a.num("--seed", 1);
    let sample = a.num("--sample", 300);
    let (mut replayed, mut fast, mut slow, mut drift, mut pred_not_ok, mut ncases) = (0u64, 0u64, 0u64, 0u64, 0u64, 0u64);
    let mut drift_samples: Vec<Value> = Vec::new();
    let mut tag_sent: BTreeMap<String, u64> = BTreeMap::new();
    let mut paths: BTreeMap<String, u64> = BTreeMap::new();
    let mut bump = |k: &str, n: u64| {
        *paths.entry(k.to_string()).or_insert(0) += n;
    };

    // ---- TLC scenarios with predicted events
    if let Some(f) = a.get("--scenarios") {
        let scns = read_ndjson(f);
        let every = (scns.len() as u64 / sample.max(1)).max(1);
        for (si, scn) in scns.iter().enumerate() {
            let case = si as u64;
            let path = scn["path"].as_str().unwrap();
            let cfgs = scn["cfgs"].as_array().unwrap();
            let msgs = scn["msgs"].as_array().unwrap();
            let alt = si % 2 == 1;
            let taps = (si / 2) % 2 == 1;
            let events = run_case(path, cfgs, msgs, &dirs, alt, taps);
            replayed += 1;
            let pred = scn["pred"]["events"].as_array().unwrap();
            let same = events.len() == pred.len() && events.iter().zip(pred.iter()).all(|(e, p)| strip(e) == *p)
                && events.last().map(|e| e["ev"] == "end" && e["chain"] == e["ret"]).unwrap_or(false);
            let contract_ok = scn["pred"]["ok"] == true;
            if !contract_ok {
                pred_not_ok += 1;
            }
            if !same {
                drift += 1;
                if drift_samples.len() < 4 {
                    drift_samples.push(json!({"case": case, "sub": scn["sub"], "predicted": pred, "observed": events}));
                }
            }
            bump(&format!("scn_{}", scn["sub"].as_str().unwrap()), 1);
            if scn["pred"]["kf"] == true {
                bump("scn_needs_known_finding", 1);
            }
            // besides every n-th case, the first cases of every path tag go to TLC (so that every branch of the contract is also
            // exercised by trace validation, whatever the order TLC emitted the scenarios in)
            let mut rare = false;
            for tg in scn["pred"]["tags"].as_array().unwrap() {
                let n = tag_sent.entry(tg.as_str().unwrap().to_string()).or_insert(0);
                if *n < 3 {
                    rare = true;
                }
            }
            if rare {
                for tg in scn["pred"]["tags"].as_array().unwrap() {
                    *tag_sent.get_mut(tg.as_str().unwrap()).unwrap() += 1;
                }
            }
            // cases that are accepted only through a known-finding deviation go to TLC as well (they are reported, not hidden)
            if same && contract_ok && scn["pred"]["kf"] != true && !rare && (replayed % every != 0) {
                fast += 1;
            } else {
                slow += 1;
                t.ev(json!({"ev":"reset","case":case,"hdr":{"path":path,"src":"tlc","sub":scn["sub"],"cfgs":cfgs,"n":msgs.len(),"alt":alt,"taps":taps}}));
                for e in events {
                    t.ev(e);
                }
                ncases += 1;
            }
        }
    }

    // ---- seeded random cases beyond the bounds
    let n_random = a.num("--random", 0);
    for r in 0..n_random {
        let case = 10_000_000 + r;
        let mut g = Gen { rng: Rng::new(seed.wrapping_mul(0x9E37_79B9_7F4A_7C15).wrapping_add(r)) };
        let (path, cfgs, msgs) = g.case();
        let alt = g.rng.chance(1, 2);
        let taps = g.rng.chance(1, 2);
        let events = run_case(&path, &cfgs, &msgs, &dirs, alt, taps);
        t.ev(json!({"ev":"reset","case":case,"hdr":{"path":path,"src":"random","sub":"random","cfgs":cfgs,"n":msgs.len(),"alt":alt,"taps":taps}}));
        for e in events {
            t.ev(e);
        }
        ncases += 1;
    }
    t.flush();
    let _ = std::fs::remove_file(format!("{}/x06_export_{}.dlt", dirs.tmp, std::process::id()));
    let summary = json!({"cases": ncases, "lines": t.lines, "replayed": replayed, "fast_path": fast, "slow_path": slow, "drift": drift,
        "predicted_not_ok": pred_not_ok, "paths": paths, "drift_samples": drift_samples, "random": n_random});
    if let Some(p) = a.get("--summary") {
        std::fs::write(p, summary.to_string()).unwrap();
    }
    eprintln!("{}", summary);
}
