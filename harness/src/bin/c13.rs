//! C13 driver: assembles REAL adlt pipelines on threads exactly as convert.rs (595-657) / remote.rs (2131-2191) wire them
//!   producer -> [sync_channel] -> parse_lifecycles_buffered_from_stream -> [..] -> plugins_process_msgs (optional)
//!            -> [..] -> buffer_sort_messages (optional) -> [..] -> filter_as_streams (optional) -> [..] -> consumer
//! every send through adlt::utils::sync_sender_send_delay_if_full, channel capacities 0/1/2/7/64, producer / consumer
//! pacing scripts (bursts, stalls at chosen indices, early consumer drop) taken from TLC scenarios (spec/Pipeline.tla)
//! and seeds. Each case first records the *reference*: the same pipeline in the same process with channels that can
//! never fill. The driver records what the last receiver saw (spec/PipelineTrace.tla decides), the hook counter
//! adlt::verif::SEND_FULL_HITS (proof that the Full branch ran) and whether every thread ended after eos / drop.
use adlt::dlt::DltMessage;
use adlt::lifecycle::{LifecycleId, LifecycleItem};
use adlt::plugins::plugin::{Plugin, PluginState};
use adlt::utils::sync_sender_send_delay_if_full;
use std::hash::{BuildHasher, Hash};
use std::sync::atomic::Ordering;
use std::sync::mpsc::{channel, sync_channel, Receiver, RecvTimeoutError, Sender};
use std::sync::{Arc, RwLock};
use std::thread::JoinHandle;
use std::time::{Duration, Instant};
use vh::*;

// websocket client / server start of the C15 driver (read-only include)
#[path = "c15/ws.rs"]
mod ws;

// the hasher type of adlt's lifecycle map (nohash) without naming the nohash crate
trait HasherOf {
    type S;
}
impl<K: Eq + Hash, V, M, S: BuildHasher> HasherOf for evmap::ReadHandle<K, V, M, S> {
    type S = S;
}
type LcS = <adlt::lifecycle::LcsRType as HasherOf>::S;
type LcsW = evmap::WriteHandle<LifecycleId, LifecycleItem, (), LcS>;
type LcsR = adlt::lifecycle::LcsRType;

const RECV_TIMEOUT: Duration = Duration::from_secs(120); // hang detection only
const STALL_BOUND: Duration = Duration::from_secs(120); // the same for the polling consumer styles
const JOIN_BOUND: Duration = Duration::from_secs(120); // "every stage terminates": generous, the machine may be loaded

/// harness-side plugin: drops messages of context "SKIP" (the stage function plugins_process_msgs is the code under test)
struct DropSkip {
    state: Arc<RwLock<PluginState>>,
    seen_handle: bool,
}
impl Plugin for DropSkip {
    fn name(&self) -> &str {
        "verif-drop-skip"
    }
    fn enabled(&self) -> bool {
        true
    }
    fn state(&self) -> Arc<RwLock<PluginState>> {
        self.state.clone()
    }
    fn set_lifecycle_read_handle(&mut self, _lcs_r: &LcsR) {
        self.seen_handle = true;
    }
    fn sync_all(&mut self) {}
    fn process_msg(&mut self, msg: &mut DltMessage) -> bool {
        msg.ctid().map(|c| *c != char4("SKIP")).unwrap_or(true)
    }
}

#[derive(Clone, Debug)]
struct PipeSpec {
    remote_wiring: bool, // plugin thread as in remote.rs (lifecycle handle + sync_all); no filter stage there
    plugin: u8,          // 0 none, 1 drop-skip (harness), 2 FileTransfer (real), 3 both
    sort: bool,
    filter: bool,
    filter_kind: u8, // 0: one negative filter (apid DROP), 1: positive filters (apid APID / ecu ECUD), 2: positive + negative (ctid SKIP)
}
impl PipeSpec {
    fn stages(&self) -> Vec<&'static str> {
        let mut v = vec!["producer", "lc"];
        if self.plugin > 0 {
            v.push("plugin");
        }
        if self.sort {
            v.push("sort");
        }
        if self.filter {
            v.push("filter");
        }
        v
    }
    fn nchan(&self) -> usize {
        self.stages().len()
    }
}

/// what a consumer sees of one lifecycle table entry
#[derive(Clone, Debug, PartialEq)]
struct LcView {
    id: u32,
    ecu: String,
    nr: u32,
    start: i64,
    stop: i64,
    resume: bool,
    refresh_idx: u32,
}
fn lc_view(lc: &adlt::lifecycle::Lifecycle) -> LcView {
    let rel = |us: u64| -> i64 { if us == u64::MAX { -1 } else { (us as i64 - BASE_US as i64) / 1000 } };
    LcView { id: lc.id(), ecu: format!("{}", lc.ecu), nr: lc.nr_msgs, start: rel(lc.start_time), stop: rel(lc.end_time()), resume: lc.is_resume(), refresh_idx: lc.lcs_w_refresh_idx }
}
fn view_json(v: &LcView) -> Value {
    json!({"id":v.id,"ecu":v.ecu,"nr":v.nr,"start":v.start,"stop":v.stop,"resume":v.resume})
}

/// table observer: follows the lifecycle table incrementally exactly as src/bin/adlt/remote.rs process_file_context does
/// (remember the largest lcs_w_refresh_idx seen; on every poll every entry with a larger one is new / updated) and folds
/// what it gets. `snaps` (optional) keeps every distinct table content seen, for the refresh-index binding.
#[derive(Default)]
struct Observer {
    last: u32,
    fold: std::collections::BTreeMap<u32, LcView>,
    polls: u64,
    record: bool,
    snaps: Vec<Vec<LcView>>,
}
impl Observer {
    fn poll(&mut self, lcs_r: &LcsR) {
        if let Some(rd) = lcs_r.read() {
            self.polls += 1;
            let mut new_last = self.last;
            let mut snap = Vec::new();
            for (_id, b) in &rd {
                if let Some(lc) = b.get_one() {
                    if lc.lcs_w_refresh_idx > self.last {
                        new_last = new_last.max(lc.lcs_w_refresh_idx);
                        self.fold.insert(lc.id(), lc_view(lc));
                    }
                    if self.record {
                        snap.push(lc_view(lc));
                    }
                }
            }
            self.last = new_last;
            if self.record {
                snap.sort_by_key(|v| v.id);
                if self.snaps.last() != Some(&snap) && self.snaps.len() < 2000 {
                    self.snaps.push(snap);
                }
            }
        }
    }
}

#[derive(Clone, Debug, Default)]
struct Pacing {
    p_stalls: Vec<(usize, u64)>, // (before sending message i, ms)
    c_stalls: Vec<(usize, u64)>, // (after receiving i messages, ms)
    p_each_us: u64,
    c_each_us: u64,
    drop_at: Option<usize>,
    c_style: u8,         // 0 blocking recv, 1 loop of short recv_timeouts, 2 try_recv + sleep polling, 3 all in turn
    c_poll_us: u64,      // sleep of the polling consumer (0 = 1 ms)
    poll_every: usize,   // the consumer polls the lifecycle table every poll_every messages (0 = every message)
    obs_sleep_us: u64,   // pacing of the observer thread (0 = 500 us)
}

#[derive(Debug)]
enum Ended {
    Eos,
    Dropped(usize),
    RecvTimeout,
}

struct RunOut {
    recv: Vec<(i64, u32, u32)>, // idx tag, lifecycle id, hash
    ended: Ended,
    joined: Vec<String>,
    timeouts: Vec<String>,
    panics: Vec<(String, String)>,
    table: Option<Vec<Value>>,
    full_hits: u64,
    file_hashes: Vec<u32>,                 // per received message: hash of what a DLT file keeps of it (no index, no lifecycle)
    folds: Vec<(String, u64, Vec<Value>)>, // observer, number of polls, folded table (after one final poll)
    poll_seq: Vec<Value>,                  // distinct (max refresh idx, content hash) pairs seen by the observer thread
}

/// hash of the fields a written DLT file keeps
fn file_hash(m: &DltMessage) -> u32 {
    let mut b = Vec::with_capacity(40 + m.payload.len());
    b.extend_from_slice(&m.reception_time_us.to_le_bytes());
    b.extend_from_slice(&m.ecu.as_u32le().to_le_bytes());
    b.extend_from_slice(&m.timestamp_dms.to_le_bytes());
    b.push(m.standard_header.mcnt);
    if let Some(e) = &m.extended_header {
        b.push(e.verb_mstp_mtin);
        b.push(e.noar);
        b.extend_from_slice(&e.apid.as_u32le().to_le_bytes());
        b.extend_from_slice(&e.ctid.as_u32le().to_le_bytes());
    }
    b.extend_from_slice(&m.payload);
    hash31(&b)
}

fn msg_hash(m: &DltMessage) -> u32 {
    let mut b = Vec::with_capacity(48 + m.payload.len());
    b.extend_from_slice(&m.index.to_le_bytes());
    b.extend_from_slice(&m.reception_time_us.to_le_bytes());
    b.extend_from_slice(&m.ecu.as_u32le().to_le_bytes());
    b.extend_from_slice(&m.timestamp_dms.to_le_bytes());
    b.push(m.standard_header.htyp);
    b.push(m.standard_header.mcnt);
    b.extend_from_slice(&m.standard_header.len.to_le_bytes());
    if let Some(e) = &m.extended_header {
        b.push(e.verb_mstp_mtin);
        b.push(e.noar);
        b.extend_from_slice(&e.apid.as_u32le().to_le_bytes());
        b.extend_from_slice(&e.ctid.as_u32le().to_le_bytes());
    }
    b.extend_from_slice(&m.payload);
    if let Some(t) = &m.payload_text {
        b.extend_from_slice(t.as_bytes());
    }
    hash31(&b)
}

fn spawn_stage<T: Send + 'static>(name: &'static str, done: &Sender<(String, Option<String>)>, f: impl FnOnce() -> T + Send + 'static) -> JoinHandle<Option<T>> {
    let done = done.clone();
    std::thread::Builder::new()
        .name(name.to_string())
        .spawn(move || {
            let r = catch(std::panic::AssertUnwindSafe(f));
            let (v, p) = match r {
                Ok(v) => (Some(v), None),
                Err(p) => (None, Some(p)),
            };
            let _ = done.send((name.to_string(), p));
            v
        })
        .expect("spawn")
}

fn make_plugins(kind: u8) -> Vec<Box<dyn Plugin + Send>> {
    let mut v: Vec<Box<dyn Plugin + Send>> = Vec::new();
    if kind & 2 != 0 {
        let mut eac = adlt::utils::eac_stats::EacStats::default();
        if let Some(p) = adlt::plugins::factory::get_plugin(json!({"name":"FileTransfer"}).as_object().unwrap(), &mut eac) {
            v.push(p);
        }
    }
    if kind & 1 != 0 {
        v.push(Box::new(DropSkip { state: Arc::new(RwLock::new(PluginState::default())), seen_handle: false }));
    }
    v
}

/// one run of the real pipeline. caps: one capacity per channel, in pipeline order.
fn run_pipeline(spec: &PipeSpec, msgs: &[DltMessage], caps: &[usize], pacing: &Pacing) -> RunOut {
    run_pipeline_live(spec, msgs, caps, pacing, None)
}
/// `live`: a LIVE source - after the given messages the producer goes on sending copies of this message (the same ECU keeps logging:
/// reception time and time stamp advance by 10 ms per copy) and stops only when its send fails (or, as a safety net of the driver,
/// after JOIN_BOUND).  Used for consumer-drop cases: with a source that never ends by itself "every stage terminates" needs the
/// disconnect to travel back through every stage.
fn run_pipeline_live(spec: &PipeSpec, msgs: &[DltMessage], caps: &[usize], pacing: &Pacing, live: Option<DltMessage>) -> RunOut {
    assert_eq!(caps.len(), spec.nchan());
    let full_before = adlt::verif::SEND_FULL_HITS.load(Ordering::SeqCst);
    let (done_tx, done_rx) = channel::<(String, Option<String>)>();
    let mut ci = 0;
    let mut next_cap = || {
        ci += 1;
        caps[ci - 1]
    };
    // setup (thread) filter chain - same order of construction as convert.rs
    let (tx_for_parse_thread, rx_from_parse_thread) = sync_channel::<DltMessage>(next_cap());
    let (tx_for_lc_thread, rx_from_lc_thread) = sync_channel::<DltMessage>(next_cap());
    let (lcs_r, lcs_w): (LcsR, LcsW) = evmap::Options::default().with_hasher(LcS::default()).construct::<LifecycleId, LifecycleItem>();
    let lc_thread = spawn_stage("lc", &done_tx, move || {
        adlt::lifecycle::parse_lifecycles_buffered_from_stream(lcs_w, rx_from_parse_thread, &|m| sync_sender_send_delay_if_full(m, &tx_for_lc_thread))
    });
    let mut others: Vec<JoinHandle<Option<()>>> = Vec::new();
    let rx_from_plugin_thread = if spec.plugin > 0 {
        let (tx_for_plugin_thread, rx_from_plugin_thread) = sync_channel::<DltMessage>(next_cap());
        let mut plugins_active = make_plugins(spec.plugin);
        let lcs_r_for_plugins = lcs_r.clone();
        let remote = spec.remote_wiring;
        others.push(spawn_stage("plugin", &done_tx, move || {
            if remote {
                plugins_active.iter_mut().for_each(|p| p.set_lifecycle_read_handle(&lcs_r_for_plugins));
            }
            if let Ok(mut plugins_active) =
                adlt::plugins::plugins_process_msgs(rx_from_lc_thread, &|m| sync_sender_send_delay_if_full(m, &tx_for_plugin_thread), plugins_active)
            {
                if remote {
                    plugins_active.iter_mut().for_each(|p| p.sync_all());
                }
            }
        }));
        rx_from_plugin_thread
    } else {
        rx_from_lc_thread
    };
    let rx_final = if spec.sort {
        let sort_thread_lcs_r = lcs_r.clone();
        let (tx_for_sort_thread, rx_from_sort_thread) = sync_channel::<DltMessage>(next_cap());
        others.push(spawn_stage("sort", &done_tx, move || {
            let _ = adlt::utils::buffer_sort_messages(
                rx_from_plugin_thread,
                &|m| sync_sender_send_delay_if_full(m, &tx_for_sort_thread),
                &sort_thread_lcs_r,
                3,
                20 * adlt::utils::US_PER_SEC,
            );
        }));
        rx_from_sort_thread
    } else {
        rx_from_plugin_thread
    };
    let t4_input: Receiver<DltMessage> = if spec.filter {
        let fj: &[&str] = match spec.filter_kind {
            0 => &[r#"{"type":1,"apid":"DROP"}"#],
            1 => &[r#"{"type":0,"apid":"APID"}"#, r#"{"type":0,"ecu":"ECUD"}"#],
            _ => &[r#"{"type":0,"apid":"APID"}"#, r#"{"type":1,"ctid":"SKIP"}"#, r#"{"type":0,"apid":"DA1"}"#],
        };
        let filters: Vec<adlt::filter::Filter> = if spec.filter_kind == 9 {
            // what `adlt convert --filter_file` reads from a dlt-convert format file
            adlt::filter::functions::filters_from_convert_format(std::io::BufReader::new(CONVERT_FILTER_FILE)).expect("filters")
        } else {
            fj.iter().map(|j| adlt::filter::Filter::from_json(j).expect("filter")).collect()
        };
        let (tx_filter, rx_filter) = sync_channel::<DltMessage>(next_cap());
        others.push(spawn_stage("filter", &done_tx, move || {
            let _ = adlt::filter::functions::filter_as_streams(&filters, &rx_final, &|m| sync_sender_send_delay_if_full(m, &tx_filter));
        }));
        rx_filter
    } else {
        rx_final
    };
    // producer (as convert.rs:849 / remote.rs:2277: the same helper, stop on error, then drop the sender)
    let input: Vec<DltMessage> = msgs.to_vec();
    let pp = pacing.clone();
    let mut live_src = live;
    let live_base_us = msgs.iter().map(|m| m.reception_time_us).max().unwrap_or(0);
    let live_first_index = msgs.iter().map(|m| m.index).max().unwrap_or(0);
    others.push(spawn_stage("producer", &done_tx, move || {
        for (i, m) in input.into_iter().enumerate() {
            for (at, ms) in &pp.p_stalls {
                if *at == i {
                    std::thread::sleep(Duration::from_millis(*ms));
                }
            }
            if pp.p_each_us > 0 {
                std::thread::sleep(Duration::from_micros(pp.p_each_us));
            }
            if sync_sender_send_delay_if_full(m, &tx_for_parse_thread).is_err() {
                live_src = None;
                break;
            }
        }
        if let Some(l) = live_src {
            let t0 = Instant::now();
            let mut k: u64 = 0;
            loop {
                k += 1;
                let mut m = l.clone();
                m.reception_time_us = live_base_us + k * 10_000;
                m.timestamp_dms = l.timestamp_dms.wrapping_add(((live_base_us - l.reception_time_us) / 100) as u32).wrapping_add((k * 100) as u32);
                m.index = live_first_index.wrapping_add(k as u32);
                if sync_sender_send_delay_if_full(m, &tx_for_parse_thread).is_err() {
                    break;
                }
                if k % 256 == 0 && t0.elapsed() > JOIN_BOUND + Duration::from_secs(5) {
                    break; // safety net only: the contract has seen the join time-outs by then
                }
            }
        }
        drop(tx_for_parse_thread);
    }));
    drop(done_tx);
    // table observers: the consumer itself (polls while receiving) and a separate thread at its own pace
    let stop_obs = Arc::new(std::sync::atomic::AtomicBool::new(false));
    let obs_thread = {
        let lcs_r = lcs_r.clone();
        let stop = stop_obs.clone();
        let nap = Duration::from_micros(if pacing.obs_sleep_us == 0 { 500 } else { pacing.obs_sleep_us });
        std::thread::spawn(move || {
            let mut o = Observer { record: true, ..Default::default() };
            while !stop.load(Ordering::SeqCst) {
                o.poll(&lcs_r);
                std::thread::sleep(nap);
            }
            o
        })
    };
    let mut obs_consumer = Observer::default();
    let poll_every = pacing.poll_every.max(1);
    // consumer = this thread
    let mut recv: Vec<(i64, u32, u32)> = Vec::new();
    let mut file_hashes: Vec<u32> = Vec::new();
    let mut rx_opt = Some(t4_input);
    let ended;
    loop {
        if pacing.drop_at == Some(recv.len()) {
            drop(rx_opt.take());
            ended = Ended::Dropped(recv.len());
            break;
        }
        // how this consumer waits for the next message: parked in a blocking receive, a loop of short recv_timeouts,
        // or polling with try_recv + sleep (never parked; remote.rs drains its pipeline like that), or all of them in turn.
        // The wait is bounded (no message and no end of stream for STALL_BOUND = a `stalled` event, data for the contract).
        let style = if pacing.c_style == 3 { (recv.len() % 3) as u8 } else { pacing.c_style };
        let rxr = rx_opt.as_ref().unwrap();
        let got = match style {
            0 => rxr.recv_timeout(RECV_TIMEOUT),
            1 => {
                let t0 = Instant::now();
                loop {
                    match rxr.recv_timeout(Duration::from_millis(3)) {
                        Err(RecvTimeoutError::Timeout) if t0.elapsed() < STALL_BOUND => continue,
                        r => break r,
                    }
                }
            }
            _ => {
                let t0 = Instant::now();
                let nap = Duration::from_micros(if pacing.c_poll_us == 0 { 1000 } else { pacing.c_poll_us });
                loop {
                    match rxr.try_recv() {
                        Ok(m) => break Ok(m),
                        Err(std::sync::mpsc::TryRecvError::Disconnected) => break Err(RecvTimeoutError::Disconnected),
                        Err(std::sync::mpsc::TryRecvError::Empty) => {
                            if t0.elapsed() >= STALL_BOUND {
                                break Err(RecvTimeoutError::Timeout);
                            }
                            std::thread::sleep(nap);
                        }
                    }
                }
            }
        };
        match got {
            Ok(m) => {
                let idx = if m.payload.len() >= 4 { u32::from_le_bytes(m.payload[0..4].try_into().unwrap()) as i64 } else { -1 };
                recv.push((idx, m.lifecycle, msg_hash(&m)));
                file_hashes.push(file_hash(&m));
                if recv.len() % poll_every == 0 {
                    obs_consumer.poll(&lcs_r);
                }
                for (at, ms) in &pacing.c_stalls {
                    if *at == recv.len() {
                        std::thread::sleep(Duration::from_millis(*ms));
                    }
                }
                if pacing.c_each_us > 0 {
                    std::thread::sleep(Duration::from_micros(pacing.c_each_us));
                }
            }
            Err(RecvTimeoutError::Disconnected) => {
                ended = Ended::Eos;
                break;
            }
            Err(RecvTimeoutError::Timeout) => {
                ended = Ended::RecvTimeout;
                break;
            }
        }
    }
    // every thread has to end now (the only time-out of this driver; generous)
    let want: Vec<String> = spec.stages().iter().map(|s| s.to_string()).collect();
    let mut joined: Vec<String> = Vec::new();
    let mut panics = Vec::new();
    // (after a stall the pipeline is known to hang: do not wait the full bound for its threads again)
    let deadline = Instant::now() + if matches!(ended, Ended::RecvTimeout) { Duration::from_secs(5) } else { JOIN_BOUND };
    while joined.len() < want.len() {
        let left = deadline.saturating_duration_since(Instant::now());
        match done_rx.recv_timeout(left) {
            Ok((name, p)) => {
                if let Some(p) = p {
                    panics.push((name.clone(), p));
                }
                joined.push(name);
            }
            Err(_) => break,
        }
    }
    let timeouts: Vec<String> = want.iter().filter(|s| !joined.contains(s)).cloned().collect();
    joined.sort();
    let full_hits = adlt::verif::SEND_FULL_HITS.load(Ordering::SeqCst) - full_before;
    let mut table = None;
    let mut folds = Vec::new();
    let mut poll_seq = Vec::new();
    stop_obs.store(true, Ordering::SeqCst);
    let obs_t = obs_thread.join().ok();
    if joined.iter().any(|s| s == "lc") {
        if let Ok(Some(lcs_w)) = lc_thread.join() {
            let mut final_views: Vec<LcView> = Vec::new();
            if let Some(rd) = lcs_r.read() {
                for (_id, b) in &rd {
                    if let Some(lc) = b.get_one() {
                        final_views.push(lc_view(lc));
                    }
                }
                final_views.sort_by_key(|v| v.id);
                table = Some(final_views.iter().map(view_json).collect());
            }
            // one final poll of every observer (the lifecycle stage has returned), then what each of them holds
            let mut observers = vec![("consumer".to_string(), obs_consumer)];
            if let Some(o) = obs_t {
                observers.push(("thread".to_string(), o));
            }
            for (who, o) in observers.iter_mut() {
                o.poll(&lcs_r);
                folds.push((who.clone(), o.polls, o.fold.values().map(view_json).collect()));
                if o.record {
                    // refresh-index binding: table contents seen (restricted to the lifecycles of the final table - removed
                    // entries are never withdrawn under the incremental rule, that is another area's finding) with the
                    // largest refresh index they carry
                    let ids: Vec<u32> = final_views.iter().map(|v| v.id).collect();
                    let mut lastp: Option<(u32, u32)> = None;
                    for snap in &o.snaps {
                        let r: Vec<&LcView> = snap.iter().filter(|v| ids.contains(&v.id)).collect();
                        let p = (r.iter().map(|v| v.refresh_idx).max().unwrap_or(0), hash31(format!("{:?}", r).as_bytes()));
                        if lastp != Some(p) {
                            poll_seq.push(json!({"idx":p.0,"h":p.1}));
                            lastp = Some(p);
                        }
                    }
                }
            }
            drop(lcs_w);
        }
    }
    if timeouts.is_empty() {
        for h in others {
            let _ = h.join();
        }
    }
    RunOut { recv, ended, joined, timeouts, panics, table, full_hits, file_hashes, folds, poll_seq }
}

// ------------------------------------------------------------------------------------------------ streams
/// clean boots on 1-3 ECUs, monotone reception times, sane timestamps (the detector's own corner cases are C05's)
fn gen_stream(rng: &mut Rng, n: usize, long_span: bool) -> Vec<DltMessage> {
    let n_ecus = rng.range(1, 3) as usize;
    let mut rx_ms: u64 = 1_000_000 + rng.below(1000);
    let mut boot: Vec<u64> = (0..n_ecus).map(|_| rx_ms - rng.range(5_000, 40_000)).collect();
    let step = if long_span { *rng.pick(&[1500u64, 3000, 6000]) } else { *rng.pick(&[20u64, 200]) };
    let mut v = Vec::with_capacity(n);
    for i in 0..n {
        if !rng.chance(1, 4) {
            rx_ms += rng.range(0, step);
        }
        let e = rng.below(n_ecus as u64) as usize;
        if long_span && rng.chance(1, 70) {
            rx_ms += 200_000; // a clean reboot after a long silence
            boot[e] = rx_ms - rng.range(3_000, 9_000);
        }
        let jitter = rng.below(50);
        let ts_ms = rx_ms - jitter - boot[e];
        let mut pl = (i as u32).to_le_bytes().to_vec();
        let extra = rng.below(12) as usize;
        pl.extend_from_slice(&rng.bytes(extra));
        let mut m = mk_msg(i as u32, ["ECUA", "ECUB", "ECUC"][e], BASE_US + rx_ms * 1000, (ts_ms * 10) as u32, pl);
        let eh = m.extended_header.as_mut().unwrap();
        if rng.chance(1, 6) {
            eh.apid = char4("DROP");
        }
        if rng.chance(1, 8) {
            eh.ctid = char4("SKIP");
        }
        v.push(m);
    }
    v
}

/// rewrite the tail of a stream: a new ECU appears shortly before the end (its lifecycle is still unconfirmed when the
/// input ends) while the other ECUs keep logging - the end-of-stream publish and the final refresh then both matter
fn add_late_ecu(rng: &mut Rng, msgs: &mut [DltMessage]) {
    let n = msgs.len();
    if n < 8 {
        return;
    }
    let tail = (n / 6).clamp(3, 25);
    let s = n - tail;
    let mut rx_ms = msgs[s - 1].reception_time_us / 1000;
    let mut boot_d: Option<u64> = None;
    for (i, m) in msgs.iter_mut().enumerate().skip(s) {
        rx_ms += rng.range(50, 800);
        let mut off = m.reception_time_us / 1000 - (m.timestamp_dms as u64) / 10; // boot time (+ jitter) of the message's ECU
        if off > rx_ms {
            off = rx_ms - 3000;
        }
        if i == s || rng.chance(1, 2) {
            let b = *boot_d.get_or_insert(rx_ms - 4000);
            m.ecu = char4("ECUD");
            m.timestamp_dms = ((rx_ms - b - rng.below(30)) * 10) as u32;
        } else {
            m.timestamp_dms = ((rx_ms - off) * 10) as u32;
        }
        m.reception_time_us = rx_ms * 1000;
    }
}

/// interim lifecycles that get merged again: a message whose timestamp is (nearly) zero in the middle of a boot looks like
/// a reboot (the detector opens a new, buffered lifecycle); the next ordinary message of the ECU pulls that lifecycle's
/// start back before the end of the previous one, so it is merged into it - while the previous one is still buffered
/// (early glitch) or already confirmed (late glitch). Also control requests (the logger's clock) in between.
fn add_glitches(rng: &mut Rng, msgs: &mut [DltMessage]) {
    let n = msgs.len();
    if n < 10 {
        return;
    }
    for _ in 0..rng.range(1, 3) {
        let i = rng.range(2, (n - 3) as u64) as usize;
        if msgs[i].ecu == char4("ECUD") {
            continue;
        }
        if rng.chance(1, 3) {
            let eh = msgs[i].extended_header.as_mut().unwrap();
            eh.verb_mstp_mtin = (1 << 4) | (3 << 1); // control request
            eh.apid = char4("DA1");
            eh.ctid = char4("DC1");
            msgs[i].timestamp_dms = rng.below(100_000) as u32;
        } else {
            // timestamp 0: the detector does not apply its "would move the start by > 60 s" guard to such a lifecycle, so late
            // in a boot it is merged into the already CONFIRMED previous one; a small timestamp: merged while still buffered
            msgs[i].timestamp_dms = if rng.chance(1, 2) { 0 } else { rng.range(10, 20_000) as u32 };
        }
    }
}

/// a lifecycle that is confirmed AND published and still gets merged: ECUB logs a message with timestamp 0 (the detector
/// opens lifecycle 2 for it) and falls silent for > 60 s, so lifecycle 2 is confirmed by the "older than the buffering
/// delay" rule - while its only message is still queued behind the first message of ECUD, which appeared shortly before and
/// is not confirmed yet. ECUB's next ordinary message pulls lifecycle 2 back into the confirmed lifecycle 1: merged, and the
/// published entry is withdrawn (lifecycle/mod.rs 731-741). ECUA keeps the stream going all the time.
fn gen_confirmed_merge_stream(rng: &mut Rng) -> Vec<DltMessage> {
    let mut ev: Vec<(u64, &str, Option<u64>)> = Vec::new(); // (rx ms, ecu, forced timestamp ms)
    let t0: u64 = 130_000 + rng.below(20_000);
    let step = rng.range(1500, 2500);
    let mut t = 0;
    while t < t0 + 135_000 {
        ev.push((t, "ECUA", None));
        let x_silent = t > t0 + 5_000 && t < t0 + 78_000 + rng.below(3) * 1000;
        if !x_silent {
            ev.push((t + 300, "ECUB", None));
        }
        t += step;
    }
    ev.push((t0 + 5_000, "ECUB", Some(0))); // the glitch
    let mut d = t0;
    while d < t0 + 45_000 {
        ev.push((d + 100, "ECUD", None));
        d += rng.range(3000, 6000);
    }
    ev.sort_by_key(|e| e.0);
    let base_ms: u64 = 1_000_000;
    let boots = [("ECUA", base_ms - 30_000), ("ECUB", base_ms - 20_000), ("ECUD", base_ms + t0 - 3_000)];
    ev.iter()
        .enumerate()
        .map(|(i, (rx, ecu, forced))| {
            let rx_ms = base_ms + rx;
            let boot = boots.iter().find(|b| b.0 == *ecu).unwrap().1;
            let ts_ms = forced.unwrap_or(rx_ms - boot - rng.below(40));
            let mut pl = (i as u32).to_le_bytes().to_vec();
            pl.push((i % 251) as u8);
            let mut m = mk_msg(i as u32, ecu, BASE_US + rx_ms * 1000, (ts_ms * 10) as u32, pl);
            if i % 7 == 3 {
                m.extended_header.as_mut().unwrap().apid = char4("DROP");
            }
            m
        })
        .collect()
}

fn spec_from_kinds(kinds: &[String], remote: bool) -> PipeSpec {
    let mut s = PipeSpec { remote_wiring: remote, plugin: 0, sort: false, filter: false, filter_kind: 0 };
    let heap_at = kinds.iter().position(|k| k == "heap");
    for (i, k) in kinds.iter().enumerate().skip(1) {
        match k.as_str() {
            "heap" => s.sort = true,
            "id" => s.plugin |= 2,
            "drop" => {
                if heap_at.map(|h| i < h).unwrap_or(false) {
                    s.plugin |= 1
                } else {
                    s.filter = true
                }
            }
            _ => {}
        }
    }
    if s.filter {
        s.remote_wiring = false;
    }
    s
}

struct Stats {
    cases: u64,
    skipped_ref: u64,
    full_hits: u64,
    hung: bool,
    cases_with_full: u64,
    live_drop_cases: u64,
}

/// reference run + run under test; writes the trace of the case. Returns false if a thread hangs (the process must end).
#[allow(clippy::too_many_arguments)]
fn do_case(t: &mut Trace, st: &mut Stats, case: u64, spec: &PipeSpec, msgs: &[DltMessage], caps: &[usize], pacing: &Pacing, scaled_drop: Option<(usize, usize)>, info: Value) -> bool {
    let big = vec![msgs.len() + 8; spec.nchan()];
    let r = run_pipeline(spec, msgs, &big, &Pacing::default());
    if !r.panics.is_empty() || !r.timeouts.is_empty() || !matches!(r.ended, Ended::Eos) || r.table.is_none() {
        if !r.timeouts.is_empty() || matches!(r.ended, Ended::RecvTimeout) {
            // the pipeline hangs even with channels that never fill: stages that do not terminate / deliver nothing while the
            // consumer is alive - recorded as a stalled case (no contract action matches), the shard stops here
            t.ev(json!({"ev":"reset","case":case,"hdr":{"sorted":spec.sort,"stages":spec.stages(),"observers":[],"ref":[],"reftable":[],
                "caps":caps,"drop_at":-1,"n_in":msgs.len(),"c_style":0,"c_poll_us":0,"max_p_stall_ms":0,"max_c_stall_ms":0,"late_ecu":false,
                "spec":format!("{:?}", spec),"pacing":"reference run","info":info}}));
            t.ev(json!({"ev":"stalled","after":r.recv.len(),"style":0,"in":"reference run (channels that never fill)","not_joined":r.timeouts}));
            t.ev(json!({"ev":"end"}));
            st.cases += 1;
            return false;
        }
        // the reference itself failed (e.g. a detector panic): another property's business, no C13 statement possible
        st.skipped_ref += 1;
        return true;
    }
    let mut pacing = pacing.clone();
    if let Some((da, nout)) = scaled_drop {
        let nref = r.recv.len();
        pacing.drop_at = Some((da * nref).div_ceil(nout.max(1)).min(nref));
    }
    let pacing = &pacing;
    let r_recv = r.recv.clone();
    let refv: Vec<Value> = r.recv.iter().map(|(i, l, h)| json!({"idx":i,"lc":l,"hash":h})).collect();
    t.ev(json!({"ev":"reset","case":case,"hdr":{"sorted":spec.sort,"stages":spec.stages(),"observers":["consumer","thread"],"late_ecu":msgs.iter().any(|m| m.ecu == char4("ECUD")),"ref":refv,"reftable":r.table.unwrap(),
        "caps":caps,"drop_at":pacing.drop_at.map(|x| x as i64).unwrap_or(-1),"n_in":msgs.len(),
        "c_style":pacing.c_style,"c_poll_us":pacing.c_poll_us,"max_p_stall_ms":pacing.p_stalls.iter().map(|x| x.1).max().unwrap_or(0),"max_c_stall_ms":pacing.c_stalls.iter().map(|x| x.1).max().unwrap_or(0),
        "spec":format!("{:?}", spec),"pacing":format!("{:?}", pacing),"info":info}}));
    // consumer-drop cases (drop position inside what the reference delivered): the source is LIVE - it continues with copies of
    // the last ordinary log message the reference delivered (no file-transfer message, not of the harness plugin's SKIP context)
    // OFF unless C13_LIVE_TAIL=1 (an observation mode, not part of the registered check): the statement's streams are finite, and with a
    // source that never ends the UNCHANGED lifecycle stage does not terminate either once its consumer is gone while a lifecycle is
    // still buffered (its `break; // exit. the receiver has stopped` leaves only the release loop, the stage goes on reading its
    // input) - demanding termination there would ask for more than the property states (DESIGN.md 11.10).
    let live = match pacing.drop_at {
        Some(d) if d <= r_recv.len() && std::env::var("C13_LIVE_TAIL").map(|v| v == "1").unwrap_or(false) => {
            let delivered: std::collections::HashSet<i64> = r_recv.iter().map(|e| e.0).collect();
            msgs.iter().rev().find(|m| {
                let idx = if m.payload.len() >= 4 { u32::from_le_bytes(m.payload[0..4].try_into().unwrap()) as i64 } else { -1 };
                delivered.contains(&idx) && m.ctid().map(|c| c != &char4("SKIP")).unwrap_or(false) && !m.is_ctrl_request() && m.noar() <= 2
                    && !m.payload.windows(2).any(|w| w == b"FL")
            }).cloned()
        }
        _ => None,
    };
    let is_live = live.is_some();
    let o = run_pipeline_live(spec, msgs, caps, pacing, live);
    if is_live {
        st.live_drop_cases += 1;
    }
    // `pos` is only a search hint for TLC (where in the reference a message with this tag sits; 0 = nowhere); TLC verifies it
    let pos_of: std::collections::HashMap<i64, usize> = r_recv.iter().enumerate().map(|(j, e)| (e.0, j + 1)).collect();
    for (i, l, h) in &o.recv {
        t.ev(json!({"ev":"recv","idx":i,"lc":l,"hash":h,"pos":pos_of.get(i).copied().unwrap_or(0)}));
    }
    match o.ended {
        Ended::Eos => t.ev(json!({"ev":"eos"})),
        Ended::Dropped(k) => t.ev(json!({"ev":"drop","after":k})),
        Ended::RecvTimeout => t.ev(json!({"ev":"stalled","after":o.recv.len(),"style":pacing.c_style})),
    }
    t.ev(json!({"ev":"full_hits","n":o.full_hits}));
    for (s, p) in &o.panics {
        t.ev(json!({"ev":"panic","stage":s,"msg":p}));
    }
    if matches!(o.ended, Ended::Eos) {
        if let Some(tb) = &o.table {
            t.ev(json!({"ev":"table","t":tb}));
            for (who, polls, fold) in &o.folds {
                t.ev(json!({"ev":"lc_fold","who":who,"polls":polls,"fold":fold}));
            }
            t.ev(json!({"ev":"lc_polls","seq":o.poll_seq}));
        }
    }
    for s in &o.joined {
        t.ev(json!({"ev":"joined","stage":s}));
    }
    for s in &o.timeouts {
        t.ev(json!({"ev":"join_timeout","stage":s}));
    }
    t.ev(json!({"ev":"end"}));
    st.cases += 1;
    st.full_hits += o.full_hits;
    if o.full_hits > 0 {
        st.cases_with_full += 1;
    }
    o.timeouts.is_empty() && !matches!(o.ended, Ended::RecvTimeout)
}

// ------------------------------------------------------------------------------------------------ binary level
// "When the consumer disappears, every stage terminates": the consumer of `adlt remote`'s pipeline is the websocket
// client. Open a log, let the pipeline run into back-pressure (more messages than the bounded channels hold, nobody
// taking them: paused / one_pass), drop the socket WITHOUT `close`, then watch the server's thread census
// (/proc/<pid>/task) return to what it was before the connection, and check that a new connection can open a file.
const REMOTE_CHANNEL_CAPACITY: u64 = 1024 * 1024 + 512 * 1024; // parser->lifecycle + lifecycle->consumer (remote.rs 2131/2132)
const CENSUS_BOUND: Duration = Duration::from_secs(30);

fn write_minimal_log(path: &str, n: usize) {
    use std::io::Write;
    let mut w = std::io::BufWriter::with_capacity(1 << 20, std::fs::File::create(path).expect("create log"));
    for i in 0..n {
        let m = DltMessage {
            index: i as u32,
            reception_time_us: BASE_US + 1_000_000 + i as u64 * 1000,
            ecu: char4("ECUH"),
            timestamp_dms: 10_000 + i as u32 * 10,
            standard_header: adlt::dlt::DltStandardHeader { htyp: 0x20 | 0x10, mcnt: (i & 0xff) as u8, len: 0 },
            extended_header: None,
            payload: vec![],
            payload_text: None,
            lifecycle: 0,
        };
        m.to_write(&mut w).expect("write log");
    }
    w.flush().unwrap();
}
fn census(pid: u32) -> i64 {
    std::fs::read_dir(format!("/proc/{}/task", pid)).map(|d| d.count() as i64).unwrap_or(-1)
}
fn cpu_ticks(pid: u32) -> u64 {
    let s = std::fs::read_to_string(format!("/proc/{}/stat", pid)).unwrap_or_default();
    // fields after the ")" of the command name: state is #3 ... utime #14, stime #15
    let rest = s.rsplit_once(')').map(|x| x.1).unwrap_or("");
    let f: Vec<&str> = rest.split_whitespace().collect();
    f.get(11).and_then(|x| x.parse::<u64>().ok()).unwrap_or(0) + f.get(12).and_then(|x| x.parse::<u64>().ok()).unwrap_or(0)
}
/// wait until the server process burns no CPU any more (every pipeline thread parked or finished); returns (quiet reached, ms)
fn wait_quiet(pid: u32, min_ms: u64, max_ms: u64) -> (bool, u64) {
    let t0 = Instant::now();
    let mut last = cpu_ticks(pid);
    let mut same = 0;
    loop {
        std::thread::sleep(Duration::from_millis(250));
        let now = cpu_ticks(pid);
        same = if now == last { same + 1 } else { 0 };
        last = now;
        let el = t0.elapsed().as_millis() as u64;
        if same >= 3 && el >= min_ms {
            return (true, el);
        }
        if el >= max_ms {
            return (false, el);
        }
    }
}
/// read frames until the reply to a command ("ok:" / "err:" text frame) arrives
fn await_reply(c: &mut ws::Conn, wait: Duration) -> String {
    let deadline = Instant::now() + wait;
    loop {
        match c.recv(deadline.saturating_duration_since(Instant::now()).max(Duration::from_millis(1))) {
            ws::Frame::Text(t) if t.starts_with("ok:") || t.starts_with("err:") => return t.chars().take(80).collect(),
            ws::Frame::Text(_) | ws::Frame::Bin(_) => {}
            ws::Frame::Closed(e) => return format!("closed: {}", e),
            ws::Frame::Timeout => return "timeout".to_string(),
        }
        if Instant::now() >= deadline {
            return "timeout".to_string();
        }
    }
}

fn remote_drop_case(t: &mut Trace, case: u64, adlt_bin: &str, work: &str, shape: &str, log_path: &str, n_msgs: u64, small_path: &str) {
    use std::io::Write;
    let mut server = ws::Server::start(adlt_bin, work, &format!("c13-{}", case), None);
    let pid = server.child.id();
    // a first complete session, so that lazily created process-wide threads (if any) exist before the baseline is taken
    let mut warm_ok = false;
    if let Ok(mut c) = ws::Conn::connect(server.port, Duration::from_secs(20)) {
        let _ = c.send(&format!("open {}", json!({"files":[small_path]})));
        warm_ok = await_reply(&mut c, Duration::from_secs(30)).starts_with("ok:");
        let _ = c.send("close");
        let _ = await_reply(&mut c, Duration::from_secs(30));
        c.close();
    }
    let _ = wait_quiet(pid, 500, 10_000);
    let t0 = Instant::now();
    let mut threads_before = census(pid);
    while t0.elapsed() < Duration::from_secs(10) {
        std::thread::sleep(Duration::from_millis(100));
        let c2 = census(pid);
        if c2 == threads_before {
            break;
        }
        threads_before = c2;
    }
    t.ev(json!({"ev":"reset","case":case,"hdr":{"kind":"remote_drop","shape":shape,"file_msgs":n_msgs,"channel_capacity":REMOTE_CHANNEL_CAPACITY,
        "warmup_ok":warm_ok}}));
    let mut open_reply = String::new();
    let (mut parked, mut quiet_ms) = (false, 0u64);
    let mut threads_during = -1;
    let mut close_reply = String::new(); // only for the close_parked shape
    match ws::Conn::connect(server.port, Duration::from_secs(20)) {
        Ok(mut c) => {
            let onepass = shape != "paused_parked" && shape != "control_small" && shape != "while_streaming";
            let arg = if onepass { json!({"collect":"one_pass_streams","files":[log_path]}) } else { json!({"files":[log_path]}) };
            let _ = c.send(&format!("open {}", arg));
            open_reply = await_reply(&mut c, Duration::from_secs(60));
            match shape {
                "while_parsing" => std::thread::sleep(Duration::from_millis(150)),
                "while_streaming" => {
                    let _ = c.send(&format!("stream {}", json!({"window":[0,2000000],"binary":true})));
                    let t1 = Instant::now();
                    while t1.elapsed() < Duration::from_millis(700) {
                        let _ = c.recv(Duration::from_millis(50)); // take some frames, then vanish
                    }
                }
                _ => {
                    if shape == "paused_parked" {
                        let _ = c.send("pause");
                        let _ = await_reply(&mut c, Duration::from_secs(30));
                    }
                    let r = wait_quiet(pid, 1500, 90_000);
                    parked = r.0;
                    quiet_ms = r.1;
                }
            }
            threads_during = census(pid);
            if shape == "mid_frame" {
                // the beginning of a masked text frame announcing 126 bytes, then nothing
                let _ = c.ws.get_mut().write_all(&[0x81, 0xFE, 0x00, 0x7E, 1, 2, 3, 4, b'o', b'p']);
                let _ = c.ws.get_mut().flush();
            }
            if shape == "close_parked" {
                // the orderly way for the consumer to go away while the pipeline is back-pressured: `close` has to be answered
                let _ = c.send("close");
                close_reply = await_reply(&mut c, Duration::from_secs(30));
                c.close();
            } else {
                // vanish: no close command, no websocket close frame
                let _ = c.ws.get_mut().shutdown(std::net::Shutdown::Both);
                drop(c);
            }
        }
        Err(e) => open_reply = format!("connect failed: {}", e),
    }
    let t1 = Instant::now();
    let mut threads_after = census(pid);
    while threads_after != threads_before && t1.elapsed() < CENSUS_BOUND {
        std::thread::sleep(Duration::from_millis(50));
        threads_after = census(pid);
    }
    let waited_ms = t1.elapsed().as_millis() as u64;
    if let Some(st) = server.exited() {
        t.ev(json!({"ev":"server_exit","status":st}));
    }
    t.ev(json!({"ev":"census","threads_before":threads_before,"threads_during":threads_during,"threads_after":threads_after,"waited_ms":waited_ms,
        "parked":parked,"quiet_after_ms":quiet_ms,"open_reply":open_reply,"close_ok":shape != "close_parked" || close_reply.starts_with("ok:"),"close_reply":close_reply}));
    // the server still serves: a new connection opens a file
    let mut reopen = "no connection".to_string();
    if let Ok(mut c) = ws::Conn::connect(server.port, Duration::from_secs(10)) {
        let _ = c.send(&format!("open {}", json!({"files":[small_path]})));
        reopen = await_reply(&mut c, Duration::from_secs(30));
        let _ = c.send("close");
        let _ = await_reply(&mut c, Duration::from_secs(30));
        c.close();
    }
    t.ev(json!({"ev":"reopen","ok":reopen.starts_with("ok:"),"reply":reopen}));
    t.ev(json!({"ev":"end"}));
    server.stop();
}

// `adlt convert` as a whole (convert.rs 595-657 wiring, producer loop, joins): the same log through the binary and through the
// library pipeline with channels that never fill; and the consumer (writer thread) failing: -o /dev/full
const CONVERT_FILTER_FILE: &[u8] = b"APID CTID ";

fn seq_bag(h: &[u32]) -> (u32, u32) {
    let mut seq: u64 = 7;
    let mut bag: u64 = 0;
    for x in h {
        seq = (seq * 31 + *x as u64) % 2147483647;
        bag = (bag + *x as u64) % 2147483647;
    }
    (seq as u32, bag as u32)
}
fn read_dlt_file(path: &str) -> Vec<DltMessage> {
    match std::fs::File::open(path) {
        Ok(f) => {
            let rd = adlt::utils::LowMarkBufReader::new(f, 512 * 1024, adlt::dlt::DLT_MAX_STORAGE_MSG_SIZE);
            adlt::utils::get_dlt_message_iterator("dlt", 0, rd, adlt::utils::get_new_namespace(), None, None, None).collect()
        }
        Err(_) => Vec::new(),
    }
}

fn convert_case(t: &mut Trace, case: u64, adlt_bin: &str, work: &str, shape: &str, n: usize, seed: u64) {
    use std::io::Write;
    let dir = format!("{}/convert-{}", work, case);
    let _ = std::fs::remove_dir_all(&dir);
    std::fs::create_dir_all(&dir).unwrap();
    let mut rng = Rng::new(seed ^ case);
    let mut msgs = gen_stream(&mut rng, n, true);
    add_late_ecu(&mut rng, &mut msgs);
    let inp = format!("{}/in.dlt", dir);
    {
        let mut w = std::io::BufWriter::new(std::fs::File::create(&inp).unwrap());
        for m in &msgs {
            m.to_write(&mut w).expect("write log");
        }
        w.flush().unwrap();
    }
    // reference: what convert reads, through the same stages with channels that cannot fill
    let parsed = read_dlt_file(&inp);
    let all = shape == "full"; // every optional stage: FileTransfer plugin, time sort, filter
    let spec = PipeSpec { remote_wiring: false, plugin: if all || shape == "plugin" { 2 } else { 0 }, sort: all || shape == "sort",
                          filter: all || shape == "filter", filter_kind: 9 };
    let r = run_pipeline(&spec, &parsed, &vec![parsed.len() + 8; spec.nchan()], &Pacing::default());
    let (rseq, rbag) = seq_bag(&r.file_hashes);
    t.ev(json!({"ev":"reset","case":case,"hdr":{"kind":"convert","shape":shape,"sorted":spec.sort,"n_in":parsed.len(),
        "ref_count":r.file_hashes.len(),"ref_seq":rseq,"ref_bag":rbag,"ref_ok":matches!(r.ended, Ended::Eos) && r.panics.is_empty()}}));
    if !r.timeouts.is_empty() || matches!(r.ended, Ended::RecvTimeout) {
        // the library stages hang on this log even with channels that never fill: recorded as a stalled case; the binary is not run
        t.ev(json!({"ev":"stalled","in":"reference run of the convert case","not_joined":r.timeouts}));
        t.ev(json!({"ev":"end"}));
        let _ = std::fs::remove_dir_all(&dir);
        return;
    }
    let out = if shape == "devfull" { "/dev/full".to_string() } else { format!("{}/out.dlt", dir) };
    let mut args: Vec<String> = vec!["convert".into()];
    if spec.sort {
        args.push("--sort".into());
    }
    if spec.plugin > 0 {
        args.push("--file_transfer=*.bin".into());
        args.push("--file_transfer_path".into());
        args.push(format!("{}/ft", dir));
    }
    if spec.filter {
        let ff = format!("{}/filter.txt", dir);
        std::fs::write(&ff, CONVERT_FILTER_FILE).unwrap();
        args.push("-f".into());
        args.push(ff);
    }
    args.push("-o".into());
    args.push(out.clone());
    args.push(inp.clone());
    let mut child = std::process::Command::new(adlt_bin)
        .args(&args)
        .env("TZ", "UTC")
        .env_remove("RUST_LOG")
        .stdin(std::process::Stdio::null())
        .stdout(std::fs::File::create(format!("{}/stdout.txt", dir)).unwrap())
        .stderr(std::fs::File::create(format!("{}/stderr.txt", dir)).unwrap())
        .spawn()
        .expect("spawn adlt convert");
    let t0 = Instant::now();
    let mut timed_out = false;
    let code = loop {
        match child.try_wait() {
            Ok(Some(st)) => break st.code().unwrap_or(-1),
            _ => {
                if t0.elapsed() > Duration::from_secs(90) {
                    let _ = child.kill();
                    let _ = child.wait();
                    timed_out = true;
                    break -2;
                }
                std::thread::sleep(Duration::from_millis(20));
            }
        }
    };
    t.ev(json!({"ev":"convert_exit","code":code,"timed_out":timed_out,"waited_ms":t0.elapsed().as_millis() as u64}));
    if shape != "devfull" {
        let o: Vec<u32> = read_dlt_file(&out).iter().map(file_hash).collect();
        let (seq, bag) = seq_bag(&o);
        t.ev(json!({"ev":"convert_out","count":o.len(),"seq":seq,"bag":bag}));
    }
    t.ev(json!({"ev":"end"}));
    let _ = std::fs::remove_dir_all(&dir);
}

fn remote_drop_main(a: &Args) {
    let mut t = Trace::create(&a.str("--out", "trace-remote.ndjson"));
    let adlt_bin = a.str("--adlt", "");
    let work = a.str("--work", ".");
    let first = a.num("--first-case", 1_000_000);
    let n_huge = a.num("--huge", 1_700_000);
    let dir = format!("{}/remote-files", work);
    std::fs::create_dir_all(&dir).unwrap();
    let huge = format!("{}/huge.dlt", dir);
    let small = format!("{}/small.dlt", dir);
    write_minimal_log(&huge, n_huge as usize);
    write_minimal_log(&small, 20_000);
    // a normally opened file is drained by the connection thread until `pause` takes effect: that shape needs a longer log
    let huge2 = format!("{}/huge2.dlt", dir);
    let n_huge2 = 2 * n_huge + 200_000;
    if a.str("--remote-drop", "").contains("paused_parked") {
        write_minimal_log(&huge2, n_huge2 as usize);
    }
    let shapes: Vec<&str> = a.str("--remote-drop", "onepass_parked,control_small").split(',').map(|s| match s {
        "onepass_parked" => "onepass_parked",
        "paused_parked" => "paused_parked",
        "while_parsing" => "while_parsing",
        "while_streaming" => "while_streaming",
        "mid_frame" => "mid_frame",
        "close_parked" => "close_parked",
        _ => "control_small",
    }).collect();
    // the cases are independent server processes: run them in parallel threads, write their events one case after the other
    let results: Vec<Vec<Value>> = std::thread::scope(|sc| {
        let hs: Vec<_> = shapes
            .iter()
            .enumerate()
            .map(|(i, shape)| {
                let (adlt_bin, work, huge, small, huge2) = (adlt_bin.clone(), work.clone(), huge.clone(), small.clone(), huge2.clone());
                sc.spawn(move || {
                    let tmp = format!("{}/remote-case-{}.ndjson", work, i);
                    let mut tt = Trace::create(&tmp);
                    let (p, n) = match *shape {
                        "control_small" => (small.clone(), 20_000),
                        "paused_parked" => (huge2.clone(), n_huge2),
                        _ => (huge.clone(), n_huge),
                    };
                    remote_drop_case(&mut tt, first + i as u64, &adlt_bin, &work, shape, &p, n, &small);
                    tt.flush();
                    let v = read_ndjson(&tmp);
                    let _ = std::fs::remove_file(&tmp);
                    v
                })
            })
            .collect();
        hs.into_iter().map(|h| h.join().unwrap_or_default()).collect()
    });
    for evs in results {
        for e in evs {
            t.ev(e);
        }
    }
    let cshapes: Vec<String> = a.str("--convert", "").split(',').filter(|s| !s.is_empty()).map(|s| s.to_string()).collect();
    let n_conv = a.num("--convert-n", 30_000) as usize;
    let seed = a.num("--seed", 1);
    // independent processes / pipelines: in parallel as well (a tree that hangs everywhere costs one bound, not one per case)
    let cresults: Vec<Vec<Value>> = std::thread::scope(|sc| {
        let hs: Vec<_> = cshapes
            .iter()
            .enumerate()
            .map(|(i, sh)| {
                let (adlt_bin, work) = (adlt_bin.clone(), work.clone());
                sc.spawn(move || {
                    let tmp = format!("{}/convert-case-{}.ndjson", work, i);
                    let mut tt = Trace::create(&tmp);
                    convert_case(&mut tt, first + 100 + i as u64, &adlt_bin, &work, sh, n_conv, seed);
                    tt.flush();
                    let v = read_ndjson(&tmp);
                    let _ = std::fs::remove_file(&tmp);
                    v
                })
            })
            .collect();
        hs.into_iter().map(|h| h.join().unwrap_or_default()).collect()
    });
    for evs in cresults {
        for e in evs {
            t.ev(e);
        }
    }
    t.flush();
    let _ = std::fs::remove_file(&huge);
    let _ = std::fs::remove_file(&huge2);
    println!("{}", json!({"cases": shapes.len() + cshapes.len(), "lines": t.lines}));
}

fn main() {
    if std::env::var("VERIF_LOUD").is_err() {
        quiet_panics();
    }
    let a = Args::from_env();
    if a.has("--remote-drop") {
        remote_drop_main(&a);
        return;
    }
    let mut t = Trace::create(&a.str("--out", "trace.ndjson"));
    let seed = a.num("--seed", 1);
    let shard = a.num("--shard", 0);
    let nshards = a.num("--nshards", 1);
    let scn_len = a.num("--scn-len", 40) as usize;
    let max_len = a.num("--max-len", 200) as usize;
    let only: Option<u64> = a.get("--only").map(|s| s.parse().expect("number")); // replay of one case number
    let mut st = Stats { cases: 0, skipped_ref: 0, full_hits: 0, hung: false, cases_with_full: 0, live_drop_cases: 0 };
    let mut case: u64 = 0;
    let mut ok = true;
    if let Some(f) = a.get("--scenarios") {
        for scn in read_ndjson(f) {
            let my = case % nshards == shard && only.map(|o| o == case).unwrap_or(true);
            case += 1;
            if !my || !ok {
                continue;
            }
            let cno = case - 1;
            let mut rng = Rng::new(seed.wrapping_mul(1_000_003).wrapping_add(cno));
            let kinds: Vec<String> = serde_json::from_value(scn["kinds"].clone()).unwrap();
            let spec = spec_from_kinds(&kinds, rng.chance(1, 2));
            let mut caps: Vec<usize> = scn["caps"].as_array().unwrap().iter().map(|x| x.as_u64().unwrap() as usize).collect();
            let mut spec = spec;
            if spec.sort && cno % 2 == 1 {
                // every second scenario with a sorter is also run without it (the unsorted pipeline carries the stronger
                // claim: the exact sequence); the sorter's output channel disappears with it
                spec.sort = false;
                caps.remove(2 + (spec.plugin > 0) as usize);
            }
            let long_span = rng.chance(1, 2);
            let mut msgs = gen_stream(&mut rng, scn_len, long_span);
            let mut rng2 = Rng::new(seed.wrapping_mul(31).wrapping_add(cno) ^ 0x1A7E);
            if rng2.chance(1, 2) {
                add_late_ecu(&mut rng2, &mut msgs);
            }
            if rng2.chance(1, 3) {
                add_glitches(&mut rng2, &mut msgs);
            }
            let mut spec = spec;
            spec.filter_kind = rng2.below(3) as u8;
            // abstract positions (0..nmsgs of the model) are mapped proportionally onto the real stream
            let nm = scn["nmsgs"].as_u64().unwrap().max(1) as usize;
            let nout = scn["nout"].as_u64().unwrap().max(1) as usize;
            let mut pacing = Pacing { poll_every: *rng2.pick(&[1usize, 1, 3, 7]), obs_sleep_us: *rng2.pick(&[200u64, 500, 3000]), ..Default::default() };
            // consumer style: the model's choice ("block" / "poll") refined by the seed (which blocking / polling variant)
            match scn["cstyle"].as_str() {
                Some("poll") => {
                    pacing.c_style = if rng2.chance(1, 5) { 3 } else { 2 };
                    pacing.c_poll_us = *rng2.pick(&[200u64, 1000, 10_000]);
                }
                Some("block") => pacing.c_style = rng2.below(2) as u8,
                _ => {
                    pacing.c_style = *rng2.pick(&[0u8, 0, 1, 2, 2, 3]);
                    pacing.c_poll_us = *rng2.pick(&[200u64, 1000, 10_000]);
                }
            }
            let ps = scn["pstall"].as_u64().unwrap_or(0) as usize;
            if ps > 0 {
                pacing.p_stalls.push(((ps - 1) * msgs.len() / nm, 40));
            }
            let cs = scn["cstall"].as_u64().unwrap_or(0) as usize;
            if cs > 0 {
                pacing.c_stalls.push((((cs - 1) * msgs.len() / nm).max(1), 40));
            }
            let da = scn["drop_at"].as_i64().unwrap();
            let info = json!({"scn": scn});
            // the model's drop position is scaled onto the real reference length (known after the reference run)
            let scaled = if da >= 0 { Some((da as usize, nout)) } else { None };
            ok = do_case(&mut t, &mut st, cno, &spec, &msgs, &caps, &pacing, scaled, info);
            if !ok {
                st.hung = true;
            }
        }
    }
    let n_random = a.num("--random", 0);
    let cap_alphabet = [0usize, 1, 2, 7, 64];
    for r in 0..n_random {
        let my = case % nshards == shard && only.map(|o| o == case).unwrap_or(true);
        case += 1;
        if !my || !ok {
            continue;
        }
        let cno = case - 1;
        let mut rng = Rng::new(seed.wrapping_mul(7_000_003).wrapping_add(r));
        let mut spec = PipeSpec { remote_wiring: rng.chance(1, 2), plugin: rng.below(4) as u8, sort: rng.chance(1, 3), filter: rng.chance(1, 2), filter_kind: 0 };
        if spec.remote_wiring {
            spec.filter = false;
        }
        let n = if rng.chance(1, 10) { rng.below(4) as usize } else { rng.range(10, max_len as u64) as usize };
        let long_span = rng.chance(2, 3);
        let mut msgs = gen_stream(&mut rng, n, long_span);
        let mut rng2 = Rng::new(seed.wrapping_mul(37).wrapping_add(cno) ^ 0x1A7E);
        if rng2.chance(1, 3) {
            add_late_ecu(&mut rng2, &mut msgs);
        }
        if rng2.chance(1, 3) {
            add_glitches(&mut rng2, &mut msgs);
        }
        if r % 12 == 11 {
            msgs = gen_confirmed_merge_stream(&mut rng2);
        }
        let n = msgs.len();
        spec.filter_kind = rng2.below(3) as u8;
        let small = rng.chance(2, 3); // mostly the capacities where the Full branch is the normal case
        let caps: Vec<usize> = (0..spec.nchan()).map(|_| if small { *rng.pick(&cap_alphabet[0..3]) } else { *rng.pick(&cap_alphabet) }).collect();
        let mut pacing = Pacing { poll_every: *rng2.pick(&[1usize, 1, 3, 7]), obs_sleep_us: *rng2.pick(&[200u64, 500, 3000]), ..Default::default() };
        pacing.c_style = *rng2.pick(&[0u8, 0, 1, 2, 2, 3]);
        pacing.c_poll_us = *rng2.pick(&[200u64, 1000, 10_000]);
        for _ in 0..rng.below(4) {
            pacing.p_stalls.push((rng.below(n.max(1) as u64) as usize, rng.range(5, 60)));
        }
        for _ in 0..rng.below(4) {
            pacing.c_stalls.push((rng.below(n.max(1) as u64) as usize, rng.range(5, 60)));
        }
        pacing.p_each_us = *rng.pick(&[0u64, 0, 0, 200, 1000]);
        pacing.c_each_us = *rng.pick(&[0u64, 0, 0, 200, 1000]);
        let mut scaled = None;
        if rng.chance(1, 3) {
            match rng.below(5) {
                0 => pacing.drop_at = Some(0),
                1 => pacing.drop_at = Some(1),
                2 => pacing.drop_at = Some(rng.below(n.max(1) as u64) as usize), // may lie beyond what the pipeline delivers: then the run ends with eos
                3 => pacing.drop_at = Some(n / 2),
                _ => scaled = Some((1, 1)), // at the end: after everything the reference delivered
            }
        }
        ok = do_case(&mut t, &mut st, cno, &spec, &msgs, &caps, &pacing, scaled, json!({"random": r}));
        if !ok {
            st.hung = true;
        }
    }
    // long stalls: ONE stall longer than any time-out a stage could plausibly use (a stalled producer / consumer must only
    // delay). Consecutive case numbers, so the shards run them in parallel.
    let n_long = a.num("--long", 0);
    for r in 0..n_long {
        let my = case % nshards == shard && only.map(|o| o == case).unwrap_or(true);
        case += 1;
        if !my || !ok {
            continue;
        }
        let cno = case - 1;
        let mut rng = Rng::new(seed.wrapping_mul(9_000_011).wrapping_add(r));
        // pipelines with and without filter / sort / plugin stages
        let spec = match r % 6 {
            0 => PipeSpec { remote_wiring: false, plugin: 0, sort: false, filter: true, filter_kind: 0 },
            1 => PipeSpec { remote_wiring: false, plugin: 3, sort: true, filter: true, filter_kind: 0 },
            2 => PipeSpec { remote_wiring: true, plugin: 1, sort: false, filter: false, filter_kind: 0 },
            3 => PipeSpec { remote_wiring: false, plugin: 2, sort: false, filter: true, filter_kind: 0 },
            4 => PipeSpec { remote_wiring: true, plugin: 0, sort: true, filter: false, filter_kind: 0 },
            _ => PipeSpec { remote_wiring: false, plugin: 0, sort: false, filter: false, filter_kind: 0 },
        };
        let n = rng.range(30, 70) as usize;
        // variant: 0 producer stall mid-stream (stream spans minutes: the lifecycle stage already forwards),
        //          1 producer stall while the lifecycle stage still buffers everything (short span, nothing confirmed yet),
        //          2 consumer stall, 3 a 6 s producer stall (thorough)
        let variant = match r % 12 {
            2 | 8 => 2,
            4 | 9 => 1,
            11 => 3,
            _ => 0,
        };
        let mut msgs = gen_stream(&mut rng, n, variant != 1);
        let mut rng2 = Rng::new(seed.wrapping_mul(41).wrapping_add(cno) ^ 0x1A7E);
        if r % 2 == 1 {
            add_late_ecu(&mut rng2, &mut msgs);
        }
        if r % 3 == 2 {
            add_glitches(&mut rng2, &mut msgs);
        }
        let mut spec = spec;
        spec.filter_kind = (r % 3) as u8;
        let caps: Vec<usize> = (0..spec.nchan()).map(|_| *rng.pick(&cap_alphabet[0..3])).collect();
        let mut pacing = Pacing { poll_every: *rng2.pick(&[1usize, 3]), obs_sleep_us: *rng2.pick(&[200u64, 3000]), ..Default::default() };
        pacing.c_style = (r % 4) as u8;
        pacing.c_poll_us = *rng2.pick(&[1000u64, 10_000]);
        let at = rng.range((n / 4) as u64, (3 * n / 4) as u64) as usize;
        match variant {
            2 => pacing.c_stalls.push((at.max(1) / 2 + 1, rng.range(2600, 3200))),
            3 => pacing.p_stalls.push((at, 6000)),
            _ => pacing.p_stalls.push((at, rng.range(2600, 3500))),
        }
        ok = do_case(&mut t, &mut st, cno, &spec, &msgs, &caps, &pacing, None, json!({"long": r, "variant": variant}));
        if !ok {
            st.hung = true;
        }
    }
    t.flush();
    println!(
        "{}",
        json!({"cases": st.cases, "lines": t.lines, "skipped_ref": st.skipped_ref, "live_drop_cases": st.live_drop_cases, "full_hits": st.full_hits,
               "cases_with_full": st.cases_with_full, "hung": st.hung, "shard": shard})
    );
    // a hung stage thread cannot be killed: leave without joining it
    std::process::exit(0);
}
