//! C02 driver: export fidelity. Concretises abstract message records (from TLC or the seeded random generator) into
//! real DLT bytes, runs parse_dlt_with_storage_header -> DltMessage::to_write -> parse -> to_write on the real code and
//! records what it saw (`rt` events). Whole files go through the real `adlt convert -o` binary (`fmsg` / `fend`).
//! The parsed message is also written through the public DltStandardHeader::to_write directly WITH its ECU id and / or a session
//! id in the standard header (DltMessage::to_write never asks for them), re-read and exported again (`wx` entries).
//! Every write path (DltMessage::to_write, DltStandardHeader::to_write in all its header forms; the storage-header writer is part of
//! the former) additionally writes into destination writers with other LEGAL behaviours of std::io::Write (`Dest`): at most k bytes
//! per call, ErrorKind::Interrupted now and then, an error after n accepted bytes, a BufWriter of small capacity (`ww` entries:
//! what arrived at the destination against the bytes the same call wrote into a Vec - byte equality only).
//! No expectation is computed here: the contract (spec/LayoutTrace.tla) recomputes everything from the logged
//! ORIGINAL fields. The only comparison done here is byte equality (second write == first write, files identical).
use adlt::dlt::{parse_dlt_with_storage_header, DltMessage, DltStandardHeader};
use vh::*;

/// the fields of one stored message as generated (the truth)
#[derive(Clone)]
struct Orig {
    weid: bool,
    wsid: bool,
    wtms: bool,
    ueh: bool,
    msbf: bool,
    vers: u8,
    ecu_sto: [u8; 4],
    ecu_std: [u8; 4],
    sid: u32,
    tmsp: u32,
    ext: [u8; 10],
    mcnt: u8,
    secs: u32,
    micros: u32,
    payload: Vec<u8>,
}

impl Orig {
    fn hdr_len(&self) -> usize {
        4 + 4 * self.weid as usize + 4 * self.wsid as usize + 4 * self.wtms as usize + 10 * self.ueh as usize
    }
    fn htyp(&self) -> u8 {
        (self.ueh as u8) | (self.msbf as u8) << 1 | (self.weid as u8) << 2 | (self.wsid as u8) << 3 | (self.wtms as u8) << 4 | (self.vers & 7) << 5
    }
    fn len_field(&self) -> usize {
        self.hdr_len() + self.payload.len()
    }
    fn bytes(&self) -> Vec<u8> {
        let mut b = Vec::with_capacity(16 + self.len_field());
        b.extend_from_slice(b"DLT\x01");
        b.extend_from_slice(&self.secs.to_le_bytes());
        b.extend_from_slice(&self.micros.to_le_bytes());
        b.extend_from_slice(&self.ecu_sto);
        b.push(self.htyp());
        b.push(self.mcnt);
        b.extend_from_slice(&(self.len_field() as u16).to_be_bytes());
        if self.weid {
            b.extend_from_slice(&self.ecu_std);
        }
        if self.wsid {
            b.extend_from_slice(&self.sid.to_be_bytes());
        }
        if self.wtms {
            b.extend_from_slice(&self.tmsp.to_be_bytes());
        }
        if self.ueh {
            b.extend_from_slice(&self.ext);
        }
        b.extend_from_slice(&self.payload);
        b
    }
    fn json(&self) -> Value {
        let opt4 = |on: bool, v: &[u8]| if on { json!(v) } else { json!([]) };
        json!({
            "weid": self.weid, "wsid": self.wsid, "wtms": self.wtms, "ueh": self.ueh, "msbf": self.msbf, "vers": self.vers,
            "ecuSto": self.ecu_sto, "ecuStd": opt4(self.weid, &self.ecu_std), "sid": opt4(self.wsid, &self.sid.to_be_bytes()),
            "tmsp": opt4(self.wtms, &self.tmsp.to_be_bytes()), "ext": opt4(self.ueh, &self.ext), "mcnt": self.mcnt,
            "secs": self.secs.to_be_bytes(), "micros": self.micros, "payLen": self.payload.len(), "pay": pay_id(&self.payload),
            "len": self.len_field(),
        })
    }
}

fn hash31_salted(b: &[u8]) -> u32 {
    let mut h: u32 = 0x9747_b28c;
    for x in b {
        h = (h ^ (*x as u32)).wrapping_mul(0x0100_0193).rotate_left(5);
    }
    h & 0x7fff_ffff
}
fn pay_id(p: &[u8]) -> Value {
    json!([hash31(p), hash31_salted(p)])
}

/// projection of a parsed message onto the fields the property lists
fn view(m: &DltMessage) -> Value {
    let ext: Vec<u8> = match &m.extended_header {
        Some(e) => {
            let mut v = vec![e.verb_mstp_mtin, e.noar];
            v.extend_from_slice(e.apid.as_buf());
            v.extend_from_slice(e.ctid.as_buf());
            v
        }
        None => vec![],
    };
    json!({
        "ecu": m.ecu.as_buf(), "secs": ((m.reception_time_us / 1_000_000) as u32).to_be_bytes(),
        "micros": (m.reception_time_us % 1_000_000) as u32, "wtms": m.standard_header.has_timestamp(),
        "tmsp": m.timestamp_dms.to_be_bytes(), "mcnt": m.standard_header.mcnt, "msbf": m.is_big_endian(),
        "hasExt": m.extended_header.is_some(), "ext": ext, "payLen": m.payload.len(), "pay": pay_id(&m.payload),
        "htyp": m.standard_header.htyp,
    })
}
fn no_view() -> Value {
    json!({"ecu":[0,0,0,0],"secs":[0,0,0,0],"micros":0,"wtms":false,"tmsp":[0,0,0,0],"mcnt":0,"msbf":false,"hasExt":false,
           "ext":[],"payLen":0,"pay":[0,0],"htyp":0})
}

/// payload / id bytes must not contain a storage- or serial-header pattern ("well-formed DLT stream": the parser
/// heuristics resynchronise on embedded patterns)
fn scrub(b: &mut [u8]) {
    if b.len() < 4 {
        return;
    }
    for i in 0..b.len() - 3 {
        if b[i] == b'D' && b[i + 1] == b'L' && (b[i + 2] == b'T' || b[i + 2] == b'S') && b[i + 3] == 1 {
            b[i + 3] = 2;
        }
    }
}

fn rand_id(rng: &mut Rng) -> [u8; 4] {
    let mut id = [0u8; 4];
    match rng.below(4) {
        0 => id.copy_from_slice(&rng.bytes(4)), // arbitrary bytes
        1 => {
            let n = rng.range(1, 3) as usize; // short, zero padded
            for c in id.iter_mut().take(n) {
                *c = b'A' + rng.below(26) as u8;
            }
        }
        _ => {
            for c in id.iter_mut() {
                *c = *rng.pick(b"ABCDEFGHIJKLMNOPQRSTUVWXYZ0123456789_");
            }
        }
    }
    id
}
fn rand_u32(rng: &mut Rng) -> u32 {
    match rng.below(6) {
        0 => 0,
        1 => u32::MAX,
        2 => rng.below(1000) as u32,
        3 => 0x8000_0000,
        _ => rng.next_u64() as u32,
    }
}

/// fill everything the abstract record leaves open with seeded random values
fn concretise(rng: &mut Rng, weid: bool, wsid: bool, wtms: bool, ueh: bool, msbf: bool, vers: u8, micros: u32, pay_len: usize) -> Orig {
    let mut payload = rng.bytes(pay_len);
    scrub(&mut payload);
    let mut ext = [0u8; 10];
    ext.copy_from_slice(&rng.bytes(10));
    let mut o = Orig {
        weid, wsid, wtms, ueh, msbf, vers, ecu_sto: rand_id(rng), ecu_std: rand_id(rng), sid: rand_u32(rng), tmsp: rand_u32(rng),
        ext, mcnt: rng.next_u64() as u8, secs: rand_u32(rng), micros, payload,
    };
    // one message in eight carries a storage-header pattern INSIDE its payload (e.g. a tunnelled DLT message): a well-formed
    // message all the same - the parser's "corrupt message" heuristic must only fire if something else than a message follows
    if o.payload.len() >= 4 && rng.chance(1, 8) {
        let at = rng.below(o.payload.len() as u64 - 3) as usize;
        o.payload[at..at + 4].copy_from_slice(b"DLT\x01");
        return o;
    }
    // the complete message must stay pattern-free after its own storage header
    let mut all = o.bytes();
    let before = all.clone();
    scrub(&mut all[4..]);
    if all != before {
        o.ecu_sto = *b"ECU1";
        o.ecu_std = *b"ECU2";
        o.sid = 1;
        o.tmsp = 2;
        o.secs = 3;
        o.ext = *b"\x41\x01APIDCTID";
    }
    o
}

fn parse_ev(data: &[u8]) -> Result<(Value, Option<DltMessage>), String> {
    catch(std::panic::AssertUnwindSafe(|| match parse_dlt_with_storage_header(7, data) {
        Ok((consumed, m)) => (json!({"ok":true,"consumed":consumed,"v":view(&m)}), Some(m)),
        Err(_) => (json!({"ok":false,"consumed":0,"v":no_view()}), None),
    }))
}

fn write_ev(m: &DltMessage) -> Result<(bool, Vec<u8>), String> {
    catch(std::panic::AssertUnwindSafe(|| {
        let mut w = Vec::new();
        let ok = m.to_write(&mut w).is_ok();
        (ok, w)
    }))
}

// ------------------------------------------------------------------------------------------------ destination writers
/// a destination with a legal but unfriendly std::io::Write behaviour; `got` = the bytes that arrived
struct Dest {
    got: Vec<u8>,
    chunk: usize,      // accepts at most this many bytes per call
    limit: usize,      // accepts this many bytes in total, then every call fails (usize::MAX: never)
    intr_every: usize, // every n-th call returns ErrorKind::Interrupted without taking anything (0: never)
    calls: usize,
}
impl Dest {
    fn new(chunk: usize, limit: usize, intr_every: usize) -> Dest {
        Dest { got: Vec::new(), chunk, limit, intr_every, calls: 0 }
    }
}
impl std::io::Write for Dest {
    fn write(&mut self, buf: &[u8]) -> std::io::Result<usize> {
        self.calls += 1;
        if self.intr_every > 0 && self.calls % self.intr_every == 0 {
            return Err(std::io::Error::new(std::io::ErrorKind::Interrupted, "interrupted"));
        }
        if buf.is_empty() {
            return Ok(0);
        }
        if self.got.len() >= self.limit {
            return Err(std::io::Error::new(std::io::ErrorKind::Other, "destination full"));
        }
        let n = buf.len().min(self.chunk).min(self.limit - self.got.len());
        self.got.extend_from_slice(&buf[..n]);
        Ok(n)
    }
    fn flush(&mut self) -> std::io::Result<()> {
        Ok(())
    }
}
const NO_LIMIT: usize = 99_999_999;

/// one write path: the parsed message through DltMessage::to_write ("msg") or through DltStandardHeader::to_write with the ECU id /
/// session id asked for ("std")
#[derive(Clone, Copy)]
struct Path {
    std: bool,
    we: bool,
    ws: bool,
}
fn write_path(m1: &DltMessage, p: Path, sid: u32, w: &mut impl std::io::Write) -> std::io::Result<()> {
    if p.std {
        let ts = if m1.standard_header.has_timestamp() { Some(m1.timestamp_dms) } else { None };
        DltStandardHeader::to_write(w, &m1.standard_header, &m1.extended_header, if p.we { Some(m1.ecu) } else { None },
                                    if p.ws { Some(sid) } else { None }, ts, &m1.payload)
    } else {
        m1.to_write(w)
    }
}
/// the write paths of one message into unfriendly destinations; `rot` rotates the writer parameters so that every (path, writer)
/// combination is exercised across the run
fn write_dests(m1: &DltMessage, o: &Orig, rot: u64) -> Result<Vec<Value>, String> {
    let mut out = Vec::new();
    let mut rot = rot as usize;
    let paths = [Path { std: false, we: false, ws: false }, Path { std: true, we: false, ws: false }, Path { std: true, we: true, ws: false },
                 Path { std: true, we: false, ws: true }, Path { std: true, we: true, ws: true }];
    for p in paths {
        let len_x = 4 + 4 * p.we as usize + 4 * p.ws as usize + 4 * o.wtms as usize + 10 * o.ueh as usize + o.payload.len();
        if p.std && len_x > 65535 {
            continue; // the longer header does not fit the len field
        }
        // reference: the same call into a Vec
        let (rok, reference) = catch(std::panic::AssertUnwindSafe(|| {
            let mut v = Vec::new();
            let ok = write_path(m1, p, o.sid, &mut v).is_ok();
            (ok, v)
        }))?;
        if !rok {
            continue;
        }
        let total = reference.len();
        let chunks: [usize; 4] = [1, 7, 512, 4096];
        let mut k = chunks[rot % 4];
        if k == 1 && total > 8192 {
            k = 7;
        }
        let limits = [0usize, 3, 16, 17, 20, total / 2, total.saturating_sub(1), total, total + 1];
        let limit = limits[(rot / 4) % limits.len()];
        let mut run = |name: &str, kk: usize, lim: usize, f: &dyn Fn() -> (bool, Vec<u8>)| -> Result<(), String> {
            let (ok, got) = catch(std::panic::AssertUnwindSafe(f))?;
            out.push(json!({"path": if p.std { "std" } else { "msg" }, "weid": p.we, "wsid": p.ws, "writer": name, "k": kk, "limit": lim,
                            "ok": ok, "ref_len": total, "arrived": got.len(), "equal": got == reference,
                            "prefix": got.len() <= total && got[..] == reference[..got.len()]}));
            Ok(())
        };
        let direct = |mut d: Dest| -> (bool, Vec<u8>) {
            let ok = write_path(m1, p, o.sid, &mut d).is_ok();
            (ok, d.got)
        };
        run("chunk", k, NO_LIMIT, &|| direct(Dest::new(k, NO_LIMIT, 0)))?;
        run("fail", 4096, limit, &|| direct(Dest::new(if rot % 2 == 0 { 4096 } else { NO_LIMIT }, limit, 0)))?;
        match rot % 4 {
            0 => run("intr", 1000, NO_LIMIT, &|| direct(Dest::new(1000, NO_LIMIT, 2)))?,
            1 => run("intr", 5, NO_LIMIT, &|| direct(Dest::new(if total > 8192 { 700 } else { 5 }, NO_LIMIT, 3)))?,
            _ => {
                // a BufWriter of small capacity in front of a Vec-like / a chunked destination
                let cap = [5usize, 64][rot / 4 % 2];
                let inner_chunk = if rot % 4 == 2 { NO_LIMIT } else { 7 };
                run("buf", cap, NO_LIMIT, &|| {
                    use std::io::Write;
                    let mut b = std::io::BufWriter::with_capacity(cap, Dest::new(inner_chunk, NO_LIMIT, 0));
                    let ok = write_path(m1, p, o.sid, &mut b).is_ok() && b.flush().is_ok();
                    match b.into_inner() {
                        Ok(d) => (ok, d.got),
                        Err(_) => (false, Vec::new()),
                    }
                })?;
            }
        }
        rot += 5;
    }
    Ok(out)
}

/// the parsed message behind the storage header of `w1`, written by DltStandardHeader::to_write with the ECU id (we) and / or a
/// session id (ws) in the standard header; then parsed and exported again. Only called when the longer header fits the len field.
fn write_x(m1: &DltMessage, w1: &[u8], we: bool, ws: bool, sid: u32) -> Result<Value, String> {
    let (ok, w) = catch(std::panic::AssertUnwindSafe(|| {
        let mut w = w1[..16.min(w1.len())].to_vec();
        let ts = if m1.standard_header.has_timestamp() { Some(m1.timestamp_dms) } else { None };
        let ok = DltStandardHeader::to_write(&mut w, &m1.standard_header, &m1.extended_header, if we { Some(m1.ecu) } else { None },
                                             if ws { Some(sid) } else { None }, ts, &m1.payload).is_ok();
        (ok, w)
    }))?;
    let (p, mx) = parse_ev(&w)?;
    let wj = match mx {
        Some(mx) => {
            let (ok2, w2) = write_ev(&mx)?;
            json!({"ok":ok2,"equal":w2 == w1})
        }
        None => json!({"ok":false,"equal":false}),
    };
    Ok(json!({"weid":we,"wsid":ws,"ok":ok,"bytes":w.len(),"htyp": w.get(16).copied().unwrap_or(0),
              "len": if w.len() >= 20 { u16::from_be_bytes([w[18], w[19]]) as u32 } else { 0 },"p":p,"w":wj}))
}

fn run_rt(t: &mut Trace, case: u64, o: &Orig, src: &str) {
    t.ev(json!({"ev":"reset","case":case,"hdr":{"kind":"rt","src":src}}));
    let bytes = o.bytes();
    let not_w = json!({"ok":false,"bytes":0,"htyp":0,"len":0});
    let not_p = json!({"ok":false,"consumed":0,"v":no_view()});
    let r = (|| -> Result<Value, String> {
        let (p1, m1) = parse_ev(&bytes)?;
        let m1 = match m1 {
            Some(m) => m,
            None => return Ok(json!({"ev":"rt","m":o.json(),"p1":p1,"w1":not_w,"p2":not_p,"w2":{"ok":false,"equal":false},"wx":Vec::<Value>::new(),"ww":Vec::<Value>::new()})),
        };
        let (ok1, w1) = write_ev(&m1)?;
        let w1j = json!({"ok":ok1,"bytes":w1.len(),"htyp": w1.get(16).copied().unwrap_or(0),
                         "len": if w1.len() >= 20 { u16::from_be_bytes([w1[18], w1[19]]) as u32 } else { 0 }});
        let (p2, m2) = parse_ev(&w1)?;
        let w2j = match m2 {
            Some(m2) => {
                let (ok2, w2) = write_ev(&m2)?;
                json!({"ok":ok2,"equal":w2 == w1})
            }
            None => json!({"ok":false,"equal":false}),
        };
        // ECU id / session id in the standard header (only while the longer header fits the 16 bit len field)
        let mut wx = Vec::new();
        for (we, ws) in [(true, false), (false, true), (true, true)] {
            let len_x = 4 + 4 * we as usize + 4 * ws as usize + 4 * o.wtms as usize + 10 * o.ueh as usize + o.payload.len();
            if ok1 && len_x <= 65535 {
                wx.push(write_x(&m1, &w1, we, ws, o.sid)?);
            }
        }
        let ww = if ok1 { write_dests(&m1, o, case)? } else { Vec::new() };
        Ok(json!({"ev":"rt","m":o.json(),"p1":p1,"w1":w1j,"p2":p2,"w2":w2j,"wx":wx,"ww":ww}))
    })();
    match r {
        Ok(e) => t.ev(e),
        Err(msg) => t.ev(json!({"ev":"panic","msg":msg})),
    }
}

/// a message for whole-file runs: version 1, no control messages, reception times strictly increasing in small steps
/// and timestamps that advance with them (the file passes adlt's lifecycle detection, whose own defects are the
/// business of C05-C08, not of this check)
fn file_msg(rng: &mut Rng, i: usize, shape: u32, pay_len: usize) -> Orig {
    let (weid, wsid, wtms, ueh, msbf) = (shape & 1 != 0, shape & 2 != 0, shape & 4 != 0, shape & 8 != 0, shape & 16 != 0);
    let mut o = concretise(rng, weid, wsid, wtms, ueh, msbf, 1, 0, pay_len);
    let rx = BASE_US + 5_000_000 + (i as u64) * 100 + rng.below(100);
    o.secs = (rx / 1_000_000) as u32;
    o.micros = (rx % 1_000_000) as u32;
    o.tmsp = 50_000 + i as u32;
    o.ecu_sto = *rng.pick(&[*b"ECU1", *b"EC2\0", *b"E3__"]);
    o.ecu_std = *rng.pick(&[*b"ECU1", *b"SEC2", *b"E3__"]);
    let mstp = rng.below(3) as u8; // log, app trace, nw trace - no control messages
    let mtin = rng.range(1, 5) as u8;
    o.ext[0] = (rng.below(2) as u8) | mstp << 1 | mtin << 4;
    for c in o.ext[2..].iter_mut() {
        *c = *rng.pick(b"ABCDEFGHIJKLMNOPQRSTUVWXYZ0123456789");
    }
    o
}

/// messages for a "boundary" file: small fillers that sum up to exactly `bufcap - r` bytes, then a maximal message, then a few
/// small ones - so the maximal message starts when exactly `r` bytes of convert's first (full) buffer fill are left. Sweeping
/// r around the reader's low mark exercises the "a whole message is always visible" configuration of the call site.
fn boundary_msgs(rng: &mut Rng, bufcap: usize, r: usize) -> Vec<Orig> {
    let target = bufcap - r;
    let mut msgs = Vec::new();
    let mut sum = 0usize;
    let push = |msgs: &mut Vec<Orig>, rng: &mut Rng, size: usize| {
        let i = msgs.len();
        msgs.push(file_msg(rng, i, 0, size - 20)); // shape 0: 16 bytes storage header + 4 bytes standard header + payload
    };
    while target - sum > 1300 {
        let size = 20 + rng.below(600) as usize;
        push(&mut msgs, rng, size);
        sum += size;
    }
    let rem = target - sum;
    push(&mut msgs, rng, rem / 2);
    push(&mut msgs, rng, rem - rem / 2);
    let shape = rng.below(32) as u32;
    let max = 65535 - (4 + 4 * (shape & 1) + 2 * (shape & 2) + (shape & 4) + 10 * ((shape >> 3) & 1)) as usize;
    let i = msgs.len();
    let big_pay = max - rng.below(3) as usize;
    msgs.push(file_msg(rng, i, shape, big_pay));
    for _ in 0..5 {
        let i = msgs.len();
        let (sh, pl) = (rng.below(32) as u32, rng.below(300) as usize);
        msgs.push(file_msg(rng, i, sh, pl));
    }
    msgs
}

fn run_file(t: &mut Trace, case: u64, rng: &mut Rng, adlt: &str, tmp: &str, n: usize, n_big: usize, boundary: Option<(usize, usize)>) {
    let mut msgs = Vec::new();
    if let Some((bufcap, r)) = boundary {
        msgs = boundary_msgs(rng, bufcap, r);
    }
    let n = if boundary.is_some() { msgs.len() } else { n };
    for i in 0..(if boundary.is_some() { 0 } else { n }) {
        // every third file STARTS with a maximal (or nearly maximal) message, in a header shape that rotates with the case number:
        // whatever convert looks at before its main pass (first message of each input file) has to cope with 65551 bytes
        let first_big = i == 0 && case % 3 == 1;
        let shape = if first_big { (case / 3 % 32) as u32 } else if i < 64 { (i % 32) as u32 } else { rng.below(32) as u32 };
        let max = 65535 - (4 + 4 * (shape & 1) + 2 * (shape & 2) + (shape & 4) + 10 * ((shape >> 3) & 1)) as usize;
        let step = (n / n_big.max(1)).max(1);
        let pay_len = if first_big {
            max - rng.below(3) as usize
        } else if n_big > 0 && i % step == 3 % step && i / step < n_big {
            max - rng.below(2) as usize
        } else {
            match rng.below(8) {
                0 => 0,
                1 => 1,
                2 => rng.range(2, 20) as usize,
                _ => rng.range(0, 600) as usize,
            }
        };
        msgs.push(file_msg(rng, i, shape, pay_len));
    }
    t.ev(json!({"ev":"reset","case":case,"hdr":{"kind":"file","n":n,"boundary_r":boundary.map(|b| b.1 as i64).unwrap_or(-1)}}));
    let (fin, fout, fout2) = (format!("{}/c02_{}_in.dlt", tmp, case), format!("{}/c02_{}_out.dlt", tmp, case), format!("{}/c02_{}_out2.dlt", tmp, case));
    let mut all = Vec::new();
    for m in &msgs {
        all.extend_from_slice(&m.bytes());
    }
    std::fs::write(&fin, &all).expect("write input file");
    let _ = std::fs::remove_file(&fout);
    let _ = std::fs::remove_file(&fout2);
    // every second file: the output paths exist already and hold MORE bytes than the export will have (an earlier, larger
    // export to the same path) - the export must replace them, not overwrite their beginning
    let stale = case % 2 == 0;
    if stale {
        let junk: Vec<u8> = (0..all.len() + 5000).map(|i| (i % 251) as u8).collect();
        std::fs::write(&fout, &junk).expect("pre-create output");
        std::fs::write(&fout2, &junk).expect("pre-create output 2");
    }
    let run = |a: &str, b: &str| -> i32 {
        std::process::Command::new(adlt).args(["convert", a, "-o", b]).env("TZ", "UTC")
            .stdout(std::process::Stdio::null()).stderr(std::process::Stdio::null())
            .status().map(|s| s.code().unwrap_or(-1)).unwrap_or(-2)
    };
    let rc1 = run(&fin, &fout);
    let rc2 = run(&fout, &fout2);
    let out = std::fs::read(&fout).unwrap_or_default();
    let out2 = std::fs::read(&fout2).unwrap_or_default();
    // re-read the export with the real parser, message by message
    let mut off = 0usize;
    let mut n_out = 0usize;
    let mut evs = Vec::new();
    let mut panic = None;
    while off < out.len() {
        let end = out.len().min(off + 16 + 65535);
        match parse_ev(&out[off..end]) {
            Ok((p, _)) => {
                if p["ok"] != json!(true) {
                    break;
                }
                off += p["consumed"].as_u64().unwrap() as usize;
                n_out += 1;
                if n_out <= n {
                    evs.push(json!({"ev":"fmsg","i":n_out,"m":msgs[n_out - 1].json(),"v":p["v"]}));
                }
            }
            Err(msg) => {
                panic = Some(msg);
                break;
            }
        }
    }
    for e in evs {
        t.ev(e);
    }
    if let Some(msg) = panic {
        t.ev(json!({"ev":"panic","msg":msg}));
    }
    t.ev(json!({"ev":"fend","rc1":rc1,"rc2":rc2,"n_out":n_out,"trailing":out.len() - off,
                "second_identical": !out.is_empty() && out == out2, "out_preexisted": stale, "in_bytes":all.len(), "out_bytes":out.len(), "out2_bytes":out2.len()}));
    if rc1 == 0 && rc2 == 0 && out == out2 {
        let _ = std::fs::remove_file(&fin);
        let _ = std::fs::remove_file(&fout);
        let _ = std::fs::remove_file(&fout2);
    }
}

fn main() {
    quiet_panics();
    let a = Args::from_env();
    let mut t = Trace::create(&a.str("--out", "trace.ndjson"));
    let mut rng = Rng::new(a.num("--seed", 1));
    let mut case = a.num("--first-case", 0);
    let reps = a.num("--reps", 1);
    let mut shapes = std::collections::BTreeSet::new();
    let (mut n_zero, mut n_max) = (0u64, 0u64);
    if let Some(f) = a.get("--scenarios") {
        for scn in read_ndjson(f) {
            let m = &scn["m"];
            let b = |k: &str| m[k].as_bool().unwrap();
            for _ in 0..reps {
                let o = concretise(&mut rng, b("weid"), b("wsid"), b("wtms"), b("ueh"), b("msbf"), m["vers"].as_u64().unwrap() as u8,
                                   m["micros"].as_u64().unwrap() as u32, m["payLen"].as_u64().unwrap() as usize);
                shapes.insert(o.htyp() & 0x1f);
                n_zero += (o.payload.is_empty()) as u64;
                n_max += (o.len_field() == 65535) as u64;
                run_rt(&mut t, case, &o, "tlc");
                case += 1;
            }
        }
    }
    for _ in 0..a.num("--random", 0) {
        let shape = rng.below(32) as u32;
        let (weid, wsid, wtms, ueh, msbf) = (shape & 1 != 0, shape & 2 != 0, shape & 4 != 0, shape & 8 != 0, shape & 16 != 0);
        let vers = if rng.chance(5, 6) { 1 } else { rng.below(8) as u8 };
        let max = 65535 - (4 + 4 * weid as usize + 4 * wsid as usize + 4 * wtms as usize + 10 * ueh as usize);
        let pay_len = match rng.below(10) {
            0 => 0,
            1 => max,
            2 => max - rng.below(16) as usize,
            3 => rng.range(0, max as u64) as usize,
            4 => rng.range(1, 8) as usize,
            _ => rng.range(0, 2000) as usize,
        };
        let micros = match rng.below(4) {
            0 => 0,
            1 => 999_999,
            _ => rng.below(1_000_000) as u32,
        };
        let o = concretise(&mut rng, weid, wsid, wtms, ueh, msbf, vers, micros, pay_len);
        shapes.insert(o.htyp() & 0x1f);
        n_zero += (o.payload.is_empty()) as u64;
        n_max += (o.len_field() == 65535) as u64;
        run_rt(&mut t, case, &o, "random");
        case += 1;
    }
    let n_files = a.num("--files", 0);
    if n_files > 0 {
        let adlt = a.str("--adlt", "adlt");
        let tmp = a.str("--tmp", ".");
        for _ in 0..n_files {
            run_file(&mut t, case, &mut rng, &adlt, &tmp, a.num("--file-msgs", 120) as usize, a.num("--file-big", 4) as usize, None);
            case += 1;
        }
    }
    // boundary files: --boundary lo:hi:step (values of r), --bufcap = capacity of convert's read buffer
    let mut n_boundary = 0u64;
    if let Some(b) = a.get("--boundary") {
        let v: Vec<usize> = b.split(':').map(|x| x.parse().unwrap()).collect();
        let adlt = a.str("--adlt", "adlt");
        let tmp = a.str("--tmp", ".");
        let bufcap = a.num("--bufcap", 512 * 1024) as usize;
        let mut r = v[0];
        while r <= v[1] {
            run_file(&mut t, case, &mut rng, &adlt, &tmp, 0, 0, Some((bufcap, r)));
            case += 1;
            n_boundary += 1;
            r += v[2].max(1);
        }
    }
    t.flush();
    println!("{}", json!({"cases": case, "lines": t.lines, "shapes": shapes.len(), "payload_zero": n_zero, "len_max": n_max, "boundary_files": n_boundary}));
}
