//! C16 driver. Two layers, both only drive real adlt code and record observations (contracts: spec/StreamIndexTrace.tla,
//! spec/StreamTrace.tla):
//!   lib     every TLC behaviour of StreamIndex.tla + seeded random batchings on the real `process_stream_new_msgs`
//!           (prediction fast path: equality of (filtered_msgs, all_msgs_last_processed_len) after every step)
//!   server  window delivery / window change / search paging / lookups through the real `adlt remote` binary
#[path = "c15/ws.rs"]
mod ws;
use adlt::dlt::DltMessage;
use adlt::utils::remote_types::BinType;
use adlt::utils::remote_utils::{process_stream_new_msgs, StreamContext};
use std::io::BufRead;
use std::sync::atomic::{AtomicUsize, Ordering};
use std::sync::{Arc, Mutex};
use std::time::{Duration, Instant};
use vh::*;
use ws::*;

// ================================================================================================ library layer
fn lib_msgs(m: &[u64]) -> Vec<DltMessage> {
    m.iter()
        .enumerate()
        .map(|(i, b)| {
            let mut msg = mk_msg(i as u32, "ECU1", BASE_US + i as u64 * 1000, i as u32 * 10, vec![]);
            if let Some(e) = msg.extended_header.as_mut() {
                e.apid = char4(if *b == 1 { "MTCH" } else { "NOMA" });
            }
            msg
        })
        .collect()
}

/// filter sets that all keep exactly the messages with apid MTCH (all messages have ecu ECU1): every combination of
/// filter kinds, so that the index does not depend on which kind of filter carries the criterion
const LIB_SHAPES: usize = 7;
fn lib_filters(shape: usize) -> Value {
    match shape % LIB_SHAPES {
        0 => json!([{"type":0,"apid":"MTCH"}]),                                                   // pos
        1 => json!([{"type":3,"apid":"MTCH"}]),                                                   // event only
        2 => json!([{"type":1,"apid":"NOMA"}]),                                                   // neg only
        3 => json!([{"type":0,"ecu":"ECU1"},{"type":3,"apid":"MTCH"}]),                           // pos + event
        4 => json!([{"type":1,"apid":"NONE"},{"type":3,"apid":"MTCH"}]),                          // neg + event
        5 => json!([{"type":0,"ecu":"ECU1"},{"type":1,"apid":"NOMA"},{"type":3,"ecu":"ECU1"}]),   // pos + neg + event
        _ => json!([{"type":0,"apid":"ZZZZ","enabled":false},{"type":1,"apid":"MTCH","enabled":false},{"type":2,"apid":"NOMA"},
                    {"type":3,"apid":"MTCH"},{"type":3,"apid":"ZZZZ","enabled":false}]),          // disabled + marker + event
    }
}

fn lib_stream(log: &slog::Logger, is_stream: bool, w: u64, shape: usize) -> StreamContext {
    let params = json!({"window":[0, w], "binary": true, "filters": lib_filters(shape)}).to_string();
    StreamContext::from(log, if is_stream { "stream" } else { "query" }, &params).expect("stream context")
}

/// one step on the real code, exactly as process_file_context calls it; returns (filtered, processed)
fn lib_step(stream: &mut StreamContext, msgs: &[DltMessage], all_len: &mut usize, op: &str, k: u64) -> Result<(Vec<u64>, u64), String> {
    match op {
        "arrive" => *all_len += k as usize,
        "grow" => stream.msgs_to_send.end = k as usize,
        "process" => {
            let al = *all_len;
            let r = catch(std::panic::AssertUnwindSafe(|| {
                let last = std::cmp::min(stream.all_msgs_last_processed_len, al);
                process_stream_new_msgs(stream, last, &msgs[last..al], k as usize);
            }));
            r?;
        }
        _ => panic!("op {}", op),
    }
    Ok((stream.filtered_msgs.iter().map(|x| *x as u64).collect(), stream.all_msgs_last_processed_len as u64))
}

struct LibCase {
    m: Vec<u64>,
    s: bool,
    w: u64,
    ops: Vec<(String, u64)>,
    shape: usize, // which of the equivalent filter sets is used (lib_filters)
}

fn lib_write_case(t: &mut Trace, case: u64, src: &str, c: &LibCase, log: &slog::Logger) {
    t.ev(json!({"ev":"reset","case":case,"hdr":{"n":c.m.len(),"m":c.m,"s":c.s,"w":c.w,"src":src,"filters":lib_filters(c.shape)}}));
    let msgs = lib_msgs(&c.m);
    let mut stream = lib_stream(log, c.s, c.w, c.shape);
    let mut all_len = 0usize;
    for (op, k) in &c.ops {
        match lib_step(&mut stream, &msgs, &mut all_len, op, *k) {
            Ok((f, p)) => {
                if op == "process" {
                    t.ev(json!({"ev":"process","k":k,"f":f,"p":p}));
                } else {
                    t.ev(json!({"ev":op,"k":k}));
                }
            }
            Err(msg) => {
                t.ev(json!({"ev":"panic","msg":msg}));
                return;
            }
        }
    }
    t.ev(json!({"ev":"end"}));
}

fn lib_main(a: &Args) {
    quiet_panics();
    let log = slog::Logger::root(slog::Discard, slog::o!());
    let mut t = Trace::create(&a.str("--out", "trace-lib.ndjson"));
    let sample_every = a.num("--sample-every", 400);
    let (mut replayed, mut fast, mut slow, mut drift, mut steps) = (0u64, 0u64, 0u64, 0u64, 0u64);
    let mut case = 0u64;
    if let Some(f) = a.get("--scenarios") {
        let rd = std::io::BufReader::new(std::fs::File::open(f).expect("scenarios"));
        for line in rd.lines() {
            let line = line.unwrap();
            if line.trim().is_empty() {
                continue;
            }
            let v: Value = serde_json::from_str(&line).unwrap();
            let c = LibCase {
                m: v["m"].as_array().unwrap().iter().map(|x| x.as_u64().unwrap()).collect(),
                s: v["s"].as_bool().unwrap(),
                w: v["w"].as_u64().unwrap(),
                ops: v["h"].as_array().unwrap().iter().map(|h| (h["op"].as_str().unwrap().to_string(), h["k"].as_u64().unwrap())).collect(),
                shape: replayed as usize, // the equivalent filter sets rotate over the behaviours
            };
            // fast path: observation == TLC's prediction after every step (data equality only)
            let msgs = lib_msgs(&c.m);
            let mut stream = lib_stream(&log, c.s, c.w, c.shape);
            let mut all_len = 0usize;
            let mut equal = true;
            for (i, (op, k)) in c.ops.iter().enumerate() {
                steps += 1;
                match lib_step(&mut stream, &msgs, &mut all_len, op, *k) {
                    Ok((f, p)) => {
                        let pf: Vec<u64> = v["h"][i]["f"].as_array().unwrap().iter().map(|x| x.as_u64().unwrap()).collect();
                        if f != pf || p != v["h"][i]["p"].as_u64().unwrap() {
                            equal = false;
                        }
                    }
                    Err(_) => equal = false,
                }
            }
            replayed += 1;
            if !equal {
                drift += 1;
            }
            if !equal || replayed % sample_every == 0 {
                slow += 1;
                lib_write_case(&mut t, case, if equal { "tlc-sample" } else { "tlc-drift" }, &c, &log);
                case += 1;
            } else {
                fast += 1;
            }
        }
    }
    // random batchings on larger logs (always validated by TLC)
    let n_random = a.num("--random", 0);
    let max_n = a.num("--max-n", 300);
    let mut rng = Rng::new(a.num("--seed", 1));
    for _ in 0..n_random {
        let n = rng.range(1, max_n) as usize;
        let dens = [1u64, 2, 5, 9][rng.below(4) as usize];
        let m: Vec<u64> = (0..n).map(|_| if rng.below(10) < dens { 1 } else { 0 }).collect();
        let s = rng.chance(1, 2);
        let w = if rng.chance(1, 4) { rng.below(4) } else { rng.below(n as u64 + 5) };
        let mut ops = Vec::new();
        let mut left = n as u64;
        let mut wend = w;
        for _ in 0..rng.range(4, 30) {
            let r = rng.below(10);
            if r < 4 && left > 0 {
                let k = if rng.chance(1, 3) { left } else { rng.range(1, std::cmp::max(1, left / 2)) };
                left -= k;
                ops.push(("arrive".to_string(), k));
            } else if r < 9 {
                let c = [1u64, 2, 3, 5, 17, 64, 1000, 3_000_000][rng.below(8) as usize];
                ops.push(("process".to_string(), c));
            } else if !s {
                wend += rng.range(1, 7);
                ops.push(("grow".to_string(), wend));
            }
        }
        ops.push(("arrive".to_string(), left));
        ops.push(("process".to_string(), 3_000_000));
        ops.push(("process".to_string(), 3_000_000));
        let c = LibCase { m, s, w, ops, shape: rng.below(LIB_SHAPES as u64) as usize };
        steps += c.ops.len() as u64;
        lib_write_case(&mut t, case, "random", &c, &log);
        case += 1;
        slow += 1;
    }
    t.flush();
    println!("{}", json!({"cases": case, "lines": t.lines, "replayed": replayed, "fast_path": fast, "slow_path": slow, "drift": drift, "steps": steps}));
}

// ================================================================================================ server layer
#[derive(Clone)]
struct LogFile {
    path: String,
    msgs: Vec<GenMsg>,
    big: u64, // > 0: a big periodic log of that many messages (only frame summaries are recorded)
    orig: Arc<Vec<GenMsg>>, // the generated messages (= msgs; for big logs msgs stays empty: not written into the trace)
    pad: Arc<String>,       // appended to the text of every message when the file was written (long payloads), not kept in orig
}

#[derive(Clone, Debug)]
struct F {
    k: &'static str, // pos | neg | event | marker
    on: bool,        // enabled
    e: String,
    a: String,
    c: String,
}
fn f_json(fs: &[F]) -> Value {
    Value::Array(
        fs.iter()
            .map(|f| {
                let mut o = serde_json::Map::new();
                o.insert("type".into(), json!(match f.k { "pos" => 0, "neg" => 1, "marker" => 2, "event" => 3, k => panic!("filter kind {}", k) }));
                if !f.on {
                    o.insert("enabled".into(), json!(false));
                }
                if !f.e.is_empty() {
                    o.insert("ecu".into(), json!(f.e));
                }
                if !f.a.is_empty() {
                    o.insert("apid".into(), json!(f.a));
                }
                if !f.c.is_empty() {
                    o.insert("ctid".into(), json!(f.c));
                }
                Value::Object(o)
            })
            .collect(),
    )
}
fn f_abs(fs: &[F]) -> Value {
    Value::Array(fs.iter().map(|f| json!({"k":f.k,"on":f.on,"e":f.e,"a":f.a,"c":f.c})).collect())
}

#[derive(Clone)]
struct SrvCase {
    src: String,
    log: usize,            // which log file
    kind: String,          // stream | query
    late: bool,            // send the stream command only after the file was parsed completely
    paused_query: bool,    // query: pause before creating it, resume after the window changes
    filt: Vec<F>,
    win: (u64, u64),
    early_change: Option<(u64, u64)>, // a window change sent right after the stream reply (during parsing)
    changes: Vec<(u64, u64)>,          // window changes, each followed by quiescence
    searches: Vec<(u64, u64, Vec<F>)>, // (start, page size, search filters): paged until next = null
    lookups: Vec<(String, u64)>,       // ("index"|"time", value)
    pred: Value,                       // TLC's prediction (drift statistics only)
    sort: bool,                        // open with "sort":true (stream order = by calculated time instead of by index)
    stall_ms: u64,                     // the client does not read for that long right after the reply announcing the stream
    stall_mid: bool,                   // ... and again after every window change (mid-stream)
    binary: bool,                      // binary DltMsgs frames, else text frames `stream:<id> msg(<pos>):<header text>`
    extreme: bool,                     // extreme numeric parameters: runs alone on a dedicated server process (restarted if it dies)
}

/// numbers in trace events are saturated at 2e9 (TLC integers are 32 bit; every log is far shorter / earlier, so all the
/// comparisons the contract makes are preserved)
fn sat(x: u64) -> u64 {
    std::cmp::min(x, 2_000_000_000)
}

fn msg_rec(i: u32, rx_us: u64, ts_dms: u32, e: u32, a: u32, c: u32, mc: u8, text: &str) -> Value {
    json!({"i": i, "rx": (rx_us.saturating_sub(BASE_US)) / 1000, "ts": ts_dms, "e": char4_str(e), "a": char4_str(a), "c": char4_str(c),
           "mc": mc, "h": hash31(text.as_bytes())})
}

struct Sess {
    conn: Conn,
    evs: Vec<Value>,
    big: bool,
    orig: Arc<Vec<GenMsg>>,
    pad: Arc<String>,
    txt: Option<TxtRun>,
    file_msgs: u64,
    data_frames: u64, // DltMsgs / StreamInfo frames seen (for the idle detection)
    sentinel: u64,
    dead: bool,
}

const SUM_MOD: u64 = 1_000_003;
/// sessions of this run that ended in a time-out (each is a violation already); the remaining ones then wait less, so that a
/// server that answers nothing does not cost hours
static TIMEOUTS_SEEN: AtomicUsize = AtomicUsize::new(0);
fn wait_secs(generous: u64) -> u64 {
    match TIMEOUTS_SEEN.load(Ordering::SeqCst) { 0..=3 => generous, 4..=12 => 10, _ => 2 }
}

/// a run of text frames of one stream id (flushed into one txt_sum event)
struct TxtRun {
    id: u64,
    n: u64,
    pos0: u64,
    last_pos: u64,
    posinc: u64,
    first: u64,
    last: u64,
    sum: u64,
    intact: u64,
}

impl Sess {
    /// record an event (a pending run of text frames goes first)
    fn push(&mut self, v: Value) {
        self.flush_txt();
        self.evs.push(v);
    }
    fn flush_txt(&mut self) {
        if let Some(r) = self.txt.take() {
            self.evs.push(json!({"ev":"txt_sum","id":r.id,"n":r.n,"pos0":r.pos0,"posinc":r.posinc,"first":r.first,"last":r.last,"sum":r.sum,"intact":r.intact}));
        }
    }
    /// `stream:<id> msg(<pos>):<index> <date> <time> <timestamp> <mcnt> <ecu> <apid> <ctid> ...`
    fn on_text_frame(&mut self, t: &str) {
        let parsed = (|| {
            let rest = t.strip_prefix("stream:")?;
            let (id, rest) = rest.split_once(" msg(")?;
            let (pos, hdr) = rest.split_once("):")?;
            let f: Vec<&str> = hdr.split_whitespace().collect();
            Some((id.parse::<u64>().ok()?, pos.parse::<u64>().ok()?, f.first()?.parse::<u64>().ok()?, f.get(3)?.parse::<u64>().ok()?,
                  f.get(4)?.parse::<u64>().ok()?, f.get(5)?.to_string(), f.get(6)?.to_string(), f.get(7)?.to_string()))
        })();
        let (id, pos, idx, ts, mcnt, e, a, c) = match parsed {
            Some(p) => p,
            None => {
                self.push(json!({"ev":"text_unparsable","text":trunc(t, 120)}));
                return;
            }
        };
        self.data_frames += 1;
        let intact = self.orig.get(idx as usize).map(|g| g.ts() == ts && g.mcnt as u64 == mcnt && g.ecu == e && g.apid == a && g.ctid == c).unwrap_or(false) as u64;
        match self.txt.as_mut() {
            Some(r) if r.id == id => {
                r.n += 1;
                if pos == r.last_pos + 1 {
                    r.posinc += 1;
                }
                r.last_pos = pos;
                r.last = idx;
                r.sum = (r.sum + idx) % SUM_MOD;
                r.intact += intact;
            }
            _ => {
                self.flush_txt();
                self.txt = Some(TxtRun { id, n: 1, pos0: pos, last_pos: pos, posinc: 0, first: idx, last: idx, sum: idx % SUM_MOD, intact });
            }
        }
    }
    /// handle one frame; returns the text if it is a reply-like text frame
    fn on_frame(&mut self, fr: Frame) -> Option<String> {
        match fr {
            Frame::Text(t) => {
                if t.starts_with("stream:") {
                    self.on_text_frame(&t);
                    None
                } else {
                    Some(t)
                }
            }
            Frame::Bin(b) => {
                match decode(&b) {
                    Some(BinType::DltMsgs((id, msgs))) => {
                        self.data_frames += 1;
                        if self.big && !msgs.is_empty() {
                            // big windows: only a summary of the frame (the contract checks that the frames tile the window)
                            let sum = msgs.iter().fold(0u64, |s, m| (s + m.index as u64) % SUM_MOD);
                            // data equality with the generated message of that index (every field the statement lists)
                            let intact = msgs
                                .iter()
                                .filter(|m| {
                                    self.orig.get(m.index as usize).map(|g| {
                                        m.reception_time == BASE_US + g.t_ms * 1000 && m.timestamp_dms as u64 == g.ts() && m.mcnt == g.mcnt
                                            && char4_str(m.ecu) == g.ecu && char4_str(m.apid) == g.apid && char4_str(m.ctid) == g.ctid && m.payload_as_text.len() == g.text.len() + self.pad.len() && m.payload_as_text.starts_with(g.text.as_str()) && m.payload_as_text.ends_with(self.pad.as_str())
                                    }).unwrap_or(false)
                                })
                                .count();
                            let ev = json!({"ev":"bin_sum","id":id,"n":msgs.len(),"first":msgs[0].index,"last":msgs[msgs.len() - 1].index,"sum":sum,"intact":intact});
                            self.push(ev);
                            return None;
                        }
                        let recs: Vec<Value> = msgs
                            .iter()
                            .map(|m| msg_rec(m.index, m.reception_time, m.timestamp_dms, m.ecu, m.apid, m.ctid, m.mcnt, &m.payload_as_text))
                            .collect();
                        self.push(json!({"ev":"bin_msgs","id":id,"n":recs.len(),"msgs":recs}));
                    }
                    Some(BinType::FileInfo(fi)) => self.file_msgs = fi.nr_msgs as u64,
                    Some(BinType::StreamInfo(_)) => self.data_frames += 1,
                    Some(_) => {}
                    None => self.push(json!({"ev":"bin_undecodable","len":b.len()})),
                }
                None
            }
            Frame::Closed(why) => {
                self.push(json!({"ev":"conn_closed","why":trunc(&why, 120)}));
                self.dead = true;
                None
            }
            Frame::Timeout => {
                TIMEOUTS_SEEN.fetch_add(1, Ordering::SeqCst);
                self.push(json!({"ev":"timeout"}));
                self.dead = true;
                None
            }
        }
    }
    /// send a command and wait for its reply (async frames are recorded on the way)
    fn cmd(&mut self, text: &str) -> Option<String> {
        if self.dead {
            return None;
        }
        if let Err(e) = self.conn.send(text) {
            self.push(json!({"ev":"conn_closed","why":trunc(&e, 120)}));
            self.dead = true;
            return None;
        }
        loop {
            let fr = self.conn.recv(Duration::from_secs(wait_secs(60)));
            if let Some(t) = self.on_frame(fr) {
                return Some(t);
            }
            if self.dead {
                return None;
            }
        }
    }
    /// one round trip of a sentinel command: forces one full iteration of the server's loop
    fn roundtrip(&mut self) {
        self.sentinel += 1;
        let s = format!("__sync_{}", self.sentinel);
        let _ = self.cmd(&s);
    }
    /// "eventually": wait until the parser delivered all n messages of the file, then until three consecutive server
    /// loop iterations (sentinel round trips, 40 ms apart) sent no stream frame. Generous limit, no verdict here.
    fn quiesce(&mut self, n: u64) -> bool {
        let t0 = Instant::now();
        let limit = Duration::from_secs(wait_secs(90));
        while !self.dead && self.file_msgs < n && t0.elapsed() < limit {
            let fr = self.conn.recv(Duration::from_millis(300));
            if let Frame::Timeout = fr {
                self.roundtrip();
                continue;
            }
            let _ = self.on_frame(fr);
        }
        let mut idle = 0;
        while !self.dead && idle < 3 && t0.elapsed() < limit {
            let before = self.data_frames;
            std::thread::sleep(Duration::from_millis(40));
            self.roundtrip();
            if self.data_frames == before {
                idle += 1;
            } else {
                idle = 0;
            }
        }
        !self.dead && self.file_msgs >= n && idle >= 3
    }
}

fn parse_ok_json(t: &str) -> Option<(u64, Value)> {
    // "ok: <verb> <id>={json}" or "ok: <verb> {json}"
    let rest = t.strip_prefix("ok:")?.trim_start();
    let b = rest.find('{')?;
    let head = rest[..b].trim();
    let old = head.rsplit(' ').next().unwrap_or("").trim_end_matches('=').parse().unwrap_or(0);
    serde_json::from_str::<Value>(&rest[b..]).ok().map(|v| (old, v))
}

fn run_srv_case(port: u16, case: usize, cs: &SrvCase, logs: &[LogFile], logline: &[usize]) -> Vec<Value> {
    let lf = &logs[cs.log];
    let n = if lf.big > 0 { lf.big } else { lf.msgs.len() as u64 };
    let mut evs = vec![json!({"ev":"reset","case":case,"hdr":{"src":cs.src,"logline":logline[cs.log],"n":n,"big":lf.big,"sort":cs.sort,"kind":cs.kind,"late":cs.late}})];
    let conn = match Conn::connect(port, Duration::from_secs(20)) {
        Ok(c) => c,
        Err(e) => {
            evs.push(json!({"ev":"connect_failed","why":trunc(&e, 100)}));
            return evs;
        }
    };
    let mut s = Sess { conn, evs, big: lf.big > 0, orig: lf.orig.clone(), pad: lf.pad.clone(), txt: None, file_msgs: 0, data_frames: 0, sentinel: 0, dead: false };
    let fail = |s: &mut Sess, what: &str, t: Option<String>| {
        s.push(json!({"ev":"unexpected_reply","to":what,"text":trunc(&t.unwrap_or_default(), 200)}));
    };
    'run: {
        let r = s.cmd(&format!("open {}", if cs.sort { json!({"files":[lf.path],"sort":true}) } else { json!({"files":[lf.path]}) }));
        if !r.as_deref().map(|t| t.starts_with("ok:")).unwrap_or(false) {
            fail(&mut s, "open", r);
            break 'run;
        }
        if cs.late && !s.quiesce(n) {
            TIMEOUTS_SEEN.fetch_add(1, Ordering::SeqCst);
            s.push(json!({"ev":"timeout","at":"parse"}));
            break 'run;
        }
        if cs.paused_query {
            let _ = s.cmd("pause");
        }
        let parsed = s.file_msgs >= n;
        let params = json!({"window":[cs.win.0, cs.win.1],"binary":cs.binary,"filters":f_json(&cs.filt)});
        let r = s.cmd(&format!("{} {}", cs.kind, params));
        let mut id = match r.as_deref().and_then(parse_ok_json) {
            Some((_, v)) if v["id"].is_u64() => v["id"].as_u64().unwrap(),
            _ => {
                fail(&mut s, "stream", r);
                break 'run;
            }
        };
        s.push(json!({"ev":"ok_stream","id":id,"kind":cs.kind,"filt":f_abs(&cs.filt),"win":[sat(cs.win.0), sat(cs.win.1)],"parsed":parsed}));
        if cs.stall_ms > 0 {
            std::thread::sleep(Duration::from_millis(cs.stall_ms)); // a client that does not read for a while (the server must wait, not drop)
        }
        let stall_after_change = if cs.stall_mid { cs.stall_ms } else { 0 };
        let change = |s: &mut Sess, id: &mut u64, w: (u64, u64)| -> bool {
            let r = s.cmd(&format!("stream_change_window {} {},{}", id, w.0, w.1));
            match r.as_deref().and_then(parse_ok_json) {
                Some((old, v)) if v["id"].is_u64() => {
                    let new = v["id"].as_u64().unwrap();
                    // the window REQUESTED (what the statement is about); the reply's echo of it is recorded for information only
                    s.push(json!({"ev":"ok_change","old":old,"id":new,"win":[sat(w.0), sat(w.1)],
                                  "echo":[sat(v["window"][0].as_u64().unwrap_or(0)), sat(v["window"][1].as_u64().unwrap_or(0))]}));
                    if stall_after_change > 0 {
                        std::thread::sleep(Duration::from_millis(stall_after_change)); // a client that does not read for a while
                    }
                    *id = new;
                    true
                }
                _ => {
                    s.push(json!({"ev":"unexpected_reply","to":"stream_change_window","text":trunc(&r.unwrap_or_default(), 200)}));
                    false
                }
            }
        };
        if let Some(w) = cs.early_change {
            if !change(&mut s, &mut id, w) {
                break 'run;
            }
        }
        if cs.paused_query {
            for w in &cs.changes {
                if !change(&mut s, &mut id, *w) {
                    break 'run;
                }
            }
            let _ = s.cmd("resume");
        }
        if !s.quiesce(n) {
            if !s.dead {
                TIMEOUTS_SEEN.fetch_add(1, Ordering::SeqCst);
                s.push(json!({"ev":"timeout","at":"quiescence"}));
            }
            break 'run;
        }
        s.push(json!({"ev":"quiescent"}));
        if !cs.paused_query {
            for w in &cs.changes {
                if !change(&mut s, &mut id, *w) {
                    break 'run;
                }
                if !s.quiesce(n) {
                    if !s.dead {
                        TIMEOUTS_SEEN.fetch_add(1, Ordering::SeqCst);
                s.push(json!({"ev":"timeout","at":"quiescence"}));
                    }
                    break 'run;
                }
                s.push(json!({"ev":"quiescent"}));
            }
        }
        if cs.kind == "stream" {
            for (start, max, sf) in &cs.searches {
                let mut st = *start;
                for _page in 0..(2 * n + 4) {
                    let r = s.cmd(&format!("stream_search {} {}", id, json!({"start_idx":st,"max_results":max,"filters":f_json(sf)})));
                    match r.as_deref().and_then(parse_ok_json) {
                        Some((_, v)) if v["search_idxs"].is_array() => {
                            let next = v["next_search_idx"].as_i64().unwrap_or(-1);
                            if s.big {
                                // big periodic logs: a summary of the page (the positions themselves are not written into the trace)
                                let idxs: Vec<i64> = v["search_idxs"].as_array().unwrap().iter().map(|x| x.as_i64().unwrap_or(-1)).collect();
                                let asc = idxs.windows(2).all(|w| w[0] < w[1]) && idxs.iter().all(|x| *x >= 0);
                                let mut res: Vec<i64> = idxs.iter().map(|x| x.rem_euclid(30)).collect();
                                res.sort();
                                res.dedup();
                                s.push(json!({"ev":"ok_search_sum","id":id,"start":sat(st),"max":sat(*max),"filt":f_abs(sf),"n":idxs.len(),
                                    "first":idxs.first().copied().unwrap_or(-1),"last":idxs.last().copied().unwrap_or(-1),"asc":asc,"res":res,"next":next}));
                            } else {
                                s.push(json!({"ev":"ok_search","id":id,"start":sat(st),"max":sat(*max),"filt":f_abs(sf),"idxs":v["search_idxs"],"next":next}));
                            }
                            if next < 0 {
                                break;
                            }
                            st = next as u64;
                        }
                        _ => {
                            fail(&mut s, "stream_search", r);
                            break 'run;
                        }
                    }
                }
            }
            for (key, val) in &cs.lookups {
                // "time": ms relative to the base of the logs; "time_abs": the absolute value as sent (recorded relative, saturated)
                let arg = match key.as_str() {
                    "index" => format!("index={}", val),
                    "time" => format!("time_ms={}", BASE_US / 1000 + val),
                    "time_abs" => format!("time_ms={}", val),
                    k => panic!("lookup key {}", k),
                };
                let (key, val) = match key.as_str() {
                    "time_abs" => ("time", sat(val.saturating_sub(BASE_US / 1000))),
                    k => (k, sat(*val)),
                };
                let r = s.cmd(&format!("stream_binary_search {} {}", id, arg));
                match r.as_deref().and_then(parse_ok_json) {
                    Some((_, v)) if v["filtered_msg_index"].is_u64() => {
                        s.push(json!({"ev":"ok_bsearch","id":id,"key":key,"val":val,"pos":v["filtered_msg_index"]}));
                    }
                    _ => {
                        if r.as_deref().map(|t| t.starts_with("err:")).unwrap_or(false) {
                            s.push(json!({"ev":"err_bsearch","id":id,"key":key,"val":val}));
                        } else {
                            fail(&mut s, "stream_binary_search", r);
                            break 'run;
                        }
                    }
                }
            }
            let r = s.cmd(&format!("stop {}", id));
            if r.as_deref().map(|t| t.starts_with("ok:")).unwrap_or(false) {
                s.push(json!({"ev":"stopped","id":id}));
            } else {
                fail(&mut s, "stop", r);
                break 'run;
            }
        }
        let r = s.cmd("close");
        if !r.as_deref().map(|t| t.starts_with("ok:")).unwrap_or(false) {
            fail(&mut s, "close", r);
            break 'run;
        }
        s.push(json!({"ev":"end"}));
    }
    s.flush_txt();
    let Sess { conn, evs, .. } = s;
    conn.close();
    evs
}

fn parse_filters(v: &Value) -> Vec<F> {
    v.as_array()
        .map(|a| {
            a.iter()
                .map(|f| F {
                    k: match f["k"].as_str().unwrap() { "pos" => "pos", "neg" => "neg", "event" => "event", "marker" => "marker", k => panic!("filter kind {}", k) },
                    on: f["on"].as_bool().unwrap(),
                    e: f["e"].as_str().unwrap_or("").to_string(),
                    a: f["a"].as_str().unwrap_or("").to_string(),
                    c: f["c"].as_str().unwrap_or("").to_string(),
                })
                .collect()
        })
        .unwrap_or_default()
}

fn pair(v: &Value) -> (u64, u64) {
    (v[0].as_u64().unwrap(), v[1].as_u64().unwrap())
}

const ECUS: [&str; 2] = ["ECUA", "ECUB"];
const APIDS: [&str; 3] = ["APIA", "APIB", "APIC"];
const CTIDS: [&str; 3] = ["CTIA", "CTIB", "CTIC"];

fn lit(k: &'static str, on: bool, e: &str, a: &str, c: &str) -> F {
    F { k, on, e: e.into(), a: a.into(), c: c.into() }
}

fn random_filter(rng: &mut Rng, k: &'static str, on: bool) -> F {
    let mut f = lit(k, on, "", "", "");
    match rng.below(5) {
        0 => f.e = rng.pick(&ECUS).to_string(),
        1 => f.a = rng.pick(&APIDS).to_string(),
        2 => f.c = rng.pick(&CTIDS).to_string(),
        3 => {
            f.a = rng.pick(&APIDS).to_string();
            f.c = rng.pick(&CTIDS).to_string();
        }
        _ => {
            f.e = rng.pick(&ECUS).to_string();
            f.a = rng.pick(&APIDS).to_string();
        }
    }
    f
}

/// filter sets over all kind combinations: pos / neg / event filters present or not (0-2 each), plus disabled filters of
/// any kind and marker filters (which must not change the set); `allow_empty`: also sets without any active filter
fn random_filters(rng: &mut Rng, allow_empty: bool) -> Vec<F> {
    let mut v = Vec::new();
    if rng.chance(1, 12) {
        v.push(lit(*rng.pick(&["pos", "event"]), true, "", "NONE", "")); // matches nothing
        return v;
    }
    loop {
        let combo = rng.below(8); // bit 0: pos, bit 1: neg, bit 2: event
        if combo == 0 && !allow_empty {
            continue;
        }
        for (bit, k) in [(1u64, "pos"), (2, "neg"), (4, "event")] {
            if combo & bit != 0 {
                for _ in 0..rng.range(1, 2) {
                    v.push(random_filter(rng, k, true));
                }
            }
        }
        break;
    }
    if rng.chance(1, 3) {
        let k = *rng.pick(&["pos", "neg", "event"]);
        v.push(random_filter(rng, k, false)); // disabled
    }
    if rng.chance(1, 5) {
        v.push(random_filter(rng, "marker", true));
    }
    // the order of the filters in the request does not matter
    for i in (1..v.len()).rev() {
        let j = rng.below(i as u64 + 1) as usize;
        v.swap(i, j);
    }
    v
}

fn random_window(rng: &mut Rng, n: u64) -> (u64, u64) {
    match rng.below(8) {
        0 => (0, n + 100),                                   // everything, beyond the end
        1 => { let a = rng.below(n + 2); (a, a) }            // empty
        2 => (rng.below(n / 2 + 1), n + rng.below(50)),      // crossing the end
        3 => (n + rng.below(20), n + 30),                    // completely beyond the end
        4 => { let a = rng.below(20); (a, a + 1 + rng.below(5)) }
        _ => { let a = rng.below(n / 2 + 1); (a, a + 1 + rng.below(n / 2 + 1)) }
    }
}

fn srv_main(a: &Args) {
    let adlt = a.str("--adlt", "");
    let work = a.str("--work", "/verif/work/C16");
    let seed = a.num("--seed", 1);
    let conns = a.num("--conns", 10) as usize;
    let mut rng = Rng::new(seed ^ 0xc16);
    let dir = format!("{}/files", work);
    std::fs::create_dir_all(&dir).unwrap();
    let mut logs: Vec<LogFile> = Vec::new();
    let mut cases: Vec<SrvCase> = Vec::new();
    // (A) TLC scenarios on tiny logs: the messages (ecu/apid/ctid), the stream's filter set (any combination of positive,
    //     negative, event, disabled and marker filters) and the search filter come from the scenario; times 10 ms apart
    if let Some(f) = a.get("--scenarios") {
        let mut by_pattern: std::collections::HashMap<String, usize> = Default::default();
        for v in read_ndjson(f) {
            let recs = v["msgs"].as_array().unwrap();
            let key = v["msgs"].to_string();
            let li = *by_pattern.entry(key).or_insert_with(|| {
                let msgs: Vec<GenMsg> = recs
                    .iter()
                    .enumerate()
                    .map(|(i, r)| GenMsg {
                        ecu: r["e"].as_str().unwrap().into(),
                        apid: r["a"].as_str().unwrap().into(),
                        ctid: r["c"].as_str().unwrap().into(),
                        t_ms: 1000 + 10 * i as u64,
                        mcnt: i as u8,
                        text: format!("tiny log message number {}", i),
                        ts_dms: 0,
                    })
                    .collect();
                let path = format!("{}/tiny-{}.dlt", dir, logs.len());
                write_log(&path, &msgs);
                { let orig = Arc::new(msgs.clone()); logs.push(LogFile { path, msgs, big: 0, orig, pad: Arc::new(String::new()) }); }
                logs.len() - 1
            });
            let filt = parse_filters(&v["filt"]);
            let sf = parse_filters(&v["sfilt"]);
            let kind = v["kind"].as_str().unwrap().to_string();
            cases.push(SrvCase {
                src: "tlc".into(),
                log: li,
                paused_query: kind == "query" && !v["chg"].as_array().unwrap().is_empty(),
                late: v["late"].as_bool().unwrap_or(true),
                kind,
                filt,
                win: pair(&v["win"]),
                early_change: None,
                changes: v["chg"].as_array().unwrap().iter().map(pair).collect(),
                searches: v["search"].as_array().map(|a| a.iter().map(|s| (s[0].as_u64().unwrap(), s[1].as_u64().unwrap(), sf.clone())).collect()).unwrap_or_default(),
                lookups: v["lookups"].as_array().map(|a| a.iter().map(|s| (s[0].as_str().unwrap().to_string(), s[1].as_u64().unwrap())).collect()).unwrap_or_default(),
                pred: v["pred"].clone(),
                sort: false, stall_ms: 0, stall_mid: false, binary: true, extreme: false,
            });
        }
    }
    // (B) seeded random cases on larger logs
    let n_random = a.num("--random", 0) as usize;
    let n_logs = a.num("--logs", 3) as usize;
    let max_n = a.num("--max-n", 1500);
    let first_big = logs.len();
    for k in 0..n_logs {
        // log 0: small (all page sizes / start positions); log 1: short time span (arrives as one burst);
        // others: long time span (streams through in several batches while it is parsed)
        let n = if k == 0 { 40 } else if k == 1 { rng.range(200, 500) } else { rng.range(std::cmp::min(800, max_n), max_n) } as usize;
        let msgs = if k <= 1 { gen_log(&mut rng, n, &ECUS, &APIDS, &CTIDS) } else { gen_log_dt(&mut rng, n, &ECUS, &APIDS, &CTIDS, 100, 400) };
        let path = format!("{}/log-{}.dlt", dir, k);
        write_log(&path, &msgs);
        { let orig = Arc::new(msgs.clone()); logs.push(LogFile { path, msgs, big: 0, orig, pad: Arc::new(String::new()) }); }
    }
    for k in 0..n_random {
        // one third of the sessions on the small / burst logs, two thirds on the logs that stream through
        let li = first_big + if k % 3 == 0 || n_logs < 3 { (k / 3) % std::cmp::min(2, n_logs) } else { 2 + (k % (n_logs - 2)) };
        let n = logs[li].msgs.len() as u64;
        let kind = if rng.chance(1, 4) { "query" } else { "stream" };
        let filt = random_filters(&mut rng, true);
        let nchg = rng.below(4) as usize;
        let paused_query = kind == "query" && rng.chance(1, 2);
        let mut searches = Vec::new();
        let mut lookups = Vec::new();
        if kind == "stream" {
            // all page sizes 1..5 and several start positions on the small log, a few on the larger ones
            if n <= 40 {
                let sf = random_filters(&mut rng, false);
                for p in 1..=5 {
                    searches.push((rng.below(6), p, sf.clone()));
                }
            } else {
                for _ in 0..2 {
                    searches.push((rng.below(n / 2), [1, 2, 3, 5, 50, 100][rng.below(6) as usize], random_filters(&mut rng, false)));
                }
            }
            for _ in 0..3 {
                lookups.push(("index".to_string(), rng.below(n + 3)));
                let t = logs[li].msgs[rng.below(n) as usize].t_ms + rng.below(3) - 1;
                lookups.push(("time".to_string(), t));
            }
            lookups.push(("time".to_string(), 0));
            lookups.push(("time".to_string(), logs[li].msgs.last().unwrap().t_ms + 5));
        }
        // on the logs that stream through while they are parsed: mostly wide windows requested during parsing, so that
        // arrival batch boundaries fall inside the window
        let streaming = li >= first_big + 2;
        let win = if streaming && kind == "stream" && rng.chance(2, 3) { (rng.below(30), n + 100) } else { random_window(&mut rng, n) };
        cases.push(SrvCase {
            src: "random".into(),
            log: li,
            kind: kind.into(),
            late: if kind == "query" && !paused_query { true } else if streaming { rng.chance(1, 6) } else { rng.chance(1, 3) },
            paused_query,
            filt,
            win,
            early_change: if kind == "stream" && rng.chance(1, 4) { Some(random_window(&mut rng, n)) } else { None },
            // a query that is not paused ends by itself: its window can only be changed while the session is paused
            changes: if kind == "query" && !paused_query { vec![] } else { (0..nchg).map(|_| random_window(&mut rng, n)).collect() },
            searches,
            lookups,
            pred: Value::Null,
            sort: rng.chance(1, 6), stall_ms: 0, stall_mid: false, binary: !rng.chance(1, 5), extreme: false,
        });
    }
    // (C) windows of thousands to tens of thousands of messages on a big log whose ecu / apid / ctid repeat periodically (more
    //     messages due at once than any per-iteration limit or batch threshold of the server loop): filter sets of every shape,
    //     streams and queries, binary and text, on the completely loaded file (everything due at once) and during parsing;
    //     frames are recorded as summaries (first / last index, index sum, equality with the generated messages)
    let n_big = a.num("--big", 0);
    let first_bigcase = cases.len();
    if n_big > 0 {
        let (pe, pa, pc) = (["ECUA", "ECUB"], ["APIA", "APIB", "APIC"], ["CTIA", "CTIB", "CTIC", "CTID", "CTIE"]);
        let msgs: Vec<GenMsg> = (0..n_big as usize)
            .map(|i| GenMsg { ecu: pe[i % 2].into(), apid: pa[i % 3].into(), ctid: pc[i % 5].into(), t_ms: 1000 + i as u64, mcnt: (i % 256) as u8, text: format!("m{}", i), ts_dms: 0 })
            .collect();
        let path = format!("{}/biglog.dlt", dir);
        write_log(&path, &msgs);
        logs.push(LogFile { path, msgs: vec![], big: n_big, orig: Arc::new(msgs), pad: Arc::new(String::new()) });
        let li = logs.len() - 1;
        let unf: Vec<F> = vec![];
        let pos = vec![lit("pos", true, "ECUA", "", "")];                                                   // 1/2
        let neg = vec![lit("neg", true, "", "APIB", ""), lit("marker", true, "ECUA", "", "")];              // 2/3
        let event = vec![lit("event", true, "", "", "CTIA"), lit("event", true, "", "", "CTIB"), lit("pos", false, "ECUB", "", "")]; // 2/5
        let pne = vec![lit("pos", true, "ECUA", "", ""), lit("pos", true, "", "APIC", ""), lit("neg", true, "", "", "CTIE"), lit("event", true, "", "APIA", ""), lit("event", true, "", "APIC", "")];
        let all = vec![lit("event", true, "ECUA", "", ""), lit("event", true, "ECUB", "", ""), lit("neg", false, "ECUA", "", "")];
        let none = vec![lit("pos", true, "", "NONE", "")];
        let mk = |kind: &str, late: bool, binary: bool, filt: &Vec<F>, win: (u64, u64), changes: Vec<(u64, u64)>| SrvCase {
            src: "big".into(), log: li, kind: kind.into(), late, paused_query: false, filt: filt.clone(), win, early_change: None, changes,
            searches: vec![], lookups: vec![], pred: Value::Null, sort: false, stall_ms: 0, stall_mid: false, binary, extreme: false,
        };
        cases.push(mk("query", true, true, &unf, (0, n_big), vec![]));
        cases.push(mk("query", true, true, &all, (0, n_big + 10), vec![]));
        cases.push(mk("query", true, true, &pos, (0, 40_000), vec![]));
        cases.push(mk("query", true, true, &pne, (0, n_big), vec![]));
        cases.push(mk("query", true, true, &event, (n_big / 7, n_big), vec![]));
        cases.push(mk("query", true, true, &none, (0, n_big), vec![]));
        cases.push(mk("stream", true, true, &unf, (0, n_big), vec![(5, n_big - 3000), (0, n_big + 1)]));
        cases.push(mk("stream", true, true, &neg, (100, 5000), vec![(0, 46_000), (40_000, 45_000)]));
        cases.push(mk("stream", true, true, &event, (0, n_big), vec![(5, 4200)]));
        cases.push(mk("stream", false, true, &pos, (100, n_big), vec![(0, n_big)]));
        cases.push(mk("stream", false, true, &all, (0, n_big), vec![]));
        cases.push(mk("query", true, false, &event, (0, 6000), vec![]));
        cases.push(mk("stream", true, false, &neg, (3, 5000), vec![(4500, 9000)]));
        cases.push(mk("stream", false, false, &unf, (10, 4200), vec![]));
    }
    // (C2) searches on a periodic log of several 100 000 messages (more positions than any per-call scan limit of the server could
    //      be): pages that are filled only far into the stream or never, on the unfiltered stream and on a filtered stream that keeps
    //      every message (stream position = message index); pages are recorded as summaries (`ok_search_sum`)
    let n_bs = a.num("--bigsearch", 0);
    if n_bs > 0 {
        let (pe, pa, pc) = (["ECUA", "ECUB"], ["APIA", "APIB", "APIC"], ["CTIA", "CTIB", "CTIC", "CTID", "CTIE"]);
        let msgs: Vec<GenMsg> = (0..n_bs as usize)
            .map(|i| GenMsg { ecu: pe[i % 2].into(), apid: pa[i % 3].into(), ctid: pc[i % 5].into(), t_ms: 1000 + i as u64, mcnt: (i % 256) as u8, text: String::new(), ts_dms: 0 })
            .collect();
        let path = format!("{}/searchlog.dlt", dir);
        write_log(&path, &msgs);
        logs.push(LogFile { path, msgs: vec![], big: n_bs, orig: Arc::new(msgs), pad: Arc::new(String::new()) });
        let li = logs.len() - 1;
        let unf: Vec<F> = vec![];
        let all = vec![lit("event", true, "ECUA", "", ""), lit("event", true, "ECUB", "", ""), lit("neg", false, "ECUA", "", "")];
        let one30 = vec![lit("pos", true, "ECUB", "APIC", "CTID")];                                          // 1/30 of the positions
        let one15 = vec![lit("pos", true, "", "APIB", "CTIE")];                                             // 1/15
        let never = vec![lit("pos", true, "", "NONE", "")];
        let mk = |filt: &Vec<F>, searches: Vec<(u64, u64, Vec<F>)>| SrvCase {
            src: "bigsearch".into(), log: li, kind: "stream".into(), late: true, paused_query: false, filt: filt.clone(), win: (0, 20), early_change: None, changes: vec![],
            searches, lookups: vec![], pred: Value::Null, sort: false, stall_ms: 0, stall_mid: false, binary: true, extreme: false,
        };
        cases.push(mk(&unf, vec![(0, 1_000_000, one30.clone()), (7, 9_500, one30.clone()), (0, 5, never.clone())]));
        cases.push(mk(&all, vec![(0, 19_000, one15.clone()), (n_bs / 3, 1_000_000, one30.clone())]));
    }
    // (E) a small log in which some messages were delivered late (reception order = file order, but their timestamp is earlier
    //     by >= 2 positions): opened with sort true / false x filter sets, the whole stream delivered, then lookups for EVERY
    //     index (and, sorted, for every message time): positions are positions in STREAM order
    if a.has("--sorted") {
        let mut msgs = gen_log(&mut rng, 40, &ECUS, &APIDS, &CTIDS);
        for p in [8usize, 17, 18, 30, 36] {
            msgs[p].ts_dms = msgs[p - 3].t_ms * 10 - 5; // between the timestamps of the messages 4 and 3 positions earlier
        }
        let path = format!("{}/sortlog.dlt", dir);
        write_log(&path, &msgs);
        let n = msgs.len() as u64;
        let times: Vec<u64> = msgs.iter().map(|g| g.ts() / 10).collect();
        { let orig = Arc::new(msgs.clone()); logs.push(LogFile { path, msgs, big: 0, orig, pad: Arc::new(String::new()) }); }
        let li = logs.len() - 1;
        let fsets: Vec<Vec<F>> = vec![vec![], vec![lit("pos", true, "ECUA", "", "")], vec![lit("event", true, "", "", "CTIA"), lit("event", true, "", "", "CTIB")],
                                      vec![lit("neg", true, "", "APIB", ""), lit("pos", true, "ECUA", "", ""), lit("pos", true, "ECUB", "", "")]];
        for sort in [true, false] {
            for (fi, filt) in fsets.iter().enumerate() {
                let mut lookups: Vec<(String, u64)> = (0..=n).map(|i| ("index".to_string(), i)).collect();
                if sort {
                    // (unsorted, the messages are not ordered by time: a time lookup has no defined answer there)
                    for t in &times {
                        lookups.push(("time".to_string(), *t));
                        lookups.push(("time".to_string(), *t + 1));
                    }
                }
                cases.push(SrvCase {
                    src: "sorted".into(), log: li, kind: if fi == 3 { "query".into() } else { "stream".into() }, late: fi != 1, paused_query: false, filt: filt.clone(),
                    win: (0, n + 5), early_change: None, changes: if fi == 2 { vec![(3, 20)] } else { vec![] }, searches: vec![], lookups: if fi == 3 { vec![] } else { lookups },
                    pred: Value::Null, sort, stall_ms: 0, stall_mid: false, binary: fi != 2 || sort, extreme: false,
                });
            }
        }
    }
    // (F) a client that stops reading: a log with long payloads (a full binary stream is tens of MB, more than the socket buffers
    //     hold), the client does not read for some seconds right after the announcing reply (and again mid-stream), then reads
    //     everything: exactly the requested window must still arrive, once, in order (C13: a slow consumer delays, never drops)
    let n_fat = a.num("--fat", 0);
    if n_fat > 0 {
        let (pe, pa, pc) = (["ECUA", "ECUB"], ["APIA", "APIB", "APIC"], ["CTIA", "CTIB", "CTIC", "CTID", "CTIE"]);
        let pad: String = " long payload".repeat(a.num("--fat-pad", 150) as usize);
        let msgs: Vec<GenMsg> = (0..n_fat as usize)
            .map(|i| GenMsg { ecu: pe[i % 2].into(), apid: pa[i % 3].into(), ctid: pc[i % 5].into(), t_ms: 1000 + i as u64, mcnt: (i % 256) as u8, text: format!("m{}", i), ts_dms: 0 })
            .collect();
        let path = format!("{}/fatlog.dlt", dir);
        {
            let padded: Vec<GenMsg> = msgs.iter().map(|g| { let mut p = g.clone(); p.text.push_str(&pad); p }).collect();
            write_log(&path, &padded);
        }
        logs.push(LogFile { path, msgs: vec![], big: n_fat, orig: Arc::new(msgs), pad: Arc::new(pad) });
        let li = logs.len() - 1;
        let stalls: Vec<(u64, bool, Vec<F>)> = if a.has("--all-stalls") {
            vec![(6000, false, vec![]), (3000, true, vec![]), (6000, true, vec![lit("neg", true, "", "APIB", "")]), (4000, false, vec![lit("event", true, "ECUA", "", "")])]
        } else {
            vec![(6000, false, vec![])] // (the socket buffers take some MB: a stall of 3 s can pass unnoticed even by a server that gives up after 1 s)
        };
        for (ms, mid, filt) in stalls {
            cases.push(SrvCase {
                src: "stalling-client".into(), log: li, kind: "stream".into(), late: true, paused_query: false, filt, win: (0, n_fat + 1), early_change: None,
                changes: if mid { vec![(10, n_fat)] } else { vec![] }, searches: vec![], lookups: vec![], pred: Value::Null, sort: false, stall_ms: ms, stall_mid: mid,
                binary: true, extreme: false,
            });
        }
    }
    // (D) numeric extreme classes for every numeric parameter (window start / end, start_idx, max_results, index, time_ms) on the
    //     small log (if present): three sessions per class so that a command that kills the connection (or the process)
    //     hides as little as possible; malformed numbers (negative, float, 1e19) are left to C15 (their meaning is undefined)
    if a.has("--extremes") && n_logs > 0 {
        let li = first_big;
        let n = logs[li].msgs.len() as u64;
        let t_last = BASE_US / 1000 + logs[li].msgs.last().unwrap().t_ms;
        let classes: Vec<(&str, u64, u64)> = vec![
            // (name, value as count/position/index, value as absolute time in ms)
            ("0", 0, 0), ("small", 3, 3), ("len-1", n - 1, t_last - 1), ("len", n, t_last), ("len+1", n + 1, t_last + 1),
            ("u32max", u32::MAX as u64, u32::MAX as u64), ("u32max+1", u32::MAX as u64 + 1, u32::MAX as u64 + 1),
            ("u64max/1000+1", u64::MAX / 1000 + 1, u64::MAX / 1000 + 1), ("2^62", 1 << 62, 1 << 62), ("u64max", u64::MAX, u64::MAX),
        ];
        let filt = vec![lit("pos", true, "ECUA", "", ""), lit("event", true, "", "", "CTIA")];
        let sf = vec![lit("event", true, "", "APIA", "")];
        for (name, v, t) in &classes {
            let mk = |win: (u64, u64), changes: Vec<(u64, u64)>, searches: Vec<(u64, u64, Vec<F>)>, lookups: Vec<(String, u64)>, filt: &Vec<F>| SrvCase {
                src: format!("extreme:{}", name), log: li, kind: "stream".into(), late: true, paused_query: false, filt: filt.clone(), win,
                early_change: None, changes, searches, lookups, pred: Value::Null, sort: false, stall_ms: 0, stall_mid: false, binary: true, extreme: true,
            };
            cases.push(mk((0, *v), vec![(*v, n + 5), (2, *v)], vec![(*v, 3, sf.clone())], vec![("index".into(), *v)], &filt));
            cases.push(mk((*v, n + 5), vec![], vec![], vec![("time_abs".into(), *t)], &vec![]));
            cases.push(mk((1, 4), vec![], vec![(0, *v, sf.clone())], vec![("time_abs".into(), *t)], &filt));
            let mut q = mk((0, *v), vec![], vec![], vec![], &filt);
            q.kind = "query".into();
            cases.push(q);
        }
    }
    if let Some(only) = a.get("--only-case") {
        let k: usize = only.parse().unwrap();
        let c = cases[k].clone();
        cases = vec![c];
    }
    // several server processes with different parser pacing (arrival batching)
    let throttles: Vec<String> = a.str("--throttles", "none,16:4,3:2").split(',').map(|s| s.to_string()).collect();
    let mut servers: Vec<Server> = throttles.iter().enumerate().map(|(i, t)| Server::start(&adlt, &work, &format!("c16-{}", i), if t == "none" { None } else { Some(t) })).collect();
    let ports: Vec<u16> = servers.iter().map(|s| s.port).collect();
    // the big log is served by an additional process without parser throttle
    if n_big > 0 || n_fat > 0 {
        servers.push(Server::start(&adlt, &work, "c16-big", None));
    }
    let big_port = servers.last().unwrap().port;
    const X_SERVERS: usize = 3; // sessions with extreme numeric parameters: one at a time per dedicated process
    let xsrvs: Arc<Vec<Mutex<Option<(Server, u32)>>>> = Arc::new((0..X_SERVERS).map(|_| Mutex::new(None)).collect());
    let xpanics: Arc<Mutex<Vec<(String, u64)>>> = Arc::new(Mutex::new(Vec::new()));
    // the logs go first into the trace: one `log` event per file; cases refer to its line number
    let mut t = Trace::create(&a.str("--out", "trace-srv.ndjson"));
    let mut logline = Vec::new();
    for (k, lf) in logs.iter().enumerate() {
        let recs: Vec<Value> = lf
            .msgs
            .iter()
            .enumerate()
            .map(|(i, g)| json!({"i": i, "rx": g.t_ms, "ts": g.ts(), "e": g.ecu, "a": g.apid, "c": g.ctid, "mc": g.mcnt, "h": hash31(g.text.as_bytes())}))
            .collect();
        if lf.big > 0 {
            t.ev(json!({"ev":"log","name":k,"n":lf.big,"period":{"e":["ECUA","ECUB"],"a":["APIA","APIB","APIC"],"c":["CTIA","CTIB","CTIC","CTID","CTIE"]},"msgs":[]}));
        } else {
            t.ev(json!({"ev":"log","name":k,"msgs":recs}));
        }
        logline.push(t.lines as usize);
    }
    let cases = Arc::new(cases);
    let logs = Arc::new(logs);
    let logline = Arc::new(logline);
    let next = Arc::new(AtomicUsize::new(0));
    let results: Arc<Mutex<Vec<(usize, Vec<Value>)>>> = Arc::new(Mutex::new(Vec::new()));
    let mut threads = Vec::new();
    for _w in 0..conns {
        let (cases, next, results, logs, logline, ports) = (cases.clone(), next.clone(), results.clone(), logs.clone(), logline.clone(), ports.clone());
        let _ = first_bigcase;
        let (xsrvs, xpanics, adlt, work) = (xsrvs.clone(), xpanics.clone(), adlt.clone(), work.clone());
        threads.push(std::thread::spawn(move || loop {
            let k = next.fetch_add(1, Ordering::SeqCst);
            if k >= cases.len() {
                break;
            }
            if TIMEOUTS_SEEN.load(Ordering::SeqCst) > 25 {
                continue; // dozens of sessions timed out (= dozens of violations): the verdict stands, do not spend hours on the rest
            }
            if cases[k].extreme {
                let slot = k % X_SERVERS;
                let mut g = xsrvs[slot].lock().unwrap();
                let gen = g.as_ref().map(|x| x.1).unwrap_or(0);
                if g.as_mut().map(|x| x.0.exited().is_some()).unwrap_or(true) {
                    *g = Some((Server::start(&adlt, &work, &format!("c16-extreme-{}-{}", slot, gen + 1), None), gen + 1));
                }
                let sv = &mut g.as_mut().unwrap().0;
                let mut evs = run_srv_case(sv.port, k, &cases[k], &logs, &logline);
                std::thread::sleep(Duration::from_millis(20));
                if let Some(st) = sv.exited() {
                    evs.push(json!({"ev":"server_exit","status":st})); // the server PROCESS died during this session
                }
                let mut xp = xpanics.lock().unwrap();
                for p in sv.panic_lines() {
                    if let Some(e) = xp.iter_mut().find(|e| e.0 == p.0) { e.1 = std::cmp::max(e.1, p.1); } else { xp.push(p); }
                }
                results.lock().unwrap().push((k, evs));
                continue;
            }
            let port = if logs[cases[k].log].big > 0 { big_port } else { ports[k % ports.len()] };
            let evs = run_srv_case(port, k, &cases[k], &logs, &logline);
            results.lock().unwrap().push((k, evs));
        }));
    }
    for th in threads {
        th.join().unwrap();
    }
    let mut res = std::mem::take(&mut *results.lock().unwrap());
    res.sort_by_key(|e| e.0);
    let (mut delivered, mut frames, mut pages, mut lookups, mut drift, mut predicted) = (0u64, 0u64, 0u64, 0u64, 0u64, 0u64);
    let (mut drift_d, mut drift_pages, mut drift_lk) = (0u64, 0u64, 0u64);
    for (k, evs) in &res {
        // drift statistics: positions delivered per announced id at the end vs. TLC's prediction (equality only)
        let pred = &cases[*k].pred;
        if !pred.is_null() {
            predicted += 1;
            let mut per_id: Vec<(u64, Vec<u64>)> = Vec::new();
            let mut pages_seen: Vec<Value> = Vec::new();
            let mut lk: Vec<Value> = Vec::new();
            for e in evs {
                match e["ev"].as_str().unwrap() {
                    "ok_stream" | "ok_change" => per_id.push((e["id"].as_u64().unwrap(), vec![])),
                    "bin_msgs" => {
                        if let Some(p) = per_id.iter_mut().find(|p| p.0 == e["id"].as_u64().unwrap()) {
                            p.1.extend(e["msgs"].as_array().unwrap().iter().map(|m| m["i"].as_u64().unwrap()));
                        }
                    }
                    "ok_search" => pages_seen.push(json!([e["idxs"], e["next"]])),
                    "ok_bsearch" => lk.push(e["pos"].clone()),
                    "err_bsearch" => lk.push(json!(-1)),
                    _ => {}
                }
            }
            let obs = json!({"d": per_id.iter().map(|p| p.1.clone()).collect::<Vec<_>>(), "pages": pages_seen, "lk": lk});
            if obs != *pred {
                drift += 1;
            }
            if obs["d"] != pred["d"] {
                drift_d += 1;
            }
            if obs["pages"] != pred["pages"] {
                drift_pages += 1;
            }
            if obs["lk"] != pred["lk"] {
                drift_lk += 1;
            }
        }
        for e in evs {
            match e["ev"].as_str().unwrap() {
                "bin_msgs" | "bin_sum" | "txt_sum" => {
                    frames += 1;
                    delivered += e["n"].as_u64().unwrap();
                }
                "ok_search" | "ok_search_sum" => pages += 1,
                "ok_bsearch" | "err_bsearch" => lookups += 1,
                _ => {}
            }
            t.ev(e.clone());
        }
    }
    t.flush();
    let mut panics = Vec::new();
    let mut exited = Vec::new();
    for s in servers.iter_mut() {
        if let Some(st) = s.exited() {
            exited.push(st);
        }
        for p in s.panic_lines() {
            panics.push(json!({"where": p.0, "count": p.1}));
        }
        s.stop();
    }
    for m in xsrvs.iter() {
        if let Some((sv, _)) = m.lock().unwrap().as_mut() {
            sv.stop();
        }
    }
    for p in xpanics.lock().unwrap().iter() {
        panics.push(json!({"where": p.0, "count": p.1}));
    }
    println!("{}", json!({"cases": res.len(), "lines": t.lines, "logs": logs.len(), "delivered": delivered, "frames": frames, "pages": pages,
        "lookups": lookups, "predicted": predicted, "drift": drift, "drift_delivery": drift_d, "drift_pages": drift_pages, "drift_lookups": drift_lk, "panics": panics, "server_exit": exited}));
}

fn main() {
    let a = Args::from_env();
    match a.0.first().map(|s| s.as_str()) {
        Some("lib") => lib_main(&a),
        Some("server") => srv_main(&a),
        _ => {
            eprintln!("usage: c16 lib|server ...");
            std::process::exit(2);
        }
    }
}
