//! X07 driver: control-message payloads - the five decoders of adlt::dlt::control_msgs and the text adlt shows for a
//! non-verbose control message (DltMessage::payload_as_text / header_as_text_to_write / is_ctrl_request|response).
//!
//! Input: "lines" emitted by TLC from spec/CtrlMsgs.tla (a message shape, an encoding, a list of mutations and TLC's
//! predictions) and seeded random cases beyond the bounds of the model.  For every case the driver builds the payload,
//! calls the REAL decoder of the service directly and the REAL text rendering on a DltMessage built from public fields,
//! and records what it saw:
//!   {"ev":"reset","case":n,"hdr":{src,fam,id,be,typ,noar,short,pl,bind,lay,val,mut,tr}}
//!   {"ev":"dec","svc":..., ...}      result of the direct decoder call (svc "none": no decoder belongs to the message)
//!   {"ev":"text","head","rest","json","hdr4","req","resp"}   the text split at the first ']', the rest as code points
//!                                    and (if it parses) as normalised JSON; last four words of the header line; the flags
//!   {"ev":"panic","at":...,"msg":..} a panic of the code under test (data; matches no contract action)
//!   {"ev":"end"}
//! Nothing here knows what a correct result is: the only comparison is equality with the value TLC predicted.
use adlt::dlt::control_msgs::{
    parse_ctrl_connection_info_payload, parse_ctrl_log_info_payload, parse_ctrl_sw_version_payload, parse_ctrl_timezone_payload,
    parse_ctrl_unregister_context_payload,
};
use adlt::dlt::{DltChar4, DltExtendedHeader, DltMessage, DltStandardHeader};
use std::collections::BTreeMap;
use vh::*;

fn cps(s: &str) -> Vec<u32> {
    s.chars().map(|c| c as u32).collect()
}
fn id4(c: &DltChar4) -> Vec<u8> {
    c.as_buf().to_vec()
}
fn opt<T: serde::Serialize>(o: Option<T>) -> Value {
    match o {
        Some(x) => json!([x]),
        None => json!([]),
    }
}

/// which decoder belongs to the message (binding: service id -> function of control_msgs.rs)
fn dec_svc(id: u32, short: u64, pl: &[u8]) -> &'static str {
    if short < 4 || pl.is_empty() {
        return "none";
    }
    match id {
        3 => "loginfo",
        19 => "swver",
        0xF01 => "unreg",
        0xF02 => "conn",
        0xF03 => "tz",
        _ => "none",
    }
}

/// direct call of the decoder; pl = payload behind the service id (status byte first)
fn decode(svc: &str, be: bool, pl: &[u8]) -> Value {
    if svc == "none" {
        return json!({"ev":"dec","svc":"none"});
    }
    let st = pl[0];
    let p = &pl[1..];
    match svc {
        "loginfo" => {
            let apps = parse_ctrl_log_info_payload(st, be, p);
            let apps: Vec<Value> = apps
                .iter()
                .map(|a| {
                    let cs: Vec<Value> = a
                        .ctids
                        .iter()
                        .map(|c| json!({"id": id4(&c.ctid), "ll": opt(c.log_level), "ts": opt(c.trace_status), "d": opt(c.desc.as_deref().map(cps))}))
                        .collect();
                    json!({"id": id4(&a.apid), "cs": cs, "d": opt(a.desc.as_deref().map(cps))})
                })
                .collect();
            json!({"ev":"dec","svc":svc,"apps":apps})
        }
        "swver" => match parse_ctrl_sw_version_payload(be, p) {
            Some(s) => json!({"ev":"dec","svc":svc,"some":1,"t":cps(&s)}),
            None => json!({"ev":"dec","svc":svc,"some":0,"t":[]}),
        },
        "unreg" => match parse_ctrl_unregister_context_payload(p) {
            Some((a, c, i)) => json!({"ev":"dec","svc":svc,"some":1,"ids":[id4(&a), id4(&c), id4(&i)]}),
            None => json!({"ev":"dec","svc":svc,"some":0,"ids":[]}),
        },
        "conn" => match parse_ctrl_connection_info_payload(p) {
            Some((s, i)) => json!({"ev":"dec","svc":svc,"some":1,"state":s,"id":id4(&i)}),
            None => json!({"ev":"dec","svc":svc,"some":0,"state":0,"id":[]}),
        },
        "tz" => match parse_ctrl_timezone_payload(be, p) {
            Some((off, dst)) => json!({"ev":"dec","svc":svc,"some":1,"off":off,"dst":dst as u64}),
            None => json!({"ev":"dec","svc":svc,"some":0,"off":0,"dst":0}),
        },
        _ => unreachable!(),
    }
}

/// JSON value -> [t, v] form with strings as code points and object members sorted by key (no knowledge of the content)
fn norm(v: &Value) -> Value {
    match v {
        Value::Null => json!({"t":"z","v":[]}),
        Value::Bool(b) => json!({"t":"b","v":[*b as u64]}),
        Value::Number(n) => match n.as_i64() {
            Some(i) => json!({"t":"n","v":[i]}),
            None => json!({"t":"f","v":[]}),
        },
        Value::String(s) => json!({"t":"s","v":cps(s)}),
        Value::Array(a) => json!({"t":"a","v":a.iter().map(norm).collect::<Vec<_>>()}),
        Value::Object(o) => {
            let mut m: Vec<(&String, &Value)> = o.iter().collect();
            m.sort_by(|a, b| a.0.cmp(b.0));
            json!({"t":"o","v":m.iter().map(|(k, x)| json!({"k":k,"x":norm(x)})).collect::<Vec<_>>()})
        }
    }
}

struct Hdr {
    fam: String,
    id: u32,
    be: bool,
    typ: String,
    noar: u8,
    short: u64,
    pl: Vec<u8>,
}

fn build_msg(h: &Hdr) -> DltMessage {
    let idb = if h.be { h.id.to_be_bytes() } else { h.id.to_le_bytes() };
    let mut payload: Vec<u8> = idb[0..(h.short.min(4) as usize)].to_vec();
    if h.short >= 4 {
        payload.extend_from_slice(&h.pl);
    }
    let mtin: u8 = if h.typ == "request" { 1 } else { 2 };
    DltMessage {
        index: 7,
        reception_time_us: BASE_US + 1_000_000,
        ecu: char4("ECU1"),
        timestamp_dms: 12345,
        standard_header: DltStandardHeader { htyp: 0x21 | 0x10 | if h.be { 0x02 } else { 0 }, mcnt: 3, len: 0 },
        extended_header: Some(DltExtendedHeader { verb_mstp_mtin: (3 << 1) | (mtin << 4), noar: h.noar, apid: char4("DA1"), ctid: char4("DC1") }),
        payload,
        payload_text: None,
        lifecycle: 0,
    }
}

/// the text as adlt shows it, taken apart without interpreting it
fn render(h: &Hdr) -> Value {
    let m = build_msg(h);
    let s: String = match m.payload_as_text() {
        Ok(t) => t.into_owned(),
        Err(e) => return json!({"ev":"panic","at":"text","msg":format!("payload_as_text returned Err({:?})", e)}),
    };
    let (head, rest) = match (s.starts_with('['), s.find(']')) {
        (true, Some(i)) => (s[..=i].to_string(), s[i + 1..].to_string()),
        _ => (String::new(), s.clone()),
    };
    let js: Vec<Value> = if rest.starts_with(" [") || rest.starts_with(" {") {
        match serde_json::from_str::<Value>(&rest[1..]) {
            Ok(v) => vec![norm(&v)],
            Err(_) => vec![],
        }
    } else {
        vec![]
    };
    let mut hb: Vec<u8> = Vec::new();
    if let Err(e) = m.header_as_text_to_write(&mut hb) {
        return json!({"ev":"panic","at":"header","msg":format!("header_as_text_to_write returned Err({:?})", e)});
    }
    let hs = String::from_utf8_lossy(&hb).to_string();
    let words: Vec<&str> = hs.split_whitespace().collect();
    let hdr4: Vec<&str> = words[words.len().saturating_sub(4)..].to_vec();
    json!({"ev":"text","head":head,"rest":cps(&rest),"json":js,"hdr4":hdr4,"req":m.is_ctrl_request() as u64,"resp":m.is_ctrl_response() as u64})
}

/// one case on the real code: [dec, text] or a panic event
fn run_case(h: &Hdr) -> Vec<Value> {
    let svc = dec_svc(h.id, h.short, &h.pl);
    let mut evs = Vec::new();
    match catch(std::panic::AssertUnwindSafe(|| decode(svc, h.be, &h.pl))) {
        Ok(v) => evs.push(v),
        Err(msg) => {
            evs.push(json!({"ev":"panic","at":"dec","msg":msg}));
            return evs;
        }
    }
    match catch(std::panic::AssertUnwindSafe(|| render(h))) {
        Ok(v) => evs.push(v),
        Err(msg) => {
            evs.push(json!({"ev":"panic","at":"text","msg":msg}));
            return evs;
        }
    }
    if evs.iter().all(|e| e["ev"] != "panic") {
        evs.push(json!({"ev":"end"}));
    }
    evs
}

fn strip_ev(v: &Value) -> Value {
    let mut o = v.as_object().cloned().unwrap_or_default();
    o.remove("ev");
    Value::Object(o)
}

/// observation == prediction?  (pred.text.json non-empty: the JSON reading is compared, else the free text)
fn same_as_pred(evs: &[Value], pred: &Value) -> bool {
    if evs.len() != 3 || evs[0]["ev"] != "dec" || evs[1]["ev"] != "text" {
        return false;
    }
    if strip_ev(&evs[0]) != pred["dec"] {
        return false;
    }
    let (o, p) = (&evs[1], &pred["text"]);
    let body = if p["json"].as_array().map(|a| !a.is_empty()).unwrap_or(false) { o["json"] == p["json"] } else { o["rest"] == p["rest"] };
    o["head"] == p["head"] && body && o["hdr4"] == p["hdr4"] && o["req"] == p["req"] && o["resp"] == p["resp"]
}

fn bytes_of(v: &Value) -> Vec<u8> {
    v.as_array().map(|a| a.iter().map(|x| x.as_u64().unwrap() as u8).collect()).unwrap_or_default()
}

fn put16(v: &mut Vec<u8>, x: u16, be: bool) {
    v.extend_from_slice(&if be { x.to_be_bytes() } else { x.to_le_bytes() });
}
fn set16(v: &mut [u8], o: usize, x: u16, be: bool) {
    let b = if be { x.to_be_bytes() } else { x.to_le_bytes() };
    v[o] = b[0];
    v[o + 1] = b[1];
}

/// apply a mutation <<k, a, b>> of the model to an encoding (byte surgery only)
fn mutate(enc: &[u8], k: u64, a: u64, b: u64, be: bool, trailer: &[u8]) -> Vec<u8> {
    match k {
        0 => {
            let mut v = enc.to_vec();
            v.extend_from_slice(trailer);
            v
        }
        1 => enc[..(a as usize).min(enc.len())].to_vec(),
        2 => {
            let mut v = enc.to_vec();
            set16(&mut v, a as usize, b as u16, be);
            v
        }
        _ => enc.to_vec(),
    }
}

// ------------------------------------------------------------------------------------------------ random values
struct RCtx {
    id: [u8; 4],
    ll: u8,
    ts: u8,
    d: Vec<u8>,
}
struct RApp {
    id: [u8; 4],
    cs: Vec<RCtx>,
    d: Vec<u8>,
}
fn val_json(v: &[RApp]) -> Value {
    Value::Array(
        v.iter()
            .map(|a| json!({"id": a.id.to_vec(), "cs": a.cs.iter().map(|c| json!({"id": c.id.to_vec(), "ll": c.ll, "ts": c.ts, "d": c.d})).collect::<Vec<_>>(), "d": a.d}))
            .collect(),
    )
}
/// [Dlt197] layout per status (3..7); returns the bytes and the offsets/values of all count and length fields
fn encode(lay: u8, be: bool, v: &[RApp]) -> (Vec<u8>, Vec<(usize, u16)>) {
    let has_ll = lay == 4 || lay == 6 || lay == 7;
    let has_ts = lay == 5 || lay == 6 || lay == 7;
    let has_d = lay == 7;
    let mut b = Vec::new();
    let mut f = Vec::new();
    f.push((0usize, v.len() as u16));
    put16(&mut b, v.len() as u16, be);
    for a in v {
        b.extend_from_slice(&a.id);
        f.push((b.len(), a.cs.len() as u16));
        put16(&mut b, a.cs.len() as u16, be);
        for c in &a.cs {
            b.extend_from_slice(&c.id);
            if has_ll {
                b.push(c.ll);
            }
            if has_ts {
                b.push(c.ts);
            }
            if has_d {
                f.push((b.len(), c.d.len() as u16));
                put16(&mut b, c.d.len() as u16, be);
                b.extend_from_slice(&c.d);
            }
        }
        if has_d {
            f.push((b.len(), a.d.len() as u16));
            put16(&mut b, a.d.len() as u16, be);
            b.extend_from_slice(&a.d);
        }
    }
    (b, f)
}
fn rnd_id(rng: &mut Rng) -> [u8; 4] {
    let pool: [&[u8; 4]; 10] = [b"APP1", b"APP2", b"CTX1", b"CTX2", b"SYS\0", b"A\0\0\0", b"\0\0\0\0", b"a\"b\\", b"LOG\0", b"ZZZZ"];
    match rng.below(10) {
        0 => {
            let r = rng.bytes(4);
            [r[0], r[1], r[2], r[3]]
        }
        1 => {
            let mut x = **rng.pick(&pool);
            x[rng.below(4) as usize] = *rng.pick(&[0u8, 1, 31, 127, 128, 255, b' ']);
            x
        }
        _ => **rng.pick(&pool),
    }
}
fn rnd_text(rng: &mut Rng, max: usize) -> Vec<u8> {
    let n = match rng.below(10) {
        0..=2 => 0,
        3..=7 => rng.range(1, 40.min(max as u64)) as usize,
        8 => rng.range(1, 12.min(max as u64)) as usize,
        _ if max > 260 && rng.chance(1, 2) => rng.range(256, max as u64) as usize, // the length needs its high byte
        _ => rng.range(1, max as u64) as usize,
    };
    let any = rng.chance(1, 4);
    (0..n)
        .map(|_| {
            if any {
                rng.next_u64() as u8
            } else if rng.chance(1, 15) {
                *rng.pick(&[b'\n', b'\r', b'\t', b'"', b'\\', 0xe4, 0x80, 0xff, 0, 1])
            } else {
                b' ' + rng.below(95) as u8
            }
        })
        .collect()
}
fn rnd_val(rng: &mut Rng, max_desc: usize) -> Vec<RApp> {
    let na = *rng.pick(&[0usize, 1, 1, 2, 2, 3, 4]);
    (0..na)
        .map(|_| RApp {
            id: rnd_id(rng),
            cs: (0..*rng.pick(&[0usize, 1, 1, 2, 2, 3, 5])).map(|_| RCtx { id: rnd_id(rng), ll: rng.next_u64() as u8, ts: rng.next_u64() as u8, d: rnd_text(rng, max_desc) }).collect(),
            d: rnd_text(rng, max_desc),
        })
        .collect()
}

fn main() {
    quiet_panics();
    let a = Args::from_env();
    let mut t = Trace::create(&a.str("--out", "trace.ndjson"));
    let mut rng = Rng::new(a.num("--seed", 1));
    let sample = a.num("--sample", 300);
    let mut case = 0u64;
    let (mut replayed, mut fast, mut slow, mut drift, mut not_ok, mut kf_pred) = (0u64, 0u64, 0u64, 0u64, 0u64, 0u64);
    let (mut drift_traced, mut drift_untraced) = (0u64, 0u64);
    let mut drift_samples: Vec<Value> = Vec::new();
    let mut paths: BTreeMap<String, u64> = BTreeMap::new();
    let mut hit = |k: String| {
        *paths.entry(k).or_insert(0) += 1;
    };
    let mut lines_in = 0u64;
    let mut strata: BTreeMap<String, u64> = BTreeMap::new();

    // ---- TLC lines ---------------------------------------------------------------------------------------------
    if let Some(f) = a.get("--scenarios") {
        use std::io::BufRead;
        let total = a.num("--n-cases", 100_000);
        let every = if sample == 0 { u64::MAX } else { (total / sample).max(1) };
        let rd = std::io::BufReader::new(std::fs::File::open(f).expect("open scenarios"));
        for line in rd.lines().map(|l| l.unwrap()).filter(|l| !l.trim().is_empty()) {
            let s: Value = serde_json::from_str(&line).expect("scenario json");
            lines_in += 1;
            let fam = s["fam"].as_str().unwrap().to_string();
            let be = s["be"].as_u64().unwrap() == 1;
            let enc = bytes_of(&s["enc"]);
            let nost = s["nost"].as_u64().unwrap() == 1;
            let st = s["st"].as_u64().unwrap() as u8;
            let bind = fam == "loginfo";
            for m in s["muts"].as_array().unwrap() {
                let mv: Vec<u64> = m.as_array().unwrap().iter().take(6).map(|x| x.as_u64().unwrap()).collect();
                let wcls = m[6].as_str().unwrap_or("");
                let (k, ma, mb, pi, ok, kf) = (mv[0], mv[1], mv[2], mv[3] as usize, mv[4] == 1, mv[5] == 1);
                let trailer = if k == 0 { bytes_of(&s["trs"][ma as usize]) } else { Vec::new() };
                let mut pl = Vec::new();
                if !nost {
                    pl.push(st);
                    pl.extend_from_slice(&mutate(&enc, k, ma, mb, be, &trailer));
                }
                let h = Hdr { fam: fam.clone(), id: s["id"].as_u64().unwrap() as u32, be, typ: s["typ"].as_str().unwrap().to_string(), noar: s["noar"].as_u64().unwrap() as u8, short: s["short"].as_u64().unwrap(), pl };
                let evs = run_case(&h);
                replayed += 1;
                hit(format!("scn_{}_mut{}", fam, if k == 0 && ma > 0 { "0t".to_string() } else { k.to_string() }));
                if h.typ == "request" {
                    hit("scn_request".to_string());
                }
                if be {
                    hit("scn_big_endian".to_string());
                }
                let same = same_as_pred(&evs, &s["preds"][pi - 1]);
                if !same {
                    drift += 1;
                    if drift_samples.len() < 5 {
                        drift_samples.push(json!({"fam": fam, "id": h.id, "be": be, "typ": h.typ, "pl": h.pl, "mut": [k, ma, mb], "predicted": s["preds"][pi - 1], "observed": evs}));
                    }
                }
                if !ok {
                    not_ok += 1;
                }
                if kf {
                    kf_pred += 1;
                }
                hit(format!("scn_w_{}", wcls));
                // sample: every n-th case and the first three of every (family, mutation kind, class) stratum
                let stratum = strata.entry(format!("{}:{}:{}:{}:{}:{}:{}", fam, k, wcls, h.typ, h.short < 4, h.pl.is_empty(), s["preds"][pi - 1]["dec"]["some"])).or_insert(0u64);
                *stratum += 1;
                let sampled = replayed % every == 0 || *stratum <= 3;
                let skip_drift = !same && !(drift <= 1500 || (drift % 50 == 0 && drift_traced < 3000));
                if !same && !skip_drift {
                    drift_traced += 1;
                }
                if skip_drift {
                    drift_untraced += 1;
                } else if same && ok && !sampled {
                    fast += 1;
                } else {
                    slow += 1;
                    let src = if !same { "tlc-drift" } else if !ok { "tlc-notok" } else { "tlc" };
                    t.ev(json!({"ev":"reset","case":case,"hdr":{"src":src,"fam":h.fam,"id":h.id,"be":be as u64,"typ":h.typ,"noar":h.noar,"short":h.short,"pl":h.pl,
                        "bind": bind as u64, "lay": s["lay"], "val": s["val"], "mut": [k, ma, mb], "tr": trailer}}));
                    for e in &evs {
                        t.ev(e.clone());
                    }
                }
                case += 1;
            }
        }
    }

    // ---- seeded random cases beyond the bounds of the model ----------------------------------------------------------
    let n_random = a.num("--random", 0);
    let max_desc = a.num("--max-desc", 300) as usize;
    for _ in 0..n_random {
        let be = rng.chance(1, 2);
        let w = rng.below(100);
        let typ = if rng.chance(1, 8) { "request" } else { "response" }.to_string();
        let noar = *rng.pick(&[0u8, 1, 1, 1, 2, 255]);
        let (fam, id, pl, bind, lay, val, mutv, tr): (&str, u32, Vec<u8>, bool, u8, Value, [u64; 3], Vec<u8>) = if w < 62 {
            // get_log_info: a random value, encoded, then mutated
            let v = rnd_val(&mut rng, max_desc);
            let lay = *rng.pick(&[3u8, 4, 5, 6, 7, 7, 7, 7, 7, 7]);
            let st = if rng.chance(1, 10) { *rng.pick(&[0u8, 1, 2, 3, 4, 5, 6, 7, 8, 9, 200]) } else { lay };
            let (enc, fields) = encode(lay, be, &v);
            let mk = rng.below(100);
            let (mutv, tr, bytes): ([u64; 3], Vec<u8>, Vec<u8>) = if mk < 22 {
                ([0, 0, 0], vec![], enc.clone())
            } else if mk < 32 {
                let tr = if rng.chance(1, 2) { b"remo".to_vec() } else { { let n = rng.range(1, 9) as usize; rng.bytes(n) } };
                ([0, 1, 0], tr.clone(), mutate(&enc, 0, 1, 0, be, &tr))
            } else if mk < 62 {
                let k = rng.below(enc.len() as u64);
                ([1, k, 0], vec![], mutate(&enc, 1, k, 0, be, &[]))
            } else if mk < 92 {
                let (o, av) = *rng.pick(&fields);
                let x = match rng.below(7) {
                    0 => 0,
                    1 => 1,
                    2 => av.wrapping_sub(1),
                    3 => av.wrapping_add(1),
                    4 => 0xffff,
                    5 => av.wrapping_add(rng.range(2, 40) as u16),
                    _ => rng.next_u64() as u16,
                };
                ([2, o as u64, x as u64], vec![], mutate(&enc, 2, o as u64, x as u64, be, &[]))
            } else {
                // free bytes (no encoding behind): flip some bytes of an encoding or take random bytes
                let mut b = if rng.chance(1, 2) { enc.clone() } else { { let n = rng.below(60) as usize; rng.bytes(n) } };
                for _ in 0..rng.below(4) {
                    if !b.is_empty() {
                        let i = rng.below(b.len() as u64) as usize;
                        b[i] = rng.next_u64() as u8;
                    }
                }
                ([9, 0, 0], vec![], b)
            };
            let mut pl = vec![st];
            pl.extend_from_slice(&bytes);
            hit(format!("rnd_loginfo_mut{}", mutv[0]));
            hit(format!("rnd_loginfo_lay{}", lay));
            ("loginfo", 3, pl, mutv[0] != 9, lay, val_json(&v), mutv, tr)
        } else if w < 70 {
            let txt = rnd_text(&mut rng, 80);
            let n = txt.len() as u32;
            let claimed = match rng.below(8) {
                0 => n.wrapping_sub(1),
                1 => n + 1,
                2 => 0xffff_ffff,
                3 => 0x8000_0000,
                4 => n + 0x1_0000,
                _ => n,
            };
            let mut pl = vec![*rng.pick(&[0u8, 0, 0, 1, 8])];
            pl.extend_from_slice(&if be { claimed.to_be_bytes() } else { claimed.to_le_bytes() });
            pl.extend_from_slice(&txt);
            if rng.chance(1, 4) {
                let k = rng.below(pl.len() as u64) as usize;
                pl.truncate(k.max(1));
            }
            hit("rnd_swver".to_string());
            ("swver", 19, pl, false, 0, json!([]), [9, 0, 0], vec![])
        } else if w < 85 {
            let (fam, id, n) = *rng.pick(&[("unreg", 0xF01u32, 12usize), ("conn", 0xF02, 5), ("tz", 0xF03, 5)]);
            let len = match rng.below(6) {
                0 => rng.below(n as u64) as usize,
                1 => n + rng.range(1, 4) as usize,
                _ => n,
            };
            let mut pl = vec![*rng.pick(&[0u8, 0, 0, 2, 7])];
            for _ in 0..len {
                pl.push(if rng.chance(1, 3) { rng.next_u64() as u8 } else { *rng.pick(&[0u8, 1, 2, b'A', b'"', b'z', 255]) });
            }
            hit(format!("rnd_{}", fam));
            (fam, id, pl, false, 0, json!([]), [9, 0, 0], vec![])
        } else {
            let id = match rng.below(4) {
                0 => rng.range(0, 24) as u32,
                1 => rng.range(0xF00, 0xF10) as u32,
                2 => (rng.next_u64() as u32) & 0x7fff_ffff,
                _ => *rng.pick(&[3u32, 19, 0xF01, 0xF02, 0xF03]),
            };
            let n = rng.below(24) as usize;
            let pl = rng.bytes(n);
            hit("rnd_text".to_string());
            ("text", id, pl, false, 0, json!([]), [9, 0, 0], vec![])
        };
        let short = if fam == "text" && rng.chance(1, 12) { rng.below(4) } else { 4 };
        let h = Hdr { fam: fam.to_string(), id, be, typ, noar, short, pl };
        let evs = run_case(&h);
        t.ev(json!({"ev":"reset","case":case,"hdr":{"src":"random","fam":h.fam,"id":h.id,"be":be as u64,"typ":h.typ,"noar":h.noar,"short":h.short,"pl":h.pl,
            "bind": bind as u64, "lay": lay, "val": val, "mut": mutv, "tr": tr}}));
        for e in &evs {
            t.ev(e.clone());
        }
        hit("random_cases".to_string());
        case += 1;
    }

    t.flush();
    let summary = json!({"cases": case, "lines": t.lines, "scenario_lines": lines_in, "replayed": replayed, "fast_path": fast, "slow_path": slow, "drift": drift,
                         "predicted_not_ok": not_ok, "predicted_kf": kf_pred, "drift_not_traced": drift_untraced, "drift_samples": drift_samples, "paths": paths});
    match a.get("--summary") {
        Some(p) => std::fs::write(p, summary.to_string()).unwrap(),
        None => println!("{}", summary),
    }
}
