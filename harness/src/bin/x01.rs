//! X01 driver: feeds input histories (from TLC scenarios or from the seeded random generator) into the real
//! adlt::utils::eac_stats::EacStats and records what an observer sees:
//!   direct  walking the public maps (+ EacStats::nr_msgs, ApidStats::nr_msgs)
//!   remote  ecu_map.iter().map(BinEcuStats::from) -> bincode BinType::EacInfo -> decode   (what remote.rs sends)
//!   split   a second collector fed with the inputs of one ECU only
//!   wire    (mode --wire) the EacInfo frame a websocket client of the real `adlt remote` binary receives
//! Nothing here knows what a correct snapshot is; the only comparison is equality with the snapshot TLC predicted.
use adlt::dlt::{DltChar4, DltExtendedHeader, DltMessage, DltStandardHeader};
use adlt::utils::eac_stats::EacStats;
use adlt::utils::remote_types::{BinEcuStats, BinType};
use std::collections::BTreeMap;
use std::time::{Duration, Instant};
use vh::*;

#[path = "c15/ws.rs"]
mod ws;

const BINCODE_CONFIG: bincode::config::Configuration<bincode::config::LittleEndian, bincode::config::Fixint, bincode::config::NoLimit> =
    bincode::config::legacy();
const UNKNOWN: u64 = 99;

// ------------------------------------------------------------------------------------------------ inputs
#[derive(Clone)]
struct Names {
    ecu: Vec<String>,
    apid: Vec<String>,
    ctid: Vec<String>,
    desc: Vec<String>,
}
impl Names {
    fn json(&self) -> Value {
        json!({"ecu": self.ecu, "apid": self.apid, "ctid": self.ctid, "desc": self.desc})
    }
}
fn c4(tab: &[String], id: u64) -> DltChar4 {
    char4(&tab[id as usize - 1])
}
fn id_of(tab: &[String], b: &[u8; 4]) -> u64 {
    tab.iter().position(|s| char4(s).as_buf() == b).map(|p| p as u64 + 1).unwrap_or(UNKNOWN)
}
fn desc_of(n: &Names, d: &Option<String>) -> u64 {
    match d {
        None => 0,
        Some(s) => n.desc.iter().position(|x| x == s).map(|p| p as u64 + 1).unwrap_or(UNKNOWN),
    }
}

#[derive(Clone)]
struct App {
    a: u64,
    d: u64,
    cs: Vec<(u64, u64)>,
}
#[derive(Clone)]
struct Op {
    k: String,
    e: u64,
    a: u64,
    c: u64,
    d: u64,
    st: u64,
    be: bool,
    tr: bool,
    apps: Vec<App>,
}
impl Op {
    fn from_json(v: &Value, be: bool) -> Op {
        Op {
            k: v["k"].as_str().unwrap().to_string(),
            e: v["e"].as_u64().unwrap(),
            a: v["a"].as_u64().unwrap(),
            c: v["c"].as_u64().unwrap(),
            d: v["d"].as_u64().unwrap(),
            st: v["st"].as_u64().unwrap(),
            be: v.get("be").and_then(|b| b.as_u64()).map(|b| b == 1).unwrap_or(be),
            tr: v.get("tr").and_then(|b| b.as_u64()).map(|b| b == 1).unwrap_or(false),
            apps: v["apps"]
                .as_array()
                .unwrap()
                .iter()
                .map(|a| App {
                    a: a["a"].as_u64().unwrap(),
                    d: a["d"].as_u64().unwrap(),
                    cs: a["cs"].as_array().unwrap().iter().map(|c| (c["c"].as_u64().unwrap(), c["d"].as_u64().unwrap())).collect(),
                })
                .collect(),
        }
    }
    fn json(&self) -> Value {
        json!({"k": self.k, "e": self.e, "a": self.a, "c": self.c, "d": self.d, "st": self.st, "be": self.be as u64, "tr": self.tr as u64,
               "apps": self.apps.iter().map(|a| json!({"a": a.a, "d": a.d,
                    "cs": a.cs.iter().map(|c| json!({"c": c.0, "d": c.1})).collect::<Vec<_>>() })).collect::<Vec<_>>()})
    }
}

fn put16(v: &mut Vec<u8>, x: u16, be: bool) {
    v.extend_from_slice(&if be { x.to_be_bytes() } else { x.to_le_bytes() });
}
fn put32(v: &mut Vec<u8>, x: u32, be: bool) {
    v.extend_from_slice(&if be { x.to_be_bytes() } else { x.to_le_bytes() });
}
fn put_desc(v: &mut Vec<u8>, n: &Names, d: u64, be: bool) {
    if d == 0 {
        put16(v, 0, be);
    } else {
        let s = n.desc[d as usize - 1].as_bytes();
        put16(v, s.len() as u16, be);
        v.extend_from_slice(s);
    }
}
/// response parameter of get_log_info after the status byte ([Dlt197]): the layout depends on the status
fn log_info(n: &Names, st: u64, apps: &[App], be: bool) -> Vec<u8> {
    let mut v = Vec::new();
    if !(3..=7).contains(&st) {
        return v;
    }
    let has_ll = st == 4 || st == 6 || st == 7;
    let has_ts = st == 5 || st == 6 || st == 7;
    put16(&mut v, apps.len() as u16, be);
    for ap in apps {
        v.extend_from_slice(c4(&n.apid, ap.a).as_buf());
        put16(&mut v, ap.cs.len() as u16, be);
        for (c, d) in &ap.cs {
            v.extend_from_slice(c4(&n.ctid, *c).as_buf());
            if has_ll {
                v.push(4);
            }
            if has_ts {
                v.push(0);
            }
            if st == 7 {
                put_desc(&mut v, n, *d, be);
            }
        }
        if st == 7 {
            put_desc(&mut v, n, ap.d, be);
        }
    }
    v
}
fn lookalike(n: &Names, op: &Op, id: u32) -> Vec<u8> {
    let mut p = Vec::new();
    put32(&mut p, id, op.be);
    p.push(7);
    p.extend_from_slice(&log_info(n, 7, &op.apps, op.be));
    p
}

/// abstract input -> real message (None for the API call "desc")
fn build_msg(n: &Names, op: &Op, i: usize) -> Option<DltMessage> {
    let (vmm, noar, payload): (Option<u8>, u8, Vec<u8>) = match op.k.as_str() {
        "plain" => (None, 0, vec![1, 2, 3, 4, 5]),
        "log" => {
            // a verbose log message; with an application list: args uint32(3), raw(status 7 + list) - a look-alike
            let mut p = Vec::new();
            if op.apps.is_empty() {
                p.extend_from_slice(&ws::verbose_string_payload(&format!("log message {}", i)));
                if op.be {
                    // the helper writes little endian: redo the two header fields
                    let l = p.len() as u16 - 6;
                    p[0..4].copy_from_slice(&0x200u32.to_be_bytes());
                    p[4..6].copy_from_slice(&l.to_be_bytes());
                }
                (Some(0x41), 1, p)
            } else {
                put32(&mut p, 0x43, op.be); // UINT 32 bit
                put32(&mut p, 3, op.be);
                put32(&mut p, 0x400, op.be); // RAWD
                let mut raw = vec![7u8];
                raw.extend_from_slice(&log_info(n, 7, &op.apps, op.be));
                put16(&mut p, raw.len() as u16, op.be);
                p.extend_from_slice(&raw);
                (Some(0x41), 2, p)
            }
        }
        "nvlog" => (Some(0x40), 0, lookalike(n, op, 3)), // non-verbose log info, message id 3
        "svc" => {
            // a response of another service: 0x13 get_software_version, 0xfff user defined, or "3" in the other byte order
            let id = [0x13u32, 0xfff, 0x0300_0000][i % 3];
            (Some(0x26), 0, lookalike(n, op, id))
        }
        // a request whose payload looks like a response (whatever a peer may send): counted, never learnt from
        "req" if !op.apps.is_empty() => (Some(0x16), 0, lookalike(n, op, 3)),
        "req" => {
            let mut p = Vec::new();
            put32(&mut p, 3, op.be);
            p.push(7); // options: all with descriptions
            p.extend_from_slice(c4(&n.apid, op.a).as_buf());
            p.extend_from_slice(c4(&n.ctid, op.c).as_buf());
            p.extend_from_slice(b"remo");
            (Some(0x16), 0, p)
        }
        "resp" => {
            let mut p = Vec::new();
            put32(&mut p, 3, op.be);
            p.push(op.st as u8);
            p.extend_from_slice(&log_info(n, op.st, &op.apps, op.be));
            if op.tr {
                p.extend_from_slice(b"remo");
            }
            (Some(0x26), 0, p)
        }
        "desc" => return None,
        k => panic!("unknown input kind {}", k),
    };
    Some(DltMessage {
        index: i as u32,
        reception_time_us: BASE_US + (i as u64) * 1000,
        ecu: c4(&n.ecu, op.e),
        timestamp_dms: (i as u32) * 10,
        standard_header: DltStandardHeader { htyp: 0x20 | 0x10 | if vmm.is_some() { 0x01 } else { 0 } | if op.be { 0x02 } else { 0 }, mcnt: (i & 0xff) as u8, len: 0 },
        extended_header: vmm.map(|v| DltExtendedHeader { verb_mstp_mtin: v, noar, apid: c4(&n.apid, op.a), ctid: c4(&n.ctid, op.c) }),
        payload,
        payload_text: None,
        lifecycle: 0,
    })
}

fn feed(eac: &mut EacStats, n: &Names, op: &Op, i: usize) {
    match build_msg(n, op, i) {
        Some(m) => eac.add_msg(&m),
        None => {
            let ct = if op.c == 0 { None } else { Some(c4(&n.ctid, op.c)) };
            eac.add_desc(&n.desc[op.d as usize - 1], &c4(&n.ecu, op.e), &c4(&n.apid, op.a), ct.as_ref());
        }
    }
}

// ------------------------------------------------------------------------------------------------ observations
// a snapshot in listing order: (total, [(ecu, n, [(apid, desc, n, [(ctid, n, desc)])])])
type CtE = (u64, u64, u64);
type ApE = (u64, u64, u64, Vec<CtE>);
type EcE = (u64, u64, Vec<ApE>);
#[derive(Clone, PartialEq, Debug)]
struct Snap {
    total: u64,
    ecus: Vec<EcE>,
}
impl Snap {
    fn ecus_json(&self) -> Value {
        Value::Array(
            self.ecus
                .iter()
                .map(|e| {
                    let apids: Vec<Value> = e
                        .2
                        .iter()
                        .map(|a| {
                            let ctids: Vec<Value> = a.3.iter().map(|c| json!({"ctid": c.0, "n": c.1, "desc": c.2})).collect();
                            json!({"apid": a.0, "desc": a.1, "n": a.2, "ctids": ctids})
                        })
                        .collect();
                    json!({"ecu": e.0, "n": e.1, "apids": apids})
                })
                .collect(),
        )
    }
    /// TLC's prediction (JSON arrays in arbitrary order)
    fn from_json(total: &Value, ecus: &Value) -> Snap {
        Snap {
            total: total.as_u64().unwrap(),
            ecus: ecus
                .as_array()
                .unwrap()
                .iter()
                .map(|e| {
                    (
                        e["ecu"].as_u64().unwrap(),
                        e["n"].as_u64().unwrap(),
                        e["apids"]
                            .as_array()
                            .unwrap()
                            .iter()
                            .map(|a| {
                                (
                                    a["apid"].as_u64().unwrap(),
                                    a["desc"].as_u64().unwrap(),
                                    a["n"].as_u64().unwrap(),
                                    a["ctids"].as_array().unwrap().iter().map(|c| (c["ctid"].as_u64().unwrap(), c["n"].as_u64().unwrap(), c["desc"].as_u64().unwrap())).collect(),
                                )
                            })
                            .collect(),
                    )
                })
                .collect(),
        }
    }
    /// order-free form: every list sorted
    fn canon(&self) -> Snap {
        let mut s = self.clone();
        for e in s.ecus.iter_mut() {
            for a in e.2.iter_mut() {
                a.3.sort();
            }
            e.2.sort();
        }
        s.ecus.sort();
        s
    }
    /// as the remote types can show it: no per-application count, no grand total
    fn strip_remote(&self) -> Snap {
        let mut s = self.clone();
        s.total = 0;
        for e in s.ecus.iter_mut() {
            for a in e.2.iter_mut() {
                a.2 = 0;
            }
        }
        s
    }
}

fn snap_direct(eac: &EacStats, n: &Names) -> Snap {
    let ecus: Vec<EcE> = eac
        .ecu_map
        .iter()
        .map(|(e, es)| {
            let apids: Vec<ApE> = es
                .apids
                .iter()
                .map(|(a, aps)| {
                    let ctids: Vec<CtE> = aps.ctids.iter().map(|(c, cs)| (id_of(&n.ctid, c.as_buf()), cs.nr_msgs as u64, desc_of(n, &cs.desc))).collect();
                    (id_of(&n.apid, a.as_buf()), desc_of(n, &aps.desc), aps.nr_msgs() as u64, ctids)
                })
                .collect();
            (id_of(&n.ecu, e.as_buf()), es.nr_msgs as u64, apids)
        })
        .collect();
    Snap { total: eac.nr_msgs() as u64, ecus }
}

fn bin_to_snap(v: &[BinEcuStats], n: &Names) -> Snap {
    Snap {
        total: 0,
        ecus: v
            .iter()
            .map(|es| {
                let apids: Vec<ApE> = es
                    .apids
                    .iter()
                    .map(|ap| {
                        let ctids: Vec<CtE> = ap.ctids.iter().map(|ct| (id_of(&n.ctid, &ct.ctid.to_le_bytes()), ct.nr_msgs as u64, desc_of(n, &ct.desc))).collect();
                        (id_of(&n.apid, &ap.apid.to_le_bytes()), desc_of(n, &ap.desc), 0, ctids)
                    })
                    .collect();
                (id_of(&n.ecu, &es.ecu.to_le_bytes()), es.nr_msgs as u64, apids)
            })
            .collect(),
    }
}

/// exactly what remote.rs does when it informs a client, followed by what the client does
fn snap_remote(eac: &EacStats, n: &Names) -> Result<Snap, String> {
    let enc = bincode::encode_to_vec(BinType::EacInfo(eac.ecu_map.iter().map(BinEcuStats::from).collect()), BINCODE_CONFIG).map_err(|e| e.to_string())?;
    match bincode::decode_from_slice::<BinType, _>(&enc, BINCODE_CONFIG) {
        Ok((BinType::EacInfo(v), used)) if used == enc.len() => Ok(bin_to_snap(&v, n)),
        Ok(_) => Err("decoded to something else".to_string()),
        Err(e) => Err(e.to_string()),
    }
}

fn snap_ev(after: usize, view: &str, ecu: u64, s: &Snap) -> Value {
    json!({"ev":"snap","after":after,"view":view,"ecu":ecu,"total":s.total,"ecus":s.ecus_json()})
}

struct Run {
    evs: Vec<Value>,
    fin_direct: Option<Snap>,
    fin_remote: Option<Snap>,
    splits: BTreeMap<u64, Snap>,
    panicked: bool,
}

/// feed all inputs, snapshot at the given points (always at the end), then the split collectors
fn run_ops(n: &Names, ops: &[Op], snaps: &[usize], do_split: bool, record: bool) -> Run {
    let mut r = Run { evs: Vec::new(), fin_direct: None, fin_remote: None, splits: BTreeMap::new(), panicked: false };
    let res = catch(std::panic::AssertUnwindSafe(|| {
        let mut evs = Vec::new();
        let mut eac = EacStats::new();
        let mut fin = None;
        for i in 0..=ops.len() {
            if i > 0 {
                feed(&mut eac, n, &ops[i - 1], i);
            }
            if snaps.contains(&i) || i == ops.len() {
                let d = snap_direct(&eac, n);
                if record {
                    evs.push(snap_ev(i, "direct", 0, &d));
                }
                let rem = snap_remote(&eac, n);
                match &rem {
                    Ok(v) => {
                        if record {
                            evs.push(snap_ev(i, "remote", 0, v))
                        }
                    }
                    Err(e) => evs.push(json!({"ev":"panic","msg":format!("remote conversion failed: {}", e)})),
                }
                if i == ops.len() {
                    fin = Some((d, rem.ok()));
                }
            }
        }
        let mut splits = BTreeMap::new();
        if do_split {
            let mut es: Vec<u64> = ops.iter().map(|o| o.e).collect();
            es.sort();
            es.dedup();
            for e in es {
                let mut one = EacStats::new();
                for (i, op) in ops.iter().enumerate() {
                    if op.e == e {
                        feed(&mut one, n, op, i + 1);
                    }
                }
                let d = snap_direct(&one, n);
                if record {
                    evs.push(snap_ev(ops.len(), "split", e, &d));
                }
                splits.insert(e, d);
            }
        }
        (evs, fin, splits)
    }));
    match res {
        Ok((evs, fin, splits)) => {
            r.evs = evs;
            if let Some((d, rem)) = fin {
                r.fin_direct = Some(d);
                r.fin_remote = rem;
            }
            r.splits = splits;
            r.evs.push(json!({"ev":"end"}));
        }
        Err(msg) => {
            r.panicked = true;
            r.evs.push(json!({"ev":"panic","msg":msg}));
        }
    }
    r
}

fn write_case(t: &mut Trace, case: u64, src: &str, n: &Names, ops: &[Op], evs: &[Value]) {
    t.ev(json!({"ev":"reset","case":case,"hdr":{"src":src,"names":n.json(),"ops":ops.iter().map(|o| o.json()).collect::<Vec<_>>()}}));
    for e in evs {
        t.ev(e.clone());
    }
}

// ------------------------------------------------------------------------------------------------ name tables
fn scenario_names(k: usize) -> Names {
    // identifiers of different shapes; the same strings are used as ECU, application and context id on purpose
    let tabs: [[&str; 3]; 4] = [["ECU1", "APID", "CTID"], ["E2", "A", "C"], ["AAAA", "AAAA", "AAAA"], ["ABCD", "BCDA", "DCBA"]];
    let t = tabs[k % 4];
    let second = |s: &str| -> String {
        match s.len() {
            4 => format!("{}{}", &s[0..3], "2"),
            _ => format!("{}2", s),
        }
    };
    Names {
        ecu: vec![t[0].to_string(), second(t[0])],
        apid: vec![t[1].to_string(), second(t[1])],
        ctid: vec![t[2].to_string(), second(t[2])],
        desc: vec!["first description".to_string(), "another one (2)".to_string()],
    }
}

fn random_names(rng: &mut Rng, ne: usize, na: usize, nc: usize, nd: usize) -> Names {
    let pool = ["ECU1", "ECU2", "ECU3", "E", "E2", "AAAA", "AAAB", "BAAA", "APID", "CTID", "DA1", "DC1", "SYS", "LOG", "ab", "Ab", "aB", "X1", "X2", "ZZZZ"];
    let pick = |rng: &mut Rng, k: usize| -> Vec<String> {
        let mut v: Vec<String> = Vec::new();
        while v.len() < k {
            let s = pool[rng.below(pool.len() as u64) as usize].to_string();
            if !v.contains(&s) {
                v.push(s);
            }
        }
        v
    };
    let ecu = pick(rng, ne);
    let apid = pick(rng, na);
    let ctid = pick(rng, nc);
    let mut desc = Vec::new();
    for i in 0..nd {
        let len = if rng.chance(1, 12) { rng.range(200, 1500) } else { rng.range(1, 40) } as usize;
        let mut s = format!("d{} ", i + 1);
        while s.len() < len {
            s.push((b' ' + rng.below(95) as u8) as char);
        }
        desc.push(s);
    }
    Names { ecu, apid, ctid, desc }
}

fn skew(rng: &mut Rng, n: usize) -> u64 {
    // small ids are more likely (collisions and repeated keys are the interesting part)
    let a = rng.below(n as u64);
    let b = rng.below(n as u64);
    a.min(b) + 1
}

fn random_ops(rng: &mut Rng, n: &Names, len: usize, msgs_only: bool) -> Vec<Op> {
    let (ne, na, nc, nd) = (n.ecu.len(), n.apid.len(), n.ctid.len(), n.desc.len());
    let mut ops = Vec::new();
    for _ in 0..len {
        let w = rng.below(100);
        let k = if w < 10 {
            "plain"
        } else if w < 52 {
            "log"
        } else if w < 57 {
            "nvlog"
        } else if w < 61 {
            "req"
        } else if w < 65 {
            "svc"
        } else if w < 90 || msgs_only {
            "resp"
        } else {
            "desc"
        };
        let mut op = Op { k: k.to_string(), e: skew(rng, ne), a: 0, c: 0, d: 0, st: 0, be: rng.chance(1, 3), tr: false, apps: Vec::new() };
        if k != "plain" {
            op.a = skew(rng, na);
            op.c = skew(rng, nc);
        }
        let gen_apps = |rng: &mut Rng| -> Vec<App> {
            let k = rng.below(4);
            (0..k)
                .map(|_| App {
                    a: skew(rng, na),
                    d: if rng.chance(1, 3) { 0 } else { rng.range(1, nd as u64) },
                    cs: (0..rng.below(4)).map(|_| (skew(rng, nc), if rng.chance(1, 3) { 0 } else { rng.range(1, nd as u64) })).collect(),
                })
                .collect()
        };
        match k {
            "resp" => {
                op.st = if rng.chance(7, 10) { 7 } else { *rng.pick(&[3u64, 4, 5, 6, 8, 2, 0, 1]) };
                op.tr = rng.chance(1, 2);
                if (3..=7).contains(&op.st) {
                    op.apps = gen_apps(rng);
                }
            }
            "log" => {
                if rng.chance(1, 6) {
                    op.apps = gen_apps(rng);
                }
            }
            "nvlog" | "svc" => op.apps = gen_apps(rng),
            "req" => {
                if rng.chance(1, 2) {
                    op.apps = gen_apps(rng);
                }
            }
            "desc" => {
                op.c = if rng.chance(1, 2) { 0 } else { skew(rng, nc) };
                op.d = rng.range(1, nd as u64);
            }
            _ => {}
        }
        ops.push(op);
    }
    ops
}

// ------------------------------------------------------------------------------------------------ wire mode
/// open the file through the real `adlt remote` and return the first EacInfo frame that arrives after the server
/// reported that it has seen all `n_msgs` messages of the file (see remote.rs: the file info is written before the EAC
/// info within one pass of the processing loop, and the EAC info is (re)sent when the parser has finished)
fn wire_case(port: u16, path: &str, n_msgs: u64, n: &Names) -> Result<Snap, String> {
    let mut conn = ws::Conn::connect(port, Duration::from_secs(20))?;
    conn.send(&format!("open {}", json!({"files":[path]})))?;
    let t0 = Instant::now();
    let limit = Duration::from_secs(90);
    let mut file_msgs = 0u64;
    let mut sentinel = 0u64;
    let res = loop {
        if t0.elapsed() > limit {
            break Err(format!("no EAC info within {:?} after the file was processed (file info says {} messages)", limit, file_msgs));
        }
        match conn.recv(Duration::from_millis(200)) {
            ws::Frame::Bin(b) => match ws::decode(&b) {
                Some(BinType::FileInfo(fi)) => file_msgs = fi.nr_msgs as u64,
                Some(BinType::EacInfo(v)) => {
                    if file_msgs >= n_msgs {
                        break Ok(bin_to_snap(&v, n));
                    }
                }
                Some(_) => {}
                None => break Err("undecodable binary frame".to_string()),
            },
            ws::Frame::Text(t) => {
                if t.starts_with("err:") && t.contains("open") {
                    break Err(format!("open failed: {}", ws::trunc(&t, 200)));
                }
            }
            ws::Frame::Closed(why) => break Err(format!("connection closed: {}", ws::trunc(&why, 200))),
            ws::Frame::Timeout => {
                // keep the server's loop turning (it only processes while it handles the socket)
                sentinel += 1;
                let _ = conn.send(&format!("__sync_{}", sentinel));
            }
        }
    };
    conn.close();
    res
}

fn main() {
    quiet_panics();
    let a = Args::from_env();
    let mut t = Trace::create(&a.str("--out", "trace.ndjson"));
    let mut rng = Rng::new(a.num("--seed", 1));
    let sample = a.num("--sample", 300);
    let mut case = 0u64;
    let (mut replayed, mut fast, mut slow, mut drift, mut not_ok) = (0u64, 0u64, 0u64, 0u64, 0u64);
    let (mut drift_traced, mut drift_untraced) = (0u64, 0u64);
    let mut drift_samples: Vec<Value> = Vec::new();
    let mut paths: BTreeMap<String, u64> = BTreeMap::new();
    let mut hit = |k: &str, n: u64| {
        *paths.entry(k.to_string()).or_insert(0) += n;
    };
    // input kinds fed (vacuity guard of the check): plain log nvlog req svc resp desc | resp status 0..=8 | trailer | big endian
    let mut opc = [0u64; 7];
    let mut stc = [0u64; 9];
    let (mut trc, mut bec) = (0u64, 0u64);
    const KINDS: [&str; 7] = ["plain", "log", "nvlog", "req", "svc", "resp", "desc"];
    let mut count_ops = |ops: &[Op]| {
        for o in ops {
            opc[KINDS.iter().position(|k| *k == o.k).unwrap()] += 1;
            if o.k == "resp" {
                stc[(o.st as usize).min(8)] += 1;
                trc += o.tr as u64;
            }
            if o.be && o.k != "desc" {
                bec += 1;
            }
        }
    };

    // ---- TLC scenarios: every behaviour of the bounded model, in both byte orders -------------------------
    if let Some(f) = a.get("--scenarios") {
        // streamed: the thorough tier has ~10^6 scenario lines
        use std::io::BufRead;
        let total = a.num("--n-scenarios", 100_000) * 2;
        // sample of fast-path cases that are validated by TLC anyway
        let every = if sample == 0 { u64::MAX } else { (total / sample).max(1) };
        let rd = std::io::BufReader::new(std::fs::File::open(f).expect("open scenarios"));
        for (si, line) in rd.lines().map(|l| l.unwrap()).filter(|l| !l.trim().is_empty()).enumerate() {
            let scn: Value = serde_json::from_str(&line).expect("scenario json");
            let pred_direct = Snap::from_json(&scn["pred"]["total"], &scn["pred"]["ecus"]).canon();
            let pred_remote = pred_direct.strip_remote();
            let contract_ok = scn["contract_ok"].as_bool().unwrap_or(false);
            let pred_split: BTreeMap<u64, Snap> = scn["split"]
                .as_array()
                .map(|v| v.iter().map(|s| (s["ecu"].as_u64().unwrap(), Snap::from_json(&s["pred"]["total"], &s["pred"]["ecus"]).canon())).collect())
                .unwrap_or_default();
            for be in [false, true] {
                let names = scenario_names(si + be as usize);
                let ops: Vec<Op> = scn["ops"].as_array().unwrap().iter().map(|o| Op::from_json(o, be)).collect();
                // first run: final snapshots only (every prefix of a behaviour is a scenario of its own)
                let r = run_ops(&names, &ops, &[], !pred_split.is_empty(), false);
                replayed += 1;
                count_ops(&ops);
                let same = !r.panicked
                    && r.fin_direct.as_ref().map(|d| d.canon() == pred_direct).unwrap_or(false)
                    && r.fin_remote.as_ref().map(|v| v.canon() == pred_remote).unwrap_or(false)
                    && r.splits.len() == pred_split.len()
                    && r.splits.iter().all(|(e, d)| pred_split.get(e).map(|p| d.canon() == *p).unwrap_or(false));
                if !same {
                    drift += 1;
                    if drift_samples.len() < 5 {
                        drift_samples.push(json!({"scenario": si, "be": be, "ops": scn["ops"], "predicted": scn["pred"],
                            "observed": r.fin_direct.as_ref().map(|d| json!({"total": d.total, "ecus": d.ecus_json()}))}));
                    }
                }
                if !contract_ok {
                    not_ok += 1;
                }
                let sampled = replayed % every == 0;
                // a badly broken collector drifts on most histories: TLC judges the first 1500 drifting runs and every 50th
                // after that (at most 3000); the others are only counted (a drift by itself is never a verdict)
                let skip_drift = !same && !(drift <= 1500 || (drift % 50 == 0 && drift_traced < 3000));
                if !same && !skip_drift {
                    drift_traced += 1;
                }
                if skip_drift {
                    drift_untraced += 1;
                } else if same && contract_ok && !sampled {
                    fast += 1;
                } else {
                    // slow path: a fresh run of the same inputs, recorded with a snapshot after every input, goes to TLC
                    slow += 1;
                    let snaps: Vec<usize> = (0..=ops.len()).collect();
                    let r2 = run_ops(&names, &ops, &snaps, true, true);
                    write_case(&mut t, case, if same { "tlc" } else { "tlc-drift" }, &names, &ops, &r2.evs);
                }
                case += 1;
            }
        }
    }

    // ---- seeded random histories beyond the bounds of the model ---------------------------------------------
    let n_random = a.num("--random", 0);
    let max_ops = a.num("--max-ops", 120) as usize;
    for _ in 0..n_random {
        let (ne, na, nc, nd) = (rng.range(1, 5) as usize, 1 + rng.below(6) as usize, 1 + rng.below(6) as usize, 2 + rng.below(7) as usize);
        let names = random_names(&mut rng, ne, na, nc, nd);
        let len = if rng.chance(7, 10) { rng.range(1, 30.min(max_ops as u64)) } else { rng.range(1, max_ops as u64) } as usize;
        let ops = random_ops(&mut rng, &names, len, false);
        let mut snaps: Vec<usize> = (0..rng.below(4)).map(|_| rng.below(len as u64 + 1) as usize).collect();
        snaps.sort();
        snaps.dedup();
        let r = run_ops(&names, &ops, &snaps, true, true);
        count_ops(&ops);
        hit("random_cases", 1);
        write_case(&mut t, case, "random", &names, &ops, &r.evs);
        case += 1;
    }

    // ---- wire: files opened through the real `adlt remote` binary -------------------------------------------
    let n_wire = a.num("--wire", 0);
    if n_wire > 0 {
        let adlt = a.str("--adlt", "");
        let work = a.str("--work", ".");
        let dir = format!("{}/wire", work);
        std::fs::create_dir_all(&dir).unwrap();
        let mut srv = ws::Server::start(&adlt, &work, "x01", None);
        let wire_max = a.num("--wire-max-ops", 400) as usize;
        for w in 0..n_wire {
            let (ne, na, nc, nd) = (rng.range(1, 4) as usize, 1 + rng.below(5) as usize, 1 + rng.below(5) as usize, 2 + rng.below(6) as usize);
            let names = random_names(&mut rng, ne, na, nc, nd);
            let len = rng.range(1, wire_max as u64) as usize;
            let ops = random_ops(&mut rng, &names, len, true);
            let path = format!("{}/x01-{}.dlt", dir, w);
            {
                use std::io::Write;
                let mut f = std::io::BufWriter::new(std::fs::File::create(&path).expect("create dlt"));
                for (i, op) in ops.iter().enumerate() {
                    build_msg(&names, op, i + 1).unwrap().to_write(&mut f).expect("write dlt");
                }
                f.flush().unwrap();
            }
            count_ops(&ops);
            hit("wire_cases", 1);
            let evs = match wire_case(srv.port, &path, ops.len() as u64, &names) {
                Ok(v) => vec![snap_ev(ops.len(), "wire", 0, &v), json!({"ev":"end"})],
                Err(why) => {
                    let dead = srv.exited();
                    vec![json!({"ev":"panic","msg":format!("wire: {} (server exited: {:?})", why, dead)})]
                }
            };
            let failed = evs.iter().any(|e| e["ev"] == "panic");
            write_case(&mut t, case, "wire", &names, &ops, &evs);
            case += 1;
            let _ = std::fs::remove_file(&path);
            if failed {
                // no frame within the (generous) limit / connection lost: one recorded case is enough, do not wait again
                hit("wire_cases_skipped_after_failure", n_wire - w - 1);
                break;
            }
            if srv.exited().is_some() {
                srv = ws::Server::start(&adlt, &work, "x01", None);
            }
        }
        for (p, k) in srv.panic_lines() {
            hit(&format!("server_panic: {}", ws::trunc(&p, 80)), k);
        }
        srv.stop();
    }

    for (i, k) in KINDS.iter().enumerate() {
        hit(&format!("op_{}", k), opc[i]);
    }
    for (i, n) in stc.iter().enumerate() {
        hit(&format!("resp_status_{}", i), *n);
    }
    hit("resp_with_trailer", trc);
    hit("big_endian_msg", bec);
    t.flush();
    let summary = json!({"cases": case, "lines": t.lines, "replayed": replayed, "fast_path": fast, "slow_path": slow, "drift": drift,
                         "predicted_not_ok": not_ok, "drift_not_traced": drift_untraced, "drift_samples": drift_samples, "paths": paths});
    match a.get("--summary") {
        Some(p) => std::fs::write(p, summary.to_string()).unwrap(),
        None => println!("{}", summary),
    }
}
