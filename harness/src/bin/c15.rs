//! C15 driver: replays command histories (from TLC, scripted, seeded random) against the real `adlt remote`
//! binary, one fresh websocket connection per history, many connections in parallel against one server process,
//! and records what was sent and received as ndjson events. It computes no expectation: the contract is
//! spec/RemoteTrace.tla. The `exp` field of a `cmd` event is TLC's prediction (drift statistics only).
#[path = "c15/ws.rs"]
mod ws;
use std::sync::atomic::{AtomicUsize, Ordering};
use std::sync::{Arc, Mutex};
use std::time::Duration;
use vh::*;
use ws::*;

#[derive(Clone, Debug)]
struct Step {
    verb: String,
    arg: String,
    tgt: String, // "" | none | nonnum | dead | old | h1.. | id:<n> | spec:<k> (last announced id + k)
    exp: String, // ok | err | unknown | any | "" (no prediction)
    pause_ms: u64,
}
fn step(verb: &str, arg: &str, tgt: &str) -> Step {
    Step { verb: verb.into(), arg: arg.into(), tgt: tgt.into(), exp: String::new(), pause_ms: 0 }
}

#[derive(Clone)]
struct Files {
    small: String,
    big: String,
    huge: String, // > 512 Ki small messages (more than the server's bounded channels hold); empty if not generated
    n_small: u64,
    n_big: u64,
    empty: String,
    fakezip: String,
    realzip: String,
    slowzip: String, // like realzip plus a 96 MiB member that is no log: slow to extract
    nodltzip: String, // a zip archive without any DLT file
    ft: String,       // a log with file transfers: idx 0 complete, idx 1 incomplete, idx 2 complete
    ft_data: Vec<Vec<u8>>, // the transferred bytes per idx (empty: incomplete)
    autosave_dir: String,
    missing: String,
    dir: String,
    meta_dir: String, // file-metadata shapes: time stamps before 1970 / far in the future, symlinks (live, dangling, to a directory), a fifo, a non-UTF-8 name
}

struct CaseSpec {
    src: &'static str,
    mode: &'static str, // awaited | pipelined
    big: bool,
    huge: bool, // runs on the server process without parser throttle
    numeric: bool, // extreme numeric parameters: runs alone on a dedicated server process (which is restarted if it dies)
    steps: Vec<Step>,
}

static SAVE_COUNTER: AtomicUsize = AtomicUsize::new(0);
static TIMEOUTS_SEEN: AtomicUsize = AtomicUsize::new(0);
const TARGET_VERBS: [&str; 4] = ["stop", "stream_change_window", "stream_binary_search", "stream_search"];

fn j(v: Value) -> String {
    v.to_string()
}

/// text of a numeric parameter class (RemoteTable.tla NumClasses); len = number of messages of the small file
fn num_text(class: &str, len: u64) -> String {
    match class {
        "0" => "0".into(),
        "3" => "3".into(),
        "lenm1" => (len - 1).to_string(),
        "len" => len.to_string(),
        "lenp1" => (len + 1).to_string(),
        "u32max" => "4294967295".into(),
        "u32maxp1" => "4294967296".into(),
        "u64k" => "18446744073709552".into(), // u64::MAX / 1000 + 1
        "u64max" => "18446744073709551615".into(),
        "p62" => "4611686018427387904".into(),
        "1e19" => "1e19".into(),
        "neg" => "-5".into(),
        "float" => "2.5".into(),
        c => panic!("numeric class {}", c),
    }
}
fn size_of_class(c: &str) -> usize {
    match c {
        "1k" => 1 << 10,
        "1m" => 1 << 20,
        "15m" => 15 << 20,
        "17m" => 17 << 20,
        "64m" => 64 << 20,
        c => panic!("size class {}", c),
    }
}
fn nwin(arg: &str, len: u64) -> Option<(String, String)> {
    let p: Vec<&str> = arg.strip_prefix("nwin:")?.split(':').collect();
    Some((num_text(p[0], len), num_text(p[1], len)))
}

/// abstract command -> text frame (pure function of its arguments; `tk` is the already concretised first parameter)
fn concretise(verb: &str, arg: &str, tk: Option<&str>, f: &Files, big: bool) -> String {
    let file = if big { &f.big } else { &f.small };
    let with = |verb: &str, p: String| if p.is_empty() { verb.to_string() } else { format!("{} {}", verb, p) };
    let filt = json!([{"type":0,"apid":"APIA"}]);
    match verb {
        "open" => with("open", match arg {
            "ok" => j(json!({"files":[file]})),
            "ok_sort" => j(json!({"sort":true,"files":[file]})),
            "ok_nocollect" => j(json!({"collect":false,"files":[file]})),
            "ok_onepass" => j(json!({"collect":"one_pass_streams","files":[file]})),
            "ok_plugins" => j(json!({"files":[file],"plugins":[{"name":"FileTransfer"}]})),
            "ok_ft" => j(json!({"files":[f.ft],"plugins":[{"name":"FileTransfer","allowSave":true}]})),
            "ok_ft_nosave" => j(json!({"files":[f.ft],"plugins":[{"name":"FileTransfer","allowSave":false}]})),
            "ok_ft_auto" => j(json!({"files":[f.ft],"plugins":[{"name":"FileTransfer","autoSavePath":f.autosave_dir,"autoSaveGlob":"*.bin"}]})),
            "ok_plugins_dup" => j(json!({"files":[file],"plugins":[{"name":"Rewrite","rewrites":[]},{"name":"FileTransfer"},
                {"name":"Rewrite","rewrites":[]},{"name":"FileTransfer","keepFLDA":true}]})),
            "ok_zip" => j(json!({"files":[f.realzip]})),
            // an archive with a 96 MiB padding member next to its log, named 3 times: the extraction (every member, sequentially, after
            // the reply) stays pending for several 100 ms
            "ok_zip_slow" => j(json!({"files": std::iter::repeat(f.slowzip.clone()).take(3).collect::<Vec<_>>()})),
            "ok_zip_slow_onepass" => j(json!({"collect":"one_pass_streams","files": std::iter::repeat(f.slowzip.clone()).take(3).collect::<Vec<_>>()})),
            "zip_glob_all" => j(json!({"files":[format!("{}!/**/*.dlt", f.realzip)]})),
            "zip_glob_some" => j(json!({"files":[format!("{}!/logs/sub/*.dlt", f.realzip)]})),
            "zip_glob_none" => j(json!({"files":[format!("{}!/no_such_dir/*.dlt", f.realzip)]})),
            "zip_nodlt" => j(json!({"files":[f.nodltzip]})),
            "zip_nodlt_glob" => j(json!({"files":[format!("{}!/*.dlt", f.nodltzip)]})),
            "fakezip" => j(json!({"files":[f.fakezip]})),
            "nonarchive_bang" => j(json!({"files":[format!("{}!/x.dlt", f.small)]})),
            "missingzip_bang" => j(json!({"files":[format!("{}.zip!/*.dlt", f.missing)]})),
            "ok_huge" => j(json!({"files":[f.huge]})),
            "ok_huge_onepass" => j(json!({"collect":"one_pass_streams","files":[f.huge]})),
            "noarg" => String::new(),
            "badjson" => "{\"files\":[".to_string(),
            "nofiles" => "{}".to_string(),
            "emptyfiles" => j(json!({"files":[]})),
            "fileswrongtype" => j(json!({"files":file})),
            "filesnonstring" => j(json!({"files":[1]})),
            "missingfile" => j(json!({"files":[f.missing]})),
            "nodlt" => j(json!({"files":[f.empty]})),
            "badcollect" => j(json!({"collect":"sometimes","files":[file]})),
            "pluginswrongtype" => j(json!({"files":[file],"plugins":3})),
            "pluginnotobj" => j(json!({"files":[file],"plugins":[1]})),
            _ => panic!("open arg {}", arg),
        }),
        "close" | "pause" | "resume" => with(verb, match arg {
            "" => String::new(),
            "junk" => "now 1 2".to_string(),
            _ => panic!("plain arg {}", arg),
        }),
        "stream" | "query" if arg.starts_with("pad:") => {
            // the plain well-formed request padded with JSON white space up to the size class
            let head = format!("{} {{\"window\":[0,5],\"binary\":true,", verb);
            let tail = format!("\"filters\":{}}}", filt);
            let n = size_of_class(&arg[4..]).saturating_sub(head.len() + tail.len());
            format!("{}{}{}", head, " ".repeat(n), tail)
        }
        "stream" | "query" if arg.starts_with("nwin:") => {
            let (a, b) = nwin(arg, f.n_small).unwrap();
            format!("{} {{\"window\":[{},{}],\"binary\":true,\"filters\":{}}}", verb, a, b, filt)
        }
        "stream" | "query" => with(verb, match arg {
            "ok" => j(json!({"window":[0,5],"binary":true})),
            "ok_filt" => j(json!({"window":[0,5],"binary":true,"filters":filt})),
            "ok_text" => j(json!({"window":[0,3]})),
            "ok_onepass" => j(json!({"one_pass":true,"binary":true,"window":[0,5],"filters":filt})),
            "ok_defaults" => "{}".to_string(),
            "ok_emptywin" => j(json!({"window":[4,4],"binary":true})),
            "noarg" => String::new(),
            "badjson" => "{\"window\":".to_string(),
            "badwindow" => j(json!({"window":[1]})),
            "windowwrongtype" => j(json!({"window":5})),
            "filterswrongtype" => j(json!({"filters":3})),
            "badfilter" => j(json!({"filters":[{"type":"x"}]})),
            _ => panic!("stream arg {}", arg),
        }),
        "stop" | "stream_change_window" | "stream_binary_search" | "stream_search" => {
            let second = match (verb, arg) {
                ("stop", "") => "".to_string(),
                ("stop", "junk") => "now".to_string(),
                ("stream_change_window", "ok") => "2,7".to_string(),
                ("stream_change_window", "ok_empty") => "3,3".to_string(),
                ("stream_change_window", "ok_garbage") => "x,y".to_string(),
                ("stream_change_window", "ok_beyond") => "0,100000".to_string(),
                ("stream_change_window", "noarg") => "".to_string(),
                ("stream_change_window", "nocomma") => "5".to_string(),
                ("stream_binary_search", "time") => format!("time_ms={}", BASE_US / 1000 + 1500),
                ("stream_binary_search", "time_garbage") => "time_ms=abc".to_string(),
                ("stream_binary_search", "index_found") => "index=3".to_string(),
                ("stream_binary_search", "index_garbage") => "index=abc".to_string(),
                ("stream_binary_search", "index_missing") => "index=999999999".to_string(),
                ("stream_binary_search", "badkey") => "foo=1".to_string(),
                ("stream_binary_search", "nokey") => "justtext".to_string(),
                ("stream_binary_search", "noarg") => "".to_string(),
                ("stream_search", "ok") => j(json!({"start_idx":0,"max_results":3,"filters":[{"type":0,"ctid":"CTIA"}]})),
                ("stream_search", "ok_defaults") => "{}".to_string(),
                ("stream_search", "ok_nomatch") => j(json!({"start_idx":1,"filters":[{"type":0,"ctid":"NONE"}]})),
                ("stream_search", "noarg") => "".to_string(),
                ("stream_search", "badjson") => "{\"start_idx\":".to_string(),
                ("stream_search", "startwrongtype") => j(json!({"start_idx":"a"})),
                ("stream_search", "maxwrongtype") => j(json!({"max_results":[1]})),
                ("stream_search", "filterswrongtype") => j(json!({"filters":{"type":0}})),
                ("stream_search", "badfilter") => j(json!({"filters":[{"type":9}]})),
                ("stream_change_window", a) if a.starts_with("nwin:") => {
                    let (x, y) = nwin(a, f.n_small).unwrap();
                    format!("{},{}", x, y)
                }
                ("stream_search", a) if a.starts_with("nstart:") => {
                    format!("{{\"start_idx\":{},\"max_results\":3,\"filters\":[{{\"type\":0,\"ctid\":\"CTIA\"}}]}}", num_text(&a[7..], f.n_small))
                }
                ("stream_search", a) if a.starts_with("nmax:") => {
                    format!("{{\"start_idx\":1,\"max_results\":{},\"filters\":[{{\"type\":0,\"ctid\":\"CTIA\"}}]}}", num_text(&a[5..], f.n_small))
                }
                ("stream_binary_search", a) if a.starts_with("ntime:") => format!("time_ms={}", num_text(&a[6..], f.n_small)),
                ("stream_binary_search", a) if a.starts_with("nindex:") => format!("index={}", num_text(&a[7..], f.n_small)),
                _ => panic!("target arg {} {}", verb, arg),
            };
            match tk {
                None => with(verb, second), // first parameter missing: the second one (if any) takes its place
                Some(t) => {
                    if second.is_empty() {
                        format!("{} {}", verb, t)
                    } else {
                        format!("{} {} {}", verb, t, second)
                    }
                }
            }
        }
        "plugin_cmd" => with("plugin_cmd", match arg {
            "noarg" => String::new(),
            "badjson" => "{\"cmd\":".to_string(),
            "notobject" => "[1]".to_string(),
            "nocmd" => j(json!({"name":"FileTransfer"})),
            "noname" => j(json!({"cmd":"save"})),
            "noplugin" => j(json!({"cmd":"save","name":"nope"})),
            "ft_cmd" => j(json!({"cmd":"frob","name":"FileTransfer","params":{"a":1}})),
            "rw_cmd" => j(json!({"cmd":"frob","name":"Rewrite"})),
            // FileTransfer `save`: every successful one writes to a fresh file under the work dir
            "save_ok" | "save_ok2" | "save_incomplete" | "save_badidx" => {
                let idx = match arg { "save_ok" => 0, "save_ok2" => 2, "save_incomplete" => 1, _ => 42 };
                let n = SAVE_COUNTER.fetch_add(1, Ordering::SeqCst);
                j(json!({"cmd":"save","name":"FileTransfer","params":{"saveAs":format!("{}/saved-{}-idx{}.bin", f.autosave_dir, n, idx)},"cmdCtx":{"save":{"idx":idx}}}))
            }
            "save_unwritable" => j(json!({"cmd":"save","name":"FileTransfer","params":{"saveAs":format!("{}/no_such_dir/x.bin", f.autosave_dir)},"cmdCtx":{"save":{"idx":0}}})),
            "save_noparams" => j(json!({"cmd":"save","name":"FileTransfer","cmdCtx":{"save":{"idx":0}}})),
            "save_noctx" => j(json!({"cmd":"save","name":"FileTransfer","params":{"saveAs":format!("{}/never.bin", f.autosave_dir)}})),
            _ => panic!("plugin arg {}", arg),
        }),
        "fs" => with("fs", match arg {
            "noarg" => String::new(),
            "badjson" => "{\"cmd\":".to_string(),
            "notobject" => "\"stat\"".to_string(),
            "nocmd" => j(json!({"path":f.dir})),
            "nopath" => j(json!({"cmd":"stat"})),
            "unknowncmd" => j(json!({"cmd":"delete","path":f.small})),
            "stat_ok" => j(json!({"cmd":"stat","path":f.small})),
            "readdir_ok" => j(json!({"cmd":"readDirectory","path":f.dir})),
            "stat_missing" => j(json!({"cmd":"stat","path":f.missing})),
            "readdir_missing" => j(json!({"cmd":"readDirectory","path":f.missing})),
            "arch_nonexist" => j(json!({"cmd":"readDirectory","path":format!("{}.zip!/", f.missing)})),
            "arch_unsupported" => j(json!({"cmd":"readDirectory","path":format!("{}!/", f.small)})),
            "fakezip_readdir" => j(json!({"cmd":"readDirectory","path":format!("{}!/", f.fakezip)})),
            "fakezip_stat" => j(json!({"cmd":"stat","path":format!("{}!/x", f.fakezip)})),
            "zip_readdir" => j(json!({"cmd":"readDirectory","path":format!("{}!/", f.realzip)})),
            "zip_stat" => j(json!({"cmd":"stat","path":format!("{}!/logs/small.dlt", f.realzip)})),
            "stat_oldtime" => j(json!({"cmd":"stat","path":format!("{}/old.dlt", f.meta_dir)})),
            "stat_futuretime" => j(json!({"cmd":"stat","path":format!("{}/future.bin", f.meta_dir)})),
            "stat_dir" => j(json!({"cmd":"stat","path":format!("{}/sub", f.meta_dir)})),
            "stat_olddir" => j(json!({"cmd":"stat","path":f.meta_dir})),
            "stat_symlink" => j(json!({"cmd":"stat","path":format!("{}/link_file", f.meta_dir)})),
            "stat_symlink_dir" => j(json!({"cmd":"stat","path":format!("{}/link_dir", f.meta_dir)})),
            "stat_dangling" => j(json!({"cmd":"stat","path":format!("{}/link_dangling", f.meta_dir)})),
            "stat_fifo" => j(json!({"cmd":"stat","path":format!("{}/fifo", f.meta_dir)})),
            "readdir_meta" => j(json!({"cmd":"readDirectory","path":f.meta_dir})),
            "readdir_emptydir" => j(json!({"cmd":"readDirectory","path":format!("{}/sub", f.meta_dir)})),
            "readdir_via_symlink" => j(json!({"cmd":"readDirectory","path":format!("{}/link_dir", f.meta_dir)})),
            _ => panic!("fs arg {}", arg),
        }),
        "unknown" => match arg {
            "frobnicate" => "frobnicate 1 2".to_string(),
            "empty" => String::new(),
            "uppercase" => format!("OPEN {}", j(json!({"files":[file]}))),
            "stream_window" => "stream_window 1 0,5".to_string(),
            "leadingspace" => " close".to_string(),
            "sentinel" => "__end_of_history__".to_string(),
            a if a.starts_with("big:") => format!("frobnicate {}", "x".repeat(size_of_class(&a[4..]))),
            _ => panic!("unknown arg {}", arg),
        },
        _ => panic!("verb {}", verb),
    }
}

const NONNUM: [&str; 6] = ["abc", "-1", "4294967296", "1.5", "", "0x10"];

struct Session {
    handles: Vec<u64>, // current id of the h-th successfully created stream/query
    old_id: u64,       // most recently invalidated id
    last_id: u64,      // last announced id
}

struct Out {
    evs: Vec<Value>,
    other_bins: u64,
}
impl Out {
    fn flush_bins(&mut self) {
        if self.other_bins > 0 {
            self.evs.push(json!({"ev":"bin_other","n":self.other_bins}));
            self.other_bins = 0;
        }
    }
    fn ev(&mut self, v: Value) {
        self.flush_bins();
        self.evs.push(v);
    }
}

struct Sent {
    verb: String,
    tk_id: u64,
    text: String,
}

/// for `ok: plugin_cmd <bool>`: the flag, and for an executed FileTransfer save whether the file written equals the transferred bytes
fn plugin_reply(reply: &str, cmd_text: &str, files: &Files) -> (String, String) {
    let flag = reply.strip_prefix("ok: plugin_cmd ").map(|r| r.trim().to_string()).unwrap_or_default();
    let mut saved = String::new();
    if flag == "true" {
        if let Some(v) = cmd_text.strip_prefix("plugin_cmd ").and_then(|t| serde_json::from_str::<Value>(t).ok()) {
            let idx = v["cmdCtx"]["save"]["idx"].as_u64().unwrap_or(99) as usize;
            let path = v["params"]["saveAs"].as_str().unwrap_or("");
            let want = files.ft_data.get(idx).cloned().unwrap_or_default();
            saved = match std::fs::read(path) {
                Ok(b) if b == want && !want.is_empty() => "equal".into(),
                _ => "differs".into(),
            };
        }
    }
    (flag, saved)
}

#[derive(PartialEq)]
enum Got {
    Reply,
    Other,
    Closed,
    Timeout,
}

/// record one received frame
fn on_frame(fr: Frame, out: &mut Out, sess: &mut Session, pending: &mut std::collections::VecDeque<Sent>, file_msgs: &mut u64, files: &Files) -> Got {
    match fr {
        Frame::Text(t) => {
            let (pol, rverb, id, old) = classify_text(&t);
            match pol {
                "ok" | "err" | "unknown" => {
                    let (flag, saved) = match pending.front() {
                        Some(s) if s.verb == "plugin_cmd" && pol == "ok" => plugin_reply(&t, &s.text, files),
                        _ => (String::new(), String::new()),
                    };
                    out.ev(json!({"ev":"reply","pol":pol,"rverb":rverb,"id":id,"old":old,"flag":flag,"saved":saved,"text":trunc(&t, 160)}));
                    // concretisation bookkeeping only: which ids were announced to us
                    if let Some(s) = pending.pop_front() {
                        if pol == "ok" {
                            match s.verb.as_str() {
                                "stream" | "query" => {
                                    sess.handles.push(id);
                                    sess.last_id = id;
                                }
                                "stream_change_window" => {
                                    if let Some(h) = sess.handles.iter_mut().find(|h| **h == s.tk_id) {
                                        *h = id;
                                    }
                                    sess.old_id = s.tk_id;
                                    sess.last_id = id;
                                }
                                "stop" => sess.old_id = s.tk_id,
                                "close" => {
                                    if let Some(h) = sess.handles.last() {
                                        sess.old_id = *h;
                                    }
                                    *file_msgs = 0;
                                }
                                "open" => *file_msgs = 0,
                                _ => {}
                            }
                        }
                        let _ = &s.text;
                    }
                    Got::Reply
                }
                "async" => {
                    out.ev(json!({"ev":"async_text","text":trunc(&t, 60)}));
                    Got::Other
                }
                _ => {
                    out.ev(json!({"ev":"text_other","text":trunc(&t, 160)}));
                    Got::Other
                }
            }
        }
        Frame::Bin(b) => {
            match decode(&b) {
                Some(adlt::utils::remote_types::BinType::DltMsgs((id, msgs))) => {
                    out.ev(json!({"ev":"bin","type":"DltMsgs","id":id,"n":msgs.len()}));
                }
                Some(adlt::utils::remote_types::BinType::FileInfo(fi)) => {
                    *file_msgs = fi.nr_msgs as u64;
                    out.other_bins += 1;
                }
                Some(_) => out.other_bins += 1,
                None => out.ev(json!({"ev":"bin_undecodable","len":b.len()})),
            }
            Got::Other
        }
        Frame::Closed(why) => {
            out.ev(json!({"ev":"conn_closed","why":trunc(&why, 120)}));
            Got::Closed
        }
        Frame::Timeout => Got::Timeout,
    }
}

fn run_case(port: u16, case: usize, cs: &CaseSpec, files: &Files, rng: &mut Rng) -> Vec<Value> {
    let mut out = Out { evs: Vec::new(), other_bins: 0 };
    out.evs.push(json!({"ev":"reset","case":case,"hdr":{"src":cs.src,"mode":cs.mode,"n":cs.steps.len(),"big":cs.big}}));
    let mut conn = match Conn::connect(port, Duration::from_secs(20)) {
        Ok(c) => c,
        Err(e) => {
            out.ev(json!({"ev":"connect_failed","why":trunc(&e, 120)}));
            out.ev(json!({"ev":"end"}));
            return out.evs;
        }
    };
    out.ev(json!({"ev":"connected"}));
    let mut sess = Session { handles: Vec::new(), old_id: 2_000_000_008, last_id: 0 };
    let mut pending: std::collections::VecDeque<Sent> = Default::default();
    let mut file_msgs = 0u64;
    // generous wait for a reply - but once several sessions of this run have timed out (each is a violation already: the run
    // fails in any case) the remaining ones wait less, so that a server that answers nothing does not cost hours
    let reply_wait = Duration::from_secs(match TIMEOUTS_SEEN.load(Ordering::SeqCst) { 0..=5 => 60, 6..=20 => 10, _ => 2 });
    let mut steps = cs.steps.clone();
    let mut s = step("unknown", "sentinel", "");
    s.exp = "unknown".into();
    steps.push(s);
    let burst = if cs.mode == "pipelined" { 1 + rng.below(12) as usize } else { 1 };
    let mut dead = false;
    let mut i = 0;
    'outer: while i < steps.len() {
        let upto = std::cmp::min(steps.len(), i + burst);
        for st in &steps[i..upto] {
            if st.verb == "wait" {
                // pacing only: give the parser time to deliver everything (no event; not a command)
                let want = if cs.big { files.n_big } else { files.n_small };
                let t0 = std::time::Instant::now();
                while file_msgs < want && t0.elapsed() < Duration::from_secs(20) {
                    if on_frame(conn.recv(Duration::from_millis(200)), &mut out, &mut sess, &mut pending, &mut file_msgs, files) == Got::Closed {
                        dead = true;
                        break 'outer;
                    }
                }
                std::thread::sleep(Duration::from_millis(250));
                continue;
            }
            if st.verb == "sleep" {
                // pacing only (no event; not a command): e.g. let the parser fill the server's queues while paused
                std::thread::sleep(Duration::from_millis(st.arg.parse().unwrap()));
                continue;
            }
            if st.pause_ms > 0 {
                std::thread::sleep(Duration::from_millis(st.pause_ms));
            }
            let is_t = TARGET_VERBS.contains(&st.verb.as_str());
            let (tk, id, tk_text): (&str, u64, Option<String>) = if !is_t {
                ("none", 0, None)
            } else {
                match st.tgt.as_str() {
                    "none" | "" => ("none", 0, None),
                    "nonnum" => ("nonnum", 0, Some(rng.pick(&NONNUM).to_string())),
                    "dead" => ("id", 2_000_000_009, Some("2000000009".into())),
                    "old" => ("id", sess.old_id, Some(sess.old_id.to_string())),
                    t if t.starts_with('h') => {
                        let h: usize = t[1..].parse().unwrap();
                        let id = sess.handles.get(h - 1).copied().unwrap_or(2_000_000_007);
                        ("id", id, Some(id.to_string()))
                    }
                    t if t.starts_with("recent:") => {
                        let k: usize = t[7..].parse().unwrap();
                        let id = if sess.handles.len() > k { sess.handles[sess.handles.len() - 1 - k] } else { 2_000_000_006 };
                        ("id", id, Some(id.to_string()))
                    }
                    t if t.starts_with("spec:") => {
                        let k: u64 = t[5..].parse().unwrap();
                        let id = sess.last_id + k;
                        ("id", id, Some(id.to_string()))
                    }
                    t if t.starts_with("n:") => {
                        // a numeric class as stream id; ids beyond TLC's 32-bit integers are recorded as 2147483647 (never a live id)
                        let txt = num_text(&t[2..], files.n_small);
                        match txt.parse::<u32>() {
                            Ok(v) => ("id", std::cmp::min(v as u64, 2_147_483_647), Some(txt)),
                            Err(_) => ("nonnum", 0, Some(txt)),
                        }
                    }
                    t => panic!("target {}", t),
                }
            };
            // "nonnum" with an empty first parameter is sent as "<verb>  <second>" (two spaces)
            let text = concretise(&st.verb, &st.arg, tk_text.as_deref(), files, cs.big);
            out.ev(json!({"ev":"cmd","verb":st.verb,"arg":st.arg,"tk":tk,"id":id,"exp":st.exp,"text":trunc(&text, 200)}));
            pending.push_back(Sent { verb: st.verb.clone(), tk_id: id, text: text.clone() });
            if let Err(e) = conn.send(&text) {
                out.ev(json!({"ev":"conn_closed","why":trunc(&format!("send failed: {}", e), 120)}));
                dead = true;
                break 'outer;
            }
        }
        i = upto;
        // read until everything sent so far is answered
        while !pending.is_empty() {
            match on_frame(conn.recv(reply_wait), &mut out, &mut sess, &mut pending, &mut file_msgs, files) {
                Got::Closed => {
                    dead = true;
                    break 'outer;
                }
                Got::Timeout => {
                    // no frame at all for `reply_wait` although commands are unanswered
                    TIMEOUTS_SEEN.fetch_add(1, Ordering::SeqCst);
                    out.ev(json!({"ev":"timeout","pending":pending.len()}));
                    dead = true;
                    break 'outer;
                }
                _ => {}
            }
        }
    }
    let _ = dead;
    out.ev(json!({"ev":"end"}));
    conn.close();
    out.evs
}

// ------------------------------------------------------------------------------------------------ histories
fn is_numeric_step(s: &Step) -> bool {
    s.tgt.starts_with("n:") || ["nwin:", "nstart:", "nmax:", "ntime:", "nindex:"].iter().any(|p| s.arg.starts_with(p))
}

const NUM_CLASSES: [&str; 13] = ["0", "3", "lenm1", "len", "lenp1", "u32max", "u32maxp1", "u64k", "u64max", "p62", "1e19", "neg", "float"];

/// a session whose numeric parameters and ids take the extreme classes (runs alone on the dedicated server)
fn random_numeric_history(rng: &mut Rng, len: usize) -> Vec<Step> {
    let mut v = vec![step("open", if rng.chance(1, 4) { "ok_sort" } else { "ok" }, ""), step("stream", "ok_filt", "")];
    let c = |rng: &mut Rng| *rng.pick(&NUM_CLASSES);
    for _ in 0..len {
        let tgt = if rng.chance(1, 6) { format!("n:{}", c(rng)) } else { format!("recent:{}", rng.below(2)) };
        let s = match rng.below(7) {
            0 => step(if rng.chance(1, 2) { "stream" } else { "query" }, &format!("nwin:{}:{}", c(rng), c(rng)), ""),
            1 => step("stream_change_window", &format!("nwin:{}:{}", c(rng), c(rng)), &tgt),
            2 => step("stream_search", &format!("nstart:{}", c(rng)), &tgt),
            3 => step("stream_search", &format!("nmax:{}", c(rng)), &tgt),
            4 => step("stream_binary_search", &format!("ntime:{}", c(rng)), &tgt),
            5 => step("stream_binary_search", &format!("nindex:{}", c(rng)), &tgt),
            _ => step("stop", "", &format!("n:{}", c(rng))),
        };
        v.push(s);
    }
    v.push(step("close", "", ""));
    v.push(step("open", "ok", ""));
    v
}

fn parse_scn(v: &Value) -> Vec<Step> {
    let mut steps: Vec<Step> = v
        .as_array()
        .expect("scenario = array of letters")
        .iter()
        .map(|l| {
            let p: Vec<&str> = l.as_str().unwrap().split('|').collect();
            Step { verb: p[0].into(), arg: p[1].into(), tgt: p[2].into(), exp: p[3].into(), pause_ms: 0 }
        })
        .collect();
    // pacing: after a `resume` give the server loop time to take over (and, in one-pass mode, release) messages
    for i in 1..steps.len() {
        if steps[i - 1].verb == "resume" {
            steps[i].pause_ms = 150;
        }
        if steps[i - 1].verb == "open" && steps[i - 1].arg.starts_with("ok_ft") {
            steps[i].pause_ms = 350; // let the file transfers be parsed (a save before that answers false - allowed)
        }
    }
    steps
}

const OPEN_OK: [&str; 16] = ["ok_ft", "ok_ft_nosave", "ok_ft_auto", "ok_plugins_dup", "ok", "ok_sort", "ok_nocollect", "ok_onepass", "ok_plugins", "ok_zip", "zip_glob_all", "zip_glob_some", "zip_glob_none", "zip_nodlt", "zip_nodlt_glob", "fakezip"];
const OPEN_BAD: [&str; 13] = ["nonarchive_bang", "missingzip_bang", "noarg", "badjson", "nofiles", "emptyfiles", "fileswrongtype", "filesnonstring", "missingfile", "nodlt", "badcollect", "pluginswrongtype", "pluginnotobj"];
const STREAM_OK: [&str; 6] = ["ok", "ok_filt", "ok_text", "ok_onepass", "ok_defaults", "ok_emptywin"];
const STREAM_BAD: [&str; 6] = ["noarg", "badjson", "badwindow", "windowwrongtype", "filterswrongtype", "badfilter"];
const CHANGE: [&str; 6] = ["ok", "ok_empty", "ok_garbage", "ok_beyond", "noarg", "nocomma"];
const BSEARCH: [&str; 8] = ["time", "time_garbage", "index_found", "index_garbage", "index_missing", "badkey", "nokey", "noarg"];
const SEARCH: [&str; 9] = ["ok", "ok_defaults", "ok_nomatch", "noarg", "badjson", "startwrongtype", "maxwrongtype", "filterswrongtype", "badfilter"];
const PLUGIN: [&str; 15] = ["save_ok", "save_ok2", "save_incomplete", "save_badidx", "save_unwritable", "save_noparams", "save_noctx", "rw_cmd", "noarg", "badjson", "notobject", "nocmd", "noname", "noplugin", "ft_cmd"];
const FS: [&str; 27] = ["stat_oldtime", "stat_futuretime", "stat_dir", "stat_olddir", "stat_symlink", "stat_symlink_dir", "stat_dangling", "stat_fifo", "readdir_meta", "readdir_emptydir", "readdir_via_symlink", "noarg", "badjson", "notobject", "nocmd", "nopath", "unknowncmd", "stat_ok", "readdir_ok", "stat_missing", "readdir_missing", "arch_nonexist", "arch_unsupported", "fakezip_readdir", "fakezip_stat", "zip_readdir", "zip_stat"];
const UNKNOWN: [&str; 5] = ["frobnicate", "empty", "uppercase", "stream_window", "leadingspace"];
const PLAIN: [&str; 2] = ["", "junk"];

/// `multi`: sessions with several live streams - window changes on streams that are not the newest one (their id is
/// renewed in place) followed by commands addressing every live id
/// `onepass`: sessions in collect mode one_pass_streams (or, rarely, the other modes): pause / resume between one-pass and
/// normal streams and queries, so that streams are requested after messages were released
fn random_onepass_history(rng: &mut Rng, len: usize) -> Vec<Step> {
    let mut v = vec![step("open", *rng.pick(&["ok_onepass", "ok_onepass", "ok_onepass", "ok", "ok_nocollect"]), "")];
    for _ in 0..len {
        let r = rng.below(100);
        let mut s = if r < 22 {
            step("resume", "", "")
        } else if r < 40 {
            step("pause", "", "")
        } else if r < 70 {
            step(if rng.chance(3, 4) { "stream" } else { "query" }, if rng.chance(4, 5) { "ok_onepass" } else { "ok_filt" }, "")
        } else if r < 80 {
            step("stop", "", &format!("recent:{}", rng.below(3)))
        } else if r < 90 {
            let verb = *rng.pick(&TARGET_VERBS[1..]);
            let arg = match verb { "stream_change_window" => "ok", "stream_binary_search" => "time", _ => "ok" };
            step(verb, arg, &format!("recent:{}", rng.below(3)))
        } else if r < 95 {
            step("fs", "stat_ok", "")
        } else {
            v.push(step("close", "", ""));
            step("open", *rng.pick(&["ok_onepass", "ok_onepass", "ok"]), "")
        };
        if v.last().map(|p| p.verb == "resume").unwrap_or(false) {
            s.pause_ms = [30, 100, 250][rng.below(3) as usize];
        }
        v.push(s);
    }
    v
}

/// sessions on the file-transfer log with the FileTransfer plugin: save commands of every kind between other commands
fn random_ft_history(rng: &mut Rng, len: usize) -> Vec<Step> {
    let mut v = vec![step("open", *rng.pick(&["ok_ft", "ok_ft", "ok_ft_auto", "ok_ft_nosave"]), "")];
    if rng.chance(2, 3) {
        v.push(step("sleep", "500", ""));
    }
    for _ in 0..len {
        let r = rng.below(100);
        let s = if r < 55 {
            step("plugin_cmd", *rng.pick(&PLUGIN), "")
        } else if r < 65 {
            step(if rng.chance(1, 2) { "pause" } else { "resume" }, "", "")
        } else if r < 80 {
            step(if rng.chance(1, 2) { "stream" } else { "query" }, *rng.pick(&["ok", "ok_filt"]), "")
        } else if r < 88 {
            step("fs", "stat_ok", "")
        } else if r < 94 {
            step("stop", "", &format!("recent:{}", rng.below(2)))
        } else {
            v.push(step("close", "", ""));
            step("open", *rng.pick(&["ok_ft", "ok_ft_auto", "ok"]), "")
        };
        v.push(s);
    }
    v.push(step("close", "", ""));
    v
}

fn random_history(rng: &mut Rng, len: usize, pipelined: bool, multi: bool) -> Vec<Step> {
    let mut v = Vec::new();
    let mut created = 0usize; // streams requested so far (only to pick plausible targets; may be wrong - that is fine)
    if multi {
        v.push(step("open", if rng.chance(1, 4) { "ok_sort" } else { "ok" }, ""));
        for _ in 0..rng.range(2, 4) {
            v.push(step("stream", *rng.pick(&["ok", "ok_filt", "ok_defaults"]), ""));
            created += 1;
        }
    }
    for _ in 0..len {
        if multi && rng.chance(4, 5) {
            let r = rng.below(100);
            let s = if r < 30 {
                // renew the id of a stream that is not the newest, then address every recent id
                v.push(step("stream_change_window", *rng.pick(&["ok", "ok_empty", "ok_beyond"]), &format!("recent:{}", rng.range(1, 3))));
                for k in 0..3 {
                    let verb = *rng.pick(&["stream_search", "stream_binary_search", "stream_change_window"]);
                    let arg = match verb { "stream_search" => "ok", "stream_binary_search" => "time", _ => "ok" };
                    v.push(step(verb, arg, &format!("recent:{}", k)));
                }
                continue;
            } else if r < 70 {
                let verb = *rng.pick(&TARGET_VERBS[1..]);
                let arg = match verb { "stream_change_window" => "ok", "stream_binary_search" => *rng.pick(&["time", "index_found"]), _ => *rng.pick(&["ok", "ok_defaults"]) };
                step(verb, arg, &format!("recent:{}", rng.below(4)))
            } else if r < 85 {
                created += 1;
                step(if rng.chance(4, 5) { "stream" } else { "query" }, *rng.pick(&["ok", "ok_filt"]), "")
            } else {
                step("stop", "", &format!("recent:{}", rng.below(4)))
            };
            v.push(s);
            continue;
        }
        let r = rng.below(100);
        let mut s = if r < 8 {
            let a = if rng.chance(3, 4) { *rng.pick(&OPEN_OK) } else { *rng.pick(&OPEN_BAD) };
            step("open", a, "")
        } else if r < 13 {
            step("close", *rng.pick(&PLAIN), "")
        } else if r < 20 {
            step(if rng.chance(1, 2) { "pause" } else { "resume" }, *rng.pick(&PLAIN), "")
        } else if r < 40 {
            let a = if rng.chance(3, 4) { *rng.pick(&STREAM_OK) } else { *rng.pick(&STREAM_BAD) };
            created += 1;
            step(if rng.chance(2, 3) { "stream" } else { "query" }, a, "")
        } else if r < 85 {
            let verb = *rng.pick(&TARGET_VERBS);
            let arg = match verb {
                "stop" => *rng.pick(&PLAIN),
                "stream_change_window" => *rng.pick(&CHANGE),
                "stream_binary_search" => *rng.pick(&BSEARCH),
                _ => *rng.pick(&SEARCH),
            };
            let t = rng.below(10);
            let tgt = if t < 6 && created > 0 {
                if pipelined && rng.chance(1, 3) {
                    format!("spec:{}", rng.below(3))
                } else {
                    // one of the most recently announced streams (resolved when the command is sent)
                    format!("recent:{}", rng.below(4))
                }
            } else {
                ["none", "nonnum", "dead", "old"][rng.below(4) as usize].to_string()
            };
            step(verb, arg, &tgt)
        } else if r < 90 {
            step("plugin_cmd", *rng.pick(&PLUGIN), "")
        } else if r < 96 {
            step("fs", *rng.pick(&FS), "")
        } else {
            step("unknown", *rng.pick(&UNKNOWN), "")
        };
        if !pipelined && rng.chance(1, 6) {
            s.pause_ms = [1, 5, 20, 60, 150][rng.below(5) as usize];
        }
        v.push(s);
    }
    v
}

fn scripted() -> Vec<CaseSpec> {
    let mk = |big: bool, mode: &'static str, v: Vec<Step>| CaseSpec { src: "scripted", mode, big, huge: false, numeric: false, steps: v };
    let mut res = vec![
        // the three reproduced connection killers (Appendix C #8, #19, #20)
        mk(false, "awaited", vec![step("open", "ok", ""), step("stream", "ok_filt", ""), step("stream_search", "noarg", "h1"), step("close", "", "")]),
        mk(false, "awaited", vec![step("fs", "fakezip_readdir", ""), step("fs", "stat_ok", "")]),
        mk(false, "awaited", vec![step("fs", "fakezip_stat", ""), step("fs", "stat_ok", "")]),
        // commands while the extraction of an archive open is still pending (no parser thread yet): every verb right behind the
        // open, then again once the extraction has finished
        mk(false, "awaited", vec![step("open", "ok_zip_slow", ""), step("stream", "ok", ""), step("stream_binary_search", "time", "h1"), step("stream_binary_search", "index_found", "h1"), step("stream_search", "ok", "h1"), step("stream_change_window", "ok", "h1"), step("sleep", "1500", ""), step("stream_binary_search", "time", "h1"), step("stop", "", "h1"), step("close", "", ""), step("fs", "stat_ok", "")]),
        mk(false, "awaited", vec![step("open", "ok_zip_slow", ""), step("query", "ok_filt", ""), step("stream_binary_search", "time", "h1"), step("stream_search", "ok", "h1"), step("stop", "", "h1"), step("stream", "ok_filt", ""), step("stream_binary_search", "time_garbage", "h1"), step("stream_binary_search", "index_missing", "h1"), step("pause", "", ""), step("resume", "", ""), step("plugin_cmd", "noplugin", ""), step("close", "", ""), step("open", "ok", ""), step("close", "", "")]),
        mk(false, "pipelined", vec![step("open", "ok_zip_slow", ""), step("stream", "ok", ""), step("stream_binary_search", "time", "h1"), step("stream_search", "ok", "h1"), step("stream_change_window", "ok", "h1"), step("stream_binary_search", "time", "h1"), step("close", "", ""), step("fs", "stat_ok", "")]),
        mk(false, "awaited", vec![step("open", "ok_zip_slow_onepass", ""), step("stream", "ok_onepass", ""), step("stream_binary_search", "time", "h1"), step("stream_search", "ok", "h1"), step("resume", "", ""), step("stream_binary_search", "time", "h1"), step("sleep", "1500", ""), step("stream_binary_search", "time", "h1"), step("close", "", ""), step("fs", "stat_ok", "")]),
        mk(false, "awaited", vec![step("open", "ok_zip_slow", ""), step("close", "", ""), step("open", "ok_zip_slow", ""), step("stream", "ok", ""), step("close", "", ""), step("stream_binary_search", "time", "h1"), step("open", "ok", ""), step("stream", "ok", ""), step("stream_binary_search", "time", "h1"), step("close", "", "")]),
        // every file-metadata shape once, each followed by a plain stat (the connection must still answer)
        mk(false, "awaited", FS[..11].iter().flat_map(|a| vec![step("fs", a, ""), step("fs", "stat_ok", "")]).collect()),
        mk(false, "pipelined", FS[..11].iter().map(|a| step("fs", a, "")).chain(std::iter::once(step("fs", "stat_ok", ""))).collect()),
        mk(false, "awaited", vec![step("open", "ok_onepass", ""), step("stream", "ok_onepass", ""), step("resume", "", ""), step("wait", "", ""), step("stream_search", "ok", "h1")]),
        mk(false, "awaited", vec![step("open", "ok_onepass", ""), step("stream", "ok_onepass", ""), step("resume", "", ""), step("wait", "", ""), step("stream_binary_search", "index_found", "h1"), step("stream_binary_search", "time", "h1"), step("close", "", "")]),
        // one-pass mode: a stream created / a window changed after messages were drained (poll loop)
        mk(false, "awaited", vec![step("open", "ok_onepass", ""), step("resume", "", ""), step("wait", "", ""), step("stream", "ok_onepass", ""), step("fs", "stat_ok", ""), step("fs", "stat_ok", ""), step("fs", "stat_ok", ""), step("close", "", "")]),
        mk(false, "awaited", vec![step("open", "ok_onepass", ""), step("stream", "ok_onepass", ""), step("resume", "", ""), step("wait", "", ""), step("stream_change_window", "ok", "h1"), step("fs", "stat_ok", ""), step("fs", "stat_ok", ""), step("fs", "stat_ok", ""), step("close", "", "")]),
        // archive opens (extraction runs after the reply): every glob / content variant, idle until the extraction has finished,
        // then the session must still work: pause/stream/resume/close, and a new open succeeds
        mk(false, "awaited", vec![step("open", "ok_zip", ""), step("sleep", "400", ""), step("unknown", "frobnicate", ""), step("sleep", "300", ""), step("fs", "stat_ok", ""), step("pause", "", ""), step("stream", "ok", ""), step("resume", "", ""), step("sleep", "200", ""), step("stop", "", "h1"), step("close", "", ""), step("open", "ok", ""), step("close", "", "")]),
        mk(false, "awaited", vec![step("open", "zip_glob_all", ""), step("sleep", "400", ""), step("unknown", "frobnicate", ""), step("sleep", "300", ""), step("fs", "stat_ok", ""), step("pause", "", ""), step("stream", "ok", ""), step("resume", "", ""), step("sleep", "200", ""), step("stop", "", "h1"), step("close", "", ""), step("open", "ok", ""), step("close", "", "")]),
        mk(false, "awaited", vec![step("open", "zip_glob_some", ""), step("sleep", "400", ""), step("unknown", "frobnicate", ""), step("sleep", "300", ""), step("fs", "stat_ok", ""), step("pause", "", ""), step("stream", "ok", ""), step("resume", "", ""), step("sleep", "200", ""), step("stop", "", "h1"), step("close", "", ""), step("open", "ok", ""), step("close", "", "")]),
        mk(false, "awaited", vec![step("open", "zip_glob_none", ""), step("sleep", "400", ""), step("unknown", "frobnicate", ""), step("sleep", "300", ""), step("fs", "stat_ok", ""), step("pause", "", ""), step("stream", "ok", ""), step("resume", "", ""), step("sleep", "200", ""), step("stop", "", "h1"), step("close", "", ""), step("open", "ok", ""), step("close", "", "")]),
        mk(false, "awaited", vec![step("open", "zip_nodlt", ""), step("sleep", "400", ""), step("unknown", "frobnicate", ""), step("sleep", "300", ""), step("fs", "stat_ok", ""), step("pause", "", ""), step("stream", "ok", ""), step("resume", "", ""), step("sleep", "200", ""), step("stop", "", "h1"), step("close", "", ""), step("open", "ok", ""), step("close", "", "")]),
        mk(false, "awaited", vec![step("open", "zip_nodlt_glob", ""), step("sleep", "400", ""), step("unknown", "frobnicate", ""), step("sleep", "300", ""), step("fs", "stat_ok", ""), step("pause", "", ""), step("stream", "ok", ""), step("resume", "", ""), step("sleep", "200", ""), step("stop", "", "h1"), step("close", "", ""), step("open", "ok", ""), step("close", "", "")]),
        mk(false, "awaited", vec![step("open", "fakezip", ""), step("sleep", "400", ""), step("unknown", "frobnicate", ""), step("sleep", "300", ""), step("fs", "stat_ok", ""), step("pause", "", ""), step("stream", "ok", ""), step("resume", "", ""), step("sleep", "200", ""), step("stop", "", "h1"), step("close", "", ""), step("open", "ok", ""), step("close", "", "")]),
        mk(false, "awaited", vec![step("open", "nonarchive_bang", ""), step("sleep", "400", ""), step("unknown", "frobnicate", ""), step("sleep", "300", ""), step("fs", "stat_ok", ""), step("pause", "", ""), step("stream", "ok", ""), step("resume", "", ""), step("sleep", "200", ""), step("stop", "", "h1"), step("close", "", ""), step("open", "ok", ""), step("close", "", "")]),
        mk(false, "awaited", vec![step("open", "missingzip_bang", ""), step("sleep", "400", ""), step("unknown", "frobnicate", ""), step("sleep", "300", ""), step("fs", "stat_ok", ""), step("pause", "", ""), step("stream", "ok", ""), step("resume", "", ""), step("sleep", "200", ""), step("stop", "", "h1"), step("close", "", ""), step("open", "ok", ""), step("close", "", "")]),
        mk(false, "pipelined", vec![step("open", "zip_glob_none", ""), step("pause", "", ""), step("stream", "ok_filt", ""), step("close", "", ""), step("open", "zip_nodlt", ""), step("sleep", "300", ""), step("close", "", ""), step("open", "ok", ""), step("close", "", "")]),
        // one-pass mode: a second one-pass stream requested while paused, after messages were released (must be refused or work -
        // in any case every later command is answered), for stream and query, and the same under the other collect modes
        mk(false, "awaited", vec![step("open", "ok_onepass", ""), step("stream", "ok_onepass", ""), step("resume", "", ""), step("wait", "", ""), step("pause", "", ""), step("stream", "ok_onepass", ""), step("resume", "", ""), step("sleep", "300", ""), step("fs", "stat_ok", ""), step("pause", "", ""), step("query", "ok_onepass", ""), step("resume", "", ""), step("sleep", "300", ""), step("stop", "", "h1"), step("close", "", ""), step("open", "ok", ""), step("close", "", "")]),
        mk(false, "awaited", vec![step("open", "ok_onepass", ""), step("resume", "", ""), step("wait", "", ""), step("pause", "", ""), step("query", "ok_onepass", ""), step("stream", "ok_onepass", ""), step("resume", "", ""), step("sleep", "300", ""), step("fs", "stat_ok", ""), step("close", "", ""), step("open", "ok_onepass", ""), step("stream", "ok_onepass", ""), step("close", "", "")]),
        mk(false, "awaited", vec![step("open", "ok_nocollect", ""), step("stream", "ok_onepass", ""), step("pause", "", ""), step("query", "ok_filt", ""), step("resume", "", ""), step("sleep", "200", ""), step("close", "", ""), step("open", "ok", ""), step("stream", "ok_onepass", ""), step("resume", "", ""), step("wait", "", ""), step("pause", "", ""), step("stream", "ok_onepass", ""), step("query", "ok_onepass", ""), step("resume", "", ""), step("sleep", "200", ""), step("stop", "", "h2"), step("close", "", "")]),
        // plugins configured twice under the same name: one plugin_cmd = one reply (a stray frame would answer the next command)
        mk(false, "awaited", vec![step("open", "ok_plugins_dup", ""), step("plugin_cmd", "ft_cmd", ""), step("fs", "stat_ok", ""), step("plugin_cmd", "rw_cmd", ""), step("pause", "", ""), step("plugin_cmd", "ft_cmd", ""), step("plugin_cmd", "noplugin", ""), step("resume", "", ""), step("plugin_cmd", "rw_cmd", ""), step("close", "", ""), step("plugin_cmd", "ft_cmd", ""), step("open", "ok_plugins", ""), step("plugin_cmd", "rw_cmd", ""), step("plugin_cmd", "ft_cmd", ""), step("close", "", "")]),
        mk(false, "pipelined", vec![step("open", "ok_plugins_dup", ""), step("plugin_cmd", "ft_cmd", ""), step("plugin_cmd", "rw_cmd", ""), step("stream", "ok", ""), step("plugin_cmd", "ft_cmd", ""), step("stop", "", "none"), step("plugin_cmd", "rw_cmd", ""), step("close", "", "")]),
        // command frames of every size class (16 MiB is a default frame limit of the websocket library; the server allows 1 GB messages)
        mk(false, "awaited", vec![step("unknown", "big:1k", ""), step("open", "ok", ""), step("stream", "pad:1k", ""), step("stream", "pad:1m", ""), step("unknown", "big:1m", ""), step("stop", "", "h1"), step("stream", "pad:17m", ""), step("stop", "", "h3"), step("unknown", "big:17m", ""), step("query", "pad:1k", ""), step("close", "", "")]),
        // several queries ending in the same pass of the server loop (registered while paused / pipelined), with and without a stream behind them
        mk(false, "awaited", vec![step("open", "ok", ""), step("wait", "", ""), step("pause", "", ""), step("query", "ok", ""), step("query", "ok_filt", ""), step("stream", "ok", ""), step("resume", "", ""), step("sleep", "300", ""), step("stream_change_window", "ok", "h3"), step("stream_search", "ok", "h3"), step("stop", "", "h3"), step("close", "", "")]),
        mk(false, "awaited", vec![step("open", "ok", ""), step("wait", "", ""), step("pause", "", ""), step("query", "ok", ""), step("query", "ok", ""), step("query", "ok_filt", ""), step("resume", "", ""), step("sleep", "300", ""), step("fs", "stat_ok", ""), step("stream", "ok", ""), step("stop", "", "h4"), step("close", "", "")]),
        mk(false, "pipelined", vec![step("open", "ok", ""), step("wait", "", ""), step("stream", "ok", ""), step("query", "ok", ""), step("query", "ok_filt", ""), step("query", "ok", ""), step("stream", "ok_filt", ""), step("sleep", "300", ""), step("stream_search", "ok", "h1"), step("stream_search", "ok", "h5"), step("stop", "", "h5"), step("stop", "", "h1"), step("close", "", "")]),
        // FileTransfer `save`: failing variants before, the succeeding ones after the transfers are parsed, repeated, then the session goes on
        mk(false, "awaited", vec![step("open", "ok_ft", ""), step("plugin_cmd", "save_badidx", ""), step("plugin_cmd", "save_noparams", ""), step("sleep", "700", ""), step("plugin_cmd", "save_ok", ""), step("pause", "", ""), step("plugin_cmd", "save_ok2", ""), step("plugin_cmd", "save_ok", ""), step("plugin_cmd", "save_incomplete", ""), step("plugin_cmd", "save_unwritable", ""), step("plugin_cmd", "save_noctx", ""), step("resume", "", ""), step("stream", "ok", ""), step("plugin_cmd", "save_ok2", ""), step("close", "", ""), step("plugin_cmd", "save_ok", ""), step("open", "ok_ft", ""), step("plugin_cmd", "save_ok", ""), step("close", "", "")]),
        mk(false, "awaited", vec![step("open", "ok_ft_nosave", ""), step("sleep", "700", ""), step("plugin_cmd", "save_ok", ""), step("plugin_cmd", "save_badidx", ""), step("fs", "stat_ok", ""), step("close", "", ""), step("open", "ok_ft_auto", ""), step("sleep", "700", ""), step("plugin_cmd", "save_ok", ""), step("plugin_cmd", "save_ok2", ""), step("pause", "", ""), step("close", "", ""), step("open", "ok", ""), step("plugin_cmd", "save_ok", ""), step("close", "", "")]),
        mk(false, "pipelined", vec![step("open", "ok_ft", ""), step("sleep", "700", ""), step("plugin_cmd", "save_ok", ""), step("plugin_cmd", "save_ok2", ""), step("pause", "", ""), step("plugin_cmd", "save_ok", ""), step("close", "", ""), step("open", "ok", ""), step("close", "", "")]),
        // close while parsing (big file, throttled parser), then a new open must succeed; also pipelined
        mk(true, "awaited", vec![step("open", "ok", ""), step("stream", "ok_filt", ""), step("close", "", ""), step("open", "ok", ""), step("stream", "ok", ""), step("close", "", ""), step("open", "ok_sort", ""), step("close", "", ""), step("open", "ok_zip", ""), step("close", "", ""), step("open", "ok", "")]),
        mk(true, "pipelined", vec![step("open", "ok", ""), step("stream", "ok_filt", ""), step("close", "", ""), step("open", "ok_sort", ""), step("query", "ok_filt", ""), step("close", "", ""), step("open", "ok_onepass", ""), step("close", "", ""), step("open", "ok_zip", ""), step("close", "", ""), step("open", "ok", ""), step("close", "", "")]),
        // queries end by themselves; ids stay usable exactly until then
        mk(false, "awaited", vec![step("open", "ok", ""), step("wait", "", ""), step("query", "ok_filt", ""), step("stop", "", "h1"), step("query", "ok", ""), step("stream_change_window", "ok", "h2"), step("pause", "", ""), step("query", "ok_filt", ""), step("stream_change_window", "ok", "h3"), step("stop", "", "h3"), step("stop", "", "h3")]),
        // every stream verb on a live stream after parsing finished
        mk(false, "awaited", vec![step("open", "ok_plugins", ""), step("stream", "ok_filt", ""), step("wait", "", ""), step("stream_binary_search", "index_found", "h1"), step("stream_binary_search", "time", "h1"), step("stream_search", "ok", "h1"), step("stream_change_window", "ok", "h1"), step("stream_search", "ok_defaults", "h1"), step("plugin_cmd", "ft_cmd", ""), step("stop", "", "h1"), step("stop", "", "old")]),
    ];
    for cs in res.iter_mut() {
        for s in cs.steps.iter_mut() {
            s.exp = String::new();
        }
    }
    res
}

/// a log with file transfers (the FileTransfer plugin's protocol: FLST, FLDA.., FLFI as verbose messages): transfer 0 complete
/// (3 packages), transfer 1 incomplete (package 2 of 2 and FLFI missing), transfer 2 complete (1 package), ordinary logs around
fn write_ft_log(path: &str) -> Vec<Vec<u8>> {
    use adlt::dlt::{DltArg, DLT_TYLE_32BIT, DLT_TYPE_INFO_RAWD, DLT_TYPE_INFO_SINT, DLT_TYPE_INFO_STRG, DLT_TYPE_INFO_UINT};
    use std::io::Write;
    let u32t = DLT_TYPE_INFO_UINT | DLT_TYLE_32BIT as u32;
    let i32t = DLT_TYPE_INFO_SINT | DLT_TYLE_32BIT as u32;
    let mk = |noar: u8, args: &[(u32, &[u8])]| {
        let v: Vec<DltArg> = args.iter().map(|a| DltArg { type_info: a.0, is_big_endian: false, payload_raw: a.1 }).collect();
        adlt::dlt::DltMessage::get_testmsg_with_payload(false, noar, &adlt::utils::payload_from_args(&v))
    };
    let flst = |serial: u32, name: &str, size: u32, pkgs: u32| {
        let n = format!("{}\0", name);
        mk(8, &[(DLT_TYPE_INFO_STRG, b"FLST\0"), (u32t, &serial.to_le_bytes()), (DLT_TYPE_INFO_STRG, n.as_bytes()), (u32t, &size.to_le_bytes()),
                (DLT_TYPE_INFO_STRG, b"2022-06-02 21:54:00\0"), (u32t, &pkgs.to_le_bytes()), (u32t, &512u32.to_le_bytes()), (DLT_TYPE_INFO_STRG, b"FLST\0")])
    };
    let flda = |serial: u32, pkg: i32, data: &[u8]| {
        mk(5, &[(DLT_TYPE_INFO_STRG, b"FLDA\0"), (u32t, &serial.to_le_bytes()), (i32t, &pkg.to_le_bytes()), (DLT_TYPE_INFO_RAWD, data), (DLT_TYPE_INFO_STRG, b"FLDA\0")])
    };
    let flfi = |serial: u32| mk(3, &[(DLT_TYPE_INFO_STRG, b"FLFI\0"), (u32t, &serial.to_le_bytes()), (DLT_TYPE_INFO_STRG, b"FLFI\0")]);
    let plain = |i: usize| {
        let g = GenMsg { ecu: "ECU1".into(), apid: "APIA".into(), ctid: "CTIA".into(), t_ms: 0, mcnt: 0, text: format!("ordinary message {}", i), ts_dms: 0 };
        to_dlt(i, &g)
    };
    let a: Vec<u8> = (0..1200u32).map(|i| (i * 7 % 251) as u8).collect();
    let c: Vec<u8> = b"the second complete transfer".to_vec();
    let mut msgs = vec![plain(0), plain(1), flst(17, "first.bin", a.len() as u32, 3), flda(17, 1, &a[0..512]), plain(2), flda(17, 2, &a[512..1024]),
                        flda(17, 3, &a[1024..]), flfi(17), plain(3), flst(18, "second_incomplete.bin", 1000, 2), flda(18, 1, &a[0..512]), plain(4),
                        flst(19, "third.bin", c.len() as u32, 1), flda(19, 1, &c), flfi(19)];
    for i in 5..40 {
        msgs.push(plain(i));
    }
    let mut w = std::io::BufWriter::new(std::fs::File::create(path).expect("create ft log"));
    for (i, m) in msgs.iter_mut().enumerate() {
        m.index = i as u32;
        m.ecu = char4("ECU1");
        m.reception_time_us = BASE_US + 1_000_000 + i as u64 * 2000;
        m.timestamp_dms = 10_000 + i as u32 * 20;
        m.standard_header.htyp |= 0x10; // with timestamp
        m.standard_header.mcnt = i as u8;
        m.to_write(&mut w).expect("write ft log");
    }
    w.flush().unwrap();
    vec![a, vec![], c]
}

/// > 512 Ki minimal messages (no extended header, no payload; 24 bytes each), one ECU, 1 ms apart
fn write_huge(path: &str, n: usize) {
    use std::io::Write;
    let mut w = std::io::BufWriter::with_capacity(1 << 20, std::fs::File::create(path).expect("create huge"));
    for i in 0..n {
        let m = adlt::dlt::DltMessage {
            index: i as u32,
            reception_time_us: BASE_US + 1_000_000 + i as u64 * 1000,
            ecu: char4("ECUH"),
            timestamp_dms: 10_000 + i as u32 * 10,
            standard_header: adlt::dlt::DltStandardHeader { htyp: 0x20 | 0x10, mcnt: (i & 0xff) as u8, len: 0 },
            extended_header: None,
            payload: vec![],
            payload_text: None,
            lifecycle: 0,
        };
        m.to_write(&mut w).expect("write huge");
    }
    w.flush().unwrap();
}

fn make_files(work: &str, seed: u64, n_small: usize, n_big: usize, n_huge: usize) -> Files {
    let dir = format!("{}/files", work);
    std::fs::create_dir_all(&dir).unwrap();
    let mut rng = Rng::new(seed ^ 0xf11e5);
    let ecus = ["ECUA", "ECUB"];
    let apids = ["APIA", "APIB", "APIC"];
    let ctids = ["CTIA", "CTIB"];
    let small = format!("{}/small.dlt", dir);
    write_log(&small, &gen_log(&mut rng, n_small, &ecus, &apids, &ctids));
    let big = format!("{}/big.dlt", dir);
    write_log(&big, &gen_log(&mut rng, n_big, &ecus, &apids, &ctids));
    let empty = format!("{}/empty.dlt", dir);
    std::fs::write(&empty, b"").unwrap();
    let fakezip = format!("{}/fake.zip", dir);
    std::fs::write(&fakezip, b"this file is named like an archive but is none\n").unwrap();
    let realzip = format!("{}/real.zip", dir);
    {
        use std::io::Write;
        let f = std::fs::File::create(&realzip).unwrap();
        let mut z = zip::ZipWriter::new(f);
        let opt = zip::write::SimpleFileOptions::default().compression_method(zip::CompressionMethod::Stored);
        z.start_file("logs/small.dlt", opt).unwrap();
        z.write_all(&std::fs::read(&small).unwrap()).unwrap();
        z.start_file("logs/sub/other.dlt", opt).unwrap();
        z.write_all(&std::fs::read(&small).unwrap()).unwrap();
        z.start_file("logs/sub/deeper/third.dlt", opt).unwrap();
        z.write_all(&std::fs::read(&small).unwrap()).unwrap();
        z.start_file("readme.txt", opt).unwrap();
        z.write_all(b"no dlt content here\n").unwrap();
        z.finish().unwrap();
    }
    let slowzip = format!("{}/slow.zip", dir);
    {
        use std::io::Write;
        let mut z = zip::ZipWriter::new(std::io::BufWriter::with_capacity(1 << 20, std::fs::File::create(&slowzip).unwrap()));
        let opt = zip::write::SimpleFileOptions::default().compression_method(zip::CompressionMethod::Stored);
        z.start_file("aaa/pad.bin", opt).unwrap();
        let block = vec![0x5au8; 1 << 20];
        for _ in 0..96 {
            z.write_all(&block).unwrap();
        }
        z.start_file("logs/small.dlt", opt).unwrap();
        z.write_all(&std::fs::read(&small).unwrap()).unwrap();
        z.finish().unwrap();
    }
    let nodltzip = format!("{}/nodlt.zip", dir);
    {
        use std::io::Write;
        let mut z = zip::ZipWriter::new(std::fs::File::create(&nodltzip).unwrap());
        let opt = zip::write::SimpleFileOptions::default().compression_method(zip::CompressionMethod::Stored);
        z.start_file("docs/readme.txt", opt).unwrap();
        z.write_all(b"an archive without any dlt file\n").unwrap();
        z.finish().unwrap();
    }
    let ft = format!("{}/filetransfer.dlt", dir);
    let ft_data = write_ft_log(&ft);
    let autosave_dir = format!("{}/saved", work);
    let _ = std::fs::remove_dir_all(&autosave_dir);
    std::fs::create_dir_all(&autosave_dir).unwrap();
    let huge = if n_huge > 0 {
        let p = format!("{}/huge.dlt", dir);
        write_huge(&p, n_huge);
        p
    } else {
        String::new()
    };
    // file-metadata shapes for `fs stat` / `fs readDirectory` (times the server has to convert, file types it has to name)
    let meta_dir = format!("{}/meta", dir);
    {
        use std::time::{Duration, SystemTime};
        let _ = std::fs::remove_dir_all(&meta_dir);
        std::fs::create_dir_all(format!("{}/sub", meta_dir)).unwrap();
        let set = |p: &str, t: SystemTime| {
            if let Ok(f) = std::fs::File::options().read(true).open(p) {
                let _ = f.set_modified(t);
            }
        };
        let old = format!("{}/old.dlt", meta_dir);
        std::fs::copy(&small, &old).unwrap();
        let fut = format!("{}/future.bin", meta_dir);
        std::fs::write(&fut, b"x").unwrap();
        let _ = std::os::unix::fs::symlink(&small, format!("{}/link_file", meta_dir));
        let _ = std::os::unix::fs::symlink(format!("{}/sub", meta_dir), format!("{}/link_dir", meta_dir));
        let _ = std::os::unix::fs::symlink(format!("{}/nowhere", meta_dir), format!("{}/link_dangling", meta_dir));
        let _ = std::process::Command::new("mkfifo").arg(format!("{}/fifo", meta_dir)).status();
        {
            use std::os::unix::ffi::OsStrExt;
            let mut p = std::path::PathBuf::from(&meta_dir);
            p.push(std::ffi::OsStr::from_bytes(b"non\xffutf8.dlt"));
            let _ = std::fs::write(&p, b"");
        }
        set(&old, SystemTime::UNIX_EPOCH - Duration::from_secs(86400));
        set(&fut, SystemTime::UNIX_EPOCH + Duration::from_secs(20_000_000_000));
        set(&meta_dir, SystemTime::UNIX_EPOCH - Duration::from_secs(3 * 365 * 86400));
    }
    Files { meta_dir, slowzip, small, big, huge, n_small: n_small as u64, n_big: n_big as u64, empty, fakezip, realzip, nodltzip, ft, ft_data, autosave_dir, missing: format!("{}/does_not_exist.dlt", dir), dir }
}

fn main() {
    let a = Args::from_env();
    let adlt = a.str("--adlt", "");
    let work = a.str("--work", "/verif/work/C15");
    let out_path = a.str("--out", "trace.ndjson");
    let seed = a.num("--seed", 1);
    let conns = a.num("--conns", 12) as usize;
    let n_random = a.num("--random", 0) as usize;
    let long_max = a.num("--long-max", 200) as usize;
    let throttle = a.str("--throttle", "64:6");
    let n_huge = a.num("--huge", 0) as usize;
    let files = make_files(&work, seed, a.num("--small", 300) as usize, a.num("--big", 6000) as usize, n_huge);

    let mut cases: Vec<CaseSpec> = Vec::new();
    if !a.has("--no-scripted") {
        cases.extend(scripted());
    }
    if let Some(f) = a.get("--scenarios") {
        for scn in read_ndjson(f) {
            let steps = parse_scn(&scn);
            let numeric = steps.iter().any(is_numeric_step);
            cases.push(CaseSpec { src: "tlc", mode: "awaited", big: false, huge: false, numeric, steps });
        }
    }
    if n_huge > 0 && !a.has("--no-scripted") {
        // close must complete although more messages are queued behind the parser than the bounded channels hold
        // (nobody consumes while the session is paused / in one-pass mode), and a new open must succeed afterwards
        let hs = |v: Vec<Step>| CaseSpec { src: "scripted", mode: "awaited", big: false, huge: true, numeric: false, steps: v };
        let wait_ms = a.str("--huge-wait-ms", "4000");
        cases.push(hs(vec![step("open", "ok_huge", ""), step("pause", "", ""), step("sleep", &wait_ms, ""), step("close", "", ""), step("open", "ok", ""), step("close", "", "")]));
        cases.push(hs(vec![step("open", "ok_huge", ""), step("close", "", ""), step("open", "ok", ""), step("close", "", "")]));
        cases.push(hs(vec![step("open", "ok_huge_onepass", ""), step("sleep", &wait_ms, ""), step("close", "", ""), step("open", "ok", ""), step("close", "", "")]));
        cases.push(hs(vec![step("open", "ok_huge", ""), step("pause", "", ""), step("sleep", &wait_ms, ""), step("stream", "ok", ""), step("close", "", ""), step("open", "ok_huge", ""), step("sleep", "300", ""), step("close", "", ""), step("fs", "stat_ok", "")]));
    }
    if a.has("--all-sizes") && !a.has("--no-scripted") {
        let mk = |v: Vec<Step>| CaseSpec { src: "scripted", mode: "awaited", big: false, huge: false, numeric: false, steps: v };
        cases.push(mk(vec![step("open", "ok", ""), step("stream", "pad:15m", ""), step("unknown", "big:15m", ""), step("stream", "pad:64m", ""), step("unknown", "big:64m", ""), step("stop", "", "h1"), step("stop", "", "h2"), step("close", "", "")]));
        cases.push(mk(vec![step("unknown", "big:64m", ""), step("unknown", "big:17m", ""), step("open", "ok", ""), step("query", "pad:17m", ""), step("close", "", "")]));
    }
    let mut rng = Rng::new(seed);
    for k in 0..n_random {
        let pipelined = k % 2 == 1;
        let len = rng.range(20, long_max as u64) as usize;
        cases.push(CaseSpec { src: "random", mode: if pipelined { "pipelined" } else { "awaited" }, big: rng.chance(1, 2), huge: false, numeric: false, steps: if k % 5 == 4 { random_onepass_history(&mut rng, std::cmp::min(len, 60)) } else if k % 7 == 6 { random_ft_history(&mut rng, std::cmp::min(len, 40)) } else { random_history(&mut rng, len, pipelined, k % 3 == 2) } });
    }
    for _ in 0..a.num("--random-numeric", 0) {
        let len = rng.range(4, 12) as usize;
        cases.push(CaseSpec { src: "random", mode: "awaited", big: false, huge: false, numeric: true, steps: random_numeric_history(&mut rng, len) });
    }
    let mut rng_offset = 0usize; // keeps the per-case random choices of a replayed case identical to the original run
    if let Some(only) = a.get("--only-case") {
        let k: usize = only.parse().unwrap();
        let c = cases.swap_remove(k);
        cases = vec![c];
        rng_offset = k;
    }

    let mut server = Server::start(&adlt, &work, "c15", if throttle == "none" { None } else { Some(&throttle) });
    let port = server.port;
    // sessions on the huge log run against a second server process without parser throttle
    let mut server2 = if cases.iter().any(|c| c.huge) { Some(Server::start(&adlt, &work, "c15-unthrottled", None)) } else { None };
    let port2 = server2.as_ref().map(|s| s.port).unwrap_or(port);
    // sessions with extreme numeric parameters run one at a time on a dedicated server process: if a command kills the
    // whole process only that session is affected; the process is restarted for the next one
    let thr: Option<String> = if throttle == "none" { None } else { Some(throttle.clone()) };
    const NUM_SERVERS: usize = 4; // each serves one session at a time
    let numsrvs: Arc<Vec<Mutex<Option<(Server, u32)>>>> = Arc::new((0..NUM_SERVERS).map(|_| Mutex::new(None)).collect());
    let num_panics: Arc<Mutex<Vec<(String, u64)>>> = Arc::new(Mutex::new(Vec::new()));
    let cases = Arc::new(cases);
    let next = Arc::new(AtomicUsize::new(0));
    let results: Arc<Mutex<Vec<(usize, Vec<Value>)>>> = Arc::new(Mutex::new(Vec::new()));
    let files = Arc::new(files);
    let mut threads = Vec::new();
    for w in 0..conns {
        let (cases, next, results, files) = (cases.clone(), next.clone(), results.clone(), files.clone());
        let (numsrvs, num_panics, adlt, work, thr) = (numsrvs.clone(), num_panics.clone(), adlt.clone(), work.clone(), thr.clone());
        threads.push(std::thread::spawn(move || loop {
            let k = next.fetch_add(1, Ordering::SeqCst);
            if k >= cases.len() {
                break;
            }
            let _ = w;
            if TIMEOUTS_SEEN.load(Ordering::SeqCst) > 40 {
                continue; // dozens of sessions timed out (= dozens of violations): the verdict stands, do not spend hours on the rest
            }
            let mut rng = Rng::new(seed ^ (((k + rng_offset) as u64) << 20)); // per case, independent of the worker
            let evs = if cases[k].numeric {
                let slot = k % NUM_SERVERS;
                let mut g = numsrvs[slot].lock().unwrap();
                let gen = g.as_ref().map(|x| x.1).unwrap_or(0);
                if g.as_mut().map(|x| x.0.exited().is_some()).unwrap_or(true) {
                    *g = Some((Server::start(&adlt, &work, &format!("c15-numeric-{}-{}", slot, gen + 1), thr.as_deref()), gen + 1));
                }
                let sv = &mut g.as_mut().unwrap().0;
                let mut evs = run_case(sv.port, k, &cases[k], &files, &mut rng);
                std::thread::sleep(Duration::from_millis(20));
                if let Some(st) = sv.exited() {
                    // the server PROCESS died during this session
                    let end = evs.pop();
                    evs.push(json!({"ev":"server_exit","status":st}));
                    evs.extend(end);
                }
                let pl = sv.panic_lines();
                if !pl.is_empty() {
                    let mut np = num_panics.lock().unwrap();
                    for p in pl {
                        if let Some(e) = np.iter_mut().find(|e| e.0 == p.0) { e.1 = std::cmp::max(e.1, p.1); } else { np.push(p); }
                    }
                }
                evs
            } else {
                run_case(if cases[k].huge { port2 } else { port }, k, &cases[k], &files, &mut rng)
            };
            results.lock().unwrap().push((k, evs));
        }));
    }
    for t in threads {
        t.join().unwrap();
    }
    let mut exited = server.exited();
    if let Some(s2) = server2.as_mut() {
        exited = exited.or(s2.exited());
    }
    let mut res = std::mem::take(&mut *results.lock().unwrap());
    res.sort_by_key(|e| e.0);
    let mut t = Trace::create(&out_path);
    let (mut cmds, mut closed, mut drift) = (0u64, 0u64, 0u64);
    for (_, evs) in &res {
        let mut exp_queue: std::collections::VecDeque<String> = Default::default();
        for e in evs {
            match e["ev"].as_str().unwrap() {
                "cmd" => {
                    cmds += 1;
                    exp_queue.push_back(e["exp"].as_str().unwrap().to_string());
                }
                "reply" => {
                    if let Some(x) = exp_queue.pop_front() {
                        let pol = e["pol"].as_str().unwrap();
                        if !(x.is_empty() || x == "any" || x == pol) {
                            drift += 1; // observation differs from TLC's prediction (statistics only)
                        }
                    }
                }
                "conn_closed" => closed += 1,
                _ => {}
            }
            t.ev(e.clone());
        }
    }
    // the server process must have survived everything
    let n = cases.len(); // (sessions may have been skipped after many time-outs: keep the case numbers unique)
    t.ev(json!({"ev":"reset","case":n,"hdr":{"src":"server","mode":"","n":0,"big":false}}));
    match &exited {
        Some(st) => t.ev(json!({"ev":"server_exit","status":st})),
        None => {
            // still serving: a fresh connection gets an answer
            let evs = run_case(port, n, &CaseSpec { src: "server", mode: "awaited", big: false, huge: false, numeric: false, steps: vec![step("fs", "stat_ok", "")] }, &files, &mut Rng::new(seed));
            for e in evs.into_iter().skip(1) {
                t.ev(e);
            }
        }
    }
    t.flush();
    let mut panics = server.panic_lines();
    server.stop();
    if let Some(s2) = server2.as_mut() {
        panics.extend(s2.panic_lines());
        s2.stop();
    }
    for m in numsrvs.iter() {
        if let Some((sv, _)) = m.lock().unwrap().as_mut() {
            sv.stop();
        }
    }
    panics.extend(num_panics.lock().unwrap().iter().cloned());
    println!("{}", json!({"cases": n + 1, "lines": t.lines, "cmds": cmds, "conn_closed": closed, "drift": drift,
        "server_exit": exited, "panics": panics.iter().map(|p| json!({"where": p.0, "count": p.1})).collect::<Vec<_>>(),
        "stderr": server.stderr_path}));
}
