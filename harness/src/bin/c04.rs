//! C04 driver. Two modes:
//!   --mode reader : the real LowMarkBufReader over a ScriptedReader (exact short-read schedules). Replays TLC scenarios of
//!                   spec/LowMarkBuf.tla (scaled by 4096/CL) and seeded random op sequences; records fill/consume/read/seek events.
//!   --mode chunk  : the real DltMessageIterator over LowMarkBufReader over a ScriptedReader for many read schedules and
//!                   capacities vs. the reference parse of the whole slice; plus suffix (prefix-independence) parses.
//! The driver records; TLC (LowMarkBufTrace.tla / ChunkTrace.tla) decides. The only comparisons done here are data equality
//! of observation vs. TLC's prediction (fast path routing) - never a verdict.
#[path = "c01/gen.rs"]
mod gen;
use adlt::dlt::DLT_MAX_STORAGE_MSG_SIZE;
use adlt::utils::{DltMessageIterator, LowMarkBufReader};
use gen::*;
use std::cell::{Cell, RefCell};
use std::collections::VecDeque;
use std::io::{BufRead, Read, Seek, SeekFrom};
use std::rc::Rc;
use vh::*;

const CACHE_LINE: usize = 4096;

use std::sync::atomic::{AtomicBool, AtomicU64, Ordering};
/// the next iterate() calls attach a (discarding) slog logger to the iterator: its `if let Some(log) = self.log` branches keep extra
/// state (log_skipped) - the recognised messages must not depend on it
static USE_LOG: AtomicBool = AtomicBool::new(false);
static LOG_RUNS: AtomicU64 = AtomicU64::new(0);
static PEEKS: AtomicU64 = AtomicU64::new(0);
static SEEK_END: AtomicU64 = AtomicU64::new(0);
static BULK: AtomicU64 = AtomicU64::new(0);

#[derive(Clone, Debug)]
enum Mode {
    Full,
    Chunk(usize),
    /// first read returns exactly n bytes, then full reads
    FirstThenFull(usize),
    Random,
}

struct Shared {
    data: Vec<u8>,
    pos: usize,
    script: VecDeque<usize>,
    mode: Mode,
    log: Vec<(usize, usize)>,
    drift: bool,
    first_done: bool,
    rng: Rng,
    short_reads: u64,
    one_byte_reads: u64,
}

struct ScriptedReader(Rc<RefCell<Shared>>);
impl std::fmt::Debug for ScriptedReader {
    fn fmt(&self, f: &mut std::fmt::Formatter<'_>) -> std::fmt::Result {
        write!(f, "ScriptedReader")
    }
}
impl Read for ScriptedReader {
    fn read(&mut self, buf: &mut [u8]) -> std::io::Result<usize> {
        let mut s = self.0.borrow_mut();
        let rem = s.data.len() - s.pos;
        let lim = buf.len().min(rem);
        let n = if buf.is_empty() {
            if let Some(k) = s.script.pop_front() {
                if k != 0 {
                    s.drift = true;
                }
            }
            0
        } else if let Some(k) = s.script.pop_front() {
            if k > lim || (k == 0 && rem > 0) {
                s.drift = true;
                lim
            } else {
                k
            }
        } else {
            match s.mode.clone() {
                Mode::Full => lim,
                Mode::Chunk(c) => c.min(lim),
                Mode::FirstThenFull(f) => {
                    if s.first_done {
                        lim
                    } else {
                        f.min(lim)
                    }
                }
                Mode::Random => {
                    if lim == 0 {
                        0
                    } else {
                        match s.rng.below(6) {
                            0 => 1,
                            1 => lim,
                            2 => s.rng.range(1, lim.min(17) as u64) as usize,
                            3 => s.rng.range(1, lim.min(CACHE_LINE + 1) as u64) as usize,
                            _ => s.rng.range(1, lim as u64) as usize,
                        }
                    }
                }
            }
        };
        s.first_done = true;
        let p = s.pos;
        buf[..n].copy_from_slice(&s.data[p..p + n]);
        s.pos += n;
        s.log.push((buf.len(), n));
        if n < lim {
            s.short_reads += 1;
        }
        if n == 1 && lim > 1 {
            s.one_byte_reads += 1;
        }
        Ok(n)
    }
}

fn shared(data: Vec<u8>, mode: Mode, seed: u64) -> Rc<RefCell<Shared>> {
    Rc::new(RefCell::new(Shared { data, pos: 0, script: VecDeque::new(), mode, log: vec![], drift: false, first_done: false, rng: Rng::new(seed),
        short_reads: 0, one_byte_reads: 0 }))
}

/// (pos, cap, abs_pos, empty_last_read) from the reader's Debug output
fn dbg_state<R: Read + std::fmt::Debug>(r: &LowMarkBufReader<R>) -> (usize, usize, usize, bool) {
    let s = format!("{:?}", r);
    let field = |name: &str| -> String {
        let pat = format!(" {}: ", name);
        let i = s.find(&pat).unwrap_or_else(|| panic!("Debug output without {}: {}", name, s)) + pat.len();
        s[i..].chars().take_while(|c| c.is_ascii_alphanumeric()).collect()
    };
    (field("pos").parse().unwrap(), field("cap").parse().unwrap(), field("abs_pos").parse().unwrap(), field("empty_last_read") == "true")
}

// ------------------------------------------------------------------------------------------------ reader mode
struct Exec {
    rd: LowMarkBufReader<ScriptedReader>,
    sh: Rc<RefCell<Shared>>,
    src: Vec<u8>,
    p: usize,
    avail: usize,
    evs: Vec<Value>,
    dead: bool,
    // path counters
    compact_nonzero: u64,
    fills_at_exact_lm: u64,
    seeks_inside: u64,
}

#[derive(Clone, Debug)]
enum Op {
    Fill,
    Consume(usize),
    Read(usize),
    SeekStart(usize),
    SeekCur(i64),
    /// SeekFrom::End (documented as unsupported by the reader)
    SeekEnd(i64),
    /// the accessors buffer() and capacity()
    Peek,
}

impl Exec {
    fn new(src: Vec<u8>, cap: usize, lm: usize, mode: Mode, seed: u64) -> Exec {
        let sh = shared(src.clone(), mode, seed);
        let rd = LowMarkBufReader::new(ScriptedReader(sh.clone()), cap, lm);
        Exec { rd, sh, src, p: 0, avail: 0, evs: vec![], dead: false, compact_nonzero: 0, fills_at_exact_lm: 0, seeks_inside: 0 }
    }
    fn src_hash(&self, at: usize, len: usize) -> u32 {
        let a = at.min(self.src.len());
        let b = (at + len).min(self.src.len());
        hash31(&self.src[a..b])
    }
    fn st_json(&self) -> Value {
        let (pos, cap, abs, eof) = dbg_state(&self.rd);
        json!({"pos": pos, "cap": cap, "abs_pos": abs, "eof": eof})
    }
    /// run one API call on the real reader; a panic of the reader becomes a `panic` event
    fn apply(&mut self, op: &Op, script: &[usize]) {
        if self.dead {
            return;
        }
        {
            let mut s = self.sh.borrow_mut();
            s.log.clear();
            s.script = script.iter().cloned().collect();
        }
        let before = dbg_state(&self.rd);
        let r = catch(std::panic::AssertUnwindSafe(|| self.apply_inner(op)));
        match r {
            Ok(mut e) => {
                let (pos, cap, abs, eof) = dbg_state(&self.rd);
                let s = self.sh.borrow();
                let ecopy = e.clone();
                let o = e.as_object_mut().unwrap();
                o.insert("pos".into(), json!(pos));
                o.insert("cap".into(), json!(cap));
                o.insert("abs_pos".into(), json!(abs));
                o.insert("eof".into(), json!(eof));
                o.insert("src_pos".into(), json!(s.pos));
                o.insert("nreads".into(), json!(s.log.len()));
                o.insert("reads".into(), json!(s.log.iter().take(12).map(|(a, b)| json!([a, b])).collect::<Vec<_>>()));
                // compaction happened iff the buffer position moved backwards inside fill_buf; offset != 0 iff it did not land on 0
                let k = if ecopy["ev"] == "read" { ecopy["k"].as_u64().unwrap_or(0) as usize } else { 0 };
                if (ecopy["ev"] == "fill" || ecopy["ev"] == "read") && pos >= k && pos - k < before.0 && pos - k != 0 {
                    self.compact_nonzero += 1;
                }
                drop(s);
                self.evs.push(e);
            }
            Err(msg) => {
                self.evs.push(json!({"ev":"panic","msg":msg,"op":format!("{:?}", op)}));
                self.dead = true;
            }
        }
    }
    fn apply_inner(&mut self, op: &Op) -> Value {
        match *op {
            Op::Fill => {
                let (len, h) = {
                    let s = self.rd.fill_buf().unwrap();
                    (s.len(), hash31(s))
                };
                self.avail = len;
                json!({"ev":"fill","at":self.p,"len":len,"hash":h,"src_hash":self.src_hash(self.p, len)})
            }
            Op::Consume(n) => {
                self.rd.consume(n);
                self.p += n;
                self.avail -= n;
                json!({"ev":"consume","n":n})
            }
            Op::Read(n) => {
                let mut b = vec![0u8; n];
                let k = self.rd.read(&mut b).unwrap();
                let e = json!({"ev":"read","n":n,"k":k,"at":self.p,"hash":hash31(&b[..k]),"src_hash":self.src_hash(self.p, k)});
                self.p += k;
                self.avail = 0;
                e
            }
            Op::SeekStart(n) => {
                let inside = n >= self.p && n <= self.p + self.avail;
                let r = self.rd.seek(SeekFrom::Start(n as u64));
                if inside {
                    self.seeks_inside += 1;
                }
                self.seek_event("start", n as i64, r)
            }
            Op::SeekCur(d) => {
                let r = self.rd.seek(SeekFrom::Current(d));
                self.seek_event("current", d, r)
            }
            Op::SeekEnd(d) => {
                SEEK_END.fetch_add(1, Ordering::Relaxed);
                let r = self.rd.seek(SeekFrom::End(d));
                self.seek_event("end", d, r)
            }
            Op::Peek => {
                PEEKS.fetch_add(1, Ordering::Relaxed);
                let (len, h) = {
                    let b = self.rd.buffer();
                    (b.len(), hash31(b))
                };
                json!({"ev":"peek","at":self.p,"len":len,"hash":h,"src_hash":self.src_hash(self.p, len),"capacity":self.rd.capacity()})
            }
        }
    }
    fn seek_event(&mut self, kind: &str, arg: i64, r: std::io::Result<u64>) -> Value {
        self.avail = 0;
        match r {
            Ok(x) => {
                self.p = x as usize;
                json!({"ev":"seek","kind":kind,"arg":arg,"ok":true,"result":x})
            }
            Err(_) => json!({"ev":"seek","kind":kind,"arg":arg,"ok":false,"result":-1}),
        }
    }
    /// after the scripted part: read the rest with full reads until fill_buf hands out an empty slice
    fn drain(&mut self) {
        let limit = self.src.len() + 16;
        for _ in 0..limit {
            if self.dead {
                return;
            }
            self.apply(&Op::Fill, &[]);
            if self.dead {
                return;
            }
            if self.avail == 0 {
                self.evs.push(json!({"ev":"end"}));
                return;
            }
            let n = self.avail;
            self.apply(&Op::Consume(n), &[]);
        }
    }
}

fn det_bytes(n: usize, seed: u64) -> Vec<u8> {
    Rng::new(seed ^ 0xC04).bytes(n)
}

struct ReaderStats {
    replayed: u64,
    fast: u64,
    slow: u64,
    drift: u64,
    compact_nonzero: u64,
    seeks_inside: u64,
    short_reads: u64,
    one_byte_reads: u64,
    fills_at_exact_lm: u64,
    panics: u64,
}

fn reader_mode(a: &Args, t: &mut Trace) -> Value {
    let mut st = ReaderStats { replayed: 0, fast: 0, slow: 0, drift: 0, compact_nonzero: 0, seeks_inside: 0, short_reads: 0, one_byte_reads: 0,
        fills_at_exact_lm: 0, panics: 0 };
    let seed = a.num("--seed", 1);
    let mut rng = Rng::new(seed);
    let mut case = a.num("--first-case", 0);
    let sample_every = a.num("--sample-every", 100).max(1);
    let max_slow = a.num("--max-slow", 4000);
    let mut slow_dropped = 0u64;
    let mut samples: Vec<Value> = vec![];
    if let Some(f) = a.get("--scenarios") {
        let rdr = std::io::BufReader::new(std::fs::File::open(f).expect("scenarios"));
        for line in rdr.lines() {
            let line = line.unwrap();
            if line.trim().is_empty() {
                continue;
            }
            let scn: Value = serde_json::from_str(&line).unwrap();
            let cl = scn["cl"].as_u64().unwrap() as usize;
            let scale = CACHE_LINE / cl;
            let lm = scn["lm"].as_u64().unwrap() as usize * scale;
            let cap = scn["capacity"].as_u64().unwrap() as usize * scale;
            let srclen = scn["src"].as_u64().unwrap() as usize * scale;
            let src = det_bytes(srclen, st.replayed % 7);
            let mut ex = Exec::new(src, cap, lm, Mode::Full, seed + st.replayed);
            let mut agree = true;
            let mut content_plain = true;
            for h in scn["hist"].as_array().unwrap() {
                let arg = h["arg"].as_i64().unwrap();
                let op = match h["op"].as_str().unwrap() {
                    "fill" => Op::Fill,
                    "consume" => Op::Consume(arg as usize * scale),
                    "read" => Op::Read(arg as usize * scale),
                    "seek_start" => Op::SeekStart(arg as usize * scale),
                    "seek_cur" => Op::SeekCur(arg * scale as i64),
                    x => panic!("unknown op {}", x),
                };
                if let Op::Consume(n) = op {
                    if n > ex.avail {
                        // the model's consume is within what the model has buffered; if the real reader buffered less (drift)
                        // the call would leave the BufRead domain: stop the scripted part here
                        agree = false;
                        break;
                    }
                }
                let script: Vec<usize> = h["reads"].as_array().unwrap().iter().map(|k| k.as_u64().unwrap() as usize * scale).collect();
                ex.apply(&op, &script);
                if ex.dead {
                    agree = false;
                    break;
                }
                // observation vs prediction (equality only)
                let e = ex.evs.last().unwrap();
                let p = &h["st"];
                let s = ex.sh.borrow();
                let got: Vec<usize> = s.log.iter().map(|x| x.1).collect();
                let same = e["pos"].as_u64() == p["pos"].as_u64().map(|x| x * scale as u64)
                    && e["cap"].as_u64() == p["cap"].as_u64().map(|x| x * scale as u64)
                    && e["abs_pos"].as_u64() == p["abs"].as_u64().map(|x| x * scale as u64)
                    && e["eof"].as_bool() == p["eof"].as_bool()
                    && !s.drift && s.script.is_empty() && got == script
                    && match op {
                        Op::Read(_) => e["k"].as_u64() == h["k"].as_u64().map(|x| x * scale as u64),
                        Op::SeekStart(_) | Op::SeekCur(_) => e["ok"].as_bool() == h["ok"].as_bool(),
                        Op::Fill => e["len"].as_u64() == Some(e["cap"].as_u64().unwrap() - e["pos"].as_u64().unwrap())
                            && e["at"].as_u64() == Some(e["abs_pos"].as_u64().unwrap() + e["pos"].as_u64().unwrap()),
                        _ => true,
                    };
                // content as the model's window invariant predicts it (source bytes of that position)
                if matches!(op, Op::Read(_) | Op::Fill) && e["hash"] != e["src_hash"] {
                    content_plain = false;
                }
                if e["ev"] == "fill" && e["len"].as_u64() == Some(lm as u64) {
                    ex.fills_at_exact_lm += 1;
                }
                drop(s);
                if !same {
                    agree = false;
                }
            }
            if !ex.dead {
                // accessors between calls: buffer() must show the source bytes of the predicted window, capacity() the constructor value
                ex.apply(&Op::Peek, &[]);
                if let Some(e) = ex.evs.last() {
                    if e["ev"] != "peek" || e["hash"] != e["src_hash"] || e["capacity"].as_u64() != Some(cap as u64)
                        || e["at"].as_u64() != Some(e["abs_pos"].as_u64().unwrap_or(0) + e["pos"].as_u64().unwrap_or(0))
                        || e["len"].as_u64() != Some(e["cap"].as_u64().unwrap_or(0) - e["pos"].as_u64().unwrap_or(0)) {
                        content_plain = false;
                    }
                }
            }
            let n_scripted = ex.evs.len();
            ex.drain();
            // routing only: anything unusual in the unscripted tail sends the case to TLC
            let tail_plain = !ex.dead && ex.p == ex.src.len() && ex.evs[n_scripted..].iter().all(|e| e["ev"] != "fill" || (e["hash"] == e["src_hash"]
                && (e["len"].as_u64().unwrap() >= lm as u64 || e["at"].as_u64().unwrap() + e["len"].as_u64().unwrap() == ex.src.len() as u64)));
            let contract_ok = scn["ok"].as_bool().unwrap_or(false);
            st.replayed += 1;
            if !agree {
                st.drift += 1;
            }
            let sampled = st.replayed % sample_every == 0;
            let mut slow = !agree || !contract_ok || !tail_plain || !content_plain || sampled;
            if slow && !sampled && st.slow >= max_slow {
                // a grossly deviating tree sends everything to TLC: validate the first max_slow deviating runs, count the rest
                slow = false;
                slow_dropped += 1;
            }
            if slow {
                st.slow += 1;
                t.ev(json!({"ev":"reset","case":case,"hdr":{"cl":CACHE_LINE,"lm":lm,"capacity":cap,"src_len":ex.src.len(),"origin":"tlc","agree":agree}}));
                for e in ex.evs.drain(..) {
                    t.ev(e);
                }
                if samples.len() < 2 {
                    samples.push(scn.clone());
                }
                case += 1;
            } else if !(agree && contract_ok && tail_plain && content_plain) {
                // counted in slow_dropped
            } else {
                st.fast += 1;
            }
            let s = ex.sh.borrow();
            st.short_reads += s.short_reads;
            st.one_byte_reads += s.one_byte_reads;
            st.compact_nonzero += ex.compact_nonzero;
            st.seeks_inside += ex.seeks_inside;
            st.fills_at_exact_lm += ex.fills_at_exact_lm;
            if ex.dead {
                st.panics += 1;
            }
        }
    }
    // seeded random op sequences on real sizes (all traced)
    let n_random = a.num("--random", 0);
    let max_ops = a.num("--max-ops", 80);
    for i in 0..n_random {
        let lm = match rng.below(5) {
            0 => DLT_MAX_STORAGE_MSG_SIZE,
            1 => rng.range(1, 64) as usize,
            2 => CACHE_LINE * rng.range(1, 4) as usize,
            _ => rng.range(1, 70_000) as usize,
        };
        let cap = lm + CACHE_LINE + match rng.below(4) { 0 => 0, 1 => 1, 2 => rng.range(0, CACHE_LINE as u64 * 2) as usize, _ => rng.range(0, 100_000) as usize };
        let srclen = match rng.below(6) { 0 => 0, 1 => rng.range(0, 20) as usize, 2 => lm, 3 => cap, _ => rng.range(0, 3 * cap as u64) as usize };
        let mode = match rng.below(5) { 0 => Mode::Full, 1 => Mode::Chunk(1 + rng.below(3) as usize), 2 => Mode::Chunk(lm.max(2) - 1 + rng.below(3) as usize), _ => Mode::Random };
        let mut ex = Exec::new(rng.bytes(srclen), cap, lm, mode.clone(), seed * 1000 + i);
        let nops = rng.range(3, max_ops);
        for _ in 0..nops {
            if ex.dead {
                break;
            }
            let (_, capn, abs, _) = dbg_state(&ex.rd);
            if rng.chance(1, 10) && ex.avail > 0 {
                // directed pattern: take everything that is buffered, read at least a whole capacity in one call, then seek back into
                // whatever the reader still accepts and look at the bytes (a bulk read must not leave a stale but seekable window behind)
                let n = ex.avail;
                ex.apply(&Op::Consume(n), &[]);
                let want = cap + rng.below(cap as u64 + 1) as usize;
                ex.apply(&Op::Read(want), &[]);
                if !ex.dead {
                    let (_, capn2, abs2, _) = dbg_state(&ex.rd);
                    let tgt = (abs2 + rng.below(capn2 as u64 + 1) as usize).min(srclen);
                    ex.apply(&Op::SeekStart(tgt), &[]);
                    ex.apply(&if rng.chance(1, 2) { Op::Fill } else { Op::Peek }, &[]);
                    BULK.fetch_add(1, Ordering::Relaxed);
                }
                continue;
            }
            let op = match rng.below(12) {
                10 => Op::Peek,
                11 => {
                    if rng.chance(1, 2) { Op::SeekEnd(0) } else { Op::SeekEnd(-(rng.below(srclen as u64 + 1) as i64)) }
                }
                0..=3 => Op::Fill,
                4..=6 => {
                    if ex.avail == 0 {
                        Op::Fill
                    } else {
                        Op::Consume(match rng.below(5) { 0 => 1, 1 => ex.avail, 2 => ex.avail.min(lm), 3 => ex.avail.min(CACHE_LINE), _ => rng.range(0, ex.avail as u64) as usize })
                    }
                }
                7 => Op::Read(match rng.below(4) { 0 => 0, 1 => 1, 2 => rng.range(0, 2 * cap as u64) as usize, _ => rng.range(0, 300) as usize }),
                8 => {
                    // seek within (or one off) the buffered range / the handed-out window, always inside [0, src_len]
                    let cands = [abs as i64 - 1, abs as i64, ex.p as i64, (ex.p + ex.avail / 2) as i64, (ex.p + ex.avail) as i64, (abs + capn) as i64, (abs + capn) as i64 + 1];
                    let c = *rng.pick(&cands);
                    Op::SeekStart(c.clamp(0, srclen as i64) as usize)
                }
                _ => {
                    let cands = [-1i64, 1, ex.avail as i64, -(ex.p as i64 - abs as i64), (ex.avail / 2) as i64];
                    let d = *rng.pick(&cands);
                    let tgt = (ex.p as i64 + d).clamp(0, srclen as i64);
                    Op::SeekCur(tgt - ex.p as i64)
                }
            };
            ex.apply(&op, &[]);
            if let Some(e) = ex.evs.last() {
                if e["ev"] == "fill" && e["len"].as_u64() == Some(lm as u64) {
                    ex.fills_at_exact_lm += 1;
                }
            }
        }
        ex.sh.borrow_mut().mode = Mode::Full;
        ex.drain();
        t.ev(json!({"ev":"reset","case":case,"hdr":{"cl":CACHE_LINE,"lm":lm,"capacity":cap,"src_len":srclen,"origin":"random","mode":format!("{:?}", mode),"agree":true}}));
        for e in ex.evs.drain(..) {
            t.ev(e);
        }
        case += 1;
        let s = ex.sh.borrow();
        st.short_reads += s.short_reads;
        st.one_byte_reads += s.one_byte_reads;
        st.compact_nonzero += ex.compact_nonzero;
        st.seeks_inside += ex.seeks_inside;
        st.fills_at_exact_lm += ex.fills_at_exact_lm;
        if ex.dead {
            st.panics += 1;
        }
    }
    json!({"cases": case, "lines": t.lines, "replayed": st.replayed, "fast_path": st.fast, "slow_path": st.slow, "slow_dropped": slow_dropped, "drift": st.drift, "random": n_random,
        "compaction_offset_nonzero": st.compact_nonzero, "seeks_inside_window": st.seeks_inside, "short_reads": st.short_reads,
        "one_byte_reads": st.one_byte_reads, "fills_at_exactly_lm": st.fills_at_exact_lm, "panics": st.panics, "samples": samples})
}

// ------------------------------------------------------------------------------------------------ chunk mode
/// BufRead wrapper that remembers the length of the last window handed to the parser
struct Spy<R> {
    inner: R,
    win: Rc<Cell<usize>>,
}
impl<R: Read> Read for Spy<R> {
    fn read(&mut self, buf: &mut [u8]) -> std::io::Result<usize> {
        self.inner.read(buf)
    }
}
impl<R: BufRead> BufRead for Spy<R> {
    fn fill_buf(&mut self) -> std::io::Result<&[u8]> {
        let s = self.inner.fill_buf()?;
        self.win.set(s.len());
        Ok(s)
    }
    fn consume(&mut self, amt: usize) {
        self.inner.consume(amt)
    }
}

/// run the real iterator to exhaustion; one `msg` event per yielded message, then `end`
fn iterate<R: BufRead>(rd: R, start: u32, win: Option<Rc<Cell<usize>>>, limit: usize) -> Vec<Value> {
    let mut evs = vec![];
    let logger = slog::Logger::root(slog::Discard, slog::o!());
    let use_log = USE_LOG.load(Ordering::Relaxed);
    if use_log {
        LOG_RUNS.fetch_add(1, Ordering::Relaxed);
    }
    let r = catch(std::panic::AssertUnwindSafe(|| {
        let mut it = DltMessageIterator::new(start, rd);
        if use_log {
            it.log = Some(&logger);
        }
        let mut out = vec![];
        loop {
            let before = it.bytes_processed;
            let skipped_before = it.bytes_skipped;
            match it.next() {
                Some(m) => {
                    let off = before + (it.bytes_skipped - skipped_before);
                    let len = it.bytes_processed - off;
                    out.push(json!({"ev":"msg","index":m.index,"off":off,"len":len,"hash":msg_hash(&m),"win":win.as_ref().map(|w| w.get()).unwrap_or(0)}));
                    if out.len() > limit {
                        break;
                    }
                }
                None => {
                    out.push(json!({"ev":"end","processed":it.bytes_processed,"skipped":it.bytes_skipped,"index":it.index}));
                    break;
                }
            }
        }
        out
    }));
    match r {
        Ok(o) => evs.extend(o),
        Err(msg) => evs.push(json!({"ev":"panic","msg":msg})),
    }
    evs
}

fn small_payload(rng: &mut Rng) -> Vec<u8> {
    let n = match rng.below(5) { 0 => 0, 1 => 1, 2 => rng.range(2, 20) as usize, _ => rng.range(0, 300) as usize };
    rng.bytes(n)
}

/// payload of n bytes with frame markers embedded (own: the framing's own marker, other: the other one)
fn embed_payload(rng: &mut Rng, n: usize, serial: bool, own: bool, other: bool) -> Vec<u8> {
    let mut p = rng.bytes(n);
    let (o, x) = if serial { (SER, STO) } else { (STO, SER) };
    let mut put = |p: &mut Vec<u8>, m: [u8; 4], rng: &mut Rng| {
        if p.len() >= 4 {
            let at = match rng.below(4) { 0 => 0, 1 => p.len() - 4, _ => rng.below(p.len() as u64 - 3) as usize };
            p[at..at + 4].copy_from_slice(&m);
            // sometimes let a plausible small message follow the embedded marker
            if rng.chance(1, 2) {
                let (fl, pl) = (rng.below(32) as u8, small_payload(rng));
                let mut sm = rand_msg(rng, m == SER, fl, pl).bytes();
                sm.truncate(p.len() - at);
                p[at..at + sm.len()].copy_from_slice(&sm);
            }
        }
    };
    if own {
        for _ in 0..rng.range(1, 3) {
            put(&mut p, o, rng);
        }
    }
    if other {
        put(&mut p, x, rng);
    }
    p
}

fn gen_stream(rng: &mut Rng, class: u64) -> Stream {
    let serial = rng.chance(1, 3);
    let mut st = Stream { serial, segs: vec![] };
    let garbage_p = *rng.pick(&[0u64, 1, 3]); // x/6 chance of a garbage run at each gap
    let embed_other = class == 3 && rng.chance(1, 3);
    let nmsgs = match class { 0 => rng.range(1, 40), 1 => rng.range(1, 5), _ => rng.range(1, 8) };
    let gap = |st: &mut Stream, rng: &mut Rng| {
        if rng.below(6) < garbage_p {
            let n = match rng.below(4) { 0 => rng.range(1, 7), 1 => rng.range(8, 19), 2 => 100, _ => rng.range(20, 400) } as usize;
            st.segs.push(Seg::G(rand_garbage(rng, n)));
        }
    };
    for _ in 0..nmsgs {
        gap(&mut st, rng);
        let flags = rng.below(32) as u8;
        let maxp = max_payload(flags);
        let big = class == 1 && rng.chance(1, 2) || class >= 2 && rng.chance(1, 3);
        let psize = if big { match rng.below(4) { 0 => maxp, 1 => maxp - rng.range(1, 8) as usize, _ => rng.range(20_000, maxp as u64) as usize } } else { small_payload(rng).len() };
        let mut m;
        if class >= 2 && (big || rng.chance(1, 2)) && psize >= 4 {
            let pl = embed_payload(rng, psize, serial, true, embed_other);
            m = rand_msg(rng, serial, flags, pl);
            m.embed = if embed_other { 3 } else { 1 };
        } else {
            let pl = rng.bytes(psize);
            m = rand_msg(rng, serial, flags, pl);
        }
        st.segs.push(Seg::M(m));
    }
    gap(&mut st, rng);
    sanitize(&mut st, rng);
    st
}

/// the stream of DESIGN.md Appendix C #2: maximal message with an embedded marker, 100 non-marker bytes, two small messages
fn finding_stream(rng: &mut Rng, shrink: usize) -> Stream {
    let flags = F_WEID | F_WTMS | F_UEH;
    let mut p = rng.bytes(max_payload(flags) - shrink);
    p[48_000..48_004].copy_from_slice(&STO);
    let mut big = rand_msg(rng, false, flags, p);
    big.embed = 1;
    let mut st = Stream { serial: false, segs: vec![Seg::M(big), Seg::G(vec![0x55; 100])] };
    for _ in 0..2 {
        let pl = rng.bytes(12);
        st.segs.push(Seg::M(rand_msg(rng, false, F_WEID | F_WTMS | F_UEH, pl)));
    }
    sanitize(&mut st, rng);
    st
}

/// a marker-free garbage run about as long as the low mark between messages: with short reads the buffered window can end
/// 1..3 bytes into the marker of the message that follows the run (a resynchronisation must not lose that marker)
fn long_garbage_stream(rng: &mut Rng, g: usize) -> Stream {
    let fl = F_WEID | F_WTMS | F_UEH;
    let mut st = Stream { serial: false, segs: vec![] };
    let pl = rng.bytes(10);
    st.segs.push(Seg::M(rand_msg(rng, false, fl, pl)));
    st.segs.push(Seg::G(rand_garbage(rng, g)));
    for _ in 0..3 {
        let pl = small_payload(rng);
        st.segs.push(Seg::M(rand_msg(rng, false, fl, pl)));
    }
    sanitize(&mut st, rng);
    st
}

/// a message cut off after `present` bytes (its length field announces more) directly followed by a valid message of (nearly)
/// maximal size and small ones: whether the cut-off message is recognised as corrupt must not depend on how much of the
/// following message is buffered
fn truncated_then_big_stream(rng: &mut Rng, shrink: usize) -> Stream {
    let fl = F_WEID | F_WTMS | F_UEH;
    let mut st = Stream { serial: false, segs: vec![] };
    let pl = rng.bytes(10);
    st.segs.push(Seg::M(rand_msg(rng, false, fl, pl)));
    let announced = rng.range(300, 900) as usize;
    let full = rand_msg(rng, false, fl, vec![0x41; announced]).bytes();
    let present = rng.range(40, 120) as usize;
    st.segs.push(Seg::G(full[..present].to_vec()));     // not sanitized on purpose: it starts with a frame marker
    let big_pl = rng.bytes(max_payload(fl) - shrink);
    let mut big = rand_msg(rng, false, fl, big_pl);
    // keep the big payload free of markers so that the only embedded marker of the cut-off message is the big message's own
    for w in 0..big.payload.len().saturating_sub(3) {
        if big.payload[w..w + 3] == STO[..3] || big.payload[w..w + 3] == SER[..3] {
            big.payload[w] = 0x2e;
        }
    }
    st.segs.push(Seg::M(big));
    for _ in 0..3 {
        let pl = small_payload(rng);
        let mut m = rand_msg(rng, false, fl, pl);
        for w in 0..m.payload.len().saturating_sub(3) {
            if m.payload[w..w + 3] == STO[..3] || m.payload[w..w + 3] == SER[..3] {
                m.payload[w] = 0x2e;
            }
        }
        st.segs.push(Seg::M(m));
    }
    st
}

fn chunk_mode(a: &Args, t: &mut Trace) -> Value {
    let seed = a.num("--seed", 1);
    let mut rng = Rng::new(seed ^ 0x5eed_c04);
    let lm = DLT_MAX_STORAGE_MSG_SIZE + a.num("--lm-extra", 0) as usize;
    let n_streams = a.num("--streams", 20);
    let n_sched_rand = a.num("--rand-scheds", 2);
    let tlc_scheds: Vec<Vec<usize>> = match a.get("--scenarios") {
        Some(f) => read_ndjson(f).iter().map(|scn| {
            let scale = CACHE_LINE / scn["cl"].as_u64().unwrap() as usize;
            scn["hist"].as_array().unwrap().iter().flat_map(|h| h["reads"].as_array().unwrap().iter().map(|k| k.as_u64().unwrap() as usize * scale).collect::<Vec<_>>())
                .filter(|k| *k > 0).collect::<Vec<usize>>()
        }).filter(|v: &Vec<usize>| !v.is_empty()).collect(),
        None => vec![],
    };
    let mut case = a.num("--first-case", 0);
    let (mut runs, mut suffix_runs, mut short_reads, mut one_byte, mut with_max, mut with_embed, mut msgs_total, mut skipped_suffix) = (0u64, 0u64, 0u64, 0u64, 0u64, 0u64, 0u64, 0u64);
    let mut window_exact = 0u64;
    for si in 0..n_streams {
        let st = match si {
            0 => finding_stream(&mut rng, 0),
            1 => finding_stream(&mut rng, 2),
            2 => finding_stream(&mut rng, 4),
            3 => long_garbage_stream(&mut rng, lm - 1),
            4 => long_garbage_stream(&mut rng, lm - 2),
            5 => long_garbage_stream(&mut rng, lm - 3),
            6 => { let g = lm + 4096 + rng.below(3) as usize; long_garbage_stream(&mut rng, g) }
            7 => truncated_then_big_stream(&mut rng, 0),
            8 => truncated_then_big_stream(&mut rng, 3),
            _ => gen_stream(&mut rng, match si % 4 { 0 => 0, 1 => 1, 2 => 2, _ => 3 }),
        };
        let lay = st.layout();
        let total = lay.bytes.len();
        let start = if rng.chance(1, 2) { 0 } else { rng.below(1_000_000) as u32 };
        // reference: the whole byte string visible at once
        USE_LOG.store(false, Ordering::Relaxed);
        let refevs = iterate(&lay.bytes[..], start, None, 100_000);
        let refmsgs: Vec<Value> = refevs.iter().filter(|e| e["ev"] == "msg").map(|e| json!({"index":e["index"],"off":e["off"],"len":e["len"],"hash":e["hash"]})).collect();
        let ref_ok = refevs.last().map(|e| e["ev"] == "end").unwrap_or(false);
        let embmax: Vec<Value> = lay.msgs.iter().filter(|(_, _, seg)| st.msg(*seg).embed & 1 == 1 && !st.serial).map(|(o, l, _)| json!([o, l])).collect();
        let has_other = lay.msgs.iter().any(|(_, _, seg)| st.msg(*seg).embed & 2 == 2);
        if lay.msgs.iter().any(|(_, l, _)| *l + 8 > DLT_MAX_STORAGE_MSG_SIZE) {
            with_max += 1;
        }
        if lay.msgs.iter().any(|(_, _, seg)| st.msg(*seg).embed != 0) {
            with_embed += 1;
        }
        msgs_total += refmsgs.len() as u64;
        t.ev(json!({"ev":"reset","case":case,"hdr":{"framing": if st.serial {"serial"} else {"storage"},"total":total,"start":start,"ref":refmsgs,"ref_ok":ref_ok,
            "embmax":embmax,"stream_hash":hash31(&lay.bytes),"gen_msgs":lay.msgs.len()}}));
        if !ref_ok {
            // the reference parse itself panicked: record it, nothing to compare
            for e in refevs.iter().filter(|e| e["ev"] == "panic") {
                t.ev(e.clone());
            }
            case += 1;
            continue;
        }
        // schedules x capacities
        let mut scheds: Vec<(String, Mode, Vec<usize>)> = vec![
            ("full".into(), Mode::Full, vec![]),
            ("one".into(), Mode::Chunk(1), vec![]),
            ("lm".into(), Mode::Chunk(lm), vec![]),
            ("lm-1".into(), Mode::Chunk(lm - 1), vec![]),
            ("lm+1".into(), Mode::Chunk(lm + 1), vec![]),
            ("maxmsg".into(), Mode::Chunk(DLT_MAX_STORAGE_MSG_SIZE), vec![]),
            ("first-maxmsg".into(), Mode::FirstThenFull(DLT_MAX_STORAGE_MSG_SIZE), vec![]),
            ("1000".into(), Mode::Chunk(1000), vec![]),
            ("4096".into(), Mode::Chunk(4096), vec![]),
        ];
        if (3..=6).contains(&si) {
            // first read ends k bytes into the marker of the message after the long garbage run (then everything is available)
            let after = lay.msgs[1].0;
            for k in 1..=3usize {
                scheds.push((format!("straddle{}", k), Mode::FirstThenFull(after + k), vec![]));
            }
            scheds.push(("straddle-lm".into(), Mode::FirstThenFull(lay.msgs[0].1 + lm), vec![]));
        }
        for j in 0..n_sched_rand {
            scheds.push((format!("random{}", j), Mode::Random, vec![]));
        }
        if !tlc_scheds.is_empty() {
            for _ in 0..2 {
                let s = rng.pick(&tlc_scheds).clone();
                scheds.push(("tlc".into(), if rng.chance(1, 2) { Mode::Chunk(1) } else { Mode::Random }, s));
            }
        }
        let caps = [lm + CACHE_LINE, lm + CACHE_LINE + 1 + rng.below(5000) as usize, 128 * 1024 + rng.below(3) as usize * 4096, 512 * 1024];
        for (ci, (name, mode, script)) in scheds.iter().enumerate() {
            // every schedule with the tightest capacity and one other
            for cap in [caps[0], caps[1 + (ci + si as usize) % 3]] {
                let sh = shared(lay.bytes.clone(), mode.clone(), seed * 7919 + runs);
                sh.borrow_mut().script = script.iter().cloned().collect();
                let win = Rc::new(Cell::new(0));
                let rd = Spy { inner: LowMarkBufReader::new(ScriptedReader(sh.clone()), cap, lm), win: win.clone() };
                USE_LOG.store((runs + ci as u64) % 2 == 1, Ordering::Relaxed);
                t.ev(json!({"ev":"run","kind":"chunk","sched":name,"cap":cap,"lm":lm,"drop":0,"log":USE_LOG.load(Ordering::Relaxed)}));
                for e in iterate(rd, start, Some(win), refmsgs.len() + 5) {
                    if e["ev"] == "msg" && e["win"] == e["len"] {
                        window_exact += 1;
                    }
                    t.ev(e);
                }
                runs += 1;
                short_reads += sh.borrow().short_reads;
                one_byte += sh.borrow().one_byte_reads;
            }
        }
        // prefix independence: drop the first k recognised messages (and everything before them), parse the rest
        if !has_other {
            let n = refmsgs.len();
            let mut ks: Vec<usize> = vec![1, 2, n / 2, n.saturating_sub(1), n];
            ks.retain(|k| *k >= 1 && *k <= n);
            ks.dedup();
            for k in ks {
                let cut = refmsgs[k - 1]["off"].as_u64().unwrap() as usize + refmsgs[k - 1]["len"].as_u64().unwrap() as usize;
                // C01's known finding (storage probe starves the serial probe within the last 19 bytes) is not C04's subject
                if st.serial && k < n && total - (refmsgs[k]["off"].as_u64().unwrap() as usize) < 20 {
                    skipped_suffix += 1;
                    continue;
                }
                USE_LOG.store(k % 2 == 0, Ordering::Relaxed);
                t.ev(json!({"ev":"run","kind":"suffix","sched":"slice","cap":0,"lm":0,"drop":k}));
                for e in iterate(&lay.bytes[cut..], start + k as u32, None, n + 5) {
                    t.ev(e);
                }
                suffix_runs += 1;
            }
        }
        case += 1;
    }
    json!({"cases": case, "lines": t.lines, "streams": n_streams, "chunk_runs": runs, "suffix_runs": suffix_runs, "short_reads": short_reads, "one_byte_reads": one_byte,
        "streams_with_max_msg": with_max, "streams_with_embedded_marker": with_embed, "ref_msgs": msgs_total, "lm": lm, "tlc_schedules": tlc_scheds.len(),
        "suffix_cuts_skipped_c01_domain": skipped_suffix, "msgs_parsed_with_window_exactly_msg": window_exact})
}


// ------------------------------------------------------------------------------------------------ tails mode
/// (offset, length, serial?) of every message the real iterator yields for these bytes; None if it panicked
fn parse_simple<R: BufRead>(rd: R) -> Option<Vec<(usize, usize, bool)>> {
    catch(std::panic::AssertUnwindSafe(|| {
        let mut it = DltMessageIterator::new(0, rd);
        let mut out = vec![];
        loop {
            let before = it.bytes_processed;
            let skipped_before = it.bytes_skipped;
            match it.next() {
                Some(_) => {
                    let off = before + (it.bytes_skipped - skipped_before);
                    out.push((off, it.bytes_processed - off, it.detected_serial_header));
                    if out.len() > 1000 {
                        break;
                    }
                }
                None => break,
            }
        }
        out
    })).ok()
}

fn no_d(rng: &mut Rng, n: usize) -> Vec<u8> {
    (0..n).map(|_| { let b = rng.next_u64() as u8; if b == b'D' { b'd' } else { b } }).collect()
}

/// 4-byte token of spec/FramingTail.tla -> bytes
fn token_bytes(rng: &mut Rng, t: u64) -> [u8; 4] {
    let mc = no_d(rng, 1)[0];
    match t {
        9 => STO,
        8 => SER,
        7 => [0x20, mc, 0, 0],
        n => [0x20, mc, 0, 4 + 4 * n as u8],
    }
}

/// one ChunkTrace case for `prefix ++ tail`: chunk runs, latched suffix runs (cut in front of the tail's last preceding message)
/// and - if the fresh-iterator comparison is claimed for this tail - the run over the tail alone
#[allow(clippy::too_many_arguments)]
fn tail_case(t: &mut Trace, case: u64, rng: &mut Rng, serial: bool, bytes: &[u8], tail_start: usize, claimed: bool, lm: usize, origin: &str, desc: &Value,
    counters: &mut (u64, u64, u64)) {
    let start = if rng.chance(1, 2) { 0 } else { rng.below(1_000_000) as u32 };
    USE_LOG.store(false, Ordering::Relaxed);
    let refevs = iterate(bytes, start, None, 10_000);
    let refmsgs: Vec<Value> = refevs.iter().filter(|e| e["ev"] == "msg").map(|e| json!({"index":e["index"],"off":e["off"],"len":e["len"],"hash":e["hash"]})).collect();
    let ref_ok = refevs.last().map(|e| e["ev"] == "end").unwrap_or(false);
    t.ev(json!({"ev":"reset","case":case,"hdr":{"framing": if serial {"serial"} else {"storage"},"total":bytes.len(),"start":start,"ref":refmsgs,"ref_ok":ref_ok,
        "embmax":[],"stream_hash":hash31(bytes),"gen_msgs":0,"origin":origin,"tail_start":tail_start,"claimed":claimed,"tail":desc}}));
    if !ref_ok {
        for e in refevs.iter().filter(|e| e["ev"] == "panic") {
            t.ev(e.clone());
        }
        return;
    }
    let scheds: [(&str, Mode); 3] = [("one", Mode::Chunk(1)), ("random", Mode::Random), ("full", Mode::Full)];
    for (i, (name, mode)) in scheds.iter().enumerate() {
        if i == 2 && case % 3 != 0 {
            continue;
        }
        let cap = if i == 0 { lm + CACHE_LINE } else { 128 * 1024 };
        let sh = shared(bytes.to_vec(), mode.clone(), case * 31 + i as u64);
        let win = Rc::new(Cell::new(0));
        let rd = Spy { inner: LowMarkBufReader::new(ScriptedReader(sh.clone()), cap, lm), win: win.clone() };
        USE_LOG.store((case + i as u64) % 2 == 1, Ordering::Relaxed);
        t.ev(json!({"ev":"run","kind":"chunk","sched":name,"cap":cap,"lm":lm,"drop":0}));
        for e in iterate(rd, start, Some(win), refmsgs.len() + 5) {
            t.ev(e);
        }
        counters.0 += 1;
    }
    for k in 1..=refmsgs.len() {
        let cut = refmsgs[k - 1]["off"].as_u64().unwrap() as usize + refmsgs[k - 1]["len"].as_u64().unwrap() as usize;
        if cut > tail_start || (cut == tail_start && !claimed) {
            continue;
        }
        USE_LOG.store((case + k as u64) % 2 == 0, Ordering::Relaxed);
        t.ev(json!({"ev":"run","kind":"suffix","sched": if cut == tail_start {"slice-tail-alone"} else {"slice"},"cap":0,"lm":0,"drop":k}));
        for e in iterate(&bytes[cut..], start + k as u32, None, refmsgs.len() + 5) {
            t.ev(e);
        }
        if cut == tail_start { counters.2 += 1 } else { counters.1 += 1 }
    }
}

/// truncated-tail / embedded-message classes at byte granularity. Returns (tail bytes, claimed)
fn byte_tail(rng: &mut Rng, serial: bool, tlen: usize, class: u64) -> Option<(Vec<u8>, bool)> {
    let mut b = no_d(rng, tlen);
    let mut fixed = vec![false; tlen];
    let trunc = class < 3;
    let embed = class % 3; // 0 none, 1 other framing, 2 same framing
    let emb_serial = if embed == 1 { !serial } else { serial };
    // embedded complete message (htyp 0x20, no optional fields)
    if embed != 0 {
        let hdr = if emb_serial { 8 } else { 20 };
        let first = if trunc { 4 } else { 0 };
        if tlen < first + hdr {
            return None;
        }
        let mut placed = false;
        for _try in 0..40 {
            let e = first + rng.below((tlen - hdr - first) as u64 + 1) as usize;
            let maxp = tlen - e - hdr;
            let p = match rng.below(3) { 0 => maxp, 1 => 0, _ => rng.below(maxp as u64 + 1) as usize };
            // the outer truncated storage message needs its own standard header at 16..20: those bytes must stay free
            let hdr_pos: Vec<usize> = if emb_serial { (e..e + 8).collect() } else { (e..e + 4).chain(e + 16..e + 20).collect() };
            if trunc && !serial && tlen >= 20 && hdr_pos.iter().any(|x| (16..20).contains(x)) {
                continue;
            }
            if trunc && serial && hdr_pos.iter().any(|x| (4..8).contains(x)) {
                continue;
            }
            let mc = no_d(rng, 1)[0];
            if emb_serial {
                b[e..e + 4].copy_from_slice(&SER);
                b[e + 4..e + 8].copy_from_slice(&[0x20, mc, 0, (4 + p) as u8]);
            } else {
                b[e..e + 4].copy_from_slice(&STO);
                b[e + 16..e + 20].copy_from_slice(&[0x20, mc, 0, (4 + p) as u8]);
            }
            for x in hdr_pos {
                fixed[x] = true;
            }
            placed = true;
            break;
        }
        if !placed {
            return None;
        }
    }
    if trunc {
        if serial {
            if tlen < 4 {
                return None;
            }
            b[0..4].copy_from_slice(&SER);
            if tlen >= 8 {
                let l = tlen - 4 + 1 + rng.below(100) as usize;
                b[4..8].copy_from_slice(&[0x20, no_d(rng, 1)[0], 0, l as u8]);
            }
        } else {
            if tlen < 4 {
                return None;
            }
            b[0..4].copy_from_slice(&STO);
            if tlen >= 20 {
                let l = tlen - 16 + 1 + rng.below(100) as usize;
                b[16..20].copy_from_slice(&[0x20, no_d(rng, 1)[0], 0, l as u8]);
            }
        }
    }
    let other = if serial { STO } else { SER };
    let has_other = b.windows(4).any(|w| w == other);
    let stops = !serial && trunc && tlen >= 20;
    Some((b, !has_other || stops))
}

fn tails_mode(a: &Args, t: &mut Trace) -> Value {
    let seed = a.num("--seed", 1);
    let mut rng = Rng::new(seed ^ 0x7a11_c04);
    let lm = DLT_MAX_STORAGE_MSG_SIZE + a.num("--lm-extra", 0) as usize;
    let sample_every = a.num("--sample-every", 60).max(1);
    let mut case = a.num("--first-case", 0);
    let (mut replayed, mut fast, mut slow, mut drift, mut claimed_n, mut unclaimed_differ) = (0u64, 0u64, 0u64, 0u64, 0u64, 0u64);
    let max_slow = a.num("--max-slow", 1500);
    let mut slow_dropped = 0u64;
    let mut counters = (0u64, 0u64, 0u64); // chunk runs, latched suffix runs, tail-alone runs
    if let Some(f) = a.get("--scenarios") {
        let rdr = std::io::BufReader::new(std::fs::File::open(f).expect("scenarios"));
        for line in rdr.lines() {
            let line = line.unwrap();
            if line.trim().is_empty() {
                continue;
            }
            let scn: Value = serde_json::from_str(&line).unwrap();
            let serial = scn["framing"] == "serial";
            let claimed = scn["claimed"].as_bool().unwrap();
            let toks: Vec<u64> = scn["tail"].as_array().unwrap().iter().map(|x| x.as_u64().unwrap()).collect();
            let tail: Vec<u8> = toks.iter().flat_map(|x| token_bytes(&mut rng, *x)).collect();
            let minmsg: Vec<u8> = if serial { [8u64, 0].iter().flat_map(|x| token_bytes(&mut rng, *x)).collect() } else { [9u64, 0, 0, 0, 0].iter().flat_map(|x| token_bytes(&mut rng, *x)).collect() };
            let pred = |key: &str| -> Vec<(usize, usize, bool)> {
                scn[key].as_array().unwrap().iter().map(|m| (m["off"].as_u64().unwrap() as usize * 4, m["len"].as_u64().unwrap() as usize * 4, m["fr"] == "serial")).collect()
            };
            let (p_alone, p_behind) = (pred("alone"), pred("behind"));
            // observation vs prediction (equality only): tail alone, and behind 1, 2, 5 complete messages
            let mut agree = parse_simple(&tail[..]) == Some(p_alone.clone());
            for k in [1usize, 2, 5] {
                let mut b = Vec::new();
                for _ in 0..k {
                    b.extend_from_slice(&minmsg);
                }
                let pre = b.len();
                b.extend_from_slice(&tail);
                let exp: Vec<(usize, usize, bool)> = (0..k).map(|i| (i * minmsg.len(), minmsg.len(), serial)).chain(p_behind.iter().map(|(o, l, s)| (o + pre, *l, *s))).collect();
                if parse_simple(&b[..]) != Some(exp) {
                    agree = false;
                }
            }
            replayed += 1;
            if claimed {
                claimed_n += 1;
            } else if p_alone != p_behind {
                unclaimed_differ += 1;
            }
            if !agree {
                drift += 1;
            }
            if agree && replayed % sample_every != 0 {
                fast += 1;
                continue;
            }
            if !agree && slow >= max_slow {
                // a tree that deviates everywhere: TLC judges the first max_slow deviating scenarios, the rest is only counted
                slow_dropped += 1;
                continue;
            }
            slow += 1;
            let k = [1usize, 2, 5][(replayed % 3) as usize];
            let mut b = Vec::new();
            for _ in 0..k {
                b.extend_from_slice(&minmsg);
            }
            let pre = b.len();
            b.extend_from_slice(&tail);
            tail_case(t, case, &mut rng, serial, &b, pre, claimed, lm, "tlc", &json!({"tokens": toks, "k": k, "agree": agree}), &mut counters);
            case += 1;
        }
    }
    // byte-granular classes around MIN_DLT_MSG_SIZE (20) and the minimal serial message (8)
    let mut grid = serde_json::Map::new();
    if a.num("--grid", 1) > 0 {
        let names = ["trunc", "trunc+other", "trunc+same", "garbage", "garbage+other", "garbage+same"];
        for serial in [false, true] {
            let lens: &[usize] = if serial { &[7, 8, 9, 15, 16, 17, 19, 20, 21, 39, 40, 41] } else { &[19, 20, 21, 35, 36, 39, 40, 41, 59, 60, 61] };
            for &k in &[0usize, 1, 2, 5] {
                for &tlen in lens {
                    for class in 0..6u64 {
                        let Some((tail, claimed)) = byte_tail(&mut rng, serial, tlen, class) else { continue };
                        let mut st = Stream { serial, segs: vec![] };
                        for _ in 0..k {
                            let flags = rng.below(32) as u8;
                            let pl = small_payload(&mut rng);
                            st.segs.push(Seg::M(rand_msg(&mut rng, serial, flags, pl)));
                        }
                        sanitize(&mut st, &mut rng);
                        let mut b = st.layout().bytes;
                        let pre = b.len();
                        b.extend_from_slice(&tail);
                        let key = format!("{}.{}.{}", if serial { "serial" } else { "storage" }, names[class as usize], if claimed { "claimed" } else { "autodetect-ambiguous" });
                        *grid.entry(key).or_insert(json!(0)) = json!(grid.get(&format!("{}.{}.{}", if serial { "serial" } else { "storage" }, names[class as usize], if claimed { "claimed" } else { "autodetect-ambiguous" })).and_then(|v| v.as_u64()).unwrap_or(0) + 1);
                        tail_case(t, case, &mut rng, serial, &b, pre, claimed, lm, "grid", &json!({"len": tlen, "class": names[class as usize], "k": k}), &mut counters);
                        case += 1;
                    }
                }
            }
        }
    }
    json!({"cases": case, "lines": t.lines, "replayed": replayed, "fast_path": fast, "slow_path": slow, "slow_dropped": slow_dropped, "drift": drift, "claimed_tails": claimed_n,
        "unclaimed_tails_where_model_differs": unclaimed_differ, "chunk_runs": counters.0, "latched_suffix_runs": counters.1, "tail_alone_runs": counters.2, "grid": grid, "lm": lm})
}

fn main() {
    quiet_panics();
    let a = Args::from_env();
    let mut t = Trace::create(&a.str("--out", "trace.ndjson"));
    let info = match a.str("--mode", "reader").as_str() {
        "reader" => reader_mode(&a, &mut t),
        "chunk" => chunk_mode(&a, &mut t),
        "tails" => tails_mode(&a, &mut t),
        x => panic!("unknown mode {}", x),
    };
    t.flush();
    let mut info = info;
    if let Some(o) = info.as_object_mut() {
        o.insert("iterator_runs_with_logger".into(), json!(LOG_RUNS.load(Ordering::Relaxed)));
        o.insert("peeks".into(), json!(PEEKS.load(Ordering::Relaxed)));
        o.insert("seek_end_calls".into(), json!(SEEK_END.load(Ordering::Relaxed)));
        o.insert("bulk_read_then_seek_back".into(), json!(BULK.load(Ordering::Relaxed)));
    }
    println!("{}", info);
}
