//! Shared by the C11 and C12 drivers: the abstract filter / message of spec/Filter.tla, their concretisation
//! (tokens -> ASCII, abstract message -> DltMessage) and the rendering of an abstract filter through every front-end.
//! Nothing here computes an expected decision.
#![allow(dead_code)]
use adlt::dlt::{DltChar4, DltExtendedHeader, DltMessage, DltStandardHeader};
use adlt::filter::{Char4OrRegex, Filter, FilterKind};
use serde::{Deserialize, Serialize};
use vh::*;

pub const DOT: u32 = 99;
pub const CARET: u32 = 90;
pub const PIPE: u32 = 91;
pub const DOLLAR: u32 = 92;
pub const LBR: u32 = 93;
pub const RBR: u32 = 94;
pub const STAR: u32 = 95;
pub const QMARK: u32 = 96;

#[derive(Deserialize, Serialize, Clone, Debug, PartialEq)]
pub struct IdCrit {
    pub k: String,
    pub cls: String,
    pub w: Vec<u32>,
    pub w2: Vec<u32>,
}
#[derive(Deserialize, Serialize, Clone, Debug, PartialEq)]
pub struct TypeCrit {
    pub k: String,
    pub v: u32,
    pub mask: u32,
}
#[derive(Deserialize, Serialize, Clone, Debug, PartialEq)]
pub struct PayCrit {
    pub k: String,
    pub cls: String,
    pub w: Vec<u32>,
    pub w2: Vec<u32>,
    pub ic: bool,
}
#[derive(Deserialize, Serialize, Clone, Debug, PartialEq)]
pub struct LcsCrit {
    pub k: String,
    pub ids: Vec<u32>,
}
#[derive(Deserialize, Serialize, Clone, Debug, PartialEq)]
pub struct AFilter {
    pub kind: u32,
    pub enabled: bool,
    pub not: bool,
    pub ecu: IdCrit,
    pub apid: IdCrit,
    pub ctid: IdCrit,
    #[serde(rename = "type")]
    pub typ: TypeCrit,
    pub lmin: i32,
    pub lmax: i32,
    pub pay: PayCrit,
    pub lcs: LcsCrit,
}
#[derive(Deserialize, Serialize, Clone, Debug, PartialEq)]
pub struct AMsg {
    pub ecu: Vec<u32>,
    pub ext: bool,
    pub apid: Vec<u32>,
    pub ctid: Vec<u32>,
    pub vmm: u32,
    pub text: Vec<u32>,
    pub lc: u32,
}

pub fn no_id() -> IdCrit {
    IdCrit { k: "none".into(), cls: "".into(), w: vec![], w2: vec![] }
}
pub fn no_type() -> TypeCrit {
    TypeCrit { k: "none".into(), v: 0, mask: 0 }
}
pub fn no_pay() -> PayCrit {
    PayCrit { k: "none".into(), cls: "".into(), w: vec![], w2: vec![], ic: false }
}
pub fn no_lcs() -> LcsCrit {
    LcsCrit { k: "none".into(), ids: vec![] }
}
pub fn empty_filter(kind: u32) -> AFilter {
    AFilter { kind, enabled: true, not: false, ecu: no_id(), apid: no_id(), ctid: no_id(), typ: no_type(), lmin: -1, lmax: -1, pay: no_pay(), lcs: no_lcs() }
}

// ---------------------------------------------------------------------------------------------- concretisation
/// id alphabet: 0 NUL, 1 'A', 2 'B', 3 'a', 4 '1'; regex tokens 99 '.', 90 '^', 91 '|', 92 '$'
pub fn id_char(t: u32) -> char {
    match t {
        0 => '\0',
        1 => 'A',
        2 => 'B',
        3 => 'a',
        4 => '1',
        DOT => '.',
        CARET => '^',
        PIPE => '|',
        DOLLAR => '$',
        LBR => '[',
        RBR => ']',
        STAR => '*',
        QMARK => '?',
        _ => panic!("driver: unknown id token {}", t),
    }
}
/// text alphabet: 0 ' ', 1..26 'a'..'z', 101..126 'A'..'Z', 200 + ASCII for other printable characters; regex tokens as above
pub fn text_char(t: u32) -> char {
    match t {
        0 => ' ',
        1..=26 => (b'a' + (t - 1) as u8) as char,
        101..=126 => (b'A' + (t - 101) as u8) as char,
        233..=326 => (t - 200) as u8 as char, // 200 + ASCII for the other printable characters
        DOT => '.',
        CARET => '^',
        PIPE => '|',
        DOLLAR => '$',
        LBR => '[',
        RBR => ']',
        STAR => '*',
        QMARK => '?',
        _ => panic!("driver: unknown text token {}", t),
    }
}
/// concrete syntax (token sequence) of an id or payload criterion: the `Syn` operator of spec/Filter.tla
pub fn syn(k: &str, cls: &str, w: &[u32], w2: &[u32]) -> Vec<u32> {
    match (k, cls) {
        ("none", _) => vec![],
        ("lit", _) | ("sub", _) => w.to_vec(),
        (_, "contains") => w.to_vec(),
        (_, "prefix") => [&[CARET][..], w].concat(),
        (_, "suffix") => [w, &[DOLLAR][..]].concat(),
        (_, "alt") => [w, &[PIPE][..], w2].concat(),
        (_, "ncalt") => [&[240, QMARK, 258][..], w, &[PIPE][..], w2, &[241][..]].concat(),
        (_, "flagged") => [&[240, QMARK, 19, 241][..], w].concat(),
        (_, "named") => [&[240, QMARK, 116, 260, 14, 262][..], w, &[241][..]].concat(),
        (_, "any") => vec![DOT, STAR],
        (_, "opt") => [w, &[QMARK][..]].concat(),
        (_, "altempty") => [w, &[PIPE][..]].concat(),
        (_, "empty") => vec![CARET, DOLLAR],
        (_, "nostar") => [&[CARET, LBR, CARET][..], w, &[RBR, STAR, DOLLAR][..]].concat(),
        _ => panic!("driver: unknown criterion class {} {}", k, cls),
    }
}
pub fn id_syn(c: &IdCrit) -> Vec<u32> {
    syn(&c.k, &c.cls, &c.w, &c.w2)
}
pub fn pay_syn(c: &PayCrit) -> Vec<u32> {
    syn(&c.k, &c.cls, &c.w, &c.w2)
}
pub fn id_str(tokens: &[u32]) -> String {
    tokens.iter().map(|t| id_char(*t)).collect()
}
pub fn text_str(tokens: &[u32]) -> String {
    tokens.iter().map(|t| text_char(*t)).collect()
}
/// code sequence of a printable ASCII text (None if the text has other characters)
pub fn text_codes(s: &str) -> Option<Vec<u32>> {
    s.chars()
        .map(|c| match c {
            ' ' => Some(0),
            'a'..='z' => Some(c as u32 - 'a' as u32 + 1),
            'A'..='Z' => Some(c as u32 - 'A' as u32 + 101),
            '!'..='~' => Some(200 + c as u32),
            _ => None,
        })
        .collect()
}
pub fn xml_escape(s: &str) -> String {
    s.replace('&', "&amp;").replace('<', "&lt;").replace('>', "&gt;")
}
pub fn id4(v: &[u32]) -> DltChar4 {
    assert_eq!(v.len(), 4, "driver: message id must have 4 elements");
    let b: Vec<u8> = v.iter().map(|t| id_char(*t) as u8).collect();
    DltChar4::from_buf(&b)
}

pub fn mk_dlt_msg(index: u32, m: &AMsg) -> DltMessage {
    DltMessage {
        index,
        reception_time_us: BASE_US + index as u64 * 1000,
        ecu: id4(&m.ecu),
        timestamp_dms: index * 10,
        standard_header: DltStandardHeader { htyp: if m.ext { 0x31 } else { 0x30 }, mcnt: (index & 0xff) as u8, len: 0 },
        extended_header: if m.ext {
            Some(DltExtendedHeader { verb_mstp_mtin: m.vmm as u8, noar: 0, apid: id4(&m.apid), ctid: id4(&m.ctid) })
        } else {
            None
        },
        payload: vec![],
        payload_text: Some(text_str(&m.text)),
        lifecycle: m.lc,
    }
}

/// a message with a real payload (verbose arguments / non-verbose data); its text is whatever the code base renders.
/// text: None = payload_text not set (rendered on demand), Some = text already present (as after a plugin / a first rendering)
pub fn mk_real_msg(index: u32, m: &AMsg, payload: &[u8], noar: u8, text: Option<String>) -> DltMessage {
    let mut msg = mk_dlt_msg(index, m);
    msg.payload = payload.to_vec();
    if let Some(e) = msg.extended_header.as_mut() {
        e.noar = noar;
    }
    msg.payload_text = text;
    msg
}

pub fn kind_of(k: u32) -> FilterKind {
    match k {
        0 => FilterKind::Positive,
        1 => FilterKind::Negative,
        2 => FilterKind::Marker,
        3 => FilterKind::Event,
        _ => panic!("driver: unknown filter kind {}", k),
    }
}

// ---------------------------------------------------------------------------------------------- front-ends
/// JSON text of the abstract filter. explicit: with the ...IsRegex keys and all flags; otherwise only what is needed
pub fn render_json(f: &AFilter, explicit: bool) -> Value {
    let mut o = serde_json::Map::new();
    o.insert("type".into(), json!(f.kind));
    if explicit || !f.enabled {
        o.insert("enabled".into(), json!(f.enabled));
    }
    if explicit || f.not {
        o.insert("not".into(), json!(f.not));
    }
    if explicit && f.kind % 2 == 1 {
        o.insert("atLoadTime".into(), json!(true)); // a flag for the user interface, no criterion
    }
    for (name, c) in [("ecu", &f.ecu), ("apid", &f.apid), ("ctid", &f.ctid)] {
        if c.k != "none" {
            o.insert(name.into(), json!(id_str(&id_syn(c))));
            if explicit {
                o.insert(format!("{}IsRegex", name), json!(c.k == "re"));
            }
        }
    }
    match f.typ.k.as_str() {
        "none" => {}
        "vmm" => {
            o.insert("verb_mstp_mtin".into(), json!(f.typ.v));
        }
        "mstp" => {
            o.insert("mstp".into(), json!(f.typ.v));
        }
        k => panic!("driver: type criterion {} is not expressible in JSON", k),
    }
    if f.lmin >= 0 {
        o.insert("logLevelMin".into(), json!(f.lmin));
    }
    if f.lmax >= 0 {
        o.insert("logLevelMax".into(), json!(f.lmax));
    }
    match f.pay.k.as_str() {
        "none" => {}
        "sub" => {
            o.insert("payload".into(), json!(text_str(&pay_syn(&f.pay))));
        }
        "re" => {
            o.insert("payloadRegex".into(), json!(text_str(&pay_syn(&f.pay))));
        }
        k => panic!("driver: payload criterion {}", k),
    }
    if f.pay.k != "none" && (explicit || f.pay.ic) {
        o.insert("ignoreCasePayload".into(), json!(f.pay.ic));
    }
    if f.lcs.k == "list" {
        o.insert("lifecycles".into(), json!(f.lcs.ids));
    }
    Value::Object(o)
}

/// dlt-viewer DLF text. explicit: all elements like dlt-viewer writes them (unused criteria present but not enabled,
/// with decoy values; enableregexp_* flags); otherwise only the needed elements (regex auto-detection)
pub fn render_dlf(fs: &[&AFilter], explicit: bool) -> String {
    render_dlf_file("", fs, if explicit { DlfStyle::Full } else { DlfStyle::Minimal })
}

#[derive(Clone, Copy, PartialEq)]
pub enum DlfStyle {
    /// every element, unused criteria present but not enabled (like dlt-viewer writes the file)
    Full,
    /// only the elements of the specified criteria, no enableregexp_Appid/_Context (regex auto-detection)
    Minimal,
    /// only the elements of the specified criteria, with the enableregexp flag of a present apid/ctid criterion
    MinimalFlags,
}

/// `n` fully specified filters (every element kind set and enabled, with values different from anything the filters
/// under test use): a filter that follows them in the same file must not be influenced by them
pub fn dlf_decoys(n: usize) -> String {
    let d = [
        "<filter><type>1</type><name>decoy1</name><ecuid>ZZZZ</ecuid><enableecuid>1</enableecuid>\
<applicationid>QQ|ZZ</applicationid><enableapplicationid>1</enableapplicationid><enableregexp_Appid>1</enableregexp_Appid>\
<contextid>QQQQ</contextid><enablecontextid>1</enablecontextid><enableregexp_Context>0</enableregexp_Context>\
<enablecontrolmsgs>1</enablecontrolmsgs><payloadtext>zz+top</payloadtext><enablepayloadtext>1</enablepayloadtext>\
<enableregexp_Payload>1</enableregexp_Payload><ignoreCase_Payload>1</ignoreCase_Payload>\
<logLevelMax>1</logLevelMax><enableLogLevelMax>1</enableLogLevelMax><logLevelMin>5</logLevelMin><enableLogLevelMin>1</enableLogLevelMin>\
<enablefilter>1</enablefilter></filter>\n",
        "<filter><type>2</type><name>decoy2</name><ecuid>YY</ecuid><enableecuid>1</enableecuid>\
<applicationid>YYYY</applicationid><enableapplicationid>1</enableapplicationid><enableregexp_Appid>0</enableregexp_Appid>\
<contextid>^Y</contextid><enablecontextid>1</enablecontextid><enableregexp_Context>1</enableregexp_Context>\
<enablecontrolmsgs>1</enablecontrolmsgs><payloadtext>yyy</payloadtext><enablepayloadtext>1</enablepayloadtext>\
<enableregexp_Payload>0</enableregexp_Payload><ignoreCase_Payload>1</ignoreCase_Payload>\
<logLevelMax>0</logLevelMax><enableLogLevelMax>1</enableLogLevelMax><logLevelMin>6</logLevelMin><enableLogLevelMin>1</enableLogLevelMin>\
<enablefilter>0</enablefilter></filter>\n",
    ];
    (0..n).map(|i| d[i % 2]).collect()
}

pub fn render_dlf_file(prefix: &str, fs: &[&AFilter], style: DlfStyle) -> String {
    let explicit = style == DlfStyle::Full;
    let flags = style != DlfStyle::Minimal;
    let mut s = String::from("<?xml version=\"1.0\" encoding=\"UTF-8\"?>\n<dltfilter>\n");
    s.push_str(prefix);
    for f in fs {
        s.push_str("<filter>");
        let mut el = |name: &str, val: &str| {
            s.push_str(&format!("<{}>{}</{}>", name, val, name));
        };
        el("type", &f.kind.to_string());
        el("name", "verif");
        if f.ecu.k != "none" {
            el("ecuid", &id_str(&id_syn(&f.ecu)));
            el("enableecuid", "1");
        } else if explicit {
            el("ecuid", "ZZZZ");
            el("enableecuid", "0");
        }
        for (c, idn, enn, ren) in [
            (&f.apid, "applicationid", "enableapplicationid", "enableregexp_Appid"),
            (&f.ctid, "contextid", "enablecontextid", "enableregexp_Context"),
        ] {
            if c.k != "none" {
                el(idn, &id_str(&id_syn(c)));
                el(enn, "1");
                if flags {
                    el(ren, if c.k == "re" { "1" } else { "0" });
                }
            } else if explicit {
                el(idn, "ZZZZ");
                el(enn, "0");
                el(ren, "0");
            }
        }
        match f.typ.k.as_str() {
            "none" => {
                if explicit {
                    el("enablecontrolmsgs", "0");
                }
            }
            "mstp" if f.typ.v == 3 => el("enablecontrolmsgs", "1"),
            k => panic!("driver: type criterion {} {} is not expressible in DLF", k, f.typ.v),
        }
        if f.pay.k != "none" {
            el("payloadtext", &xml_escape(&text_str(&pay_syn(&f.pay))));
            el("enablepayloadtext", "1");
            if explicit || f.pay.k == "re" {
                el("enableregexp_Payload", if f.pay.k == "re" { "1" } else { "0" });
            }
            if explicit || f.pay.ic {
                el("ignoreCase_Payload", if f.pay.ic { "1" } else { "0" });
            }
        } else if explicit {
            el("payloadtext", "zzzz");
            el("enablepayloadtext", "0");
            el("enableregexp_Payload", "0");
            el("ignoreCase_Payload", "0");
        }
        if f.lmax >= 0 {
            el("logLevelMax", &f.lmax.to_string());
            el("enableLogLevelMax", "1");
        } else if explicit {
            el("logLevelMax", "0");
            el("enableLogLevelMax", "0");
        }
        if f.lmin >= 0 {
            el("logLevelMin", &f.lmin.to_string());
            el("enableLogLevelMin", "1");
        } else if explicit {
            el("logLevelMin", "6");
            el("enableLogLevelMin", "0");
        }
        el("enablefilter", if f.enabled { "1" } else { "0" });
        s.push_str("</filter>\n");
    }
    s.push_str("</dltfilter>\n");
    s
}

/// dlt-convert filter list: "APID CTID " with ids filled up with '-'
pub fn render_conv(fs: &[&AFilter]) -> String {
    let mut s = String::new();
    for f in fs {
        for c in [&f.apid, &f.ctid] {
            let mut t = id_str(&c.w);
            assert!(c.k == "lit" && (1..=4).contains(&t.len()), "driver: not expressible in the dlt-convert format");
            while t.len() < 4 {
                t.push('-');
            }
            s.push_str(&t);
            s.push(' ');
        }
    }
    s
}

/// ECU:APID:CTID expression (short: trailing empty parts left out)
pub fn render_eac(f: &AFilter, short: bool) -> String {
    let parts: Vec<String> = [&f.ecu, &f.apid, &f.ctid].iter().map(|c| id_str(&id_syn(c))).collect();
    let mut n = 3;
    if short {
        while n > 1 && parts[n - 1].is_empty() {
            n -= 1;
        }
    }
    parts[..n].join(":")
}

/// Filter::new + public fields
pub fn build_api(f: &AFilter) -> Result<Filter, String> {
    let mut r = Filter::new(kind_of(f.kind));
    r.enabled = f.enabled;
    assert!(!f.not, "driver: `not` is not reachable through public fields");
    let id = |c: &IdCrit| -> Result<Option<Char4OrRegex>, String> {
        if c.k == "none" {
            Ok(None)
        } else if c.k == "lit" && c.w.len() == 4 {
            // a complete id through `From<DltChar4>`
            let b: Vec<u8> = c.w.iter().map(|t| id_char(*t) as u8).collect();
            Ok(Some(DltChar4::from_buf(&b).into()))
        } else if c.k == "re" && f.kind % 2 == 1 {
            // a compiled regex through `From<regex::bytes::Regex>`
            regex::bytes::Regex::new(&id_str(&id_syn(c))).map(|r| Some(r.into())).map_err(|e| format!("{:?}", e))
        } else {
            Char4OrRegex::from_str(&id_str(&id_syn(c)), c.k == "re").map(Some).map_err(|e| format!("{:?}", e))
        }
    };
    r.ecu = id(&f.ecu)?;
    r.apid = id(&f.apid)?;
    r.ctid = id(&f.ctid)?;
    match f.typ.k.as_str() {
        "none" => {}
        "raw" => r.verb_mstp_mtin = Some((f.typ.v as u8, f.typ.mask as u8)),
        k => panic!("driver: type criterion {} is not built through public fields", k),
    }
    if f.lmin >= 0 {
        r.loglevel_min = Some(f.lmin as u8);
    }
    if f.lmax >= 0 {
        r.loglevel_max = Some(f.lmax as u8);
    }
    match f.pay.k.as_str() {
        "none" => {}
        "sub" if !f.pay.ic => r.payload = Some(text_str(&f.pay.w)),
        k => panic!("driver: payload criterion {} is not built through public fields", k),
    }
    if f.lcs.k == "list" {
        r.lifecycles = Some(f.lcs.ids.clone());
    }
    Ok(r)
}

/// build the real filter through a library front-end; returns the filter and the text it was loaded from
pub fn build(fe: &str, f: &AFilter) -> (Result<Filter, String>, String) {
    match fe {
        "json" | "jsona" => {
            let t = render_json(f, fe == "json").to_string();
            (Filter::from_json(&t).map_err(|e| format!("{:?}", e)), t)
        }
        "dlf" | "dlfa" => {
            // dlf: the filter alone in its file, every element written. dlfa: only the elements of its criteria, as the
            // 2nd or 3rd filter of a file whose first filters are fully specified decoys; it is picked by its position
            let ndecoys = if fe == "dlf" { 0 } else { 1 + (render_json(f, true).to_string().len() % 2) };
            let t = render_dlf_file(&dlf_decoys(ndecoys), &[f], if fe == "dlf" { DlfStyle::Full } else { DlfStyle::Minimal });
            let r = adlt::filter::functions::filters_from_dlf(t.as_bytes()).map_err(|e| format!("{:?}", e)).and_then(|mut v| {
                if v.len() == ndecoys + 1 {
                    Ok(v.remove(ndecoys))
                } else {
                    Err(format!("filters_from_dlf returned {} filters for {} <filter> elements", v.len(), ndecoys + 1))
                }
            });
            (r, t)
        }
        "conv" => {
            let t = render_conv(&[f]);
            let r = adlt::filter::functions::filters_from_convert_format(t.as_bytes()).map_err(|e| format!("{:?}", e)).and_then(|mut v| {
                if v.len() == 1 {
                    Ok(v.remove(0))
                } else {
                    Err(format!("filters_from_convert_format returned {} filters for one pair", v.len()))
                }
            });
            (r, t)
        }
        "api" => (build_api(f), "Filter::new + public fields".to_string()),
        _ => panic!("driver: front-end {} is not a library front-end", fe),
    }
}

// ---------------------------------------------------------------------------------------------- random generators (inputs only)
pub const BASE_TEXTS: [&str; 6] = ["foo bar", "error in foo", "bar", "state changed to on", "a b", ""];

pub fn to_codes(s: &str, rng: &mut Rng, flip: u64) -> Vec<u32> {
    s.bytes()
        .map(|b| match b {
            b' ' => 0,
            b'a'..=b'z' => {
                let c = (b - b'a') as u32 + 1;
                if rng.chance(flip, 8) { c + 100 } else { c }
            }
            _ => unreachable!(),
        })
        .collect()
}
pub fn word(rng: &mut Rng, lo: u64, hi: u64, nchars: u64) -> Vec<u32> {
    (0..rng.range(lo, hi)).map(|_| rng.range(1, nchars) as u32).collect()
}
pub fn pad4(w: &[u32]) -> Vec<u32> {
    (0..4).map(|i| w.get(i).copied().unwrap_or(0)).collect()
}
pub fn gen_id(rng: &mut Rng, nchars: u64, lit_only: bool, max_lit: u64, auto: bool) -> IdCrit {
    if lit_only || rng.chance(1, 2) {
        return IdCrit { k: "lit".into(), cls: "".into(), w: word(rng, 1, max_lit, nchars), w2: vec![] };
    }
    if rng.chance(1, 4) {
        // regexes that match the empty word
        let cls = *rng.pick(&["any", "opt", "altempty", "empty", "nostar"]);
        let w = match cls {
            "opt" | "nostar" => word(rng, 1, 1, nchars),
            "altempty" => word(rng, 1, 2, nchars),
            _ => vec![],
        };
        return IdCrit { k: "re".into(), cls: cls.into(), w, w2: vec![] };
    }
    loop {
        let cls = *rng.pick(&["contains", "prefix", "suffix", "alt"]);
        let mut w = word(rng, 1, 3, nchars);
        if rng.chance(1, 3) {
            let i = rng.below(w.len() as u64) as usize;
            w[i] = DOT;
        }
        let w2 = if cls == "alt" { word(rng, 1, 3, nchars) } else { vec![] };
        let c = IdCrit { k: "re".into(), cls: cls.into(), w, w2 };
        if !auto || id_syn(&c).iter().any(|t| *t >= 90) {
            return c;
        }
    }
}
pub fn gen_msg_id(rng: &mut Rng, nchars: u64, c: &IdCrit) -> Vec<u32> {
    // inputs near the criterion: the criterion's word embedded at a random place, or an unrelated word
    if c.k != "none" && rng.chance(2, 3) {
        let mut w: Vec<u32> = c.w.iter().map(|t| if *t == DOT { rng.range(0, nchars) as u32 } else { *t }).collect();
        if c.k == "re" {
            let mut pre = word(rng, 0, 2, nchars);
            pre.extend(w);
            w = pre;
            w.extend(word(rng, 0, 2, nchars));
            if rng.chance(1, 3) && !c.w2.is_empty() {
                w = c.w2.clone();
            }
        }
        if rng.chance(1, 6) && !w.is_empty() {
            let i = rng.below(w.len().min(4) as u64) as usize;
            w[i] = rng.range(1, nchars) as u32;
        }
        return pad4(&w);
    }
    pad4(&word(rng, 1, 4, nchars))
}

pub fn gen_filter(rng: &mut Rng, fe: &str, nchars: u64) -> AFilter {
    let mut f = empty_filter(0);
    let dlf = fe.starts_with("dlf");
    let auto = fe == "jsona" || fe == "dlfa";
    if fe == "conv" {
        f.apid = gen_id(rng, nchars, true, 4, false);
        f.ctid = gen_id(rng, nchars, true, 4, false);
        return f;
    }
    f.enabled = !rng.chance(1, 10);
    f.kind = rng.below(4) as u32;
    f.not = !(dlf || fe == "api") && rng.chance(1, 3);
    loop {
        f.ecu = if rng.chance(1, 2) { gen_id(rng, nchars, dlf, 5, auto) } else { no_id() };
        f.apid = if rng.chance(1, 2) { gen_id(rng, nchars, false, 5, auto) } else { no_id() };
        f.ctid = if rng.chance(1, 2) { gen_id(rng, nchars, false, 5, auto) } else { no_id() };
        let need = match fe {
            "jsona" => f.ecu.k != "none" || f.apid.k != "none" || f.ctid.k != "none",
            _ => true,
        };
        if need {
            break;
        }
    }
    if rng.chance(1, 3) {
        f.typ = match fe {
            "api" => TypeCrit { k: "raw".into(), v: rng.below(256) as u32, mask: *rng.pick(&[0xffu32, 0x0f, 0x0e, 0xf0, 0x01, 0xfe, 0]) },
            "dlf" | "dlfa" => TypeCrit { k: "mstp".into(), v: 3, mask: 0 },
            _ => {
                if rng.chance(1, 2) {
                    TypeCrit { k: "vmm".into(), v: rng.below(256) as u32, mask: 0 }
                } else {
                    TypeCrit { k: "mstp".into(), v: rng.below(8) as u32, mask: 0 }
                }
            }
        };
    }
    if rng.chance(1, 4) {
        f.lmin = rng.range(0, 6) as i32;
    }
    if rng.chance(1, 4) {
        f.lmax = rng.range(0, 6) as i32;
    }
    if rng.chance(1, 2) {
        let base = *rng.pick(&BASE_TEXTS[..5]);
        let codes = to_codes(base, rng, 2);
        let a = rng.below(codes.len() as u64) as usize;
        let b = rng.range(a as u64 + 1, codes.len() as u64) as usize;
        let mut w = codes[a..b].to_vec();
        if fe == "api" || rng.chance(1, 2) {
            f.pay = PayCrit { k: "sub".into(), cls: "".into(), w, w2: vec![], ic: fe != "api" && rng.chance(1, 2) };
        } else {
            let cls = *rng.pick(&["contains", "prefix", "suffix", "alt", "ncalt", "flagged", "named"]);
            if rng.chance(1, 3) {
                let i = rng.below(w.len() as u64) as usize;
                w[i] = DOT;
            }
            let alt: &str = *rng.pick(&["bar", "on", "b", "foo"][..]);
            let w2 = if cls == "alt" || cls == "ncalt" { to_codes(alt, rng, 2) } else { vec![] };
            f.pay = PayCrit { k: "re".into(), cls: cls.into(), w, w2, ic: rng.chance(1, 2) };
        }
    }
    if !dlf && rng.chance(1, 4) {
        let n = rng.below(4);
        let _ = n;
        // list sizes around the thresholds of a membership test, any order, with repeated ids
        let size = *rng.pick(&[0u64, 1, 2, 3, 4, 5, 8, 17]);
        let span = if rng.chance(1, 2) { 4 } else { 2 * size.max(1) + 2 };
        let mut ids: Vec<u32> = (0..size).map(|_| rng.range(1, span) as u32).collect();
        match rng.below(3) {
            0 => ids.sort(),
            1 => {
                ids.sort();
                ids.reverse();
            }
            _ => {}
        }
        f.lcs = LcsCrit { k: "list".into(), ids };
    }
    f
}

pub fn gen_msg(rng: &mut Rng, f: &AFilter, nchars: u64) -> AMsg {
    let needs_ext = f.apid.k != "none" || f.ctid.k != "none" || f.typ.k != "none" || f.lmin >= 0 || f.lmax >= 0;
    let ext = !rng.chance(1, if needs_ext { 8 } else { 3 });
    let vmm = if f.typ.k != "none" && rng.chance(1, 2) {
        match f.typ.k.as_str() {
            "mstp" => ((f.typ.v % 8) << 1) | (rng.below(2) as u32) | ((rng.below(16) as u32) << 4),
            "vmm" if f.typ.v >> 4 == 0 => f.typ.v | ((rng.below(16) as u32) << 4),
            _ => f.typ.v,
        }
    } else if (f.lmin >= 0 || f.lmax >= 0) && rng.chance(3, 4) {
        ((rng.below(8) as u32) << 4) | rng.below(2) as u32
    } else {
        rng.below(256) as u32
    };
    let base: &str = *rng.pick(&BASE_TEXTS[..]);
    let text = to_codes(base, rng, 2);
    let lc = if f.lcs.k == "list" && !f.lcs.ids.is_empty() {
        // a listed id (any position) or an id around the listed ones
        let mx = *f.lcs.ids.iter().max().unwrap();
        if rng.chance(1, 2) { *rng.pick(&f.lcs.ids) } else { rng.range(1, mx as u64 + 2) as u32 }
    } else {
        rng.range(0, 4) as u32
    };
    AMsg {
        ecu: gen_msg_id(rng, nchars, &f.ecu),
        ext,
        apid: if ext { gen_msg_id(rng, nchars, &f.apid) } else { vec![0; 4] },
        ctid: if ext { gen_msg_id(rng, nchars, &f.ctid) } else { vec![0; 4] },
        vmm: if ext { vmm } else { 0 },
        text,
        lc,
    }
}

