//! C19 driver: instantiates real plugin chains (factory::get_plugin from the repository's FIBEX/JSON descriptions,
//! AnonymizePlugin::new), runs plugins_process_msgs over real channels on synthetic and example streams and records
//! in / out events (observable field vectors), a panic of the chain thread, and - for anonymisation - the lifecycle
//! tables of the original and the anonymised stream (library detector, or the `adlt convert --anon -o` binary).
//! It decides nothing: frame conditions, order, drops and pseudonym tables are evaluated by TLC (spec/PluginTrace.tla).
use adlt::dlt::{DltChar4, DltExtendedHeader, DltMessage, DltStandardHeader, DLT_MAX_STORAGE_MSG_SIZE};
use adlt::plugins::{anonymize::AnonymizePlugin, factory::get_plugin, file_transfer::FileTransferPlugin, plugin::Plugin, plugins_process_msgs};
use adlt::utils::{eac_stats::EacStats, get_dlt_message_iterator, get_new_namespace, LowMarkBufReader};
use std::io::Write;
use std::sync::mpsc::{channel, sync_channel};
use vh::*;

// ------------------------------------------------------------------------------------------------ message building
enum A<'a> {
    Str(&'a str),
    StrUtf8(&'a str),
    U64(u64),
    U32(u32),
    U16(u16),
    U8(u8),
    I64(i64),
    I32(i32),
    I16(i16),
    I8(i8),
    Bool(u8),
    Raw(&'a [u8]),
}

/// verbose payload in the given byte order (be = big endian; the message then carries the MSBF flag)
fn verb_e(args: &[A], be: bool) -> (u8, Vec<u8>) {
    let mut p = Vec::new();
    let ti = |p: &mut Vec<u8>, t: u32| p.extend_from_slice(&if be { t.to_be_bytes() } else { t.to_le_bytes() });
    let l16 = |p: &mut Vec<u8>, n: usize| p.extend_from_slice(&if be { (n as u16).to_be_bytes() } else { (n as u16).to_le_bytes() });
    macro_rules! num {
        ($p:expr, $t:expr, $v:expr) => {{
            ti($p, $t);
            if be {
                $p.extend_from_slice(&$v.to_be_bytes());
            } else {
                $p.extend_from_slice(&$v.to_le_bytes());
            }
        }};
    }
    for a in args {
        match a {
            A::Str(s) => {
                ti(&mut p, 0x0000_0200);
                l16(&mut p, s.len() + 1);
                p.extend_from_slice(s.as_bytes());
                p.push(0);
            }
            A::StrUtf8(s) => {
                ti(&mut p, 0x0000_8200);
                l16(&mut p, s.len() + 1);
                p.extend_from_slice(s.as_bytes());
                p.push(0);
            }
            A::U64(v) => num!(&mut p, 0x44, v),
            A::U32(v) => num!(&mut p, 0x43, v),
            A::U16(v) => num!(&mut p, 0x42, v),
            A::U8(v) => num!(&mut p, 0x41, v),
            A::I64(v) => num!(&mut p, 0x24, v),
            A::I32(v) => num!(&mut p, 0x23, v),
            A::I16(v) => num!(&mut p, 0x22, v),
            A::I8(v) => num!(&mut p, 0x21, v),
            A::Bool(v) => num!(&mut p, 0x11, v),
            A::Raw(b) => {
                ti(&mut p, 0x0000_0400);
                l16(&mut p, b.len());
                p.extend_from_slice(b);
            }
        }
    }
    (args.len() as u8, p)
}

fn verb(args: &[A]) -> (u8, Vec<u8>) {
    verb_e(args, false)
}

const V_LOG_INFO: u8 = 0x41;
const NV_LOG_INFO: u8 = 0x40;
const V_NW_IPC: u8 = 0x15;
const V_NW_CAN: u8 = 0x25;
const CTRL_REQ: u8 = 0x16;
const CTRL_RESP: u8 = 0x26;
const V_CTRL_RESP: u8 = 0x27;

struct Proto {
    ecu: &'static str,
    ext: Option<(u8, u8, &'static str, &'static str)>, // vmm, noar, apid, ctid
    payload: Vec<u8>,
    be: bool,          // big endian message (MSBF flag; the payload must have been built big endian)
    tag: &'static str, // coverage label: "<plugin>:<extended header variant>" for traffic matching that plugin
}
impl Proto {
    fn be(mut self) -> Proto {
        self.be = true;
        self
    }
    fn t(mut self, tag: &'static str) -> Proto {
        self.tag = tag;
        self
    }
}

fn proto(ecu: &'static str, vmm: u8, apid: &'static str, ctid: &'static str, np: (u8, Vec<u8>)) -> Proto {
    Proto { ecu, ext: Some((vmm, np.0, apid, ctid)), payload: np.1, be: false, tag: "" }
}
fn proto_nv(ecu: &'static str, apid: &'static str, ctid: &'static str, payload: Vec<u8>) -> Proto {
    Proto { ecu, ext: Some((NV_LOG_INFO, 0, apid, ctid)), payload, be: false, tag: "" }
}
fn proto_noext(ecu: &'static str, payload: Vec<u8>) -> Proto {
    Proto { ecu, ext: None, payload, be: false, tag: "" }
}

fn finish(protos: Vec<Proto>, rx0: u64) -> (Vec<DltMessage>, Vec<String>) {
    let tags: Vec<String> = protos.iter().map(|p| p.tag.to_string()).collect();
    let msgs = protos
        .into_iter()
        .enumerate()
        .map(|(i, p)| DltMessage {
            index: i as u32,
            reception_time_us: rx0 + i as u64 * 10_000 + (i as u64 % 7),
            ecu: char4(p.ecu),
            timestamp_dms: 50_000 + i as u32 * 100,
            standard_header: DltStandardHeader { htyp: 0x20 | 0x10 | if p.ext.is_some() { 0x01 } else { 0 } | if p.be { 0x02 } else { 0 }, mcnt: (i & 0xff) as u8, len: 0 },
            extended_header: p.ext.map(|(vmm, noar, apid, ctid)| DltExtendedHeader { verb_mstp_mtin: vmm, noar, apid: char4(apid), ctid: char4(ctid) }),
            payload: p.payload,
            payload_text: None,
            lifecycle: 0,
        })
        .collect();
    (msgs, tags)
}

fn someip_hdr(service: u16, method: u16, payload: &[u8]) -> Vec<u8> {
    let mut h = Vec::new();
    h.extend_from_slice(&service.to_be_bytes());
    h.extend_from_slice(&method.to_be_bytes());
    h.extend_from_slice(&((8 + payload.len()) as u32).to_be_bytes());
    h.extend_from_slice(&[0x00, 0x01, 0x00, 0x02, 0x01, 0x01, 0x00, 0x00]);
    h.extend_from_slice(payload);
    h
}

/// traffic matching and not matching every plugin kind, control messages, arbitrary payloads, several id populations
fn mixed_stream(rng: &mut Rng) -> (Vec<DltMessage>, Vec<String>) {
    let mut groups: Vec<Vec<Proto>> = Vec::new();
    // --- non-verbose (FIBEX of tests/non_verbose*.xml: ECU "Ecu1")
    let nv_ids: [u32; 5] = [805312382, 805834673, 800000000, 12345, 805834673];
    for (k, id) in nv_ids.iter().enumerate() {
        let mut pl = id.to_le_bytes().to_vec();
        let extra = match k {
            1 => 11,
            4 => 3, // too small for the frame
            _ => rng.below(3) as usize,
        };
        pl.extend_from_slice(&rng.bytes(extra));
        groups.push(vec![proto_noext("Ecu1", pl.clone())]);
        groups.push(vec![proto_nv("Ecu1", "HLD", "MAIN", pl.clone())]);
        groups.push(vec![proto_noext("ECU2", pl)]);
    }
    groups.push(vec![proto_noext("Ecu1", vec![1, 2])]);
    groups.push(vec![proto_nv("Ecu1", "HLD", "ERR", vec![])]);
    // --- SOME/IP (tests/fibex1.xml: service 64098, method 1000), ctid TC, nw trace ipc
    let ip9: [u8; 9] = [10, 0, 0, 1, 10, 0, 0, 2, 1];
    let ip12: [u8; 12] = [10, 0, 0, 1, 10, 0, 0, 2, 0, 0, 0, 1];
    groups.push(vec![proto("ECU1", V_NW_IPC, "SIP", "TC", verb(&[A::Raw(&ip9), A::Raw(&someip_hdr(64098, 1000, &[7]))]))]);
    groups.push(vec![proto("ECU1", V_NW_IPC, "SIP", "TC", verb(&[A::Raw(&ip12), A::Raw(&someip_hdr(64098, 1000, &[]))]))]);
    groups.push(vec![proto("ECU1", V_NW_IPC, "SIP", "TC", verb(&[A::Raw(&ip9), A::Raw(&someip_hdr(1, 2, &rng.bytes(5)))]))]);
    groups.push(vec![proto("ECU1", V_NW_IPC, "SIP", "TC", verb(&[A::Raw(&ip9), A::Raw(&rng.bytes(7))]))]);
    groups.push(vec![proto("ECU1", V_NW_IPC, "SIP", "TC", verb(&[A::Raw(&[1, 2, 3]), A::Raw(&rng.bytes(20))]))]);
    groups.push(vec![proto("ECU1", V_NW_IPC, "SIP", "XX", verb(&[A::Raw(&ip9), A::Raw(&someip_hdr(64098, 1000, &[7]))]))]);
    let seg = someip_hdr(64098, 1000, &[9]);
    groups.push(vec![
        proto("ECU1", V_NW_IPC, "SIP", "TC", verb(&[A::Str("NWST"), A::Raw(&77u32.to_le_bytes()), A::Raw(&ip9), A::U8(0), A::Raw(&2u16.to_le_bytes()), A::Raw(&9u16.to_le_bytes())])),
        proto("ECU1", V_NW_IPC, "SIP", "TC", verb(&[A::Str("NWCH"), A::Raw(&77u32.to_le_bytes()), A::Raw(&0u16.to_le_bytes()), A::Raw(&seg[0..9])])),
        proto("ECU1", V_NW_IPC, "SIP", "TC", verb(&[A::Str("NWCH"), A::Raw(&77u32.to_le_bytes()), A::Raw(&1u16.to_le_bytes()), A::Raw(&seg[9..])])),
        proto("ECU1", V_NW_IPC, "SIP", "TC", verb(&[A::Str("NWEN"), A::Raw(&77u32.to_le_bytes())])),
        proto("ECU1", V_NW_IPC, "SIP", "TC", verb(&[A::Str("NWCH"), A::Raw(&78u32.to_le_bytes()), A::Raw(&0u16.to_le_bytes()), A::Raw(&[1, 2])])),
    ]);
    // --- CAN (nw trace can, ctid TC)
    groups.push(vec![proto("ECU1", V_NW_CAN, "CAN", "TC", verb(&[A::U32(0x36f), A::Raw(&rng.bytes(5))]))]);
    groups.push(vec![proto("ECU1", V_NW_CAN, "CAN", "TC", verb(&[A::U32(0), A::Raw(&rng.bytes(8))]))]);
    groups.push(vec![proto("ECU1", V_NW_CAN, "CAN", "TC", verb(&[A::U16(5), A::Raw(&rng.bytes(8))]))]);
    groups.push(vec![proto("ECU1", V_NW_CAN, "CAN", "ZZ", verb(&[A::U32(0x126), A::Raw(&rng.bytes(8))]))]);
    groups.push(vec![proto("ECU1", CTRL_RESP, "CAN", "TC", (0, vec![3, 0, 0, 0, 8]))]);
    // --- Muniic (tests/muniic/min.json)
    let mu = |iface: u32, msgid: u32, pl: &[u8]| {
        verb(&[A::Str("HmiP"), A::U32(5711), A::U32(83029), A::U32(7), A::U32(0), A::Str("InitialData..."), A::Str("[Hmi]"), A::U32(iface), A::U32(msgid), A::Str("C/LC:"), A::U8(2), A::U8(0), A::Raw(pl)])
    };
    groups.push(vec![
        proto("ECU1", V_LOG_INFO, "MUN", "MMSG", mu(1228779599, 3478824001, &[1])),
        proto("ECU1", V_LOG_INFO, "MUN", "MDLT", verb(&[A::Str("Version: 20.48, git: 123, model hash: 2874425776")])),
        proto("ECU1", V_LOG_INFO, "MUN", "MMSG", mu(1228779599, 3478824001, &[0])),
        proto("ECU1", V_LOG_INFO, "MUN", "MDLT", verb(&[A::Str("Version: 20.48, git: 123, model hash: 2874425775")])),
        proto("ECU1", V_LOG_INFO, "MUN", "MMSG", mu(1228779599, 3478824001, &[1, 2, 3])),
    ]);
    groups.push(vec![proto("ECU1", V_LOG_INFO, "MUN", "MMSG", mu(42, 43, &rng.bytes(4)))]);
    groups.push(vec![proto("ECU1", V_LOG_INFO, "MUN", "MMSG", verb(&[A::Str("HmiP"), A::U32(1)]))]);
    groups.push(vec![proto("ECU1", V_LOG_INFO, "MUN", "MMSG", mu(1228779599, 3478824001, &[]))]);
    // --- rewrite (tests/rewrite.cfg: SYS/JOUR, "^.*? .*? (?<timeStamp>\d+\.\d+) (?<text>.*)$")
    groups.push(vec![proto("ECU1", V_LOG_INFO, "SYS", "JOUR", verb(&[A::Str("2022/01/01 12:00:00.000001 123.4567 kernel: started")]))]);
    groups.push(vec![proto("ECU1", V_LOG_INFO, "SYS", "JOUR", verb(&[A::Str("a b 7.5 short"), A::U32(5)]))]);
    groups.push(vec![proto("ECU1", V_LOG_INFO, "SYS", "JOUR", verb(&[A::Str("no time stamp in here")]))]);
    groups.push(vec![proto("ECU1", V_LOG_INFO, "SYS", "JOUX", verb(&[A::Str("a b 7.5 not the context")]))]);
    // --- file transfer (apid SYS, ctid FILE)
    let d1 = rng.bytes(8);
    let d2 = rng.bytes(3);
    groups.push(vec![
        proto("ECU1", V_LOG_INFO, "SYS", "FILE", verb(&[A::Str("FLST"), A::U32(42), A::Str("a.bin"), A::U32(11), A::Str("date"), A::U32(2), A::U32(8), A::Str("FLST")])),
        proto("ECU1", V_LOG_INFO, "SYS", "FILE", verb(&[A::Str("FLDA"), A::U32(42), A::I32(1), A::Raw(&d1), A::Str("FLDA")])),
        proto("ECU1", V_LOG_INFO, "SYS", "FILE", verb(&[A::Str("FLDA"), A::U32(42), A::I32(2), A::Raw(&d2), A::Str("FLDA")])),
        proto("ECU1", V_LOG_INFO, "SYS", "FILE", verb(&[A::Str("FLFI"), A::U32(42), A::Str("FLFI")])),
    ]);
    groups.push(vec![proto("ECU1", V_LOG_INFO, "SYS", "FILE", verb(&[A::Str("FLDA"), A::U32(43), A::U32(1), A::Raw(&d2), A::Str("FLDA")]))]); // without FLST
    groups.push(vec![proto("ECU1", V_LOG_INFO, "APP", "FILE", verb(&[A::Str("FLDA"), A::U32(44), A::U32(1), A::Raw(&d2), A::Str("FLDA")]))]); // other apid: never dropped
    groups.push(vec![proto("ECU1", V_LOG_INFO, "SYS", "FILE", verb(&[A::Str("FLDA"), A::U32(45), A::U32(1), A::Raw(&d2), A::Str("FLDX")]))]); // not FLDA framed
    // complete transfers from the other three sources (apid, ctid) in {SYS, APP} x {FILE, FIL2}: a file transfer plugin
    // configured for one source must let the FLDA packages of every other source pass
    for (serial, (ap, ct)) in [(50u32, ("SYS", "FIL2")), (51, ("APP", "FILE")), (52, ("APP", "FIL2"))] {
        groups.push(vec![
            proto("ECU1", V_LOG_INFO, ap, ct, verb(&[A::Str("FLST"), A::U32(serial), A::Str("b.bin"), A::U32(6), A::Str("date"), A::U32(2), A::U32(3), A::Str("FLST")])),
            proto("ECU1", V_LOG_INFO, ap, ct, verb(&[A::Str("FLDA"), A::U32(serial), A::I32(1), A::Raw(&d2), A::Str("FLDA")])),
            proto("ECU1", V_LOG_INFO, ap, ct, verb(&[A::Str("FLDA"), A::U32(serial), A::I32(2), A::Raw(&d2), A::Str("FLDA")])),
            proto("ECU1", V_LOG_INFO, ap, ct, verb(&[A::Str("FLFI"), A::U32(serial), A::Str("FLFI")])),
        ]);
    }
    groups.push(vec![proto("ECU1", V_LOG_INFO, "SYS", "FILE", verb(&[A::Str("FLIF"), A::U32(42), A::Str("x"), A::Str("FLIF")]))]);
    // --- every decoder: traffic that MATCHES it, in all extended-header variants (an existing header must stay untouched)
    const HV: [(&str, Option<(u8, u8, &str, &str)>); 7] = [
        ("absent", None),
        ("fibex_ids", Some((0x50, 0, "HLD", "MAIN"))),
        ("other_ids", Some((NV_LOG_INFO, 0, "APP1", "CTX1"))),
        ("zero_apid", Some((0x30, 1, "", "CTX1"))),
        ("zero_apid_ctid", Some((0x30, 1, "", ""))),
        ("zero_ctid", Some((NV_LOG_INFO, 0, "APP1", ""))),
        ("other_type_noar", Some((0x12, 3, "APP1", "CTX1"))),
    ];
    const NV_TAGS: [&str; 7] = ["nonverbose:absent", "nonverbose:fibex_ids", "nonverbose:other_ids", "nonverbose:zero_apid", "nonverbose:zero_apid_ctid", "nonverbose:zero_ctid", "nonverbose:other_type_noar"];
    for (id, extra) in [(805312382u32, 0usize), (805834673, 11), (800000000, 0)] {
        for (k, (_, ext)) in HV.iter().enumerate() {
            let mut pl = id.to_le_bytes().to_vec();
            pl.extend_from_slice(&rng.bytes(extra));
            groups.push(vec![Proto { ecu: "Ecu1", ext: *ext, payload: pl, be: false, tag: NV_TAGS[k] }]);
        }
    }
    for (tag, apid, noar_claim) in [("someip:apid", "SIP", 2u8), ("someip:zero_apid", "", 2), ("someip:other_apid", "XYZ1", 2), ("someip:other_noar", "SIP", 5)] {
        let (_, pl) = verb(&[A::Raw(&ip9), A::Raw(&someip_hdr(64098, 1000, &[3]))]);
        groups.push(vec![Proto { ecu: "ECU1", ext: Some((V_NW_IPC, noar_claim, apid, "TC")), payload: pl, be: false, tag }]);
    }
    for (tag, apid, noar_claim) in [("can:apid", "CAN", 2u8), ("can:zero_apid", "", 2), ("can:other_apid", "XYZ1", 2), ("can:other_noar", "CAN", 4)] {
        let (_, pl) = verb(&[A::U32(0x2ae), A::Raw(&rng.bytes(8))]);
        groups.push(vec![Proto { ecu: "ECU1", ext: Some((V_NW_CAN, noar_claim, apid, "TC")), payload: pl, be: false, tag }]);
    }
    for (tag, vmm, apid) in [("muniic:apid", V_LOG_INFO, "MUN"), ("muniic:zero_apid", V_LOG_INFO, ""), ("muniic:other_apid", V_LOG_INFO, "OTH"), ("muniic:other_type", 0x13u8, "MUN"), ("muniic:other_level", 0x31, "MUN")] {
        let (n, pl) = mu(1228779599, 3478824001, &[1]);
        groups.push(vec![Proto { ecu: "ECU3", ext: Some((vmm, n, apid, "MMSG")), payload: pl, be: false, tag }]);
    }
    for (tag, vmm, two) in [("rewrite:info", V_LOG_INFO, false), ("rewrite:warn", 0x31u8, false), ("rewrite:apptrace", 0x13, false), ("rewrite:noar2", V_LOG_INFO, true)] {
        let (n, pl) = if two { verb(&[A::Str("x y 12.25 rewritten"), A::U32(9)]) } else { verb(&[A::Str("x y 12.25 rewritten text")]) };
        groups.push(vec![Proto { ecu: "ECU1", ext: Some((vmm, n, "SYS", "JOUR")), payload: pl, be: false, tag }]);
    }
    // --- paths found by the coverage audit -------------------------------------------------------------------------------
    // big-endian messages for every plugin that reads numbers from the payload
    {
        let be = true;
        // anonymise: control responses (service id read big endian), non-verbose and verbose payload rewriting
        let mut sw = 19u32.to_be_bytes().to_vec();
        sw.push(0);
        sw.extend_from_slice(&5u32.to_be_bytes());
        sw.extend_from_slice(b"SW 2\0");
        groups.push(vec![proto("ECU1", CTRL_RESP, "DA1", "DC1", (0, sw)).be()]);
        let mut li = 3u32.to_be_bytes().to_vec();
        li.push(8);
        groups.push(vec![proto("ECU1", CTRL_RESP, "DA1", "DC1", (0, li)).be()]);
        groups.push(vec![proto_nv("ECU1", "APP", "CTX", vec![0, 0, 0, 77, 1, 2, 3]).be()]);
        groups.push(vec![proto("ECU1", V_LOG_INFO, "APP", "CTX", verb_e(&[A::Str("big endian"), A::U32(7), A::I16(-3)], be)).be()]);
        // non-verbose FIBEX frames with a big-endian message id
        let mut nvp = 805834673u32.to_be_bytes().to_vec();
        nvp.extend_from_slice(&rng.bytes(11));
        groups.push(vec![proto_noext("Ecu1", nvp.clone()).be()]);
        groups.push(vec![proto_nv("Ecu1", "HLD", "ERR", nvp).be()]);
        groups.push(vec![proto_noext("Ecu1", 805312382u32.to_be_bytes().to_vec()).be()]);
        // CAN frame id big endian; CAN control responses (GET_LOG_INFO handling) in all shapes
        groups.push(vec![proto("ECU1", V_NW_CAN, "CAN", "TC", verb_e(&[A::U32(0x36f), A::Raw(&[1, 2, 3, 4, 5])], be)).be()]);
        groups.push(vec![proto("ECU1", CTRL_RESP, "CAN", "TC", (0, vec![3, 0]))]);
        groups.push(vec![proto("ECU1", CTRL_RESP, "CAN", "TC", (0, vec![3, 0, 0, 0]))]);
        groups.push(vec![proto("ECU1", CTRL_RESP, "CAN", "TC", (0, vec![19, 0, 0, 0, 0, 1]))]);
        groups.push(vec![proto("ECU1", CTRL_RESP, "CAN", "TC", (0, vec![0, 0, 0, 3, 8])).be()]);
        groups.push(vec![proto("ECU1", CTRL_RESP, "CAN", "TC", (0, vec![3, 0, 0, 0, 7, 0, 0]))]);
        // Muniic big endian, ids of the wrong type, configuration messages in all variants
        let mu_args = |iface: A<'static>, msgid: A<'static>| vec![A::Str("HmiP"), A::U32(5711), A::U32(83029), A::U32(7), A::U32(0), A::Str("InitialData..."), A::Str("[Hmi]"), iface, msgid, A::Str("C/LC:"), A::U8(2), A::U8(0), A::Raw(&[1])];
        groups.push(vec![proto("ECU4", V_LOG_INFO, "MUN", "MMSG", verb_e(&mu_args(A::U32(1228779599), A::U32(3478824001)), be)).be()]);
        groups.push(vec![proto("ECU4", V_LOG_INFO, "MUN", "MMSG", verb(&mu_args(A::Str("iface"), A::U32(3478824001))))]);
        groups.push(vec![proto("ECU4", V_LOG_INFO, "MUN", "MMSG", verb(&mu_args(A::U32(1228779599), A::U16(5))))]);
        groups.push(vec![
            proto("ECU5", V_LOG_INFO, "MUN", "MDLT", verb(&[A::Str("Version: 1.0, git: abc, model hash: 2874425776")])),
            proto("ECU5", V_LOG_INFO, "MUN", "MDLT", verb(&[A::Str("Version: 1.0, git: abc, model hash: 2874425776")])),
            proto("ECU5", V_LOG_INFO, "MUN", "MDLT", verb(&[A::Str("Version: 1.1, git: abd, model hash: 2874425776")])),
            proto("ECU5", V_LOG_INFO, "MUN", "MDLT", verb(&[A::Str("Version: 1.1, git: abd, model hash: 2944352002")])),
            proto("ECU5", V_LOG_INFO, "MUN", "MDLT", verb(&[A::Str("no version information in here")])),
            proto("ECU5", V_LOG_INFO, "MUN", "MDLT", verb(&[A::U32(5)])),
            proto("ECU5", V_LOG_INFO, "MUN", "MMSG", verb(&mu_args(A::U32(1228779599), A::U32(3478824001)))),
        ]);
        // SOME/IP: other strings / instance id widths / malformed segment arguments
        let ip10: [u8; 10] = [10, 0, 0, 1, 10, 0, 0, 2, 0, 1];
        groups.push(vec![proto("ECU1", V_NW_IPC, "SIP", "TC", verb(&[A::Str("ABCD"), A::Raw(&someip_hdr(64098, 1000, &[1]))]))]);
        groups.push(vec![proto("ECU1", V_NW_IPC, "SIP", "TC", verb(&[A::Raw(&ip10), A::Raw(&someip_hdr(64098, 1000, &[1]))]))]);
        for hdr in [&ip10[..], &ip12[..], &ip9[0..5]] {
            groups.push(vec![
                proto("ECU1", V_NW_IPC, "SIP", "TC", verb(&[A::Str("NWST"), A::Raw(&90u32.to_le_bytes()), A::Raw(hdr), A::U8(0), A::Raw(&1u16.to_le_bytes()), A::Raw(&4u16.to_le_bytes())])),
                proto("ECU1", V_NW_IPC, "SIP", "TC", verb(&[A::Str("NWCH"), A::Raw(&90u32.to_le_bytes()), A::Raw(&0u16.to_le_bytes()), A::Raw(&[1, 2, 3, 4])])),
                proto("ECU1", V_NW_IPC, "SIP", "TC", verb(&[A::Str("NWEN"), A::Raw(&90u32.to_le_bytes())])),
            ]);
        }
        groups.push(vec![proto("ECU1", V_NW_IPC, "SIP", "TC", verb(&[A::Str("NWST"), A::Raw(&91u32.to_le_bytes()), A::Raw(&ip9), A::U8(0), A::Raw(&[1]), A::Raw(&4u16.to_le_bytes())]))]);
        groups.push(vec![proto("ECU1", V_NW_IPC, "SIP", "TC", verb(&[A::Str("NWST"), A::Raw(&92u32.to_le_bytes()), A::Raw(&ip9), A::U8(0), A::Raw(&1u16.to_le_bytes()), A::Raw(&[4])]))]);
        groups.push(vec![proto("ECU1", V_NW_IPC, "SIP", "TC", verb(&[A::Str("NWCH"), A::Raw(&[1, 2, 3]), A::Raw(&0u16.to_le_bytes()), A::Raw(&[1])]))]);
        groups.push(vec![proto("ECU1", V_NW_IPC, "SIP", "TC", verb(&[A::Str("NWCH"), A::Raw(&93u32.to_le_bytes()), A::Raw(&[0]), A::Raw(&[1])]))]);
        groups.push(vec![proto("ECU1", V_NW_IPC, "SIP", "TC", verb(&[A::Str("NWEN"), A::Raw(&[9])]))]);
        // file transfers: every state of the reassembly and every argument type the plugin accepts or refuses
        let ft = |args: &[A], be: bool| {
            let p = proto("ECU1", V_LOG_INFO, "SYS", "FILE", verb_e(args, be));
            if be { p.be() } else { p }
        };
        groups.push(vec![ft(&[A::Str("FLDA"), A::U32(60), A::I32(1), A::Raw(&d2), A::Str("FLDA")], false), ft(&[A::Str("FLFI"), A::U32(60), A::Str("FLFI")], false)]);
        groups.push(vec![
            ft(&[A::Str("FLST"), A::U32(61), A::Str("c.bin"), A::U32(6), A::Str("date"), A::U32(2), A::U32(3), A::Str("FLST")], false),
            ft(&[A::Str("FLDA"), A::U32(61), A::I32(1), A::Raw(&d2), A::Str("FLDA")], false),
            ft(&[A::Str("FLFI"), A::U32(61), A::Str("FLFI")], false),
        ]);
        groups.push(vec![
            ft(&[A::Str("FLST"), A::U32(62), A::Str("d.bin"), A::U32(3), A::Str("date"), A::U32(1), A::U32(3), A::Str("FLST")], false),
            ft(&[A::Str("FLDA"), A::U32(62), A::I32(1), A::Raw(&d2), A::Str("FLDA")], false),
            ft(&[A::Str("FLDA"), A::U32(62), A::I32(2), A::Raw(&d2), A::Str("FLDA")], false),
            ft(&[A::Str("FLFI"), A::U32(62), A::Str("FLFI")], false),
        ]);
        groups.push(vec![
            ft(&[A::Str("FLST"), A::U32(63), A::Str("e.bin"), A::U32(99), A::Str("date"), A::U32(2), A::U32(3), A::Str("FLST")], false),
            ft(&[A::Str("FLDA"), A::U32(63), A::I32(2), A::Raw(&d2), A::Str("FLDA")], false),
            ft(&[A::Str("FLDA"), A::U32(63), A::I32(3), A::Raw(&d2), A::Str("FLDA")], false),
            ft(&[A::Str("FLDA"), A::U32(63), A::I32(1), A::Raw(&[1]), A::Str("FLDA")], false),
            ft(&[A::Str("FLFI"), A::U32(63), A::Str("FLFI")], false),
        ]);
        groups.push(vec![
            ft(&[A::Str("FLST"), A::U64(64), A::Str("f.bin"), A::U16(6), A::Str("date"), A::U8(2), A::U64(3), A::Str("FLST")], true),
            ft(&[A::Str("FLDA"), A::U64(64), A::I64(1), A::Raw(&d2), A::Str("FLDA")], true),
            ft(&[A::Str("FLDA"), A::U64(64), A::I16(2), A::Raw(&d2), A::Str("FLDA")], true),
            ft(&[A::Str("FLFI"), A::U64(64), A::Str("FLFI")], true),
        ]);
        groups.push(vec![
            ft(&[A::Str("FLST"), A::U8(65), A::Str("g.bin"), A::U32(6), A::Str("date"), A::U16(2), A::U16(3), A::Str("FLST")], false),
            ft(&[A::Str("FLDA"), A::U8(65), A::I8(1), A::Raw(&d2), A::Str("FLDA")], false),
            ft(&[A::Str("FLDA"), A::U8(65), A::I8(-2), A::Raw(&d2), A::Str("FLDA")], false),
            ft(&[A::Str("FLDA"), A::U8(65), A::I64(-2), A::Raw(&d2), A::Str("FLDA")], false),
            ft(&[A::Str("FLDA"), A::U8(65), A::I16(-2), A::Raw(&d2), A::Str("FLDA")], true),
            ft(&[A::Str("FLFI"), A::U8(65), A::Str("FLFI")], false),
        ]);
        for bad in 1..=6usize {
            // one argument of the wrong type per message: serial / size / nr of packages / buffer size / (FLDA) serial / package nr
            let n = |k: usize, v: u32| if bad == k { A::Str("oops") } else { A::U32(v) };
            groups.push(vec![ft(&[A::Str("FLST"), n(1, 70 + bad as u32), A::Str("h.bin"), n(2, 6), A::Str("date"), n(3, 2), n(4, 3), A::Str("FLST")], false)]);
            groups.push(vec![ft(&[A::Str("FLDA"), n(5, 70 + bad as u32), if bad == 6 { A::Str("oops") } else { A::I32(1) }, A::Raw(&d2), A::Str("FLDA")], false)]);
        }
        groups.push(vec![
            ft(&[A::Str("FLST"), A::U32(66), A::StrUtf8("i.bin"), A::U32(6), A::StrUtf8("date"), A::U32(2), A::U32(3), A::Str("FLST")], true),
            ft(&[A::Str("FLDA"), A::U32(66), A::I32(1), A::Raw(&d2), A::Str("FLDA")], true),
            ft(&[A::Str("FLDA"), A::U32(66), A::I32(1), A::Raw(&d2), A::Str("FLDA")], true), // duplicate package
            ft(&[A::Str("FLDA"), A::U32(66), A::I32(2), A::Raw(&d2), A::Str("FLDA")], true),
            ft(&[A::Str("FLFI"), A::U32(66), A::Str("FLFI")], true),
        ]);
        groups.push(vec![
            ft(&[A::Str("FLST"), A::U64(67), A::Str("j.bin"), A::U32(6), A::Str("date"), A::U32(2), A::U32(3), A::Str("FLST")], false),
            ft(&[A::Str("FLDA"), A::U64(67), A::I16(1), A::Raw(&d2), A::Str("FLDA")], false),
            ft(&[A::Str("FLDA"), A::U64(67), A::I16(2), A::Raw(&d2), A::Str("FLDA")], false),
            ft(&[A::Str("FLFI"), A::U64(67), A::Str("FLFI")], false),
        ]);
        groups.push(vec![ft(&[A::Str("FLFI"), A::Str("oops"), A::Str("FLFI")], false)]);
        groups.push(vec![ft(&[A::Str("FLST"), A::U32(80), A::Raw(&[0xff, 0xfe]), A::U32(6), A::Raw(&[1]), A::U32(2), A::U32(3), A::Str("FLST")], false)]);
        groups.push(vec![ft(&[A::Str("FLST"), A::U32(81), A::Str("a.bin"), A::U32(0), A::Str("date"), A::U32(0), A::U32(0), A::Str("FLST")], false)]);
    }
    // --- control messages
    groups.push(vec![proto("ECU1", CTRL_REQ, "DA1", "DC1", (0, vec![19, 0, 0, 0]))]);
    let mut sw = vec![19, 0, 0, 0, 0];
    sw.extend_from_slice(&9u32.to_le_bytes());
    sw.extend_from_slice(b"SW 1.2.3\0");
    groups.push(vec![proto("ECU1", CTRL_RESP, "DA1", "DC1", (0, sw))]);
    groups.push(vec![proto("ECU1", CTRL_RESP, "DA1", "DC1", (0, vec![3, 0, 0, 0, 8]))]);
    groups.push(vec![proto("ECU1", CTRL_RESP, "DA1", "DC1", (0, vec![0x11, 0, 0, 0, 0]))]);
    groups.push(vec![proto("ECU1", CTRL_RESP, "DA1", "DC1", (0, vec![2, 0]))]); // short non-verbose response: no first argument
    groups.push(vec![proto("ECU1", V_CTRL_RESP, "DA1", "DC1", verb(&[A::U32(19), A::U8(0)]))]);
    groups.push(vec![proto("ECU1", V_CTRL_RESP, "DA1", "DC1", (0, vec![]))]);
    // --- arbitrary payloads
    for _ in 0..10 {
        let n = rng.below(24) as usize;
        let pl = rng.bytes(n);
        let vmm = rng.next_u64() as u8;
        // keep control responses out of the arbitrary part (known finding #18 has its own stream)
        let vmm = if (vmm >> 1) & 7 == 3 && vmm >> 4 == 2 { vmm & 0x0f | 0x10 } else { vmm };
        let noar = rng.below(15) as u8;
        if rng.chance(1, 4) {
            groups.push(vec![proto_noext("ECU2", pl)]);
        } else {
            groups.push(vec![Proto { ecu: "ECU2", ext: Some((vmm, noar, *rng.pick(&["ARB", "SYS", "CAN"]), *rng.pick(&["TC", "JOUR", "MMSG", "FILE"]))), payload: pl, be: false, tag: "" }]);
        }
    }
    // --- id populations
    for e in ["EA", "EB", "E\u{1}C"] {
        for a in ["A", "AP2", "APID"] {
            for c in ["C1", "CTX2"] {
                groups.push(vec![proto(e, V_LOG_INFO, a, c, verb(&[A::Str("hello"), A::U32(rng.below(100) as u32)]))]);
            }
        }
    }
    // shuffle the groups (order inside a group is kept)
    for i in (1..groups.len()).rev() {
        groups.swap(i, rng.below(i as u64 + 1) as usize);
    }
    finish(groups.into_iter().flatten().collect(), BASE_US)
}

/// known finding #18: control responses whose first argument is shorter than 4 bytes, between ordinary messages
fn kf_stream(rng: &mut Rng) -> (Vec<DltMessage>, Vec<String>) {
    let mut v = Vec::new();
    for i in 0..3 {
        v.push(proto("ECU1", V_LOG_INFO, "APP", "CTX", verb(&[A::Str("before"), A::U32(i)])));
    }
    match rng.below(3) {
        0 => v.push(proto("ECU1", V_CTRL_RESP, "DA1", "DC1", verb(&[A::Bool(1)]))),
        1 => v.push(proto("ECU1", V_CTRL_RESP, "DA1", "DC1", verb(&[A::U16(7), A::U32(1)]))),
        _ => v.push(proto("ECU1", V_CTRL_RESP, "DA1", "DC1", verb(&[A::Str("ab")]))),
    }
    for i in 0..3 {
        v.push(proto("ECU2", V_LOG_INFO, "APP", "CTX", verb(&[A::Str("after"), A::U32(i)])));
    }
    finish(v, BASE_US)
}

/// several ECUs with several boots (log messages only - see the narrow reading in checks/c19.py)
fn lc_stream(rng: &mut Rng) -> Vec<DltMessage> {
    let ecus = ["ECUA", "ECUB", "ECUC"];
    let necu = rng.range(1, 3) as usize;
    let n = 40 + rng.below(30) as usize;
    let mut cuts: Vec<Vec<usize>> = Vec::new();
    for _ in 0..necu {
        let mut c = vec![0usize];
        for _ in 0..rng.below(3) {
            let s = 3 + rng.below(n as u64 - 6) as usize;
            if !c.contains(&s) {
                c.push(s);
            }
        }
        c.sort();
        cuts.push(c);
    }
    let gaps = |t: usize| cuts.iter().map(|c| c.iter().filter(|s| **s != 0 && **s <= t).count()).sum::<usize>() as u64;
    let rx = |t: usize| BASE_US + t as u64 * 250_000 + gaps(t) * 40_000_000 + t as u64;
    let mut v = Vec::new();
    for t in 0..n {
        let e = rng.below(necu as u64) as usize;
        let boot_slot = *cuts[e].iter().filter(|s| **s <= t).last().unwrap();
        let ts = ((rx(t) - (rx(boot_slot) - 1_000_000)) / 100) as u32;
        let text = format!("lc msg {}", t);
        let (noar, pl) = verb(&[A::Str(&text), A::U32(t as u32)]);
        v.push(DltMessage {
            index: t as u32,
            reception_time_us: rx(t),
            ecu: char4(ecus[e]),
            timestamp_dms: ts,
            standard_header: DltStandardHeader { htyp: 0x31, mcnt: (t & 0xff) as u8, len: 0 },
            extended_header: Some(DltExtendedHeader { verb_mstp_mtin: V_LOG_INFO, noar, apid: char4(*rng.pick(&["AP1", "AP2", "APP3"])), ctid: char4(*rng.pick(&["C1", "CTX2"])) }),
            payload: pl,
            payload_text: None,
            lifecycle: 0,
        });
    }
    v
}

/// large id populations (still far below the pseudonym capacity of 999 per table), interleaved
fn ids_stream(rng: &mut Rng) -> Vec<DltMessage> {
    let ecus = ["ECUA", "ECUB", "EC"];
    let mut v = Vec::new();
    for t in 0..450usize {
        let e = *rng.pick(&ecus);
        let a = format!("A{:02}", rng.below(60));
        let c = format!("C{}", rng.below(4));
        let text = format!("id msg {}", t);
        let (noar, pl) = verb(&[A::Str(&text)]);
        let ext = if rng.chance(1, 12) { None } else { Some(DltExtendedHeader { verb_mstp_mtin: V_LOG_INFO, noar, apid: char4(&a), ctid: char4(&c) }) };
        v.push(DltMessage {
            index: t as u32,
            reception_time_us: BASE_US + t as u64 * 1000,
            ecu: char4(e),
            timestamp_dms: 1000 + t as u32 * 10,
            standard_header: DltStandardHeader { htyp: 0x30 | if ext.is_some() { 1 } else { 0 }, mcnt: (t & 0xff) as u8, len: 0 },
            extended_header: ext,
            payload: pl,
            payload_text: None,
            lifecycle: 0,
        });
    }
    v
}

/// id populations up to and beyond the pseudonym capacity (999 per table): `size` distinct ids on one level (ecu | apid of
/// one ecu | ctid of one ecu/apid), log and control messages, then a second pass over a sample of the ids (same id -> same
/// pseudonym, also late and for control messages)
fn pop_stream(rng: &mut Rng, level: &str, size: usize) -> Vec<DltMessage> {
    const B36: &[u8] = b"0123456789ABCDEFGHIJKLMNOPQRSTUVWXYZ";
    let id = |k: usize| -> DltChar4 {
        let k = k + 40; // keep away from "000"
        DltChar4::from_buf(&[b'Q', B36[(k / 1296) % 36], B36[(k / 36) % 36], B36[k % 36]])
    };
    let mut order: Vec<usize> = (0..size).collect();
    let mut again: Vec<usize> = vec![0, 1, 2, 98, 99, 100, 249, 250, 254, 255, 256, 257, 299, 998, 999, 1000, 1001, 1009, 1010];
    for _ in 0..40 {
        again.push(rng.below(size as u64) as usize);
    }
    order.extend(again.into_iter().filter(|k| *k < size));
    order.push(size - 1);
    let mut v = Vec::new();
    for (t, k) in order.into_iter().enumerate() {
        let (ecu, apid, ctid) = match level {
            "ecu" => (id(k), char4("APP"), char4("CTX")),
            "apid" => (char4("ECU1"), id(k), char4("CTX")),
            _ => (char4("ECU1"), char4("APP"), id(k)),
        };
        let (vmm, noar, pl) = match t % 11 {
            3 => {
                let mut sw = vec![19, 0, 0, 0, 0];
                sw.extend_from_slice(&5u32.to_le_bytes());
                sw.extend_from_slice(b"SW 1\0");
                (CTRL_RESP, 0, sw)
            }
            7 => (CTRL_REQ, 0, vec![19, 0, 0, 0]),
            _ => {
                let text = format!("pop {}", t);
                let (n, p) = verb(&[A::Str(&text)]);
                (V_LOG_INFO, n, p)
            }
        };
        v.push(DltMessage {
            index: t as u32,
            reception_time_us: BASE_US + t as u64 * 1000,
            ecu,
            timestamp_dms: 1000 + t as u32 * 10,
            standard_header: DltStandardHeader { htyp: 0x31, mcnt: (t & 0xff) as u8, len: 0 },
            extended_header: Some(DltExtendedHeader { verb_mstp_mtin: vmm, noar, apid, ctid }),
            payload: pl,
            payload_text: None,
            lifecycle: 0,
        });
    }
    v
}

/// SOME/IP segmented transfer sequences from the boundary alphabet of spec/PluginsSomeIpSeg.tla, between ordinary messages
fn seg_stream(seq: &[Value]) -> (Vec<DltMessage>, Vec<String>) {
    let ip9: [u8; 9] = [10, 0, 0, 1, 10, 0, 0, 2, 1];
    let mut v = vec![proto("ECU1", V_LOG_INFO, "APP", "CTX", verb(&[A::Str("before the transfer")]))];
    for m in seq {
        let id = (m["id"].as_u64().unwrap() as u32 + 700).to_le_bytes();
        let a = m["a"].as_u64().unwrap();
        let b = m["b"].as_u64().unwrap();
        let p = match m["k"].as_str().unwrap() {
            "ST" => verb(&[A::Str("NWST"), A::Raw(&id), A::Raw(&ip9), A::U8(0), A::Raw(&(a as u16).to_le_bytes()), A::Raw(&(b as u16).to_le_bytes())]),
            "CH" => {
                let data: Vec<u8> = (0..b).map(|i| (i * 7 + a) as u8).collect();
                verb(&[A::Str("NWCH"), A::Raw(&id), A::Raw(&(a as u16).to_le_bytes()), A::Raw(&data)])
            }
            _ => verb(&[A::Str("NWEN"), A::Raw(&id)]),
        };
        v.push(proto("ECU1", V_NW_IPC, "SIP", "TC", p).t("seg"));
    }
    v.push(proto("ECU1", V_LOG_INFO, "APP", "CTX", verb(&[A::Str("after the transfer")])));
    v.push(proto("ECU1", V_NW_IPC, "SIP", "TC", verb(&[A::Raw(&ip9), A::Raw(&someip_hdr(64098, 1000, &[5]))])));
    finish(v, BASE_US)
}

/// ids shaped like the anonymiser's own pseudonyms (E001, A001, C001, E999, the cut form E100 ...), ids another id will be
/// mapped to - arriving before or after it -, ids differing only in case / trailing zero bytes vs. spaces, non-printable ids.
/// One boot per ECU, so the lifecycle tables of the original and the anonymised stream are comparable.
fn idshape_stream(rng: &mut Rng, shapes_first: bool) -> Vec<DltMessage> {
    let ecus_shape: [&[u8; 4]; 6] = [b"E001", b"E002", b"E003", b"E999", b"E100", b"E01\0"];
    let ecus_plain: [&[u8; 4]; 8] = [b"ECU1", b"ecu1", b"ECU\0", b"ECU ", b"EC\0\0", b"EC  ", b"E\x01\x02C", b"\xff\xfe\0\0"];
    let apids: [&[u8; 4]; 9] = [b"A001", b"A002", b"A999", b"APP\0", b"app\0", b"APP ", b"AP\0\0", b"A\x07\0\0", b"C001"];
    let ctids: [&[u8; 4]; 7] = [b"C001", b"C002", b"CTX\0", b"ctx\0", b"CTX ", b"C\0\0\0", b"A001"];
    let mut ecu_order: Vec<&[u8; 4]> = Vec::new();
    if shapes_first {
        ecu_order.extend(ecus_shape.iter());
        ecu_order.extend(ecus_plain.iter());
    } else {
        ecu_order.extend(ecus_plain.iter());
        ecu_order.extend(ecus_shape.iter());
    }
    let mut v = Vec::new();
    let mut t = 0u32;
    let mut push = |ecu: &[u8; 4], apid: &[u8; 4], ctid: &[u8; 4], ei: usize, t: &mut u32| {
        let text = format!("shape {}", *t);
        let (noar, pl) = verb(&[A::Str(&text)]);
        v.push(DltMessage {
            index: *t,
            reception_time_us: BASE_US + *t as u64 * 20_000 + ei as u64,
            ecu: DltChar4::from_buf(ecu),
            timestamp_dms: 10_000 + *t * 200,
            standard_header: DltStandardHeader { htyp: 0x31, mcnt: (*t & 0xff) as u8, len: 0 },
            extended_header: Some(DltExtendedHeader { verb_mstp_mtin: V_LOG_INFO, noar, apid: DltChar4::from_buf(apid), ctid: DltChar4::from_buf(ctid) }),
            payload: pl,
            payload_text: None,
            lifecycle: 0,
        });
        *t += 1;
    };
    // first appearance of the ECUs in the chosen order, apids / ctids in listed or reversed order
    for (ei, e) in ecu_order.iter().enumerate() {
        for k in 0..3usize {
            let (ai, ci) = if shapes_first { (k, k) } else { (apids.len() - 1 - k, ctids.len() - 1 - k) };
            push(e, apids[ai], ctids[ci], ei, &mut t);
        }
    }
    // then random combinations (consistency: same id -> same pseudonym)
    for _ in 0..120 {
        let ei = rng.below(ecu_order.len() as u64) as usize;
        let a = *rng.pick(&apids);
        let c = *rng.pick(&ctids);
        push(ecu_order[ei], a, c, ei, &mut t);
    }
    v
}

fn file_stream(path: &str, n: usize) -> Vec<DltMessage> {
    let f = std::fs::File::open(path).expect("open example file");
    let ext = std::path::Path::new(path).extension().and_then(|s| s.to_str()).unwrap_or("").to_string();
    let rd = LowMarkBufReader::new(f, 512 * 1024, DLT_MAX_STORAGE_MSG_SIZE);
    get_dlt_message_iterator(&ext, 0, rd, get_new_namespace(), None, None, None).take(n).collect()
}

// ------------------------------------------------------------------------------------------------ projection
fn idstr(c: &DltChar4) -> String {
    let b = c.as_buf();
    if b.iter().all(|x| x.is_ascii_alphanumeric()) {
        String::from_utf8_lossy(b).into_owned()
    } else {
        format!("x{:02x}{:02x}{:02x}{:02x}", b[0], b[1], b[2], b[3])
    }
}

fn vec_of(m: &DltMessage) -> Value {
    let e = m.extended_header.as_ref();
    json!({
        "idx": if m.index < 0x7fff_ffff { m.index } else { hash31(&m.index.to_le_bytes()) },
        "rx": hash31(&m.reception_time_us.to_le_bytes()),
        "ts": hash31(&m.timestamp_dms.to_le_bytes()),
        "ecu": idstr(&m.ecu),
        "std": hash31(&[m.standard_header.htyp, m.standard_header.mcnt]),
        "ext": if e.is_some() { 1 } else { 0 },
        "vmm": e.map(|e| e.verb_mstp_mtin as i64).unwrap_or(-1),
        "noar": e.map(|e| e.noar as i64).unwrap_or(-1),
        "apid": e.map(|e| idstr(&e.apid)).unwrap_or_default(),
        "ctid": e.map(|e| idstr(&e.ctid)).unwrap_or_default(),
        "pay": hash31(&[&(m.payload.len() as u32).to_le_bytes()[..], &m.payload[..]].concat()),
        "text": m.payload_text.as_ref().map(|t| 1 + (hash31(t.as_bytes()) >> 1)).unwrap_or(0),
        "lc": m.lifecycle,
    })
}

fn in_event(pos: usize, m: &DltMessage, tag: &str) -> Value {
    // FLDA-shaped: verbose log info with 5 arguments framed by "FLDA" (whether the source matches the configured apid/ctid of
    // the file transfer plugin is decided by TLC from hdr.ft)
    let fshape = m.is_verbose() && m.verb_mstp_mtin().map(|v| v >> 1 == (4 << 3)).unwrap_or(false) && m.noar() == 5 && FileTransferPlugin::is_type(m, "FLDA");
    let a0 = m.into_iter().next().map(|a| a.payload_raw.len() as i64).unwrap_or(-1);
    json!({"ev":"in","pos":pos,"vec":vec_of(m),"fshape":fshape,"cr":m.is_ctrl_response(),"a0":a0,"tag":tag,"be":m.is_big_endian()})
}

// ------------------------------------------------------------------------------------------------ plugins
/// apid / ctid configuration of the file transfer plugin: none | match (SYS / FILE, the main source of the streams) |
/// other (APP / FIL2, another source of the streams)
struct FtCfg {
    apid: Option<&'static str>,
    ctid: Option<&'static str>,
    save: String, // no | mem (allowSave: the data is kept in memory) | auto (autoSavePath / autoSaveGlob below the work dir)
}
impl FtCfg {
    fn from_plan(e: &Value) -> FtCfg {
        let pick = |v: &Value, m: &'static str, o: &'static str| match v.as_str().unwrap_or("match") {
            "none" => None,
            "other" => Some(o),
            _ => Some(m),
        };
        FtCfg { apid: pick(&e["ft"]["apid"], "SYS", "APP"), ctid: pick(&e["ft"]["ctid"], "FILE", "FIL2"), save: e["ft"]["save"].as_str().unwrap_or("no").to_string() }
    }
    fn hdr(&self) -> Value {
        json!({"apid": self.apid.map(|a| idstr(&char4(a))).unwrap_or_default(), "ctid": self.ctid.map(|a| idstr(&char4(a))).unwrap_or_default(), "save": self.save})
    }
}
fn mk_plugins(chain: &[String], ft: &FtCfg, tests: &str, work: &str, case: u64) -> Result<Vec<Box<dyn Plugin + Send>>, String> {
    let mut v: Vec<Box<dyn Plugin + Send>> = Vec::new();
    let mut eac = EacStats::new();
    for k in chain {
        let cfg = match k.as_str() {
            "nonverbose" => json!({"name":"NonVerbose","fibexDir":tests}),
            "someip" => json!({"name":"SomeIp","fibexDir":tests}),
            "can" => json!({"name":"CAN","fibexDir":tests}),
            "muniic" => json!({"name":"Muniic","jsonDir":format!("{}/muniic", tests)}),
            "rewrite" => serde_json::from_str(&std::fs::read_to_string(format!("{}/rewrite.cfg", tests)).map_err(|e| e.to_string())?).map_err(|e| e.to_string())?,
            "ft_keep" | "ft_drop" => {
                let mut c = json!({"name":"FileTransfer","allowSave":ft.save == "mem","keepFLDA":k == "ft_keep"});
                if ft.save == "auto" {
                    c["autoSavePath"] = json!(format!("{}/ftsave-{}", work, case));
                    c["autoSaveGlob"] = json!("*.bin");
                }
                if let Some(a) = ft.apid {
                    c["apid"] = json!(a);
                }
                if let Some(ct) = ft.ctid {
                    c["ctid"] = json!(ct);
                }
                c
            }
            "export" => json!({"name":"Export","exportFileName":format!("{}/export-{}.dlt", work, case),"filters":[{"type":0,"apid":"SYS"},{"type":1,"ctid":"JOUR"}]}),
            "anon" => {
                v.push(Box::new(AnonymizePlugin::new("anon")));
                continue;
            }
            other => return Err(format!("unknown plugin kind {}", other)),
        };
        match get_plugin(cfg.as_object().unwrap(), &mut eac) {
            Some(p) => v.push(p),
            None => return Err(format!("factory::get_plugin returned None for {}", k)),
        }
    }
    Ok(v)
}

/// run the chain over real channels; returns (outputs, panic message of the chain thread)
fn run_chain(plugins: Vec<Box<dyn Plugin + Send>>, msgs: Vec<DltMessage>) -> (Vec<DltMessage>, Option<String>) {
    let (tx, rx) = sync_channel::<DltMessage>(4);
    let (tx2, rx2) = channel::<DltMessage>();
    let th = std::thread::spawn(move || {
        let r = plugins_process_msgs(rx, &|m| tx2.send(m), plugins);
        if let Ok(mut ps) = r {
            for p in ps.iter_mut() {
                p.sync_all();
            }
        }
    });
    for m in msgs {
        if tx.send(m).is_err() {
            break; // the chain thread is gone
        }
    }
    drop(tx);
    let pan = match th.join() {
        Ok(()) => None,
        Err(e) => Some(if let Some(s) = e.downcast_ref::<&str>() {
            s.to_string()
        } else if let Some(s) = e.downcast_ref::<String>() {
            s.clone()
        } else {
            "panic".into()
        }),
    };
    (rx2.iter().collect(), pan)
}

/// lifecycle table of a stream through the library detector: rows (ecu, start, end, nr of messages)
fn lc_table(msgs: Vec<DltMessage>) -> Result<Vec<Value>, String> {
    catch(std::panic::AssertUnwindSafe(move || {
        let (lcs_r, lcs_w) = evmap::new::<adlt::lifecycle::LifecycleId, adlt::lifecycle::LifecycleItem>();
        let (tx, rx) = channel::<DltMessage>();
        let (tx2, rx2) = channel::<DltMessage>();
        let th = std::thread::spawn(move || adlt::lifecycle::parse_lifecycles_buffered_from_stream(lcs_w, rx, &|m| tx2.send(m)));
        for m in msgs {
            let _ = tx.send(m);
        }
        drop(tx);
        let _w = th.join().map_err(|_| "lifecycle thread panicked".to_string());
        let _n = rx2.iter().count();
        let mut rows = Vec::new();
        if let Some(a) = lcs_r.read() {
            for lc in adlt::lifecycle::get_sorted_lifecycles_as_vec(&a) {
                rows.push(json!({"ecu": idstr(&lc.ecu), "s": hash31(&lc.start_time.to_le_bytes()), "e": hash31(&lc.end_time().to_le_bytes()), "n": lc.nr_msgs}));
            }
        }
        if _w.is_err() {
            panic!("lifecycle thread panicked");
        }
        rows
    }))
}

fn run_adlt(adlt: &str, args: &[String]) -> (i32, String, String) {
    let o = std::process::Command::new(adlt).arg("convert").args(args).env("TZ", "UTC").env_remove("RUST_LOG").env("RUST_BACKTRACE", "0").output().expect("run adlt");
    (o.status.code().unwrap_or(-1), String::from_utf8_lossy(&o.stdout).into_owned(), String::from_utf8_lossy(&o.stderr).into_owned())
}

fn main() {
    quiet_panics();
    let a = Args::from_env();
    let tests = a.str("--tests", "/repo/tests");
    let work = a.str("--work", ".");
    let adlt = a.str("--adlt", "");
    let seed = a.num("--seed", 1);
    let plan = read_ndjson(a.get("--plan").expect("--plan"));
    let mut t = Trace::create(&a.str("--out", "trace.ndjson"));
    let mut tool_errors: Vec<String> = Vec::new();
    let mut ncases = 0u64;
    let mut lc_skipped = 0u64;
    for e in &plan {
        let case = e["case"].as_u64().unwrap();
        let chain: Vec<String> = e["chain"].as_array().unwrap().iter().map(|v| v.as_str().unwrap().to_string()).collect();
        let stream = e["stream"].as_str().unwrap();
        let mut rng = Rng::new(seed.wrapping_mul(7919) ^ e["variant"].as_u64().unwrap_or(0));
        ncases += 1;
        if stream == "binanon" {
            // `adlt convert --anon -o` on a slice of an example file; in = original slice, out = re-read anonymised file
            let src = file_stream(e["file"].as_str().unwrap(), e["n"].as_u64().unwrap() as usize);
            let p_in = format!("{}/binanon-{}-in.dlt", work, case);
            let p_out = format!("{}/binanon-{}-out.dlt", work, case);
            {
                let mut w = std::io::BufWriter::new(std::fs::File::create(&p_in).unwrap());
                for m in &src {
                    m.to_write(&mut w).unwrap();
                }
                w.flush().unwrap();
            }
            let orig = file_stream(&p_in, usize::MAX);
            t.ev(json!({"ev":"reset","case":case,"hdr":{"chain":chain,"ft":{"apid":"","ctid":""},"stream":stream,"file":e["file"].as_str().unwrap_or(""),"n":orig.len()}}));
            for (i, m) in orig.iter().enumerate() {
                t.ev(in_event(i + 1, m, ""));
            }
            let (code, _so, se) = run_adlt(&adlt, &["--anon".into(), "-o".into(), p_out.clone(), p_in.clone()]);
            let outs = file_stream(&p_out, usize::MAX);
            for m in &outs {
                t.ev(json!({"ev":"out","vec":vec_of(m)}));
            }
            if code != 0 || se.contains("panicked at") {
                let tail: String = se.chars().rev().take(400).collect::<String>().chars().rev().collect();
                t.ev(json!({"ev":"panic","msg":tail,"code":code}));
            } else {
                match (lc_table(orig.clone()), lc_table(outs.clone())) {
                    (Ok(o), Ok(an)) => t.ev(json!({"ev":"lcs","orig":o,"anon":an,"via":"binary --anon -o, library detector"})),
                    (Err(_), _) => lc_skipped += 1,
                    (Ok(_), Err(msg)) => t.ev(json!({"ev":"panic","msg":format!("lifecycle detector panicked only on the anonymised stream: {}", msg)})),
                }
            }
            t.ev(json!({"ev":"end"}));
            let _ = std::fs::remove_file(&p_in);
            let _ = std::fs::remove_file(&p_out);
            continue;
        }
        let (msgs, tags) = match stream {
            "mixed" => mixed_stream(&mut rng),
            "kf" => kf_stream(&mut rng),
            "lc" => (lc_stream(&mut rng), vec![]),
            "ids" => (ids_stream(&mut rng), vec![]),
            "seg" => seg_stream(e["seq"].as_array().unwrap()),
            "idshapes" => (idshape_stream(&mut rng, e["shapes_first"].as_bool().unwrap_or(true)), vec![]),
            "pop" => (pop_stream(&mut rng, e["level"].as_str().unwrap(), e["size"].as_u64().unwrap() as usize), vec![]),
            "file" => (file_stream(e["file"].as_str().unwrap(), e["n"].as_u64().unwrap() as usize), vec![]),
            other => panic!("unknown stream {}", other),
        };
        let ft = if chain.iter().any(|k| k.starts_with("ft_")) { FtCfg::from_plan(e) } else { FtCfg { apid: None, ctid: None, save: "no".to_string() } };
        let plugins = match mk_plugins(&chain, &ft, &tests, &work, case) {
            Ok(p) => p,
            Err(err) => {
                tool_errors.push(format!("case {}: {}", case, err));
                continue;
            }
        };
        t.ev(json!({"ev":"reset","case":case,"hdr":{"chain":chain,"ft":ft.hdr(),"stream":stream,"file":e["file"].as_str().unwrap_or(""),"n":msgs.len(),
            "level":e["level"].as_str().unwrap_or(""),"size":e["size"].as_u64().unwrap_or(0)}}));
        for (i, m) in msgs.iter().enumerate() {
            t.ev(in_event(i + 1, m, tags.get(i).map(|s| s.as_str()).unwrap_or("")));
        }
        let (outs, pan) = run_chain(plugins, msgs.clone());
        for m in &outs {
            t.ev(json!({"ev":"out","vec":vec_of(m)}));
        }
        if let Some(p) = pan {
            t.ev(json!({"ev":"panic","msg":p}));
        } else if stream == "lc" || stream == "idshapes" {
            match (lc_table(msgs), lc_table(outs)) {
                (Ok(o), Ok(an)) => t.ev(json!({"ev":"lcs","orig":o,"anon":an,"via":"library"})),
                (Err(_), _) => lc_skipped += 1, // the detector panicked on the original stream: not C19's business
                (Ok(_), Err(msg)) => t.ev(json!({"ev":"panic","msg":format!("lifecycle detector panicked only on the anonymised stream: {}", msg)})),
            }
        }
        t.ev(json!({"ev":"end"}));
        let _ = std::fs::remove_file(format!("{}/export-{}.dlt", work, case));
        let _ = std::fs::remove_dir_all(format!("{}/ftsave-{}", work, case));
    }
    t.flush();
    println!("{}", json!({"cases": ncases, "lines": t.lines, "tool_errors": tool_errors, "lc_skipped": lc_skipped}));
}
