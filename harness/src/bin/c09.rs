//! C09 driver: runs the real SortingMultiReaderIterator / SequentialMultiIterator on source families and records
//! one `emit` event per yielded item. Families come from TLC (scenarios) or from the seeded random generator.
use adlt::dlt::DltMessage;
use adlt::utils::sorting_multi_readeriterator::{SequentialMultiIterator, SortingMultiReaderIterator};
use vh::*;

const RX_UNIT_US: u64 = 1000;

/// strictly monotone map from the abstract reception times of a case to real ones. "linear": 2022 + k ms. "extreme": the distinct
/// abstract values of the case are spread over the corners of the u64 range (0.., around 2^32, around 2^52, .. u64::MAX) - the
/// merge must only compare reception times, whatever their magnitude
fn time_map(srcs: &[Vec<u64>], extreme: bool) -> std::collections::BTreeMap<u64, u64> {
    let mut vals: Vec<u64> = srcs.iter().flatten().copied().collect();
    vals.sort();
    vals.dedup();
    let r_tot = vals.len() as u64;
    vals.iter()
        .enumerate()
        .map(|(r, v)| {
            let r = r as u64;
            let real = if !extreme {
                BASE_US + v * RX_UNIT_US
            } else if r < r_tot / 4 {
                r
            } else if r < r_tot / 2 {
                (1u64 << 32) - r_tot / 3 + r
            } else if r < 3 * r_tot / 4 {
                (1u64 << 52) - 5 * r_tot / 8 + r
            } else {
                u64::MAX - (r_tot - 1 - r)
            };
            (*v, real)
        })
        .collect()
}

fn build(srcs: &[Vec<u64>], number_from: Option<u32>, tm: &std::collections::BTreeMap<u64, u64>) -> Vec<Vec<DltMessage>> {
    srcs.iter()
        .enumerate()
        .map(|(s, v)| {
            v.iter()
                .enumerate()
                .map(|(p, rx)| {
                    let mut pl = Vec::new();
                    pl.extend_from_slice(&(s as u32 + 1).to_le_bytes());
                    pl.extend_from_slice(&(p as u32 + 1).to_le_bytes());
                    // the sources' OWN index values are arbitrary (gaps, repeats, decreasing - as from a filtered or re-numbered source):
                    // the numbering of the result may not depend on them
                    let own = match s % 3 { 0 => 0xdead_0000u32 + ((p as u32).wrapping_mul(2654435761) >> 22), 1 => 0, _ => 0xdead_0000u32 - 3 * p as u32 };
                    let idx = number_from.map(|n| n + p as u32).unwrap_or(own);
                    let mut m = mk_msg(idx, if s % 2 == 0 { "ECU1" } else { "ECU2" }, tm[rx], (p as u32) * 10, pl);
                    m.standard_header.mcnt = (s * 31 + p) as u8;
                    m
                })
                .collect()
        })
        .collect()
}

type BoxIt<'a> = Box<dyn Iterator<Item = DltMessage> + 'a>;

fn run_case(t: &mut Trace, case: u64, kind: &str, variant: &str, start: u32, srcs: &[Vec<u64>], extreme: bool) {
    t.ev(json!({"ev":"reset","case":case,"hdr":{"kind":kind,"variant":variant,"start":start,"srcs":srcs,"tmap":if extreme { "extreme" } else { "linear" }}}));
    let tm = time_map(srcs, extreme);
    let back: std::collections::BTreeMap<u64, u64> = tm.iter().map(|(a, r)| (*r, *a)).collect();
    // the *_or_single_it short-cut documents that the start index is ignored for one source: the driver then numbers
    // that source from `start` itself (narrower reading, DESIGN.md C09)
    // (chain_lazy / chain_filtered never take the short-cut: their size_hint is not (1, Some(1)))
    let single = variant.ends_with("single") && srcs.len() == 1;
    let msgs = build(srcs, if single { Some(start) } else { None }, &tm);
    let orig = msgs.clone();
    let res = catch(std::panic::AssertUnwindSafe(|| {
        let its: Vec<BoxIt> = msgs.into_iter().map(|v| Box::new(v.into_iter()) as BoxIt).collect();
        let it: BoxIt = match variant {
            "merge" => Box::new(SortingMultiReaderIterator::new(start, its)),
            "merge_single" => SortingMultiReaderIterator::new_or_single_it(start, its),
            // the composition convert.rs / remote.rs build: every merge source is itself a chain of member iterators (files of one
            // stream); members may be empty and say so by an exact size hint (Vec iterators, std::iter::empty)
            "merge_of_chains_empty_first" | "merge_of_chains_split" => {
                let split = variant.ends_with("split");
                let chains: Vec<BoxIt> = orig
                    .iter()
                    .enumerate()
                    .map(|(si, v)| {
                        let k = if split { ((v.len() + si) / 2).min(v.len()) } else { 0 };
                        let members: Vec<BoxIt> = vec![
                            Box::new(v[..k].to_vec().into_iter()) as BoxIt,
                            if si % 2 == 0 { Box::new(Vec::<DltMessage>::new().into_iter()) as BoxIt } else { Box::new(std::iter::empty()) as BoxIt },
                            Box::new(v[k..].to_vec().into_iter()) as BoxIt,
                        ];
                        if si % 3 == 2 {
                            Box::new(SequentialMultiIterator::new(0, members.into_iter())) as BoxIt
                        } else {
                            SequentialMultiIterator::new_or_single_it(0, members.into_iter())
                        }
                    })
                    .collect();
                Box::new(SortingMultiReaderIterator::new(start, chains))
            }
            "chain" => Box::new(SequentialMultiIterator::new(start, its.into_iter())),
            "chain_single" => SequentialMultiIterator::new_or_single_it(start, its.into_iter()),
            // the sources arrive from an iterator that does not know how many there are (size_hint (0, None)) ...
            "chain_lazy" => {
                let mut v = its.into_iter();
                SequentialMultiIterator::new_or_single_it(start, std::iter::from_fn(move || v.next()))
            }
            // ... or only knows an upper bound (filter: size_hint (0, Some(n)))
            "chain_filtered" => SequentialMultiIterator::new_or_single_it(start, its.into_iter().filter(|_| true)),
            _ => unreachable!(),
        };
        let mut evs = Vec::new();
        let limit = orig.iter().map(|v| v.len()).sum::<usize>() + 3;
        for m in it.take(limit) {
            let s = u32::from_le_bytes(m.payload[0..4].try_into().unwrap());
            let p = u32::from_le_bytes(m.payload[4..8].try_into().unwrap());
            let o = orig.get(s as usize - 1).and_then(|v| v.get(p as usize - 1));
            let intact = o.map(|o| {
                let mut o2 = o.clone();
                o2.index = m.index;
                o2 == m
            }).unwrap_or(false);
            evs.push(json!({"ev":"emit","src":s,"pos":p,"rx":back.get(&m.reception_time_us).map(|v| *v as i64).unwrap_or(-1),"index":m.index,"intact":intact}));
        }
        evs
    }));
    match res {
        Ok(evs) => {
            for e in evs {
                t.ev(e);
            }
            t.ev(json!({"ev":"end"}));
        }
        Err(msg) => t.ev(json!({"ev":"panic","msg":msg})),
    }
}

fn variants(kind: &str) -> Vec<&'static str> {
    if kind == "merge" { vec!["merge", "merge_single", "merge_of_chains_empty_first", "merge_of_chains_split"] } else { vec!["chain", "chain_single", "chain_lazy", "chain_filtered"] }
}

fn main() {
    quiet_panics();
    let a = Args::from_env();
    let mut t = Trace::create(&a.str("--out", "trace.ndjson"));
    let mut case = a.num("--first-case", 0);
    if let Some(f) = a.get("--scenarios") {
        for scn in read_ndjson(f) {
            let srcs: Vec<Vec<u64>> = serde_json::from_value(scn["srcs"].clone()).unwrap();
            let start = scn["start"].as_u64().unwrap() as u32;
            for kind in ["merge", "chain"] {
                for v in variants(kind) {
                    run_case(&mut t, case, kind, v, start, &srcs, case % 4 == 3);
                    case += 1;
                }
            }
        }
    }
    let n_random = a.num("--random", 0);
    let mut rng = Rng::new(a.num("--seed", 1));
    let max_k = a.num("--max-src", 8);
    let max_n = a.num("--max-len", 60);
    for _ in 0..n_random {
        let k = rng.range(0, max_k);
        let style = rng.below(4); // 0 sorted, 1 many ties, 2 unordered, 3 mixed
        let mut srcs = Vec::new();
        let mut empties_in_row = 0;
        for _ in 0..k {
            let mut n = if rng.chance(1, 3) { 0 } else { rng.range(1, max_n) };
            if n == 0 { empties_in_row += 1; } else { empties_in_row = 0; }
            if empties_in_row > 50 { n = 1; }
            let mut v: Vec<u64> = (0..n).map(|_| match style { 1 => rng.below(3), _ => rng.below(1_000_000) }).collect();
            if style == 0 || (style == 3 && rng.chance(1, 2)) || style == 1 && rng.chance(1, 2) {
                v.sort();
            }
            srcs.push(v);
        }
        let start = if rng.chance(1, 2) { 0 } else { rng.below(1_000_000) as u32 };
        let kind = if rng.chance(1, 2) { "merge" } else { "chain" };
        let vs = variants(kind);
        let v = vs[rng.below(vs.len() as u64) as usize];
        run_case(&mut t, case, kind, v, start, &srcs, rng.chance(1, 4));
        case += 1;
    }
    t.flush();
    println!("{}", json!({"cases": case, "lines": t.lines}));
}
