//! C01 driver: generated streams of well-formed DLT messages of one framing between marker-free garbage runs (shapes from
//! TLC's Framing.tla scenarios, seeded random streams, repository .dlt files) -> the real DltMessageIterator -> ndjson trace
//! with the ground truth in the header. Nothing is decided here; FramingTrace.tla (TLC) is the contract.
#[path = "c01/gen.rs"]
mod gen;
use adlt::dlt::DLT_MAX_STORAGE_MSG_SIZE;
use adlt::utils::{DltMessageIterator, LowMarkBufReader};
use gen::*;
use std::io::BufRead;
use vh::*;

fn iterate<R: BufRead>(rd: R, start: u32, limit: usize, with_log: bool) -> Vec<Value> {
    // with_log: a (discarding) slog logger is attached - the iterator then keeps extra state (log_skipped) and runs its debug! branches;
    // the recognised messages and counters must be the same
    let logger = slog::Logger::root(slog::Discard, slog::o!());
    let r = catch(std::panic::AssertUnwindSafe(|| {
        let mut it = DltMessageIterator::new(start, rd);
        if with_log {
            it.log = Some(&logger);
        }
        let mut out = vec![];
        loop {
            match it.next() {
                Some(m) => {
                    out.push(json!({"ev":"yield","index":m.index,"rec":obs_rec(&m),"processed":it.bytes_processed,"skipped":it.bytes_skipped}));
                    if out.len() > limit {
                        break;
                    }
                }
                None => {
                    out.push(json!({"ev":"end","index":it.index,"processed":it.bytes_processed,"skipped":it.bytes_skipped,
                        "storage":it.detected_storage_header,"serial":it.detected_serial_header}));
                    break;
                }
            }
        }
        out
    }));
    match r {
        Ok(o) => o,
        Err(msg) => vec![json!({"ev":"panic","msg":msg})],
    }
}

struct Stats {
    cases: u64,
    shapes: [u64; 64], // htyp shape (5 bits) x framing
    garb_before: u64,
    garb_between: u64,
    garb_after: u64,
    trailing_short: u64,
    max_payload: u64,
    empty_payload: u64,
    msgs: u64,
    serial_cases: u64,
    storage_cases: u64,
    // scale classes: garbage runs longer than the maximal message (> 65551 bytes), by position and framing
    long_leading: [u64; 2],
    long_between: [u64; 2],
    long_before_last: [u64; 2],
    long_trailing: [u64; 2],
    long_by_reader: [u64; 4],
    long_partial_marker: u64,
    tail_grid: u64,
    with_logger: u64,
    refill_boundary: u64,
}

/// a source that returns at most k bytes per read call
struct ShortReads<R> {
    inner: R,
    k: usize,
}
impl<R: std::io::Read> std::io::Read for ShortReads<R> {
    fn read(&mut self, buf: &mut [u8]) -> std::io::Result<usize> {
        let n = buf.len().min(self.k);
        self.inner.read(&mut buf[..n])
    }
}

fn run_case(t: &mut Trace, st: &mut Stats, case: u64, stream: &Stream, start: u32, reader: u64, origin: &str) {
    let lay = stream.layout();
    let msgs: Vec<Value> = lay.msgs.iter().map(|(o, l, seg)| json!({"off":o,"len":l,"rec":stream.msg(*seg).rec()})).collect();
    for (_, _, seg) in &lay.msgs {
        let m = stream.msg(*seg);
        st.shapes[(m.htyp & 0x1f) as usize + if m.serial { 32 } else { 0 }] += 1;
        if m.payload.is_empty() {
            st.empty_payload += 1;
        }
        if m.payload.len() == max_payload(m.htyp & 0x1f) {
            st.max_payload += 1;
        }
    }
    st.msgs += lay.msgs.len() as u64;
    let n = lay.garb.len();
    if lay.garb[0] > 0 && n > 1 {
        st.garb_before += 1;
    }
    if n > 2 && lay.garb[1..n - 1].iter().any(|g| *g > 0) {
        st.garb_between += 1;
    }
    if lay.garb[n - 1] > 0 {
        st.garb_after += 1;
        if lay.garb[n - 1] < 20 {
            st.trailing_short += 1;
        }
    }
    if stream.serial { st.serial_cases += 1 } else { st.storage_cases += 1 }
    st.cases += 1;
    {
        let f = stream.serial as usize;
        let long = |g: usize| g >= DLT_MAX_STORAGE_MSG_SIZE;
        let mut any = false;
        if n > 1 && long(lay.garb[0]) {
            st.long_leading[f] += 1;
            any = true;
        }
        if n > 3 && lay.garb[1..n - 2].iter().any(|g| long(*g)) {
            st.long_between[f] += 1;
            any = true;
        }
        if n > 2 && long(lay.garb[n - 2]) {
            st.long_before_last[f] += 1;
            any = true;
        }
        if long(lay.garb[n - 1]) {
            st.long_trailing[f] += 1;
            any = true;
        }
        if any {
            st.long_by_reader[reader as usize % 4] += 1;
        }
    }
    let with_log = reader % 8 >= 4;
    if with_log {
        st.with_logger += 1;
    }
    // every third case of the buffered front-ends reads from a source that hands out at most k bytes per call (pipe, socket, archive
    // member): the messages found must not depend on it
    let short_k: usize = if reader % 4 >= 2 && case % 3 == 0 { [6000usize, 1, 4097, 65536][(case / 3 % 4) as usize] } else { 0 };
    let rname = format!("{}{}{}", ["slice", "cursor", "lowmark-512k", "lowmark-min"][reader as usize % 4], if with_log { "+log" } else { "" },
        if short_k > 0 { format!("+reads<={}", short_k) } else { String::new() });
    t.ev(json!({"ev":"reset","case":case,"hdr":{"framing": if stream.serial {"serial"} else {"storage"},"start":start,"total":lay.bytes.len(),
        "msgs":msgs,"garb":lay.garb,"origin":origin,"reader":rname,"spurious_markers":spurious_markers(stream)}}));
    let limit = lay.msgs.len() + 5;
    let evs = match reader % 4 {
        0 => iterate(&lay.bytes[..], start, limit, with_log),
        1 => iterate(std::io::Cursor::new(lay.bytes.clone()), start, limit, with_log),
        2 if short_k > 0 => iterate(LowMarkBufReader::new(ShortReads { inner: std::io::Cursor::new(lay.bytes.clone()), k: short_k }, 512 * 1024, DLT_MAX_STORAGE_MSG_SIZE), start, limit, with_log),
        3 if short_k > 0 => iterate(LowMarkBufReader::new(ShortReads { inner: std::io::Cursor::new(lay.bytes.clone()), k: short_k }, DLT_MAX_STORAGE_MSG_SIZE + 4096, DLT_MAX_STORAGE_MSG_SIZE), start, limit, with_log),
        2 => iterate(LowMarkBufReader::new(std::io::Cursor::new(lay.bytes.clone()), 512 * 1024, DLT_MAX_STORAGE_MSG_SIZE), start, limit, with_log),
        _ => iterate(LowMarkBufReader::new(std::io::Cursor::new(lay.bytes.clone()), DLT_MAX_STORAGE_MSG_SIZE + 4096, DLT_MAX_STORAGE_MSG_SIZE), start, limit, with_log),
    };
    for e in evs {
        t.ev(e);
    }
}

fn payload_for_class(rng: &mut Rng, class: u64, max_class: u64, flags: u8) -> Vec<u8> {
    let n = if class == 0 { 0 } else if class == 1 { 1 } else if class == max_class && max_class >= 3 { max_payload(flags) } else { rng.range(2, 300) as usize };
    rng.bytes(n)
}

fn garbage_for_class(rng: &mut Rng, class: u64) -> Vec<u8> {
    let n = match class { 1 => rng.range(1, 7), 2 => rng.range(8, 19), 3 => rng.range(20, 300), _ => rng.range(300, 5000) } as usize;
    rand_garbage(rng, n)
}

fn small_msg(rng: &mut Rng, serial: bool) -> Seg {
    let flags = rng.below(32) as u8;
    let plen = match rng.below(4) { 0 => 0, 1 => 1, _ => rng.range(2, 60) as usize };
    let p = rng.bytes(plen);
    Seg::M(rand_msg(rng, serial, flags, p))
}

/// scale-class stream: 4 small messages of one framing with ONE garbage run of `len` bytes (longer than any message) at
/// position pos: 0 leading, 1 between (after the first message), 2 in front of the last message, 3 trailing; short garbage
/// runs may sit in the other gaps
fn scale_stream(rng: &mut Rng, serial: bool, pos: u64, len: usize, style: u64) -> Stream {
    let mut st = Stream { serial, segs: vec![] };
    let nm = 4;
    for gap in 0..=nm {
        let long_here = match pos { 0 => gap == 0, 1 => gap == 1, 2 => gap == nm - 1, _ => gap == nm };
        if long_here {
            st.segs.push(Seg::G(long_garbage(rng, len, style)));
        } else if rng.chance(1, 3) {
            let c = rng.range(1, 3);
            st.segs.push(Seg::G(garbage_for_class(rng, c)));
        }
        if gap < nm {
            st.segs.push(small_msg(rng, serial));
        }
    }
    sanitize(&mut st, rng);
    st
}

fn random_stream(rng: &mut Rng, max_msgs: u64) -> Stream {
    let serial = rng.chance(1, 2);
    let mut st = Stream { serial, segs: vec![] };
    let nm = match rng.below(6) { 0 => 0, 1 => 1, 2 => 2, _ => rng.range(1, max_msgs) };
    let gp = *rng.pick(&[0u64, 1, 2, 5]); // x/6 chance of garbage at a gap
    let gap = |st: &mut Stream, rng: &mut Rng| {
        if rng.below(6) < gp {
            if rng.chance(1, 50) {
                // a run longer than any message, at or near the byte counts where size-dependent state could flip
                let n = match rng.below(3) { 0 => *rng.pick(&SCALE_LENGTHS), 1 => *rng.pick(&SCALE_BOUNDARIES) + rng.below(40) as usize, _ => rng.range(65552, 200000) as usize };
                let style = rng.below(4);
                st.segs.push(Seg::G(long_garbage(rng, n, style)));
            } else {
                let c = rng.range(1, 4);
                st.segs.push(Seg::G(garbage_for_class(rng, c)));
            }
        }
    };
    for _ in 0..nm {
        gap(&mut st, rng);
        let flags = rng.below(32) as u8;
        let plen = match rng.below(40) {
            0 => max_payload(flags),
            1..=5 => 0,
            6..=9 => 1,
            10..=12 => rng.range(1000, 20000) as usize,
            _ => rng.range(2, 300) as usize,
        };
        let p = rng.bytes(plen);
        st.segs.push(Seg::M(rand_msg(rng, serial, flags, p)));
    }
    gap(&mut st, rng);
    sanitize(&mut st, rng);
    st
}

fn main() {
    quiet_panics();
    let a = Args::from_env();
    let mut t = Trace::create(&a.str("--out", "trace.ndjson"));
    let mut st = Stats { cases: 0, shapes: [0; 64], garb_before: 0, garb_between: 0, garb_after: 0, trailing_short: 0, max_payload: 0, empty_payload: 0, msgs: 0,
        serial_cases: 0, storage_cases: 0, long_leading: [0; 2], long_between: [0; 2], long_before_last: [0; 2], long_trailing: [0; 2], long_by_reader: [0; 4],
        long_partial_marker: 0, tail_grid: 0, with_logger: 0, refill_boundary: 0 };
    let seed = a.num("--seed", 1);
    let mut rng = Rng::new(seed ^ 0xC01);
    let mut case = a.num("--first-case", 0);
    let variants = a.num("--variants", 2);
    let mut n_scn = 0u64;
    let mut predicted_kf = 0u64;
    if let Some(f) = a.get("--scenarios") {
        for (si, scn) in read_ndjson(f).iter().enumerate() {
            n_scn += 1;
            if scn["kf"].as_bool() == Some(true) {
                predicted_kf += 1;
            }
            let serial = scn["framing"] == "serial";
            let start = scn["start"].as_u64().unwrap() as u32;
            let max_class = a.num("--max-l", 2);
            for v in 0..variants {
                let mut s = Stream { serial, segs: vec![] };
                // the token model has no garbage class longer than a message: a fraction of the shapes gets its first garbage run
                // concretised into a scale class (> 65551 bytes)
                let mut stretch = v == 1 && si % 29 == 0;
                for (j, sg) in scn["segs"].as_array().unwrap().iter().enumerate() {
                    let n = sg["n"].as_u64().unwrap();
                    if sg["k"] == "g" && stretch {
                        stretch = false;
                        let len = SCALE_LENGTHS[(si / 29) % SCALE_LENGTHS.len()];
                        s.segs.push(Seg::G(long_garbage(&mut rng, len, si as u64 / 29)));
                    } else if sg["k"] == "g" {
                        s.segs.push(Seg::G(garbage_for_class(&mut rng, n)));
                    } else {
                        // every combination of WEID/WSID/WTMS/UEH x MSBF, round robin over scenarios, positions and variants
                        let flags = ((si as u64 * 7 + j as u64 * 11 + v * 13 + case) % 32) as u8;
                        let p = payload_for_class(&mut rng, if n == max_class && v == 0 && si % 9 == 0 { 99 } else { n }, 99, flags);
                        s.segs.push(Seg::M(rand_msg(&mut rng, serial, flags, p)));
                    }
                }
                sanitize(&mut s, &mut rng);
                run_case(&mut t, &mut st, case, &s, start, case + v + 4 * ((si as u64 / 2) % 2), "tlc");
                case += 1;
            }
        }
    }
    // scale classes (deterministic grid): framing x position of the long run x length x garbage style x front-end
    let scale = a.num("--scale", 0);
    if scale > 0 {
        let positions: &[u64] = &[0, 1, 2, 3];
        for serial in [false, true] {
            for &pos in positions {
                for (li, &len) in SCALE_LENGTHS.iter().enumerate() {
                    if pos == 3 && len != 65552 && scale < 2 {
                        continue; // trailing runs: one length in the quick tier
                    }
                    for style in 0..(if scale >= 2 { 4 } else { 2 }) {
                        // quick: random bytes and partial markers at the boundaries; thorough: also the two cyclic patterns
                        for reader in 0..4u64 {
                            let s = scale_stream(&mut rng, serial, pos, len, style);
                            if style % 4 != 0 {
                                st.long_partial_marker += 1;
                            }
                            let start = if (li + reader as usize) % 2 == 0 { 0 } else { rng.below(1 << 30) as u32 };
                            run_case(&mut t, &mut st, case, &s, start, reader + 4 * ((li as u64 + style) % 2), "scale");
                            case += 1;
                        }
                    }
                }
            }
        }
    }
    // refill-boundary class: a maximal storage message (65551 bytes) that starts 65535..65553 bytes in front of the first 512 KiB refill
    // boundary of the reader front-end (the low mark the callers use must still make the whole message visible), behind 7 large messages
    if a.num("--scale", 0) > 0 {
        for d in 0..=18usize {
            let serial = false;
            let mut s = Stream { serial, segs: vec![] };
            let flags = F_WEID | F_WTMS;
            let target = 512 * 1024 - 65553 + d; // start offset of the maximal message
            let big = max_payload(flags) + 16 + 12; // total size of a maximal message with these flags
            let mut left = target;
            while left > 0 {
                let size = if left >= big + 100 { big } else if left > big { left - 100 } else { left };
                let pl = rng.bytes(size - 28);
                s.segs.push(Seg::M(rand_msg(&mut rng, serial, flags, pl)));
                left -= size;
            }
            let pl = rng.bytes(max_payload(flags));
            s.segs.push(Seg::M(rand_msg(&mut rng, serial, flags, pl)));
            for _ in 0..3 {
                s.segs.push(small_msg(&mut rng, serial));
            }
            sanitize(&mut s, &mut rng);
            st.refill_boundary += 1;
            run_case(&mut t, &mut st, case, &s, 100, 2 + 4 * (d as u64 % 2), "refill-boundary");
            case += 1;
        }
    }
    // trailing garbage runs around the minimal message sizes (8 serial, 20 storage; +-1, 2x-1, 2x, 2x+1) behind 0, 1, 2, 5 messages
    if a.num("--tails", 0) > 0 {
        for serial in [false, true] {
            for k in [0usize, 1, 2, 5] {
                for tlen in [7usize, 8, 9, 15, 16, 17, 19, 20, 21, 35, 36, 39, 40, 41] {
                    for style in 0..2u64 {
                        for reader in 0..4u64 {
                            let mut s = Stream { serial, segs: vec![] };
                            for _ in 0..k {
                                s.segs.push(small_msg(&mut rng, serial));
                            }
                            s.segs.push(Seg::G(if style == 0 { rng.bytes(tlen) } else { rand_garbage(&mut rng, tlen) }));
                            sanitize(&mut s, &mut rng);
                            st.tail_grid += 1;
                            let start = if (tlen + reader as usize) % 2 == 0 { 0 } else { rng.below(1 << 30) as u32 };
                            run_case(&mut t, &mut st, case, &s, start, reader + 4 * ((tlen as u64 + style) % 2), "tail-grid");
                            case += 1;
                        }
                    }
                }
            }
        }
    }
    for _ in 0..a.num("--random", 0) {
        let s = random_stream(&mut rng, a.num("--max-msgs", 60));
        let start = if rng.chance(1, 2) { 0 } else { rng.below(1 << 30) as u32 };
        run_case(&mut t, &mut st, case, &s, start, rng.below(8), "random");
        case += 1;
    }
    // repository example files: plain concatenations of storage-framed messages (checked by an independent walk)
    let mut files = vec![];
    if let Some(dir) = a.get("--files") {
        let max_msgs = a.num("--file-msgs", 300) as usize;
        let mut names: Vec<_> = std::fs::read_dir(dir).map(|d| d.filter_map(|e| e.ok()).map(|e| e.path()).filter(|p| p.extension().map(|x| x == "dlt").unwrap_or(false)).collect()).unwrap_or_default();
        names.sort();
        for p in names {
            let b = std::fs::read(&p).unwrap();
            let name = p.file_name().unwrap().to_string_lossy().to_string();
            match walk_storage(&b, max_msgs) {
                Some(w) if !w.is_empty() => {
                    let end = w.last().map(|(o, l)| o + l).unwrap();
                    let specs: Vec<MsgSpec> = w.iter().filter_map(|(o, l)| spec_from_storage_bytes(&b[*o..*o + *l])).collect();
                    if specs.len() != w.len() || specs.iter().any(|m| m.micros >= 1_000_000) {
                        files.push(json!({"file":name,"used":false,"why":"header fields outside the compared domain"}));
                        continue;
                    }
                    let s = Stream { serial: false, segs: specs.into_iter().map(Seg::M).collect() };
                    if s.layout().bytes != b[..end] {
                        files.push(json!({"file":name,"used":false,"why":"re-serialisation differs"}));
                        continue;
                    }
                    files.push(json!({"file":name,"used":true,"msgs":w.len(),"bytes":end,"whole_file":end == b.len()}));
                    run_case(&mut t, &mut st, case, &s, 0, 2, &format!("file:{}", name));
                    case += 1;
                }
                _ => files.push(json!({"file":name,"used":false,"why":"not a plain concatenation of storage-framed messages"})),
            }
        }
    }
    t.flush();
    let shapes_storage = st.shapes[..32].iter().filter(|x| **x > 0).count();
    let shapes_serial = st.shapes[32..].iter().filter(|x| **x > 0).count();
    println!("{}", json!({"cases": case, "lines": t.lines, "scenarios": n_scn, "model_predicted_kf": predicted_kf, "msgs": st.msgs,
        "shapes_storage": shapes_storage, "shapes_serial": shapes_serial, "garbage_before": st.garb_before, "garbage_between": st.garb_between,
        "garbage_after": st.garb_after, "trailing_short_run": st.trailing_short, "max_payload_msgs": st.max_payload, "empty_payload_msgs": st.empty_payload,
        "serial_cases": st.serial_cases, "storage_cases": st.storage_cases, "files": files, "tail_grid_cases": st.tail_grid, "cases_with_logger": st.with_logger, "refill_boundary_cases": st.refill_boundary,
        "long_garbage": {"leading_storage": st.long_leading[0], "leading_serial": st.long_leading[1], "between_storage": st.long_between[0],
            "between_serial": st.long_between[1], "before_last_storage": st.long_before_last[0], "before_last_serial": st.long_before_last[1],
            "trailing_storage": st.long_trailing[0], "trailing_serial": st.long_trailing[1], "via_slice": st.long_by_reader[0], "via_cursor": st.long_by_reader[1],
            "via_lowmark_512k": st.long_by_reader[2], "via_lowmark_min": st.long_by_reader[3], "with_partial_markers": st.long_partial_marker}}));
}
